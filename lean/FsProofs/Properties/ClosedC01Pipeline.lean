import FsProofs.Properties.ClosedMore
import FsProofs.Properties.C01Multi
import FsProofs.Properties.C02MstRouter
import FsProofs.Properties.C02MstExample

/-! # C01 for the operator sequence `single_flow_router → mst_sink_resolver → multi_flow_router`

The multiple-direction router is run on the elevation RETURNED by the spanning-tree sink resolver
(`carve` re-routing):

    G  := singleRouter S e par f
    o  := resolve S e G f false true perm maxLow          -- carve
    z' := look o.elev 0
    M  := multiRouter S p e z'

`C01_mst_multiRouter` (abstract scalar) / `grid_C01_mst_multi` (exact scalar, any grid with
`EnvOk lo e`) state C01 for `M` in the formulation of `Fs.C01.C01_pflood_multiRouter`, with
"connected to an unmasked base level" expressed by `NConn` as in `grid_C01_mst` (`ConnBase`).

Why it holds.  For `carve` every link of the resolved receiver table `recv'` joins two grid
neighbours (`Fs.C02Mst.carve_link`) and is strictly descending in `z'` (clause (c) of
`resolve_c01_singleRouter`).  An unmasked node connected to an unmasked base level drains to a
base level along `recv'` (connectivity clause), so, unless it is a base level, `recv' y ≠ y` is a
strictly lower unmasked NEIGHBOUR of `y` in `z'`: a candidate of the multi router
(`Fs.C01.multi_has_lower`).  Every receiver of the multi router is an unmasked neighbour, hence
again connected to the base level.  The rest is the general machinery of `C01Multi.lean`
(`multi_step_wf`, `path_rank`, `exists_maximal`, `first_path`), which holds for ANY elevation.

For `basic` re-routing the statement is FALSE (`basic_multi_pit`): the pit is linked directly to
the pass node, in general not a neighbour, and the multi router run on the returned elevation
leaves the pit a pit. -/
namespace Fs.Closed
open Fs Fs.Flow Fs.Grid Fs.Mesh Fs.MeshGrid Fs.Mst Fs.Dfs Fs.C06 Fs.C15Connect Fs.C01Mst

/-! ## abstract scalar -/

section abstract
variable {α : Type}

/-- `y` is connected, through unmasked neighbours, to an unmasked base-level node (the hypothesis
of the connectivity clause of `grid_C01_mst`) -/
def ConnBase (e : Env α) (y : Nat) : Prop :=
  ∃ b, b < e.topo.n ∧ e.mask b = false ∧ e.isBase b = true ∧ NConn e.topo e.mask y b

theorem nconn_trans {t : Topo α} {mask : Nat → Bool} {x y z : Nat}
    (h1 : NConn t mask x y) (h2 : NConn t mask y z) : NConn t mask x z := by
  induction h2 with
  | refl => exact h1
  | step d _ hn hm ih => exact .step d ih hn hm

/-- one step backwards: a node with an unmasked neighbour entry `y` is connected to everything `y`
is connected to -/
theorem nconn_cons {t : Topo α} {mask : Nat → Bool} {r y z : Nat} (d : α)
    (hn : (y, d) ∈ t.nbrs r) (hm : mask y = false) (h : NConn t mask y z) : NConn t mask r z :=
  nconn_trans (.step d (.refl r) hn hm) h

/-- the end of a connection from an unmasked node is unmasked and a node -/
theorem nconn_end {t : Topo α} {mask : Nat → Bool}
    (hnb : ∀ i, i < t.n → ∀ p, p ∈ t.nbrs i → p.1 < t.n) {x y : Nat}
    (h : NConn t mask x y) (hx : x < t.n) (hm : mask x = false) : y < t.n ∧ mask y = false := by
  induction h with
  | refl => exact ⟨hx, hm⟩
  | step d _ hn hmz ih => exact ⟨hnb _ ih.1 _ hn, hmz⟩

/-- `NConn` between unmasked nodes is symmetric when the neighbour relation is -/
theorem nconn_symm {t : Topo α} {mask : Nat → Bool}
    (hnb : ∀ i, i < t.n → ∀ p, p ∈ t.nbrs i → p.1 < t.n)
    (hsym : ∀ u v d, u < t.n → (v, d) ∈ t.nbrs u → ∃ d', (u, d') ∈ t.nbrs v) {x y : Nat}
    (h : NConn t mask x y) (hx : x < t.n) (hm : mask x = false) : NConn t mask y x := by
  induction h with
  | refl => exact .refl _
  | step d hxy hn _ ih =>
    obtain ⟨hy, hmy⟩ := nconn_end hnb hxy hx hm
    obtain ⟨d', hd'⟩ := hsym _ _ d hy hn
    exact nconn_cons d' hd' hmy ih

/-- the symmetry of the neighbour relation in the form of `C01Multi.lean` from the form of
`C01MstRouter.lean` (the converse of `hsym'_of_hsym`) -/
theorem hsym_of_hsym' {t : Topo α}
    (h : ∀ u v d, u < t.n → (v, d) ∈ t.nbrs u → ∃ d', (u, d') ∈ t.nbrs v) :
    ∀ a b, a < t.n → b ∈ nbIdx t a → a ∈ nbIdx t b := by
  intro a b ha hb
  obtain ⟨q, hq, hqb⟩ := List.mem_map.mp hb
  have hq' : (b, q.2) ∈ t.nbrs a := by
    have : q = (b, q.2) := Prod.ext hqb rfl
    rw [← this]; exact hq
  obtain ⟨d', hd'⟩ := h a b q.2 ha hq'
  exact List.mem_map.mpr ⟨(a, d'), hd', rfl⟩

/-- `Fs.Reach` from the seeds (the formulation of `C01_pflood_multiRouter`) implies `ConnBase` when
the seeds are base-level nodes of the grid and the neighbour relation is symmetric -/
theorem connBase_of_reach (e : Env α)
    (hnb : ∀ i, i < e.topo.n → ∀ p, p ∈ e.topo.nbrs i → p.1 < e.topo.n)
    (hsym : ∀ u v d, u < e.topo.n → (v, d) ∈ e.topo.nbrs u → ∃ d', (u, d') ∈ e.topo.nbrs v)
    (hseeds : ∀ b, b ∈ e.seeds → b < e.topo.n) (hbase : ∀ b, b ∈ e.seeds → e.isBase b = true)
    {y : Nat} (h : Fs.Reach (nbIdx e.topo) (Fs.C02.seedP e) e.mask y) : ConnBase e y := by
  have key : ∃ b, b < e.topo.n ∧ e.mask b = false ∧ e.isBase b = true ∧
      NConn e.topo e.mask b y := by
    induction h with
    | seed s hs =>
      obtain ⟨h1, h2⟩ := (Fs.C02.seedP_iff e s).mp hs
      exact ⟨s, hseeds s h1, h2, hbase s h1, .refl s⟩
    | step c m _ hn hm ih =>
      obtain ⟨b, h1, h2, h3, h4⟩ := ih
      obtain ⟨q, hq, hqm⟩ := List.mem_map.mp hn
      have hq' : (m, q.2) ∈ e.topo.nbrs c := by
        have : q = (m, q.2) := Prod.ext hqm rfl
        rw [← this]; exact hq
      exact ⟨b, h1, h2, h3, .step q.2 h4 hq' hm⟩
  obtain ⟨b, h1, h2, h3, h4⟩ := key
  exact ⟨b, h1, h2, h3, nconn_symm hnb hsym h4 h1 h2⟩

/-- **every link of the carve-resolved receiver table is a neighbour pair**, for the graph of the
single router: `Fs.C02Mst.carve_link` with its hypotheses discharged as in
`Fs.C02Mst.resolve_c02_singleRouter` -/
theorem carve_link_singleRouter (S : Scalar α) (e : Env α) (par : Bool) (f : Nat → α)
    (perm : List Nat) (maxLow : Nat) (L : Fs.Router.Laws (routerOps S))
    (hnb : ∀ i, i < e.topo.n → ∀ p, p ∈ e.topo.nbrs i → p.1 < e.topo.n)
    (hlow : Fs.C04.HLow S e f)
    (hwork : work e.topo (singleRouter S e par f).dfs < Mst.none)
    (hvp : validPerm S (cbOf S e (singleRouter S e par f) f).edges perm = true)
    (hfin : ∀ i, i < e.topo.n → S.lt S.lowest (f i) = true) :
    let n := e.topo.n
    let o := resolve S e (singleRouter S e par f) f false true perm maxLow
    let recv' := recv0 o.g
    ∀ y, y < n → e.mask y = false → recv' y ≠ y →
      e.mask (recv' y) = false ∧
      ((∃ d, (recv' y, d) ∈ e.topo.nbrs y) ∨ (∃ d, (y, d) ∈ e.topo.nbrs (recv' y))) := by
  intro n o recv'
  have hg := singleRouter_graph S e par f L hnb hlow
  have hr0 := recv0_single S e par f
  have hdfs : (singleRouter S e par f).dfs = dfsBottomUp n (singleRouter S e par f) :=
    dfs_single S e par f
  have hlaws : LtLaws S := ⟨L.irrefl, L.trans⟩
  have hnt : ∀ a b c, S.lt b a = false → S.lt c b = false → S.lt c a = false :=
    fun a b c h1 h2 => L.ntrans c b a h2 h1
  have hlower := fun i hi => Fs.C04.recv_lower S e par f L i hi hlow
  have hmc : ∀ x, x < n → e.mask x = false → e.mask (rowRecv S e f x) = false := by
    intro x hx hm
    rw [← hr0]
    rcases hlower x hx with h | ⟨_, h, _⟩
    · rw [h]; exact hm
    · exact h
  have hrn : ∀ x, x < n → rowRecv S e f x ≠ x →
      ∃ p, p ∈ e.topo.nbrs x ∧ p.1 = rowRecv S e f x := by
    intro x hx hne
    rw [← hr0] at hne ⊢
    rcases hlower x hx with h | ⟨_, _, _, h⟩
    · exact absurd h hne
    · exact h
  obtain ⟨th, _, _, hadj⟩ :=
    Fs.C02Mst.kruskal_sorted_hyps S e (singleRouter S e par f) f perm maxLow hlaws hg hdfs hmc
      hwork hnb hvp hnt hfin
  exact Fs.C02Mst.carve_link S e (singleRouter S e par f) f false perm maxLow hg hdfs hmc th hrn
    hadj

section compose
variable (S : Scalar α) (L : Fs.C01.ScalarLaws S) (p : α) (e : Env α) (par : Bool) (f : Nat → α)
  (perm : List Nat) (maxLow : Nat)

include L in
/-- the carve-resolved elevation gives every unmasked non-base node that is connected to an
unmasked base level a proper receiver of the multi router: its new single receiver `recv' y` is a
strictly lower unmasked neighbour -/
theorem mst_has_lower
    (hnb : ∀ i, i < e.topo.n → ∀ p, p ∈ e.topo.nbrs i → p.1 < e.topo.n)
    (hsym : ∀ u v d, u < e.topo.n → (v, d) ∈ e.topo.nbrs u → ∃ d', (u, d') ∈ e.topo.nbrs v)
    (hlow : Fs.C04.HLow S e f)
    (hwork : work e.topo (singleRouter S e par f).dfs < Mst.none)
    (hvp : validPerm S (cbOf S e (singleRouter S e par f) f).edges perm = true)
    (hfin : ∀ i, i < e.topo.n → S.lt S.lowest (f i) = true)
    (y : Nat) (hy : y < e.topo.n) (hm : e.mask y = false) (hc : ConnBase e y)
    (hb : e.isBase y = false) :
    let o := resolve S e (singleRouter S e par f) f false true perm maxLow
    let z' := look o.elev S.zero
    recv0 o.g y ∈ (multiRouter S p e z').recv y ∧ recv0 o.g y ≠ y := by
  intro o z'
  obtain ⟨_, _, _, h4, _, h6, _, _, h9⟩ := resolve_c01_singleRouter S e par f perm maxLow true
    L.router hnb hlow L.next_gt hwork hvp hfin
  have hlink := carve_link_singleRouter S e par f perm maxLow L.router hnb hlow hwork hvp hfin
  obtain ⟨b, hbn, hmb, hbb, hconn⟩ := hc
  obtain ⟨t, ht, _⟩ := h9 hsym y b hy hm hbn hmb hbb hconn
  have hne : recv0 o.g y ≠ y := by
    intro h
    rw [iter_fix' h] at ht
    rw [ht] at hb; cases hb
  obtain ⟨hmr, hnbr⟩ := hlink y hy hm hne
  have hlt : S.lt (z' (recv0 o.g y)) (z' y) = true := h6 y hy hne
  obtain ⟨d, hd⟩ : ∃ d, (recv0 o.g y, d) ∈ e.topo.nbrs y := by
    rcases hnbr with h | ⟨d, hd⟩
    · exact h
    · exact hsym _ _ d (h4 y hy) hd
  have h' : (e.mask y || e.isBase y) = false := by simp [hm, hb]
  exact ⟨Fs.C01.multi_has_lower S p e z' y hy h' (recv0 o.g y, d) hd hmr hlt, hne⟩

/-- the receivers of the multi router (on ANY elevation) of an unmasked node connected to an
unmasked base level are again such nodes -/
theorem mrecv_connBase (z : Nat → α)
    (hnb : ∀ i, i < e.topo.n → ∀ p, p ∈ e.topo.nbrs i → p.1 < e.topo.n)
    (hsym : ∀ a b, a < e.topo.n → b ∈ nbIdx e.topo a → a ∈ nbIdx e.topo b)
    (i : Nat) (hi : i < e.topo.n) (hm : e.mask i = false) (hc : ConnBase e i)
    (r : Nat) (hr : r ∈ (multiRouter S p e z).recv i) :
    r < e.topo.n ∧ e.mask r = false ∧ ConnBase e r := by
  by_cases hri : r = i
  · rw [hri]; exact ⟨hi, hm, hc⟩
  · obtain ⟨_, h2, h3, _⟩ := Fs.C01.mrecv_step S p e z i hi r hr hri
    refine ⟨Fs.C01.mrecv_lt S p e z hnb i hi r hr, h2, ?_⟩
    obtain ⟨q, hq, hqi⟩ := List.mem_map.mp (hsym i r hi h3)
    have hq' : (i, q.2) ∈ e.topo.nbrs r := by
      have : q = (i, q.2) := Prod.ext hqi rfl
      rw [← this]; exact hq
    obtain ⟨b, h1, h2', h3', h4⟩ := hc
    exact ⟨b, h1, h2', h3', nconn_cons q.2 hq' hm h4⟩

/-- a flow path of the multi router (on ANY elevation) from an unmasked node connected to an
unmasked base level stays among such nodes -/
theorem path_connBase (z : Nat → α)
    (hnb : ∀ i, i < e.topo.n → ∀ p, p ∈ e.topo.nbrs i → p.1 < e.topo.n)
    (hsym : ∀ a b, a < e.topo.n → b ∈ nbIdx e.topo a → a ∈ nbIdx e.topo b)
    {i t k : Nat} (hp : Fs.C01.Path (multiRouter S p e z).recv i t k) :
    i < e.topo.n → e.mask i = false → ConnBase e i →
    t < e.topo.n ∧ e.mask t = false ∧ ConnBase e t := by
  induction hp with
  | nil i => intro h1 h2 h3; exact ⟨h1, h2, h3⟩
  | cons i r t k hr _ _ ih =>
    intro h1 h2 h3
    obtain ⟨a, b, c⟩ := mrecv_connBase S p e z hnb hsym i h1 h2 h3 r hr
    exact ih a b c

include L in
/-- **C01, executed composition single router → spanning-tree resolver (carve) → multiple-direction
router.**  `z'` is the elevation the resolver returns, `M` the graph `multiRouter` builds on it,
`recv'` the single-receiver table the resolver returns.
(1) base-level and masked nodes are their own single receiver; (2) every proper receiver is an
unmasked neighbour with strictly lower returned elevation; (3) an unmasked node connected through
unmasked neighbours to an unmasked base level that is not a base level is not a pit (it has a
proper receiver), (3'') namely the receiver `recv'` the resolver gave it (on these nodes the
resolved single-direction graph is a subgraph of `M`), and (3') all receivers of a connected node
are unmasked and connected; (4a) the proper-receiver relation is well founded, (4a') no flow path
returns to its origin; (4b) a flow path stays in range, has fewer than `n` steps, and ends strictly
lower than it started; (4c) every maximal flow path from a connected node - following ANY
receivers - ends at an unmasked base level, and (4c') every node has a maximal flow path, the one
following the first receiver. -/
theorem C01_mst_multiRouter
    (hnb : ∀ i, i < e.topo.n → ∀ p, p ∈ e.topo.nbrs i → p.1 < e.topo.n)
    (hsym : ∀ a b, a < e.topo.n → b ∈ nbIdx e.topo a → a ∈ nbIdx e.topo b)
    (hlow : Fs.C04.HLow S e f)
    (hwork : work e.topo (singleRouter S e par f).dfs < Mst.none)
    (hvp : validPerm S (cbOf S e (singleRouter S e par f) f).edges perm = true)
    (hfin : ∀ i, i < e.topo.n → S.lt S.lowest (f i) = true) :
    let n := e.topo.n
    let nb := nbIdx e.topo
    let o := resolve S e (singleRouter S e par f) f false true perm maxLow
    let recv' := recv0 o.g
    let z' := look o.elev S.zero
    let M := multiRouter S p e z'
    -- (1)
    (∀ i, i < n → (e.mask i || e.isBase i) = true → M.recv i = [i]) ∧
    -- (2)
    (∀ i, i < n → ∀ r, r ∈ M.recv i → r ≠ i →
      S.lt (z' r) (z' i) = true ∧ e.mask r = false ∧ r ∈ nb i) ∧
    -- (3)
    (∀ i, i < n → e.mask i = false → ConnBase e i → e.isBase i = false →
      M.recv i ≠ [i] ∧ ∃ r, r ∈ M.recv i ∧ r ≠ i) ∧
    -- (3'')
    (∀ i, i < n → e.mask i = false → ConnBase e i → e.isBase i = false →
      recv' i ∈ M.recv i ∧ recv' i ≠ i) ∧
    -- (3')
    (∀ i, i < n → e.mask i = false → ConnBase e i →
      ∀ r, r ∈ M.recv i → e.mask r = false ∧ ConnBase e r) ∧
    -- (4a)
    WellFounded (Fs.stepRel M.recv) ∧
    (∀ i, i < n → ∀ k, ¬ Fs.C01.Path M.recv i i (k + 1)) ∧
    -- (4b)
    (∀ i, i < n → ∀ t k, Fs.C01.Path M.recv i t k →
      t < n ∧ k < n ∧ (0 < k → S.lt (z' t) (z' i) = true)) ∧
    -- (4c)
    (∀ i, i < n → e.mask i = false → ConnBase e i → ∀ t k, Fs.C01.Path M.recv i t k →
      M.recv t = [t] → e.isBase t = true ∧ e.mask t = false) ∧
    -- (4c')
    (∀ i, i < n → ∃ t k, Fs.C01.Path (fun j => [recv0 M j]) i t k ∧ Fs.C01.Path M.recv i t k ∧
      M.recv t = [t]) := by
  intro n nb o recv' z' M
  have hsym' := hsym'_of_hsym hsym
  have hlower : ∀ i, i < n → e.mask i = false → ConnBase e i → e.isBase i = false →
      recv' i ∈ M.recv i ∧ recv' i ≠ i := fun i hi hm hc hb =>
    mst_has_lower S L p e par f perm maxLow hnb hsym' hlow hwork hvp hfin i hi hm hc hb
  have hpit : ∀ i, i < n → e.mask i = false → ConnBase e i → e.isBase i = false →
      M.recv i ≠ [i] ∧ ∃ r, r ∈ M.recv i ∧ r ≠ i := by
    intro i hi hm hc hb
    obtain ⟨h1, h2⟩ := hlower i hi hm hc hb
    refine ⟨fun hh => ?_, recv' i, h1, h2⟩
    rw [hh] at h1
    exact h2 (List.mem_singleton.mp h1)
  refine ⟨?_, ?_, hpit, hlower, ?_, ?_, ?_, ?_, ?_, ?_⟩
  · intro i hi h
    exact Fs.C01.multi_terminal S p e z' i hi h
  · intro i hi r hr hne
    obtain ⟨h1, h2, h3, _⟩ := Fs.C01.mrecv_step S p e z' i hi r hr hne
    exact ⟨h1, h2, h3⟩
  · intro i hi hm hc r hr
    exact (mrecv_connBase S p e z' hnb hsym i hi hm hc r hr).2
  · exact Fs.C01.multi_step_wf S L p e z' hnb
  · intro i hi k hp
    have := (Fs.C01.path_rank S L p e z' hnb hp hi).2.1
    omega
  · intro i hi t k hp
    obtain ⟨h1, h2, h3⟩ := Fs.C01.path_rank S L p e z' hnb hp hi
    have := Fs.C01.elevRank_lt_n S L z' e.topo.n i hi
    exact ⟨h1, by omega, h3⟩
  · intro i hi hm hc t k hp hfix
    obtain ⟨htn, htm, htc⟩ := path_connBase S p e z' hnb hsym hp hi hm hc
    refine ⟨?_, htm⟩
    cases hb : e.isBase t
    · exact absurd hfix (hpit t htn htm htc hb).1
    · rfl
  · intro i hi
    obtain ⟨t, k, hp, ht⟩ := Fs.C01.exists_maximal S L p e z' hnb i hi
    exact ⟨t, k, hp, Fs.C01.first_path S p e z' hp hi hnb, ht⟩

end compose

/-- the connectivity hypothesis in the formulation of `grid_C01_pflood_multi`: a node reached from
the seeds through unmasked neighbours (`Fs.Reach`) satisfies `ConnBase` as soon as the seeds are
base-level nodes of the grid -/
theorem grid_connBase_of_reach (e : Env α) (T : Fs.C08.TopoOk e.topo)
    (hseeds : ∀ b, b ∈ e.seeds → b < e.topo.n) (hbase : ∀ b, e.isBase b = true ↔ b ∈ e.seeds)
    {y : Nat} (h : Fs.Reach (nbIdx e.topo) (Fs.C02.seedP e) e.mask y) : ConnBase e y :=
  connBase_of_reach e T.nb_lt (hsym'_of_hsym (hsym_of_ok T)) hseeds
    (fun b hb => (hbase b).mpr hb) h

end abstract

/-! ## exact scalar: any grid with `EnvOk`, then raster / triangular mesh / profile -/

section closed
variable {α : Type} [Field α] [LinearOrder α] [IsStrictOrderedRing α]
variable (pow : α → α → α) (sq nu : α → α) (lo mx mn : α)

local notation "SF" => fieldScalar α pow sq nu lo mx mn

/-- **C01 on any grid, single router → spanning-tree resolver (carve) → multi router**
(`C01_mst_multiRouter`).  `ConnBase e i`: `i` is `NConn`-connected to an unmasked base-level node
(the hypothesis of the last clause of `grid_C01_mst`).  Remaining hypotheses: those of
`grid_C01_mst`.  Clauses: (1) terminal rows; (2) proper receivers are strictly lower unmasked
neighbours; (3) a connected unmasked non-base node is not a pit of `M`; (3'') its resolver receiver
`recv' i` is one of its receivers in `M`; (3') receivers of connected nodes are unmasked and
connected; (4a) well-foundedness, (4a') no cycles; (4b) path bounds; (4c) every maximal flow path
of `M` (following ANY receivers) from a connected node ends at an unmasked base level; (4c') maximal
flow paths exist. -/
theorem grid_C01_mst_multi
    (e : Env α) (E : EnvOk lo e)
    (par : Bool) (p : α) (f : Nat → α) (perm : List Nat) (maxLow : Nat)
    (hnu : ∀ x, x < nu x)
    (hwork : work e.topo (singleRouter (SF) e par f).dfs < Mst.none)
    (hvp : validPerm (SF) (cbOf (SF) e (singleRouter (SF) e par f) f).edges perm = true)
    (hfin : ∀ i, i < e.topo.n → lo < f i) :
    let n := e.topo.n
    let nb := nbIdx e.topo
    let G := singleRouter (SF) e par f
    let o := resolve (SF) e G f false true perm maxLow
    let recv' := recv0 o.g
    let z' := look o.elev 0
    let M := multiRouter (SF) p e z'
    (∀ i, i < n → (e.mask i || e.isBase i) = true → M.recv i = [i]) ∧
    (∀ i, i < n → ∀ r, r ∈ M.recv i → r ≠ i → z' r < z' i ∧ e.mask r = false ∧ r ∈ nb i) ∧
    (∀ i, i < n → e.mask i = false → ConnBase e i → e.isBase i = false →
      M.recv i ≠ [i] ∧ ∃ r, r ∈ M.recv i ∧ r ≠ i) ∧
    (∀ i, i < n → e.mask i = false → ConnBase e i → e.isBase i = false →
      recv' i ∈ M.recv i ∧ recv' i ≠ i) ∧
    (∀ i, i < n → e.mask i = false → ConnBase e i →
      ∀ r, r ∈ M.recv i → e.mask r = false ∧ ConnBase e r) ∧
    WellFounded (Fs.stepRel M.recv) ∧
    (∀ i, i < n → ∀ k, ¬ Fs.C01.Path M.recv i i (k + 1)) ∧
    (∀ i, i < n → ∀ t k, Fs.C01.Path M.recv i t k → t < n ∧ k < n ∧ (0 < k → z' t < z' i)) ∧
    (∀ i, i < n → e.mask i = false → ConnBase e i → ∀ t k, Fs.C01.Path M.recv i t k →
      M.recv t = [t] → e.isBase t = true ∧ e.mask t = false) ∧
    (∀ i, i < n → ∃ t k, Fs.C01.Path (fun j => [recv0 M j]) i t k ∧ Fs.C01.Path M.recv i t k ∧
      M.recv t = [t]) := by
  intro n nb G o recv' z' M
  obtain ⟨h1, h2, h3, h3b, h4, h5, h6, h7, h8, h9⟩ := C01_mst_multiRouter (SF)
    (sf_scalarLaws pow sq nu lo mx mn hnu) p e par f perm maxLow E.ok.nb_lt (hsym_of_ok E.ok)
    (grid_hlow pow sq nu lo mx mn e E f) hwork hvp (fun i hi => decide_eq_true (hfin i hi))
  refine ⟨h1, ?_, h3, h3b, h4, h5, h6, ?_, h8, h9⟩
  · intro i hi r hr hne
    obtain ⟨a, b, c⟩ := h2 i hi r hr hne
    exact ⟨by simpa using a, b, c⟩
  · intro i hi t k hp
    obtain ⟨a, b, c⟩ := h7 i hi t k hp
    exact ⟨a, b, fun hk => by simpa using c hk⟩

/-- **C01 on a raster, single router → spanning-tree resolver (carve) → multi router**
(`grid_C01_mst_multi` on a raster: same statement, no topology hypothesis left) -/
theorem raster_C01_mst_multi
    {g : Raster α} (H : ShapeOk g) (F : FieldOk sq lo g)
    (e : Env α) (he : e.topo = rasterTopo (fieldScalar α pow sq nu lo mx mn) g)
    (par : Bool) (p : α) (f : Nat → α) (perm : List Nat) (maxLow : Nat)
    (hnu : ∀ x, x < nu x)
    (hwork : work e.topo (singleRouter (SF) e par f).dfs < Mst.none)
    (hvp : validPerm (SF) (cbOf (SF) e (singleRouter (SF) e par f) f).edges perm = true)
    (hfin : ∀ i, i < e.topo.n → lo < f i) :
    let n := e.topo.n
    let nb := nbIdx e.topo
    let G := singleRouter (SF) e par f
    let o := resolve (SF) e G f false true perm maxLow
    let recv' := recv0 o.g
    let z' := look o.elev 0
    let M := multiRouter (SF) p e z'
    (∀ i, i < n → (e.mask i || e.isBase i) = true → M.recv i = [i]) ∧
    (∀ i, i < n → ∀ r, r ∈ M.recv i → r ≠ i → z' r < z' i ∧ e.mask r = false ∧ r ∈ nb i) ∧
    (∀ i, i < n → e.mask i = false → ConnBase e i → e.isBase i = false →
      M.recv i ≠ [i] ∧ ∃ r, r ∈ M.recv i ∧ r ≠ i) ∧
    (∀ i, i < n → e.mask i = false → ConnBase e i → e.isBase i = false →
      recv' i ∈ M.recv i ∧ recv' i ≠ i) ∧
    (∀ i, i < n → e.mask i = false → ConnBase e i →
      ∀ r, r ∈ M.recv i → e.mask r = false ∧ ConnBase e r) ∧
    WellFounded (Fs.stepRel M.recv) ∧
    (∀ i, i < n → ∀ k, ¬ Fs.C01.Path M.recv i i (k + 1)) ∧
    (∀ i, i < n → ∀ t k, Fs.C01.Path M.recv i t k → t < n ∧ k < n ∧ (0 < k → z' t < z' i)) ∧
    (∀ i, i < n → e.mask i = false → ConnBase e i → ∀ t k, Fs.C01.Path M.recv i t k →
      M.recv t = [t] → e.isBase t = true ∧ e.mask t = false) ∧
    (∀ i, i < n → ∃ t k, Fs.C01.Path (fun j => [recv0 M j]) i t k ∧ Fs.C01.Path M.recv i t k ∧
      M.recv t = [t]) :=
  grid_C01_mst_multi pow sq nu lo mx mn e (raster_envOk pow nu mx mn H F e he)
    par p f perm maxLow hnu hwork hvp hfin

/-- **C01 on a mesh, single router → spanning-tree resolver (carve) → multi router**
(`grid_C01_mst_multi` on a mesh: same statement, no topology hypothesis left) -/
theorem mesh_C01_mst_multi
    {n : Nat} {pts : Nat → α × α} {tris : List (Nat × Nat × Nat)}
    (MO : MeshOk n tris) (F : MeshFieldOk sq lo pts tris)
    (e : Env α) (he : e.topo = meshTopo sq n pts tris)
    (par : Bool) (p : α) (f : Nat → α) (perm : List Nat) (maxLow : Nat)
    (hnu : ∀ x, x < nu x)
    (hwork : work e.topo (singleRouter (SF) e par f).dfs < Mst.none)
    (hvp : validPerm (SF) (cbOf (SF) e (singleRouter (SF) e par f) f).edges perm = true)
    (hfin : ∀ i, i < e.topo.n → lo < f i) :
    let n := e.topo.n
    let nb := nbIdx e.topo
    let G := singleRouter (SF) e par f
    let o := resolve (SF) e G f false true perm maxLow
    let recv' := recv0 o.g
    let z' := look o.elev 0
    let M := multiRouter (SF) p e z'
    (∀ i, i < n → (e.mask i || e.isBase i) = true → M.recv i = [i]) ∧
    (∀ i, i < n → ∀ r, r ∈ M.recv i → r ≠ i → z' r < z' i ∧ e.mask r = false ∧ r ∈ nb i) ∧
    (∀ i, i < n → e.mask i = false → ConnBase e i → e.isBase i = false →
      M.recv i ≠ [i] ∧ ∃ r, r ∈ M.recv i ∧ r ≠ i) ∧
    (∀ i, i < n → e.mask i = false → ConnBase e i → e.isBase i = false →
      recv' i ∈ M.recv i ∧ recv' i ≠ i) ∧
    (∀ i, i < n → e.mask i = false → ConnBase e i →
      ∀ r, r ∈ M.recv i → e.mask r = false ∧ ConnBase e r) ∧
    WellFounded (Fs.stepRel M.recv) ∧
    (∀ i, i < n → ∀ k, ¬ Fs.C01.Path M.recv i i (k + 1)) ∧
    (∀ i, i < n → ∀ t k, Fs.C01.Path M.recv i t k → t < n ∧ k < n ∧ (0 < k → z' t < z' i)) ∧
    (∀ i, i < n → e.mask i = false → ConnBase e i → ∀ t k, Fs.C01.Path M.recv i t k →
      M.recv t = [t] → e.isBase t = true ∧ e.mask t = false) ∧
    (∀ i, i < n → ∃ t k, Fs.C01.Path (fun j => [recv0 M j]) i t k ∧ Fs.C01.Path M.recv i t k ∧
      M.recv t = [t]) :=
  grid_C01_mst_multi pow sq nu lo mx mn e (mesh_envOk MO F e he)
    par p f perm maxLow hnu hwork hvp hfin

/-- **C01 on a profile, single router → spanning-tree resolver (carve) → multi router**
(`grid_C01_mst_multi` on a profile: same statement, no topology hypothesis left) -/
theorem profile_C01_mst_multi
    (n : Nat) (hn : 2 ≤ n) (dx : α) (looped : Bool) (hdx : 0 < dx)
    (hlo : lo ≤ 0) (e : Env α) (he : e.topo = profileTopo n dx looped)
    (par : Bool) (p : α) (f : Nat → α) (perm : List Nat) (maxLow : Nat)
    (hnu : ∀ x, x < nu x)
    (hwork : work e.topo (singleRouter (SF) e par f).dfs < Mst.none)
    (hvp : validPerm (SF) (cbOf (SF) e (singleRouter (SF) e par f) f).edges perm = true)
    (hfin : ∀ i, i < e.topo.n → lo < f i) :
    let n := e.topo.n
    let nb := nbIdx e.topo
    let G := singleRouter (SF) e par f
    let o := resolve (SF) e G f false true perm maxLow
    let recv' := recv0 o.g
    let z' := look o.elev 0
    let M := multiRouter (SF) p e z'
    (∀ i, i < n → (e.mask i || e.isBase i) = true → M.recv i = [i]) ∧
    (∀ i, i < n → ∀ r, r ∈ M.recv i → r ≠ i → z' r < z' i ∧ e.mask r = false ∧ r ∈ nb i) ∧
    (∀ i, i < n → e.mask i = false → ConnBase e i → e.isBase i = false →
      M.recv i ≠ [i] ∧ ∃ r, r ∈ M.recv i ∧ r ≠ i) ∧
    (∀ i, i < n → e.mask i = false → ConnBase e i → e.isBase i = false →
      recv' i ∈ M.recv i ∧ recv' i ≠ i) ∧
    (∀ i, i < n → e.mask i = false → ConnBase e i →
      ∀ r, r ∈ M.recv i → e.mask r = false ∧ ConnBase e r) ∧
    WellFounded (Fs.stepRel M.recv) ∧
    (∀ i, i < n → ∀ k, ¬ Fs.C01.Path M.recv i i (k + 1)) ∧
    (∀ i, i < n → ∀ t k, Fs.C01.Path M.recv i t k → t < n ∧ k < n ∧ (0 < k → z' t < z' i)) ∧
    (∀ i, i < n → e.mask i = false → ConnBase e i → ∀ t k, Fs.C01.Path M.recv i t k →
      M.recv t = [t] → e.isBase t = true ∧ e.mask t = false) ∧
    (∀ i, i < n → ∃ t k, Fs.C01.Path (fun j => [recv0 M j]) i t k ∧ Fs.C01.Path M.recv i t k ∧
      M.recv t = [t]) :=
  grid_C01_mst_multi pow sq nu lo mx mn e (profile_envOk n hn dx looped hdx hlo e he)
    par p f perm maxLow hnu hwork hvp hfin

end closed

/-! ## non-vacuity: the hypotheses hold on the raster / mesh / profile instances -/

section examples
open Fs.Mst Fs.C01Mst Fs.C15Connect

/-- all hypotheses of `raster_C01_mst_multi` hold on the 3 × 3 queen raster `exEnv` / `exZ`
(base level `0`, pit `8`) -/
example :=
  raster_C01_mst_multi (fun x _ => x) (fun x => x) (fun x => x + 1) (-1000) 1000 (1/1000)
    exShape exField exEnv rfl false 1 exZ [0] 0 exNu exWork exValid exFin

/-- the pit `8` of the raster instance is connected to the base level `0` (through node `4`) -/
theorem exConnBase : ConnBase exEnv 8 :=
  ⟨0, by decide, rfl, rfl,
    .step (y := 4) (z := 0) 2 (.step (y := 8) (z := 4) 2 (.refl 8) (by decide +kernel) rfl)
      (by decide +kernel) rfl⟩

/-- what the model computes on the raster instance: the resolver (carve) returns the receivers
`0 0 1 0 0 8 3 8 4` (the pit `8` now drains over the pass node `4`) and the elevation
`0 3 4 3 5 7 4 7 6`; the multi router run on it gives the pit `8` the single proper receiver `4`,
and the resolver's receiver of every node is among the multi router's receivers -/
example :
    (let o := resolve exSF exEnv (singleRouter exSF exEnv false exZ) exZ false true [0] 0
     let M := multiRouter exSF 1 exEnv (look o.elev 0)
     ((List.range 9).map (recv0 o.g), (List.range 9).map (look o.elev 0),
       (List.range 9).map M.recv)) =
      ([0, 0, 1, 0, 0, 8, 3, 8, 4], [0, 3, 4, 3, 5, 7, 4, 7, 6],
        [[0], [0], [1], [0], [0, 1, 2, 3, 6], [1, 2, 4, 8], [3], [3, 4, 6, 8], [4]]) := by
  decide +kernel

/-- all hypotheses of `mesh_C01_mst_multi` hold on the fan mesh `fanEnv` / `fanZ` (the hub `0` a
pit, the rim nodes base levels) -/
example :=
  mesh_C01_mst_multi (fun x _ => x) (fun x => x) (fun x => x + 1) (-1000) 1000 (1/1000)
    fanOk fanField fanEnv rfl false 1 fanZ fanPerm 0 exNu fanWork fanValid fanFin

theorem fanConnBase : ConnBase fanEnv 0 :=
  ⟨1, by decide, rfl, by decide,
    .step (y := 0) (z := 1) 4 (.refl 0) (by decide +kernel) rfl⟩

/-- on the mesh: the hub is lifted to `4`, one increment above the lowest rim node `1`, its only
receiver -/
example :
    (let o := resolve exSF fanEnv (singleRouter exSF fanEnv false fanZ) fanZ false true fanPerm 0
     let M := multiRouter exSF 1 fanEnv (look o.elev 0)
     ((List.range 6).map (recv0 o.g), (List.range 6).map (look o.elev 0),
       (List.range 6).map M.recv)) =
      ([1, 1, 2, 3, 4, 5], [4, 3, 4, 5, 6, 7], [[1], [1], [2], [3], [4], [5]]) := by
  decide +kernel

/-- all hypotheses of `profile_C01_mst_multi` hold on the profile `prEnv` / `prZ` (elevations
`0 2 1 3`, base level `0`, pit `2`) -/
example :=
  profile_C01_mst_multi (fun x _ => x) (fun x => x) (fun x => x + 1) (-1000) 1000 (1/1000)
    4 (by decide) (1/2) false prDx prLo prEnv rfl false 1 prZ [0] 0 exNu prWork prValid prFin

theorem prConnBase : ConnBase prEnv 2 :=
  ⟨0, by decide, rfl, rfl,
    .step (y := 1) (z := 0) (1/2) (.step (y := 2) (z := 1) (1/2) (.refl 2) (by decide +kernel) rfl)
      (by decide +kernel) rfl⟩

/-- what the model computes on the profile: resolved receivers `0 0 1 2`, returned elevation
`0 2 3 4`, rows of the multi router `[0] [0] [1] [2]` -/
example :
    (let o := resolve exSF prEnv (singleRouter exSF prEnv false prZ) prZ false true [0] 0
     let M := multiRouter exSF 1 prEnv (look o.elev 0)
     ((List.range 4).map (recv0 o.g), (List.range 4).map (look o.elev 0),
       (List.range 4).map M.recv)) = ([0, 0, 1, 2], [0, 2, 3, 4], [[0], [0], [1], [2]]) := by
  decide +kernel

/-- the conclusion is not empty: on the profile every maximal flow path of `M` from the pit `2`
ends at the base level -/
example :
    let o := resolve exSF prEnv (singleRouter exSF prEnv false prZ) prZ false true [0] 0
    let M := multiRouter exSF 1 prEnv (look o.elev 0)
    ∀ t k, Fs.C01.Path M.recv 2 t k → M.recv t = [t] →
      prEnv.isBase t = true ∧ prEnv.mask t = false :=
  (profile_C01_mst_multi (fun x _ => x) (fun x => x) (fun x => x + 1) (-1000) 1000 (1/1000)
    4 (by decide) (1/2) false prDx prLo prEnv rfl false 1 prZ [0] 0 exNu prWork prValid
    prFin).2.2.2.2.2.2.2.2.1 2 (by decide) rfl prConnBase

end examples

/-! ## `basic` re-routing: the statement is false

The 1 × 5 profile of `C02MstExample` (`zF = 1 5 3 2 9`, base level `0`, depression `{2, 3, 4}` with
pit `3`, pass `1 — 2` at height `5`).  With `basic` re-routing the pit `3` is linked directly to the
pass node `1` (not a neighbour: `recv' = 0 0 3 1 3`) and the returned elevation is `1 5 7 6 9`:
node `3` (`6`) has the neighbours `2` (`7`) and `4` (`9`), none lower.  The multi router run on the
returned elevation therefore leaves `3` a pit although it is connected to the base level `0`. -/

section basic
open Fs.C01Mst.Example Fs.C02Mst.Example

/-- the executed model on the instance, `basic` re-routing: resolved receivers, returned
elevation, and ALL rows of the multi router on it - node `3` is its own single receiver (and
`2`, `4` drain into it) -/
theorem basic_multi_rows :
    (let o := resolve xS2 xEnv (singleRouter xS2 xEnv false zF) zF false false [0] 0
     let M := multiRouter xS2 1 xEnv (look o.elev 0)
     ((List.range 5).map (recv0 o.g), o.elev, (List.range 5).map M.recv)) =
      ([0, 0, 3, 1, 3], #[1, 5, 7, 6, 9], [[0], [0], [1, 3], [3], [3]]) := by
  decide +kernel

theorem zConnBase : ConnBase xEnv 3 := ⟨0, by decide, rfl, rfl, zConn⟩

/-- **clause (3) of `C01_mst_multiRouter` fails for `basic` re-routing**: an unmasked non-base
node connected to an unmasked base level is a pit of the multi router run on the returned
elevation; (4c) fails with it: the empty flow path from `3` is maximal and does not end at a base
level.  (All hypotheses of `resolve_c01_singleRouter` hold on this instance:
`C02MstExample`.) -/
theorem basic_multi_pit :
    let o := resolve xS2 xEnv (singleRouter xS2 xEnv false zF) zF false false [0] 0
    let M := multiRouter xS2 1 xEnv (look o.elev 0)
    ¬ (∀ i, i < xEnv.topo.n → xEnv.mask i = false → ConnBase xEnv i → xEnv.isBase i = false →
        M.recv i ≠ [i]) ∧
    ¬ (∀ i, i < xEnv.topo.n → xEnv.mask i = false → ConnBase xEnv i → ∀ t k,
        Fs.C01.Path M.recv i t k → M.recv t = [t] → xEnv.isBase t = true ∧ xEnv.mask t = false) := by
  intro o M
  have h3 : M.recv 3 = [3] := by decide +kernel
  constructor
  · intro h
    exact h 3 (by decide) rfl zConnBase rfl h3
  · intro h
    have := (h 3 (by decide) rfl zConnBase 3 0 (Fs.C01.Path.nil 3) h3).1
    exact absurd this (by decide)

/-- with `carve` on the same instance (`recv' = 0 0 1 2 3`, elevation `1 5 6 7 9`) the multi
router gives `[0] [0] [1] [2] [3]` -/
example :
    (let o := resolve xS2 xEnv (singleRouter xS2 xEnv false zF) zF false true [0] 0
     let M := multiRouter xS2 1 xEnv (look o.elev 0)
     ((List.range 5).map (recv0 o.g), o.elev, (List.range 5).map M.recv)) =
      ([0, 0, 1, 2, 3], #[1, 5, 6, 7, 9], [[0], [0], [1], [2], [3]]) := by
  decide +kernel

/-- and `C01_mst_multiRouter` applies to it (abstract scalar `xS2` over `Nat`) -/
example :=
  C01_mst_multiRouter xS2
    ⟨xLaws2.irrefl, xLaws2.trans, xLaws2.ntrans, by intro x; simp [xS2, Fs.C15Connect.exS]⟩
    1 xEnv false zF [0] 0 (by decide)
    (hsym_of_hsym' xSym) (by intro i p _; simp [xS2, Fs.C15Connect.exS]) (by decide +kernel) zValid (by decide)

end basic

end Fs.Closed
