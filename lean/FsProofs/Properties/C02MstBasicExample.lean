import FsProofs.Properties.C02MstBasicRouter
import FsProofs.Properties.C02MstUpperExample

/-! # C02 (spanning-tree resolver), lower bound for `basic`: concrete instances

The 1×5 profiles of `C02MstExample` behind the single router, `basic` re-routing: the candidate
statement tested on the executed model (`decide +kernel`), the hypotheses of
`resolve_ge_spill_basic`, `resolve_ge_spill`, `resolve_c02_spill_singleRouter`,
`resolve_c02_spill_level_singleRouter_any` are satisfiable, and the theorems applied. -/
namespace Fs.C02Mst.Example
open Fs Fs.Flow Fs.Mst Fs.Dfs Fs.C06 Fs.C01Mst Fs.C02 Fs.C02Mst Fs.C15Connect Fs.C01Mst.Example

/-- the candidate statement on the executed model, `basic`, both profiles: on the 1×5 row the
neighbour path from the base level `0` to `y` is `0, 1, …, y`; none of its INPUT elevations
exceeds the returned elevation of `y` (`zF`: returned `1 5 7 6 9`, new receivers `0 0 3 1 3` -
node `3` drains to the non-neighbour `1`, yet `z' 3 = 6 ≥ 5 =` its spill level) -/
example :
    (let o := resolve xS2 xEnv zG zF false false [0] 0
     (List.range 5).map (recv0 o.g) = [0, 0, 3, 1, 3] ∧ o.elev = #[1, 5, 7, 6, 9] ∧
     ∀ y, y < 5 → ∀ w, w ≤ y → xS2.lt (look o.elev 0 y) (zF w) = false) ∧
    (let o := resolve xS2 xEnv (singleRouter xS2 xEnv false xF) xF false false [0, 1] 0
     ∀ y, y < 5 → ∀ w, w ≤ y → xS2.lt (look o.elev 0 y) (xF w) = false) := by
  decide +kernel

/-- the pieces of the witness path of node `3` of `zF` (`basic`): the entered basin `{2,3,4}` (label `1`) has
pit `π = 3` and pass nodes `p0 = 1`, `p1 = 2`; first branch of `routeBasic` (`f p1 = 3 < 5 = f p0`),
`recv' π = p0`; witness `[0, 1] ++ [2] ++ [3]`, bounds `f p1 < f p0 ≤ z' p0 = 5 < z' π = 6` -/
example : (let o := resolve xS2 xEnv zG zF false false [0] 0
    ((bgOf xS2 xEnv zG zF false [0] 0).edges.toList.map (fun e => (e.l0, e.l1, e.p0, e.p1)),
     (outlOf xEnv zG).getD 1 0, xS2.lt (zF 2) (zF 1), recv0 o.g 3, look o.elev 0 1, look o.elev 0 3)) =
    ([(0, 1, 1, 2)], 3, true, 1, 5, 6) := by
  decide +kernel

/-- `resolve_c02_spill_singleRouter` applies to both profiles, carve and basic -/
example (carve : Bool) :=
  resolve_c02_spill_singleRouter xS2 xEnv false zF [0] 0 carve xLaws2 (by decide) xSym
    (by intro i p _; simp [xS2, exS]) (by intro x; simp [xS2, exS]) (by decide +kernel) zValid (by decide)

example (carve : Bool) :=
  resolve_c02_spill_singleRouter xS2 xEnv false xF [0, 1] 0 carve xLaws2 (by decide) xSym
    (by intro i p _; simp [xS2, exS]) (by intro x; simp [xS2, exS]) (by decide +kernel) (by decide +kernel)
    (by decide)

/-- the theorem applied, `basic`: node `3` of `zF` is connected to the base level `0` (`zConn`); a
neighbour path from an unmasked base level along which the input never exceeds `z' 3` -/
example :
    let o := resolve xS2 xEnv zG zF false false [0] 0
    ∃ p, Fs.UB.Path (nbIdx xEnv.topo) (baseSeed xEnv) xEnv.mask p 3 ∧
      (∀ w, w ∈ p → xS2.lt (look o.elev xS2.zero 3) (zF w) = false) :=
  (resolve_c02_spill_singleRouter xS2 xEnv false zF [0] 0 false xLaws2 (by decide) xSym
    (by intro i p _; simp [xS2, exS]) (by intro x; simp [xS2, exS]) (by decide +kernel) zValid (by decide)).2
    3 0 (by decide) rfl (by decide) rfl rfl zConn

/-- lower and upper bound together for `basic` (`resolve_c02_spill_level_singleRouter_any`) -/
example (carve : Bool) := resolve_c02_spill_level_singleRouter_any xS2 xEnv false zF [0] 0 carve xUB (by decide)
  xSym (by intro i p _; simp [xS2, exS]) (by decide +kernel) zValid (by decide) xBn
  3 0 (by decide) rfl (by decide) rfl rfl zConn

/-- the hypotheses of `resolve_ge_spill_basic` / `resolve_ge_spill` (those of
`resolve_ge_spill_carve`) hold on the instance of `C01MstExample` (graph `xG`, scalar `exS`) -/
example : True := by
  obtain ⟨th, hinner, rh, hadj⟩ := kruskal_sorted_hyps exS xEnv xG xF [0, 1] 0 exLaws xG_single rfl
    (by decide) (by decide) (by decide) xValid xNt (by decide)
  have hrn : ∀ x, x < xEnv.topo.n → exRecv x ≠ x → ∃ p, p ∈ xEnv.topo.nbrs x ∧ p.1 = exRecv x := by
    decide
  have _h := resolve_ge_spill_basic exS xEnv xG xF false [0, 1] 0 xG_single rfl (by decide) (by decide)
    (by decide) (by decide) xNext th hinner rh hrn hadj exLaws.irrefl exLaws.trans xSym
  have _h' := fun carve => resolve_ge_spill exS xEnv xG xF false [0, 1] 0 xG_single rfl (by decide) (by decide)
    (by decide) (by decide) xNext th hinner rh hrn hadj carve exLaws.irrefl exLaws.trans xSym
  trivial

end Fs.C02Mst.Example
