import FsModel.Flow
import FsModel.PFlood
import FsModel.Descent
import FsProofs.Properties.C01
import FsProofs.Properties.C06Graphs

/-! # C01 — sink-resolved flow paths always reach a base level (multiple-direction router)

End-to-end statement about the *executed* composition `Fs.Flow.pflood` (priority flood,
`fill_sinks_sloped`) followed by `Fs.Flow.multiRouter` (multiple-direction router): the
counterpart of `Fs.C01.C01_pflood_singleRouter`.  It reuses the flood facts of `C01.lean`
(`pflood_terminates`, `final_parent`, `final_complete`, `pflood_elev`) and the row facts of the
multi router of `C06Graphs.lean` (`multi_rows`, `multi_recv_lower`, `multi_recv_ne`,
`multi_root_or_not`, `elevRank`, `elevRank_lt`), and `Fs.step_wf` of `FsModel/Descent.lean`.

A *flow path* of a multiple-direction graph may choose ANY receiver other than the node itself at
each step: `Path recvs i t k` says that `t` is reached from `i` by `k` such proper receiver steps.

Hypotheses: those of `C01_pflood_singleRouter` (`ScalarLaws S`, `hnb`, `hsym`, `hseeds`,
`hnodup`, `hbase`) except `hslope` (`Fs.C04.HSlope`), which is not needed here: the multi
router selects its receivers by elevation only, not by slope. -/
namespace Fs.C01
open Fs Fs.Flow Fs.C02

variable {α : Type}

/-! ### flow paths of a multiple-receiver graph -/

/-- `Path recvs i t k`: `t` is reached from `i` by `k` proper receiver steps, each step choosing
any receiver of the current node other than the node itself -/
inductive Path (recvs : Nat → List Nat) : Nat → Nat → Nat → Prop
  | nil (i : Nat) : Path recvs i i 0
  | cons (i r t k : Nat) : r ∈ recvs i → r ≠ i → Path recvs r t k → Path recvs i t (k + 1)

theorem Path.mono {a b : Nat → List Nat} (h : ∀ i r, r ∈ a i → r ∈ b i) {i t k : Nat}
    (hp : Path a i t k) : Path b i t k := by
  induction hp with
  | nil i => exact Path.nil i
  | cons i r t k hr hne _ ih => exact Path.cons i r t k (h i r hr) hne ih

theorem Path.zero_eq {a : Nat → List Nat} {i t : Nat} (hp : Path a i t 0) : t = i := by
  cases hp; rfl

/-- a path is a chain of the step relation of `FsModel/Descent.lean` -/
theorem Path.first_step {a : Nat → List Nat} {i t k : Nat} (hp : Path a i t (k + 1)) :
    ∃ r, Fs.stepRel a r i ∧ Path a r t k := by
  cases hp with
  | cons _ r _ _ hr hne hp => exact ⟨r, ⟨hr, hne⟩, hp⟩

theorem look_tab_ge {β : Type} (n : Nat) (d : β) (g : Nat → β) (i : Nat) (h : ¬ i < n) :
    look (tab n g) d i = d := by
  simp [look, tab, Array.getD, h]

/-! ### the multi router on an arbitrary elevation table -/

section multi
variable (S : Scalar α) (L : ScalarLaws S) (p : α) (e : Env α) (f : Nat → α)

/-- rows outside the node range are empty -/
theorem multi_recv_out (i : Nat) (hi : ¬ i < e.topo.n) : (multiRouter S p e f).recv i = [] := by
  simp only [multiRouter, look_tab_ge _ _ _ _ hi]

/-- masked and base-level nodes are their own single receiver -/
theorem multi_terminal (i : Nat) (hi : i < e.topo.n) (h : (e.mask i || e.isBase i) = true) :
    (multiRouter S p e f).recv i = [i] := by
  rw [(Fs.C06.multi_rows S p e f i hi).1]
  unfold multiRow
  simp [h]

/-- a proper receiver is an unmasked strictly lower neighbour, and only routed (unmasked,
non-base) nodes have one -/
theorem mrecv_step (i : Nat) (hi : i < e.topo.n) (r : Nat)
    (hr : r ∈ (multiRouter S p e f).recv i) (hne : r ≠ i) :
    S.lt (f r) (f i) = true ∧ e.mask r = false ∧ r ∈ nbIdx e.topo i ∧
      (e.mask i || e.isBase i) = false := by
  rcases Fs.C06.multi_recv_lower S p e f i hi r hr with h | ⟨q, hq, hqr, hm, hlt⟩
  · exact absurd h hne
  · refine ⟨hlt, hm, List.mem_map.mpr ⟨q, hq, hqr⟩, ?_⟩
    cases hb : (e.mask i || e.isBase i)
    · rfl
    · rw [multi_terminal S p e f i hi hb] at hr
      exact absurd (List.mem_singleton.mp hr) hne

theorem mrecv_lt (hnb : ∀ i, i < e.topo.n → ∀ q, q ∈ e.topo.nbrs i → q.1 < e.topo.n)
    (i : Nat) (hi : i < e.topo.n) (r : Nat) (hr : r ∈ (multiRouter S p e f).recv i) :
    r < e.topo.n := by
  rcases Fs.C06.multi_recv_lower S p e f i hi r hr with h | ⟨q, hq, hqr, _, _⟩
  · rw [h]; exact hi
  · rw [← hqr]; exact hnb i hi q hq

/-- every unmasked strictly lower neighbour of a routed node is one of its receivers -/
theorem multi_has_lower (i : Nat) (hi : i < e.topo.n) (h : (e.mask i || e.isBase i) = false)
    (q : Nat × α) (hq : q ∈ e.topo.nbrs i) (hm : e.mask q.1 = false)
    (hlt : S.lt (f q.1) (f i) = true) : q.1 ∈ (multiRouter S p e f).recv i := by
  rw [(Fs.C06.multi_rows S p e f i hi).1]
  have hc : q ∈ multiCands S e f i := List.mem_filter.mpr ⟨hq, by simp [hm, hlt]⟩
  have he : (multiCands S e f i).isEmpty = false := by
    cases hl : multiCands S e f i with
    | nil => rw [hl] at hc; cases hc
    | cons _ _ => rfl
  unfold multiRow
  simp only [h, he, Bool.false_eq_true, if_false]
  exact List.mem_map.mpr ⟨q, hc, rfl⟩

include L in
/-- **the proper-receiver relation of the multi router is well founded** (no hypothesis on the
node: rows outside the node range are empty) -/
theorem multi_step_wf (hnb : ∀ i, i < e.topo.n → ∀ q, q ∈ e.topo.nbrs i → q.1 < e.topo.n) :
    WellFounded (Fs.stepRel (multiRouter S p e f).recv) := by
  refine Fs.step_wf (fun a b => S.lt a b = true)
    (fun a hh => by rw [L.irrefl a] at hh; cases hh) (fun a b c => L.trans a b c)
    e.topo.n f (multiRouter S p e f).recv ?_ ?_
  · intro i j hj
    by_cases hi : i < e.topo.n
    · exact mrecv_lt S p e f hnb i hi j hj
    · rw [multi_recv_out S p e f i hi] at hj; cases hj
  · intro i j hj hne
    by_cases hi : i < e.topo.n
    · exact (mrecv_step S p e f i hi j hj hne).1
    · rw [multi_recv_out S p e f i hi] at hj; cases hj

include L in
/-- the elevation rank of a node is below `n` (the node itself is not counted) -/
theorem elevRank_lt_n (n : Nat) (i : Nat) (hi : i < n) : Fs.C06.elevRank S n f i < n := by
  have h := Fs.countP_lt_of_imp (List.range n)
    (fun j => decide (S.lt (f j) (f i) = true)) (fun _ => true) (fun _ _ _ => rfl)
    i (List.mem_range.mpr hi) rfl (by simp [L.irrefl])
  have h2 : (List.range n).countP (fun _ => true) = n := by simp
  rw [h2] at h
  exact h

include L in
/-- along a path the nodes stay in range, the elevation rank drops by at least the number of
steps, and the elevation strictly decreases -/
theorem path_rank (hnb : ∀ i, i < e.topo.n → ∀ q, q ∈ e.topo.nbrs i → q.1 < e.topo.n)
    {i t k : Nat} (hp : Path (multiRouter S p e f).recv i t k) : i < e.topo.n →
    t < e.topo.n ∧ Fs.C06.elevRank S e.topo.n f t + k ≤ Fs.C06.elevRank S e.topo.n f i ∧
      (0 < k → S.lt (f t) (f i) = true) := by
  induction hp with
  | nil i => intro hi; exact ⟨hi, Nat.le_refl _, fun h => absurd h (Nat.lt_irrefl 0)⟩
  | cons i r t k hr hne hp ih =>
    intro hi
    have hrn := mrecv_lt S p e f hnb i hi r hr
    have hst := (mrecv_step S p e f i hi r hr hne).1
    obtain ⟨h1, h2, h3⟩ := ih hrn
    have hrk := Fs.C06.elevRank_lt S f L.router e.topo.n i r hrn hst
    refine ⟨h1, by omega, fun _ => ?_⟩
    by_cases hk : k = 0
    · subst hk; rw [hp.zero_eq]; exact hst
    · exact L.trans _ _ _ (h3 (by omega)) hst

include L in
/-- **every node has a maximal flow path**, obtained by always following the first receiver -/
theorem exists_maximal (hnb : ∀ i, i < e.topo.n → ∀ q, q ∈ e.topo.nbrs i → q.1 < e.topo.n)
    (i : Nat) (hi : i < e.topo.n) :
    ∃ t k, Path (fun j => [recv0 (multiRouter S p e f) j]) i t k ∧
      (multiRouter S p e f).recv t = [t] := by
  refine (multi_step_wf S L p e f hnb).induction
    (C := fun i => i < e.topo.n → ∃ t k, Path (fun j => [recv0 (multiRouter S p e f) j]) i t k ∧
      (multiRouter S p e f).recv t = [t]) i ?_ hi
  intro i ih hi
  rcases Fs.C06.multi_root_or_not S p e f L.router i hi with h | h
  · exact ⟨i, 0, Path.nil i, h⟩
  · cases hrow : (multiRouter S p e f).recv i with
    | nil => exact absurd hrow (Fs.C06.multi_recv_ne S p e f i hi)
    | cons r rest =>
      have hmem : r ∈ (multiRouter S p e f).recv i := by rw [hrow]; exact List.mem_cons_self
      have hne : r ≠ i := fun hh => h (hh ▸ hmem)
      have h0 : recv0 (multiRouter S p e f) i = r := by simp [recv0, hrow]
      obtain ⟨t, k, hp, ht⟩ := ih r ⟨hmem, hne⟩ (mrecv_lt S p e f hnb i hi r hmem)
      exact ⟨t, k + 1, Path.cons i r t k (by rw [h0]; exact List.mem_singleton.mpr rfl) hne hp, ht⟩

/-- a first-receiver path is a flow path -/
theorem first_path {i t k : Nat}
    (hp : Path (fun j => [recv0 (multiRouter S p e f) j]) i t k) (hi : i < e.topo.n)
    (hnb : ∀ i, i < e.topo.n → ∀ q, q ∈ e.topo.nbrs i → q.1 < e.topo.n) :
    Path (multiRouter S p e f).recv i t k := by
  induction hp with
  | nil i => exact Path.nil i
  | cons i r t k hr hne _ ih =>
    have hr0 : r = recv0 (multiRouter S p e f) i := List.mem_singleton.mp hr
    have hmem : r ∈ (multiRouter S p e f).recv i := by
      cases hrow : (multiRouter S p e f).recv i with
      | nil => exact absurd hrow (Fs.C06.multi_recv_ne S p e f i hi)
      | cons a rest =>
        have : r = a := by rw [hr0]; simp [recv0, hrow]
        rw [this]; exact List.mem_cons_self
    exact Path.cons i r t k hmem hne (ih (mrecv_lt S p e f hnb i hi r hmem))

/-- a flow path from a node connected to an unmasked base level stays among such nodes -/
theorem path_reach {i t k : Nat} (hp : Path (multiRouter S p e f).recv i t k) :
    i < e.topo.n → (∀ i, i < e.topo.n → ∀ q, q ∈ e.topo.nbrs i → q.1 < e.topo.n) →
    Fs.Reach (nbIdx e.topo) (seedP e) e.mask i → Fs.Reach (nbIdx e.topo) (seedP e) e.mask t := by
  induction hp with
  | nil i => intro _ _ h; exact h
  | cons i r t k hr hne _ ih =>
    intro hi hnb hreach
    obtain ⟨_, h2, h3, _⟩ := mrecv_step S p e f i hi r hr hne
    exact ih (mrecv_lt S p e f hnb i hi r hr) hnb (Fs.Reach.step i r hreach h3 h2)

end multi

/-! ### composition -/

section compose
variable (S : Scalar α) (L : ScalarLaws S) (p : α) (e : Env α) (z : Nat → α)

include L in
/-- a node connected to an unmasked base level that is not itself one has a proper receiver:
the flood closed it with a strictly lower unmasked neighbour (its parent), which is one of the
candidates of the multi router -/
theorem reach_has_lower
    (hnb : ∀ i, i < e.topo.n → ∀ p, p ∈ e.topo.nbrs i → p.1 < e.topo.n)
    (hsym : ∀ a b, a < e.topo.n → b ∈ nbIdx e.topo a → a ∈ nbIdx e.topo b)
    (hseeds : ∀ b, b ∈ e.seeds → b < e.topo.n) (hnodup : e.seeds.Nodup)
    (hbase : ∀ b, e.isBase b = true ↔ b ∈ e.seeds)
    (i : Nat) (hi : i < e.topo.n) (hr : Fs.Reach (nbIdx e.topo) (seedP e) e.mask i)
    (hs : seedP e i = false) :
    ∃ c, c ∈ (multiRouter S p e (filled S e z)).recv i ∧ c ≠ i := by
  have hm : e.mask i = false := by
    cases hr with
    | seed s h => rw [h] at hs; cases hs
    | step c m _ _ hm => exact hm
  have hcl := final_complete S e z L hnb hseeds hnodup i hr
  obtain ⟨c, hcn, hcm, hic, hlt⟩ := final_parent S e z L hnb hseeds hnodup i hcl hs
  rw [← pflood_elev S e z S.zero c hcn, ← pflood_elev S e z S.zero i hi] at hlt
  obtain ⟨q, hq, hqc⟩ := List.mem_map.mp (hsym c i hcn hic)
  have hqc' : q.1 = c := hqc
  have hb : e.isBase i = false := by
    cases hb : e.isBase i
    · rfl
    · rw [(seedP_iff e i).mpr ⟨(hbase i).mp hb, hm⟩] at hs; cases hs
  have h' : (e.mask i || e.isBase i) = false := by simp [hm, hb]
  have hmem := multi_has_lower S p e (filled S e z) i hi h' q hq (by rw [hqc']; exact hcm)
    (by rw [hqc']; exact hlt)
  refine ⟨q.1, hmem, ?_⟩
  intro heq
  rw [hqc'] at heq
  rw [heq, L.irrefl] at hlt
  cases hlt

include L in
/-- **C01, executed composition priority flood → multiple-direction router.**
`z'` is the elevation `pflood` returns, `g` the graph `multiRouter` builds on it.
(1) base-level and masked nodes are their own single receiver; (2) every proper receiver is an
unmasked neighbour with strictly lower returned elevation; (3) a node connected through unmasked
neighbours to an unmasked base level that is not a base level is not a pit (it has a proper
receiver), and (3') all receivers of a connected node are connected; (4a) the proper-receiver
relation is well founded, (4a') no flow path returns to its origin; (4b) a flow path stays in
range, has fewer than `n` steps, and ends strictly lower than it started; (4c) every maximal flow
path from a connected node ends at an unmasked base level, and (4c') every node has a maximal
flow path, the one following the first receiver. -/
theorem C01_pflood_multiRouter
    (hnb : ∀ i, i < e.topo.n → ∀ p, p ∈ e.topo.nbrs i → p.1 < e.topo.n)
    (hsym : ∀ a b, a < e.topo.n → b ∈ nbIdx e.topo a → a ∈ nbIdx e.topo b)
    (hseeds : ∀ b, b ∈ e.seeds → b < e.topo.n) (hnodup : e.seeds.Nodup)
    (hbase : ∀ b, e.isBase b = true ↔ b ∈ e.seeds) :
    let n := e.topo.n
    let nb := nbIdx e.topo
    let z' := look (pflood S e z) S.zero
    let g := multiRouter S p e z'
    -- (1)
    (∀ i, i < n → (e.mask i || e.isBase i) = true → g.recv i = [i]) ∧
    -- (2)
    (∀ i, i < n → ∀ r, r ∈ g.recv i → r ≠ i →
      S.lt (z' r) (z' i) = true ∧ e.mask r = false ∧ r ∈ nb i) ∧
    -- (3)
    (∀ i, i < n → Fs.Reach nb (seedP e) e.mask i → e.isBase i = false →
      g.recv i ≠ [i] ∧ ∃ r, r ∈ g.recv i ∧ r ≠ i) ∧
    -- (3')
    (∀ i, i < n → Fs.Reach nb (seedP e) e.mask i →
      ∀ r, r ∈ g.recv i → Fs.Reach nb (seedP e) e.mask r) ∧
    -- (4a)
    WellFounded (Fs.stepRel g.recv) ∧
    (∀ i, i < n → ∀ k, ¬ Path g.recv i i (k + 1)) ∧
    -- (4b)
    (∀ i, i < n → ∀ t k, Path g.recv i t k →
      t < n ∧ k < n ∧ (0 < k → S.lt (z' t) (z' i) = true)) ∧
    -- (4c)
    (∀ i, i < n → Fs.Reach nb (seedP e) e.mask i → ∀ t k, Path g.recv i t k → g.recv t = [t] →
      e.isBase t = true ∧ e.mask t = false) ∧
    (∀ i, i < n → ∃ t k, Path (fun j => [recv0 g j]) i t k ∧ Path g.recv i t k ∧
      g.recv t = [t]) := by
  intro n nb z' g
  have hpit : ∀ i, i < n → Fs.Reach nb (seedP e) e.mask i → seedP e i = false →
      g.recv i ≠ [i] ∧ ∃ r, r ∈ g.recv i ∧ r ≠ i := by
    intro i hi hr hs
    obtain ⟨c, hc, hci⟩ := reach_has_lower S L p e z hnb hsym hseeds hnodup hbase i hi hr hs
    refine ⟨fun hh => ?_, c, hc, hci⟩
    have hc' : c ∈ g.recv i := hc
    rw [hh] at hc'
    exact hci (List.mem_singleton.mp hc')
  refine ⟨?_, ?_, ?_, ?_, ?_, ?_, ?_, ?_, ?_⟩
  · intro i hi h
    exact multi_terminal S p e z' i hi h
  · intro i hi r hr hne
    obtain ⟨h1, h2, h3, _⟩ := mrecv_step S p e z' i hi r hr hne
    exact ⟨h1, h2, h3⟩
  · intro i hi hr hb
    apply hpit i hi hr
    cases hs : seedP e i
    · rfl
    · rw [(hbase i).mpr ((seedP_iff e i).mp hs).1] at hb; cases hb
  · intro i hi hr r hmem
    by_cases hri : r = i
    · rw [hri]; exact hr
    · obtain ⟨_, h2, h3, _⟩ := mrecv_step S p e z' i hi r hmem hri
      exact Fs.Reach.step i r hr h3 h2
  · exact multi_step_wf S L p e z' hnb
  · intro i hi k hp
    have := (path_rank S L p e z' hnb hp hi).2.1
    omega
  · intro i hi t k hp
    obtain ⟨h1, h2, h3⟩ := path_rank S L p e z' hnb hp hi
    have := elevRank_lt_n S L z' e.topo.n i hi
    exact ⟨h1, by omega, h3⟩
  · intro i hi hr t k hp hfix
    have htn := (path_rank S L p e z' hnb hp hi).1
    have htr := path_reach S p e z' hp hi hnb hr
    have hseed : seedP e t = true := by
      cases hs : seedP e t
      · exact absurd hfix (hpit t htn htr hs).1
      · rfl
    obtain ⟨s1, s2⟩ := (seedP_iff e t).mp hseed
    exact ⟨(hbase t).mpr s1, s2⟩
  · intro i hi
    obtain ⟨t, k, hp, ht⟩ := exists_maximal S L p e z' hnb i hi
    exact ⟨t, k, hp, first_path S p e z' hp hi hnb, ht⟩

end compose

/-! ### non-vacuity: the hypotheses are satisfiable -/

section example_

/-- the hypotheses of `C01_pflood_multiRouter` hold on the instance of `C01.lean` (profile
`0 - 1 - 2 - 3`, node 0 the base level, input elevation `5 7 1 9`), exponent `p := 1` -/
example :=
  C01_pflood_multiRouter exS exS_laws 1 exE exZ exE_hnb exE_hsym (by decide) (by decide) exE_hbase

/-- what the model computes there: filled elevation `5 7 8 9`, rows `[0] [0] [1] [2]` -/
example : (List.range 4).map (look (pflood exS exE exZ) exS.zero) = [5, 7, 8, 9] ∧
    (List.range 4).map (multiRouter exS 1 exE (look (pflood exS exE exZ) exS.zero)).recv =
      [[0], [0], [1], [2]] := by decide

/-- a diamond `3 → {1, 2} → 0` with a fifth, masked node 4 attached to node 3; node 0 is the base
level; node 3 is a pit of the input elevation `5 6 6 2 0` (the flood raises it to 7), and after the
flood it has the TWO receivers 1 and 2 (the lower masked node 4 is not a receiver) -/
def exE2 : Env Int where
  topo := { n := 5, nmax := 3,
            nbrs := fun i => if i = 0 then [(1, 1), (2, 1)] else if i = 1 then [(0, 1), (3, 1)]
                             else if i = 2 then [(0, 1), (3, 1)]
                             else if i = 3 then [(1, 1), (2, 1), (4, 1)]
                             else if i = 4 then [(3, 1)] else [] }
  mask := fun i => i == 4
  seeds := [0]
  isBase := fun i => i == 0

def exZ2 : Nat → Int :=
  fun i => if i = 0 then 5 else if i = 1 then 6 else if i = 2 then 6 else if i = 3 then 2 else 0

theorem exE2_hnb : ∀ i, i < exE2.topo.n → ∀ p, p ∈ exE2.topo.nbrs i → p.1 < exE2.topo.n := by
  decide

theorem exE2_hsym : ∀ a b, a < exE2.topo.n → b ∈ nbIdx exE2.topo a → a ∈ nbIdx exE2.topo b := by
  intro a b ha hb
  have ha' : a < 5 := ha
  match a, ha' with
  | 0, _ => simp [nbIdx, exE2] at hb; rcases hb with rfl | rfl <;> decide
  | 1, _ => simp [nbIdx, exE2] at hb; rcases hb with rfl | rfl <;> decide
  | 2, _ => simp [nbIdx, exE2] at hb; rcases hb with rfl | rfl <;> decide
  | 3, _ => simp [nbIdx, exE2] at hb; rcases hb with rfl | rfl | rfl <;> decide
  | 4, _ => simp [nbIdx, exE2] at hb; subst hb; decide

theorem exE2_hbase : ∀ b, exE2.isBase b = true ↔ b ∈ exE2.seeds := by
  intro b; simp [exE2]

example :=
  C01_pflood_multiRouter exS exS_laws 1 exE2 exZ2 exE2_hnb exE2_hsym (by decide) (by decide)
    exE2_hbase

/-- filled elevation `5 6 6 7` (the masked node keeps `0`), rows `[0] [0] [0] [1, 2] [4]` -/
example : (List.range 5).map (look (pflood exS exE2 exZ2) exS.zero) = [5, 6, 6, 7, 0] ∧
    (List.range 5).map (multiRouter exS 1 exE2 (look (pflood exS exE2 exZ2) exS.zero)).recv =
      [[0], [0], [0], [1, 2], [4]] := by decide

/-- two different maximal flow paths from node 3, both ending at the base level 0 -/
example : Path (multiRouter exS 1 exE2 (look (pflood exS exE2 exZ2) exS.zero)).recv 3 0 2 ∧
    Path (multiRouter exS 1 exE2 (look (pflood exS exE2 exZ2) exS.zero)).recv 3 0 2 :=
  ⟨Path.cons 3 1 0 1 (by decide) (by decide) (Path.cons 1 0 0 0 (by decide) (by decide) (Path.nil 0)),
   Path.cons 3 2 0 1 (by decide) (by decide) (Path.cons 2 0 0 0 (by decide) (by decide) (Path.nil 0))⟩

end example_

end Fs.C01

