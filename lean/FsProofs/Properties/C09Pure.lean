import FsModel.Driver
import FsModel.DriverMain
import FsProofs.Properties.C16
import FsProofs.Properties.C20

/-! # C09 — `update_routes` is history-free for every accepted operator sequence

One `update_routes` call of the executed model is `runOps hook env perms snapSingle r0 ops`
(`FsModel/Driver.lean`), where the initial running state `r0` still carries what the PREVIOUS call
left behind: `r0.g` (the previous graph tables) and `r0.snaps` (the previous graph snapshots).
This file proves that for every operator list accepted by the graph constructor
(`Fs.OpSeq.build (ops.map flagsOf)` is `some _`) nothing of that left-over state reaches the
result: the new graph, elevation, elevation snapshots, hang flag, certificate notes and every
graph snapshot saved by this call are the same whatever `r0.g` / `r0.snaps` were.

Why: `add_operator` refuses a graph READER (the spanning-tree resolver: `inDir = single`; a graph
snapshot: `graphSnapshot = true`) while the direction is still undefined, i.e. before the first
router, and a router overwrites the graph from `env` and the current elevation only. -/
namespace Fs.C09
open Fs.Flow Fs.Driver Fs.OpSeq

/-! ### frame condition on the spanning-tree hook -/

/-- the hook's graph / elevation / hang flag / notes depend only on `env`, the operator index,
`perms`, the two flags and on `r.g`, `r.elev`, `r.hang`, `r.notes` -/
def HookPure (hook : Hook) : Prop :=
  ∀ (env : Env F) (r r' : Run) (k : Nat) (p : List (Nat × List Nat)) (b c : Bool),
    r.g = r'.g → r.elev = r'.elev → r.hang = r'.hang → r.notes = r'.notes →
    (hook env r k p b c).g = (hook env r' k p b c).g ∧
    (hook env r k p b c).elev = (hook env r' k p b c).elev ∧
    (hook env r k p b c).hang = (hook env r' k p b c).hang ∧
    (hook env r k p b c).notes = (hook env r' k p b c).notes

/-- the executed hook (`mstHook` of `DriverMain.lean`) satisfies the frame condition -/
theorem mstHook_pure : HookPure mstHook := by
  intro env r r' k p b c h1 h2 h3 h4
  simp only [mstHook, h1, h2, h3, h4, and_self]

/-! ### what one accepted `add_operator` says about the direction -/

theorem add_dir (a a' : Acc) (f : Flags) (h : add a f = some a') :
    a'.outDir = dstep a.outDir f ∧ (f.graphSnapshot = true → a.outDir ≠ .undefined) ∧
    (f.inDir ≠ .undefined → f.inDir = a.outDir) := by
  unfold add at h
  split at h
  · cases h
  · rename_i h1
    split at h
    · cases h
    · rename_i h2
      cases h
      refine ⟨?_, ?_, ?_⟩
      · cases hg : f.graphUpdated <;> cases ho : (f.outDir != Dir.undefined) <;>
          cases f.elevUpdated <;> simp [dstep, hg, ho]
      · intro hs hu
        simp [hs, hu] at h1
      · intro hin
        simp only [Bool.and_eq_true, bne_iff_ne, ne_eq, not_and, Decidable.not_not] at h2
        exact h2 hin

theorem add_single (a a' : Acc) (t : Nat) (h : add a (flagsOf (.single t)) = some a') :
    a'.outDir ≠ .undefined := by
  rw [(add_dir a a' _ h).1]; simp [dstep, flagsOf, ofGen, ofGenDir, Fs.Gen.flags_single_flow_router]

theorem add_multi (a a' : Acc) (p : Float) (h : add a (flagsOf (.multi p)) = some a') :
    a'.outDir ≠ .undefined := by
  rw [(add_dir a a' _ h).1]; simp [dstep, flagsOf, ofGen, ofGenDir, Fs.Gen.flags_multi_flow_router]

theorem add_pflood (a a' : Acc) (h : add a (flagsOf .pflood) = some a') : a'.outDir = a.outDir := by
  rw [(add_dir a a' _ h).1]; simp [dstep, flagsOf, ofGen, ofGenDir, Fs.Gen.flags_pflood_sink_resolver]

/-- the spanning-tree resolver is accepted only once a (single-direction) router has run -/
theorem add_mst (a a' : Acc) (b cv : Bool) (h : add a (flagsOf (.mst b cv)) = some a') :
    a.outDir ≠ .undefined ∧ a'.outDir ≠ .undefined := by
  obtain ⟨h1, _, h3⟩ := add_dir a a' _ h
  constructor
  · have := h3 (by simp [flagsOf, ofGen, ofGenDir, Fs.Gen.flags_mst_sink_resolver])
    rw [← this]; simp [flagsOf, ofGen, ofGenDir, Fs.Gen.flags_mst_sink_resolver]
  · rw [h1]; simp [dstep, flagsOf, ofGen, ofGenDir, Fs.Gen.flags_mst_sink_resolver]

/-- a snapshot leaves the direction alone; a GRAPH snapshot is accepted only after a router -/
theorem add_snap (a a' : Acc) (nm : String) (g e : Bool) (h : add a (flagsOf (.snap nm g e)) = some a') :
    a'.outDir = a.outDir ∧ (g = true → a.outDir ≠ .undefined) := by
  obtain ⟨h1, h2, _⟩ := add_dir a a' _ h
  constructor
  · rw [h1]; simp [dstep, flagsOf, ofGen, ofGenDir, Fs.Gen.flags_flow_snapshot]
  · intro hg; exact h2 (by simp [flagsOf, ofGen, hg])

/-! ### one operator preserves agreement -/

/-- the parts of the running state that never hold left-over data -/
structure Core (r r' : Run) : Prop where
  elev : r.elev = r'.elev
  esnaps : r.esnaps = r'.esnaps
  hang : r.hang = r'.hang
  notes : r.notes = r'.notes

/-- the two runs hold the same graph snapshot (or both none) under the name `nm` -/
def SnapAgree (nm : String) (r r' : Run) : Prop :=
  r.snaps.find? (·.name == nm) = r'.snaps.find? (·.name == nm)

theorem stepOp_snap_fields (hook : Hook) (env : Env F) (perms) (sS : String → Bool) (r : Run)
    (n : String) (g e : Bool) (k : Nat) :
    (stepOp hook env perms sS r (.snap n g e, k)).g = r.g ∧
    (stepOp hook env perms sS r (.snap n g e, k)).elev = r.elev ∧
    (stepOp hook env perms sS r (.snap n g e, k)).hang = r.hang ∧
    (stepOp hook env perms sS r (.snap n g e, k)).notes = r.notes ∧
    (stepOp hook env perms sS r (.snap n g e, k)).esnaps =
      (if e then (r.esnaps.filter (·.1 != n)) ++ [(n, r.elev)] else r.esnaps) ∧
    (stepOp hook env perms sS r (.snap n g e, k)).snaps =
      (if g then (r.snaps.filter (·.name != n)) ++
        [{ name := n, g := snapCopy (sS n) r.g, mask := snapMask (sS n) env.mask,
           isBase := snapBase (sS n) env.isBase }] else r.snaps) := by
  cases g <;> cases e <;> exact ⟨rfl, rfl, rfl, rfl, rfl, rfl⟩

/-- **one step**: if the accumulator accepts the operator, the clean parts agree, and the graphs
agree as soon as a direction is defined, then the same holds after the operator; snapshots that
agreed still agree, and a graph snapshot saved by this operator agrees -/
theorem stepOp_agree (hook : Hook) (hf : HookFrame hook) (hp : HookPure hook) (env : Env F) (perms)
    (sS : String → Bool) (r r' : Run) (ok : Op × Nat) (a a' : Acc)
    (hadd : add a (flagsOf ok.1) = some a') (hc : Core r r')
    (hg : a.outDir ≠ .undefined → r.g = r'.g) :
    Core (stepOp hook env perms sS r ok) (stepOp hook env perms sS r' ok) ∧
    (a'.outDir ≠ .undefined → (stepOp hook env perms sS r ok).g = (stepOp hook env perms sS r' ok).g) ∧
    ∀ nm, (SnapAgree nm r r' ∨ isGraphSnapOf nm ok.1 = true) →
      SnapAgree nm (stepOp hook env perms sS r ok) (stepOp hook env perms sS r' ok) := by
  obtain ⟨op, k⟩ := ok
  obtain ⟨he, hes, hh, hn⟩ := hc
  cases op with
  | single t =>
    refine ⟨⟨he, hes, hh, hn⟩, ?_, ?_⟩
    · intro _; show singleRouter S env _ r.elev = singleRouter S env _ r'.elev; rw [he]
    · intro nm h
      rcases h with h | h
      · exact h
      · simp [isGraphSnapOf] at h
  | multi p =>
    refine ⟨⟨he, hes, hh, hn⟩, ?_, ?_⟩
    · intro _; show multiRouter S p env r.elev = multiRouter S p env r'.elev; rw [he]
    · intro nm h
      rcases h with h | h
      · exact h
      · simp [isGraphSnapOf] at h
  | pflood =>
    have hd := add_pflood a a' hadd
    refine ⟨⟨?_, hes, hh, hn⟩, ?_, ?_⟩
    · show look (pflood S env r.elev) 0.0 = look (pflood S env r'.elev) 0.0; rw [he]
    · intro h; rw [hd] at h; exact hg h
    · intro nm h
      rcases h with h | h
      · exact h
      · simp [isGraphSnapOf] at h
  | mst b cv =>
    obtain ⟨hd, _⟩ := add_mst a a' b cv hadd
    have hgg := hg hd
    obtain ⟨p1, p2, p3, p4⟩ := hp env r r' k perms b cv hgg he hh hn
    obtain ⟨f1, f2⟩ := hf env r k perms b cv
    obtain ⟨f1', f2'⟩ := hf env r' k perms b cv
    refine ⟨⟨p2, ?_, p3, p4⟩, fun _ => p1, ?_⟩
    · show (hook env r k perms b cv).esnaps = (hook env r' k perms b cv).esnaps
      rw [f2, f2', hes]
    · intro nm h
      rcases h with h | h
      · show (hook env r k perms b cv).snaps.find? _ = (hook env r' k perms b cv).snaps.find? _
        rw [f1, f1']; exact h
      · simp [isGraphSnapOf] at h
  | snap n g e =>
    obtain ⟨hd, hdg⟩ := add_snap a a' n g e hadd
    obtain ⟨s1, s2, s3, s4, s5, s6⟩ := stepOp_snap_fields hook env perms sS r n g e k
    obtain ⟨t1, t2, t3, t4, t5, t6⟩ := stepOp_snap_fields hook env perms sS r' n g e k
    refine ⟨⟨by rw [s2, t2, he], by rw [s5, t5, hes, he], by rw [s3, t3, hh], by rw [s4, t4, hn]⟩, ?_, ?_⟩
    · intro h; rw [hd] at h; rw [s1, t1]; exact hg h
    · intro nm h
      unfold SnapAgree
      rw [s6, t6]
      cases g with
      | false =>
        rcases h with h | h
        · exact h
        · simp [isGraphSnapOf] at h
      | true =>
        have hgg : r.g = r'.g := hg (hdg rfl)
        simp only [if_true]
        by_cases hnm : n = nm
        · subst hnm
          rw [find_filter_append_same r.snaps n _ rfl, find_filter_append_same r'.snaps n _ rfl, hgg]
        · have hne : (n == nm) = false := by simp [hnm]
          rw [find_filter_append_other r.snaps nm n _ rfl hne,
            find_filter_append_other r'.snaps nm n _ rfl hne]
          rcases h with h | h
          · exact h
          · simp [isGraphSnapOf, hnm] at h

/-! ### the whole sequence -/

theorem foldl_agree (hook : Hook) (hf : HookFrame hook) (hp : HookPure hook) (env : Env F) (perms)
    (sS : String → Bool) (l : List (Op × Nat)) (a b : Acc) (r r' : Run)
    (hacc : (l.map (fun ok => flagsOf ok.1)).foldlM add a = some b) (hc : Core r r')
    (hg : a.outDir ≠ .undefined → r.g = r'.g) :
    Core (l.foldl (stepOp hook env perms sS) r) (l.foldl (stepOp hook env perms sS) r') ∧
    (b.outDir ≠ .undefined →
      (l.foldl (stepOp hook env perms sS) r).g = (l.foldl (stepOp hook env perms sS) r').g) ∧
    ∀ nm, (SnapAgree nm r r' ∨ ∃ ok, ok ∈ l ∧ isGraphSnapOf nm ok.1 = true) →
      SnapAgree nm (l.foldl (stepOp hook env perms sS) r) (l.foldl (stepOp hook env perms sS) r') := by
  induction l generalizing a r r' with
  | nil =>
    simp only [List.map_nil, List.foldlM_nil] at hacc
    cases hacc
    refine ⟨hc, hg, ?_⟩
    intro nm h
    rcases h with h | ⟨ok, hok, _⟩
    · exact h
    · cases hok
  | cons x t ih =>
    simp only [List.map_cons, List.foldlM_cons] at hacc
    cases hadd : add a (flagsOf x.1) with
    | none => simp [hadd] at hacc
    | some a' =>
      simp only [hadd] at hacc
      obtain ⟨c1, g1, s1⟩ := stepOp_agree hook hf hp env perms sS r r' x a a' hadd hc hg
      obtain ⟨c2, g2, s2⟩ := ih a' _ _ hacc c1 g1
      simp only [List.foldl_cons]
      refine ⟨c2, g2, ?_⟩
      intro nm h
      apply s2
      rcases h with h | ⟨ok, hok, hs⟩
      · exact Or.inl (s1 nm (Or.inl h))
      · rcases List.mem_cons.mp hok with rfl | hok
        · exact Or.inl (s1 nm (Or.inr hs))
        · exact Or.inr ⟨ok, hok, hs⟩

theorem map_flags_zipIdx (ops : List Op) (k : Nat) :
    (ops.zipIdx k).map (fun ok => flagsOf ok.1) = ops.map flagsOf := by
  induction ops generalizing k with
  | nil => rfl
  | cons o t ih => simp only [List.zipIdx_cons, List.map_cons, ih]

theorem mem_zipIdx_fst (ops : List Op) (k : Nat) (o : Op) (h : o ∈ ops) :
    ∃ ok, ok ∈ ops.zipIdx k ∧ ok.1 = o := by
  induction ops generalizing k with
  | nil => cases h
  | cons x t ih =>
    rcases List.mem_cons.mp h with rfl | h
    · exact ⟨(o, k), by simp [List.zipIdx_cons], rfl⟩
    · obtain ⟨ok, h1, h2⟩ := ih (k + 1) h
      exact ⟨ok, by simp only [List.zipIdx_cons]; exact List.mem_cons_of_mem _ h1, h2⟩

/-- an accepted sequence is folded by `add` to an accumulator with a defined direction -/
theorem build_some (fl : List Flags) (h : (build fl).isSome = true) :
    ∃ b, fl.foldlM add ({} : Acc) = some b ∧ b.outDir ≠ .undefined := by
  unfold build at h
  cases hf : fl.foldlM add ({} : Acc) with
  | none => simp [hf] at h
  | some b =>
    simp only [hf, Option.bind_some] at h
    refine ⟨b, rfl, ?_⟩
    split at h
    · rename_i hh
      simp only [Bool.and_eq_true, bne_iff_ne, ne_eq] at hh
      exact hh.2
    · cases h

/-- general form: besides the snapshots saved by this call, every snapshot name on which the two
initial states agreed still agrees afterwards -/
theorem runOps_history_free' (hook : Hook) (hf : HookFrame hook) (hp : HookPure hook) (env : Env F)
    (perms : List (Nat × List Nat)) (sS : String → Bool) (ops : List Op)
    (hacc : (Fs.OpSeq.build (ops.map flagsOf)).isSome = true)
    (r0 r0' : Run) (helev : r0.elev = r0'.elev) (hes : r0.esnaps = r0'.esnaps)
    (hhang : r0.hang = r0'.hang) (hnotes : r0.notes = r0'.notes) :
    (runOps hook env perms sS r0 ops).elev = (runOps hook env perms sS r0' ops).elev ∧
    (runOps hook env perms sS r0 ops).g = (runOps hook env perms sS r0' ops).g ∧
    (runOps hook env perms sS r0 ops).esnaps = (runOps hook env perms sS r0' ops).esnaps ∧
    (runOps hook env perms sS r0 ops).hang = (runOps hook env perms sS r0' ops).hang ∧
    (runOps hook env perms sS r0 ops).notes = (runOps hook env perms sS r0' ops).notes ∧
    ∀ nm, (r0.snaps.find? (·.name == nm) = r0'.snaps.find? (·.name == nm) ∨
        ∃ o, o ∈ ops ∧ isGraphSnapOf nm o = true) →
      (runOps hook env perms sS r0 ops).snaps.find? (·.name == nm) =
        (runOps hook env perms sS r0' ops).snaps.find? (·.name == nm) := by
  obtain ⟨b, hb, hbd⟩ := build_some _ hacc
  rw [← map_flags_zipIdx ops 0] at hb
  obtain ⟨c, g, s⟩ := foldl_agree hook hf hp env perms sS ops.zipIdx {} b r0 r0' hb
    ⟨helev, hes, hhang, hnotes⟩ (fun h => absurd rfl h)
  refine ⟨c.elev, g hbd, c.esnaps, c.hang, c.notes, ?_⟩
  intro nm h
  apply s nm
  rcases h with h | ⟨o, ho, hs⟩
  · exact Or.inl h
  · obtain ⟨ok, h1, h2⟩ := mem_zipIdx_fst ops 0 o ho
    exact Or.inr ⟨ok, h1, by rw [h2]; exact hs⟩

/-- **runOps_history_free** — for every ACCEPTED operator sequence the model's `update_routes` does
not depend on the graph tables `r0.g` and the graph snapshots `r0.snaps` left by the previous
call (both arbitrary here): the resulting elevation, graph, elevation snapshots, hang flag and
notes are identical, and so is every graph snapshot that this call saves.

Adjustment w.r.t. "the complete resulting state": the raw list `r.snaps` as a whole can differ,
because `stepOp` keeps left-over entries of names that this call does not save (`foldl_other` of
C16: such an entry is exactly the one of `r0.snaps`).  Those entries are never read by
`callUpdate` (it prints only the names saved by this call's operators), which is why the last
clause is restricted to saved names; `runOps_history_free'` adds the names on which the two
initial states already agree. -/
theorem runOps_history_free (hook : Hook) (hf : HookFrame hook) (hp : HookPure hook) (env : Env F)
    (perms : List (Nat × List Nat)) (sS : String → Bool) (ops : List Op)
    (hacc : (Fs.OpSeq.build (ops.map flagsOf)).isSome = true)
    (r0 r0' : Run) (helev : r0.elev = r0'.elev) (hes : r0.esnaps = r0'.esnaps)
    (hhang : r0.hang = r0'.hang) (hnotes : r0.notes = r0'.notes) :
    let r := runOps hook env perms sS r0 ops
    let r' := runOps hook env perms sS r0' ops
    r.elev = r'.elev ∧ r.g = r'.g ∧ r.esnaps = r'.esnaps ∧ r.hang = r'.hang ∧ r.notes = r'.notes ∧
    ∀ nm, (∃ o, o ∈ ops ∧ match o with | .snap n true _ => n = nm | _ => False) →
      r.snaps.find? (·.name == nm) = r'.snaps.find? (·.name == nm) := by
  intro r r'
  obtain ⟨h1, h2, h3, h4, h5, h6⟩ :=
    runOps_history_free' hook hf hp env perms sS ops hacc r0 r0' helev hes hhang hnotes
  refine ⟨h1, h2, h3, h4, h5, ?_⟩
  intro nm ⟨o, ho, hs⟩
  apply h6 nm
  refine Or.inr ⟨o, ho, ?_⟩
  cases o with
  | snap n g e =>
    cases g with
    | true => simp only at hs; simp [isGraphSnapOf, hs]
    | false => simp only at hs
  | _ => simp only at hs

/-- **update_history_free** — the same for the hook the driver executes (`mstHook`) -/
theorem update_history_free (env : Env F) (perms : List (Nat × List Nat)) (sS : String → Bool)
    (ops : List Op) (hacc : (Fs.OpSeq.build (ops.map flagsOf)).isSome = true)
    (r0 r0' : Run) (helev : r0.elev = r0'.elev) (hes : r0.esnaps = r0'.esnaps)
    (hhang : r0.hang = r0'.hang) (hnotes : r0.notes = r0'.notes) :
    let r := runOps mstHook env perms sS r0 ops
    let r' := runOps mstHook env perms sS r0' ops
    r.elev = r'.elev ∧ r.g = r'.g ∧ r.esnaps = r'.esnaps ∧ r.hang = r'.hang ∧ r.notes = r'.notes ∧
    ∀ nm, (∃ o, o ∈ ops ∧ match o with | .snap n true _ => n = nm | _ => False) →
      r.snaps.find? (·.name == nm) = r'.snaps.find? (·.name == nm) :=
  runOps_history_free mstHook mstHook_frame mstHook_pure env perms sS ops hacc r0 r0' helev hes hhang hnotes

/-- the initial state `callUpdate` builds: the new elevation on top of the previous call's graph
and snapshots -/
def startRun (z : Nat → F) (g : Graph F) (snaps : List Snap) : Run :=
  { elev := z, g := g, snaps := snaps, esnaps := [] }

/-- in the shape `callUpdate` uses it: whatever graph and snapshots the previous call left, a
fresh graph (`Graph.empty`, no snapshots - what `callGraph` installs) gives the same result -/
theorem update_eq_fresh (env : Env F) (perms : List (Nat × List Nat)) (sS : String → Bool)
    (ops : List Op) (hacc : (Fs.OpSeq.build (ops.map flagsOf)).isSome = true)
    (z : Nat → F) (g : Graph F) (snaps : List Snap) :
    let r := runOps mstHook env perms sS (startRun z g snaps) ops
    let r' := runOps mstHook env perms sS (startRun z Graph.empty []) ops
    r.elev = r'.elev ∧ r.g = r'.g ∧ r.esnaps = r'.esnaps ∧ r.hang = r'.hang ∧ r.notes = r'.notes ∧
    ∀ nm, (∃ o, o ∈ ops ∧ match o with | .snap n true _ => n = nm | _ => False) →
      r.snaps.find? (·.name == nm) = r'.snaps.find? (·.name == nm) :=
  update_history_free env perms sS ops hacc _ _ rfl rfl rfl rfl

/-! ### the driver call `callUpdate` -/

theorem flatMap_congr_mem {α β : Type} (l : List α) (f g : α → List β) (h : ∀ x, x ∈ l → f x = g x) :
    l.flatMap f = l.flatMap g := by
  induction l with
  | nil => rfl
  | cons a t ih =>
    simp only [List.flatMap_cons]
    rw [h a List.mem_cons_self, ih (fun x hx => h x (List.mem_cons_of_mem _ hx))]

/-- the operator list `callUpdate` runs (echoed by the harness in `I ops`) -/
def opsOf (c : Call) : List Op := ((findInp c "ops").getD []).filterMap parseOp

/-- **callUpdate_history_free** — the executed driver call: two driver states with the same
topology but ARBITRARY graph tables and snapshot lists (and any other fields) print the same
`O` lines for an `update` call whose operator list is accepted, and store the same graph, mask,
base levels, implementation tables and saved snapshots. -/
theorem callUpdate_history_free (c : Call) (st st' : St) (htopo : st.topo = st'.topo)
    (hacc : (Fs.OpSeq.build ((opsOf c).map flagsOf)).isSome = true) :
    (callUpdate c st mstHook).2 = (callUpdate c st' mstHook).2 ∧
    (callUpdate c st mstHook).1.g = (callUpdate c st' mstHook).1.g ∧
    (callUpdate c st mstHook).1.mask = (callUpdate c st' mstHook).1.mask ∧
    (callUpdate c st mstHook).1.isBase = (callUpdate c st' mstHook).1.isBase ∧
    (callUpdate c st mstHook).1.implT = (callUpdate c st' mstHook).1.implT ∧
    ∀ nm, (∃ o, o ∈ opsOf c ∧ match o with | .snap n true _ => n = nm | _ => False) →
      (callUpdate c st mstHook).1.snaps.find? (·.name == nm) =
        (callUpdate c st' mstHook).1.snaps.find? (·.name == nm) := by
  unfold opsOf at hacc ⊢
  unfold callUpdate
  simp only [htopo]
  generalize hr : runOps mstHook _ _ _ { elev := _, g := st.g, snaps := st.snaps, esnaps := [] } _ = r
  generalize hr' : runOps mstHook _ _ _ { elev := _, g := st'.g, snaps := st'.snaps, esnaps := [] } _ = r'
  obtain ⟨h1, h2, h3, h4, h5, h6⟩ : r.elev = r'.elev ∧ r.g = r'.g ∧ r.esnaps = r'.esnaps ∧
      r.hang = r'.hang ∧ r.notes = r'.notes ∧
      ∀ nm, (∃ o, o ∈ ((findInp c "ops").getD []).filterMap parseOp ∧
          match o with | .snap n true _ => n = nm | _ => False) →
        r.snaps.find? (·.name == nm) = r'.snaps.find? (·.name == nm) := by
    rw [← hr, ← hr']
    exact update_history_free _ _ _ _ hacc _ _ rfl rfl rfl rfl
  refine ⟨?_, h2, trivial, trivial, trivial, h6⟩
  rw [h1, h2, h3, h4, h5]
  split
  · rfl
  · congr 4
    apply flatMap_congr_mem
    intro nm hnm
    rw [h6 nm]
    obtain ⟨o, ho, hs⟩ := List.mem_filterMap.mp hnm
    refine ⟨o, ho, ?_⟩
    cases o with
    | snap n g e =>
      cases g with
      | true => simp only [Option.some.injEq] at hs; simp only [hs]
      | false => simp only [reduceCtorEq] at hs
    | _ => simp only [reduceCtorEq] at hs

/-! ### the hypotheses are satisfiable; the restriction to accepted sequences is needed -/

/-- `[pflood, single]` is accepted -/
example : (Fs.OpSeq.build ([Op.pflood, Op.single 0].map flagsOf)).isSome = true := by decide

/-- a longer accepted sequence with both kinds of graph readers after the router -/
example : (Fs.OpSeq.build ([Op.pflood, Op.single 0, Op.snap "a" true true, Op.mst false true,
    Op.snap "b" true false, Op.multi 0.0].map flagsOf)).isSome = true := by decide

/-- instance: on `[pflood, single]` the graph does not depend on the left-over graph `g` -/
example (env : Env F) (z : Nat → F) (g g' : Graph F) (s s' : List Snap) :
    (runOps mstHook env [] (fun _ => true) (startRun z g s) [.pflood, .single 0]).g =
    (runOps mstHook env [] (fun _ => true) (startRun z g' s') [.pflood, .single 0]).g :=
  (update_history_free env [] (fun _ => true) [.pflood, .single 0] (by decide)
    (startRun z g s) (startRun z g' s') rfl rfl rfl rfl).2.1

/-- acceptance cannot be dropped: a sequence without a router (refused by the constructor)
returns the left-over graph unchanged -/
example (hook : Hook) (env : Env F) (z : Nat → F) (g : Graph F) (s : List Snap) :
    (Fs.OpSeq.build ([Op.pflood].map flagsOf)).isSome = false ∧
    (runOps hook env [] (fun _ => true) (startRun z g s) [.pflood]).g = g :=
  ⟨by decide, rfl⟩

/-- `callUpdate_history_free` is not vacuous: any `update` call whose `I ops` line parses to
`pflood single snap:a:ge mst:k:carve` (string parsing itself does not reduce in the kernel, hence
the hypothesis `h`) has an accepted operator list, so the printed lines do not depend on the
previous state -/
example (c : Call) (st st' : St) (htopo : st.topo = st'.topo)
    (h : opsOf c = [.pflood, .single 0, .snap "a" true true, .mst false true]) :
    (callUpdate c st mstHook).2 = (callUpdate c st' mstHook).2 :=
  (callUpdate_history_free c st st' htopo (by rw [h]; decide)).1

end Fs.C09

