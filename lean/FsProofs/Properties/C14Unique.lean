import FsProofs.Properties.C14E2E
import Mathlib.Tactic.Linarith
import Mathlib.Tactic.LinearCombination

/-! # C14 — the ADI step is *the* solution of the two Peaceman–Rachford half-step systems

`FsProofs/Properties/C14E2E.lean` shows that what `Fs.Adi.erode` returns is `e - new` where `tmp`,
`new` satisfy `HalfStepSpec` and `SecondHalfStepSpec`.  This file adds the missing half of the
determination: each half-step system has at most one solution on the grid (discrete maximum
principle for the strictly diagonally dominant tridiagonal rows), so the executed result coincides
with `e - new'` for *any* pair `tmp'`, `new'` solving the two systems ("as obtained by solving the
two linear systems directly").

* `tridiag_unique` : uniqueness for one tridiagonal system of the ADI form;
* `halfStepSpec_unique`, `secondHalfStepSpec_unique` (and the `…_of_eqOn` forms, where the two
  inputs only have to agree on the grid);
* `erode_determined`, `erode_determined_array`. -/
namespace Fs.C14
open Fs Fs.Adi

section ordered
variable {α : Type} [Field α] [LinearOrder α] [IsStrictOrderedRing α]

/-! ## 1. one tridiagonal system: discrete maximum principle -/

omit [Field α] [IsStrictOrderedRing α] in
/-- a finite range `0..m` has an index where `d` is maximal -/
theorem exists_argmax (d : Nat → α) (m : Nat) : ∃ j, j ≤ m ∧ ∀ i, i ≤ m → d i ≤ d j := by
  induction m with
  | zero =>
    refine ⟨0, Nat.le_refl 0, fun i hi => ?_⟩
    have : i = 0 := by omega
    subst this; exact le_refl _
  | succ m ih =>
    obtain ⟨j, hj, hmax⟩ := ih
    by_cases h : d j ≤ d (m + 1)
    · refine ⟨m + 1, Nat.le_refl _, fun i hi => ?_⟩
      by_cases hi' : i ≤ m
      · exact le_trans (hmax i hi') h
      · have : i = m + 1 := by omega
        subst this; exact le_refl _
    · refine ⟨j, by omega, fun i hi => ?_⟩
      by_cases hi' : i ≤ m
      · exact hmax i hi'
      · have : i = m + 1 := by omega
        subst this; exact le_of_lt (not_le.mp h)

/-- one-sided maximum principle: a solution of the homogeneous ADI rows with zero end values is
nowhere positive -/
theorem tridiag_homog_le_zero (m : Nat) (a k d : Nat → α)
    (ha : ∀ c, 0 < c → c < m → 0 ≤ a c) (hk : ∀ c, 0 < c → c < m → 0 ≤ k c)
    (h0 : d 0 = 0) (hm : d m = 0)
    (heq : ∀ c, 0 < c → c < m → -(a c) * d (c - 1) + (1 + a c + k c) * d c - k c * d (c + 1) = 0) :
    ∀ c, c ≤ m → d c ≤ 0 := by
  obtain ⟨j, hj, hmax⟩ := exists_argmax d m
  have hdj : d j ≤ 0 := by
    by_cases hj0 : j = 0
    · rw [hj0, h0]
    · by_cases hjm : j = m
      · rw [hjm, hm]
      · have hpos : 0 < j := Nat.pos_of_ne_zero hj0
        have hlt : j < m := by omega
        have h1 := mul_le_mul_of_nonneg_left (hmax (j - 1) (by omega)) (ha j hpos hlt)
        have h2 := mul_le_mul_of_nonneg_left (hmax (j + 1) (by omega)) (hk j hpos hlt)
        have h3 := heq j hpos hlt
        linarith
  intro c hc
  exact le_trans (hmax c hc) hdj

/-- the homogeneous system only has the zero solution -/
theorem tridiag_homog_zero (m : Nat) (a k d : Nat → α)
    (ha : ∀ c, 0 < c → c < m → 0 ≤ a c) (hk : ∀ c, 0 < c → c < m → 0 ≤ k c)
    (h0 : d 0 = 0) (hm : d m = 0)
    (heq : ∀ c, 0 < c → c < m → -(a c) * d (c - 1) + (1 + a c + k c) * d c - k c * d (c + 1) = 0) :
    ∀ c, c ≤ m → d c = 0 := by
  intro c hc
  have hle := tridiag_homog_le_zero m a k d ha hk h0 hm heq c hc
  have hge := tridiag_homog_le_zero m a k (fun i => -d i) ha hk (by simp [h0]) (by simp [hm])
    (fun i hi0 him => by
      have := heq i hi0 him
      show -(a i) * -d (i - 1) + (1 + a i + k i) * -d i - k i * -d (i + 1) = 0
      linear_combination -this) c hc
  exact le_antisymm hle (by linarith)

/-- **tridiag_unique**: a strictly diagonally dominant tridiagonal system of the ADI form on the
indices `0..m` (first and last unknowns prescribed, `-(a c) x(c-1) + (1 + a c + k c) x(c) -
(k c) x(c+1)` prescribed at `0 < c < m`, `a, k ≥ 0`) has at most one solution.  The sign
hypotheses are only needed at the interior indices. -/
theorem tridiag_unique (m : Nat) (a k x y : Nat → α)
    (ha : ∀ c, 0 < c → c < m → 0 ≤ a c) (hk : ∀ c, 0 < c → c < m → 0 ≤ k c)
    (h0 : x 0 = y 0) (hm : x m = y m)
    (heq : ∀ c, 0 < c → c < m →
      -(a c) * x (c - 1) + (1 + a c + k c) * x c - k c * x (c + 1)
        = -(a c) * y (c - 1) + (1 + a c + k c) * y c - k c * y (c + 1)) :
    ∀ c, c ≤ m → x c = y c := by
  intro c hc
  have := tridiag_homog_zero m a k (fun i => x i - y i) ha hk (by simp [h0]) (by simp [hm])
    (fun i hi0 him => by
      have := heq i hi0 him
      show -(a i) * (x (i - 1) - y (i - 1)) + (1 + a i + k i) * (x i - y i) - k i * (x (i + 1) - y (i + 1)) = 0
      linear_combination this) c hc
  exact sub_eq_zero.mp this

/-- the non-negativity hypotheses of `tridiag_unique` cannot be dropped: with `m = 2`, `a 1 = -1`,
`k 1 = 0` the middle row reads `x 0 + 0 * x 1 = …`, which leaves `x 1` free -/
example : ∃ (a k x y : Nat → ℚ), x 0 = y 0 ∧ x 2 = y 2 ∧
    (∀ c, 0 < c → c < 2 →
      -(a c) * x (c - 1) + (1 + a c + k c) * x c - k c * x (c + 1)
        = -(a c) * y (c - 1) + (1 + a c + k c) * y c - k c * y (c + 1)) ∧ x 1 ≠ y 1 := by
  refine ⟨fun _ => -1, fun _ => 0, fun c => if c = 1 then 1 else 0, fun _ => 0, by decide, by decide, ?_, by decide⟩
  intro c h0 h2
  have : c = 1 := by omega
  subst this
  norm_num

/-- `tridiag_unique` on a non-trivial instance: hypotheses satisfiable with `x = y` non-constant -/
example : ∀ c, c ≤ 3 → (fun i : Nat => ((i * i : Nat) : ℚ)) c = (fun i : Nat => ((i * i : Nat) : ℚ)) c :=
  tridiag_unique 3 (fun c => (c : ℚ)) (fun c => 2 * (c : ℚ)) _ _
    (fun c _ _ => by positivity) (fun c _ _ => by positivity) rfl rfl (fun _ _ _ => rfl)

/-! ## 2. uniqueness of the two half steps -/

/-- **halfStepSpec_unique**, general form: two solutions of the first half-step system for inputs
that agree on the grid agree on the grid (the right-hand side at an interior node reads `e` at
`(r, c)`, `(r-1, c)`, `(r+1, c)` only, all on the grid) -/
theorem halfStepSpec_unique_of_eqOn (R C : Nat) (frow fcol : Factors α) (dt : α) (e e' t t' : Fld α)
    (hdt : 0 ≤ dt) (h0 : ∀ r c, 0 ≤ fcol.f0 r c) (h2 : ∀ r c, 0 ≤ fcol.f2 r c)
    (hmid : ∀ r c, 2 * fcol.f1 r c = fcol.f0 r c + fcol.f2 r c)
    (he : ∀ r c, r ≤ R → c ≤ C → e r c = e' r c)
    (s : HalfStepSpec R C frow fcol dt e t) (s' : HalfStepSpec R C frow fcol dt e' t') :
    ∀ r c, r ≤ R → c ≤ C → t r c = t' r c := by
  intro r c hr hc
  by_cases hr0 : r = 0
  · subst hr0; rw [s.first_row c hc, s'.first_row c hc, he 0 c hr hc]
  by_cases hrR : r = R
  · subst hrR; rw [s.last_row c hc, s'.last_row c hc, he r c hr hc]
  have hrpos : 0 < r := Nat.pos_of_ne_zero hr0
  have hrlt : r < R := by omega
  refine tridiag_unique C (fun c => fcol.f0 r c * dt) (fun c => fcol.f2 r c * dt) (t r) (t' r)
    (fun c _ _ => mul_nonneg (h0 r c) hdt) (fun c _ _ => mul_nonneg (h2 r c) hdt) ?_ ?_ ?_ c hc
  · rw [s.first_col r hr, s'.first_col r hr, he r 0 hr (Nat.zero_le C)]
  · rw [s.last_col r hr, s'.last_col r hr, he r C hr (Nat.le_refl C)]
  · intro j hj0 hjC
    have e1 := s.interior r hrpos hrlt j hj0 hjC
    have e2 := s'.interior r hrpos hrlt j hj0 hjC
    rw [← he r j hr (by omega), ← he (r - 1) j (by omega) (by omega), ← he (r + 1) j (by omega) (by omega)] at e2
    have hm := hmid r j
    show -(fcol.f0 r j * dt) * t r (j - 1) + (1 + fcol.f0 r j * dt + fcol.f2 r j * dt) * t r j
        - fcol.f2 r j * dt * t r (j + 1)
      = -(fcol.f0 r j * dt) * t' r (j - 1) + (1 + fcol.f0 r j * dt + fcol.f2 r j * dt) * t' r j
        - fcol.f2 r j * dt * t' r (j + 1)
    linear_combination e1 - e2 - dt * (t r j - t' r j) * hm

/-- **halfStepSpec_unique**: the first half-step system determines its solution on the grid -/
theorem halfStepSpec_unique (R C : Nat) (frow fcol : Factors α) (dt : α) (e t t' : Fld α)
    (hdt : 0 ≤ dt) (h0 : ∀ r c, 0 ≤ fcol.f0 r c) (h2 : ∀ r c, 0 ≤ fcol.f2 r c)
    (hmid : ∀ r c, 2 * fcol.f1 r c = fcol.f0 r c + fcol.f2 r c)
    (s : HalfStepSpec R C frow fcol dt e t) (s' : HalfStepSpec R C frow fcol dt e t') :
    ∀ r c, r ≤ R → c ≤ C → t r c = t' r c :=
  halfStepSpec_unique_of_eqOn R C frow fcol dt e e t t' hdt h0 h2 hmid (fun _ _ _ _ => rfl) s s'

/-- **secondHalfStepSpec_unique**, general form: two solutions of the second half-step system for
intermediate fields that agree on the grid agree on the grid (the right-hand side at an interior
node reads `tmp` at `(r, c)`, `(r, c-1)`, `(r, c+1)` only) -/
theorem secondHalfStepSpec_unique_of_eqOn (R C : Nat) (frow fcol : Factors α) (dt : α) (tmp tmp' new new' : Fld α)
    (hdt : 0 ≤ dt) (h0 : ∀ r c, 0 ≤ frow.f0 r c) (h2 : ∀ r c, 0 ≤ frow.f2 r c)
    (hmid : ∀ r c, 2 * frow.f1 r c = frow.f0 r c + frow.f2 r c)
    (ht : ∀ r c, r ≤ R → c ≤ C → tmp r c = tmp' r c)
    (s : SecondHalfStepSpec R C frow fcol dt tmp new) (s' : SecondHalfStepSpec R C frow fcol dt tmp' new') :
    ∀ r c, r ≤ R → c ≤ C → new r c = new' r c := by
  intro r c hr hc
  by_cases hc0 : c = 0
  · subst hc0; rw [s.first_col r hr, s'.first_col r hr, ht r 0 hr hc]
  by_cases hcC : c = C
  · subst hcC; rw [s.last_col r hr, s'.last_col r hr, ht r c hr hc]
  have hcpos : 0 < c := Nat.pos_of_ne_zero hc0
  have hclt : c < C := by omega
  refine tridiag_unique R (fun r => frow.f0 r c * dt) (fun r => frow.f2 r c * dt)
    (fun r => new r c) (fun r => new' r c)
    (fun r _ _ => mul_nonneg (h0 r c) hdt) (fun r _ _ => mul_nonneg (h2 r c) hdt) ?_ ?_ ?_ r hr
  · show new 0 c = new' 0 c
    rw [s.first_row c hc, s'.first_row c hc, ht 0 c (Nat.zero_le R) hc]
  · show new R c = new' R c
    rw [s.last_row c hc, s'.last_row c hc, ht R c (Nat.le_refl R) hc]
  · intro j hj0 hjR
    have e1 := s.interior j hj0 hjR c hcpos hclt
    have e2 := s'.interior j hj0 hjR c hcpos hclt
    rw [← ht j c (by omega) hc, ← ht j (c - 1) (by omega) (by omega), ← ht j (c + 1) (by omega) (by omega)] at e2
    have hm := hmid j c
    show -(frow.f0 j c * dt) * new (j - 1) c + (1 + frow.f0 j c * dt + frow.f2 j c * dt) * new j c
        - frow.f2 j c * dt * new (j + 1) c
      = -(frow.f0 j c * dt) * new' (j - 1) c + (1 + frow.f0 j c * dt + frow.f2 j c * dt) * new' j c
        - frow.f2 j c * dt * new' (j + 1) c
    linear_combination e1 - e2 - dt * (new j c - new' j c) * hm

/-- **secondHalfStepSpec_unique**: the second half-step system determines its solution on the grid -/
theorem secondHalfStepSpec_unique (R C : Nat) (frow fcol : Factors α) (dt : α) (tmp new new' : Fld α)
    (hdt : 0 ≤ dt) (h0 : ∀ r c, 0 ≤ frow.f0 r c) (h2 : ∀ r c, 0 ≤ frow.f2 r c)
    (hmid : ∀ r c, 2 * frow.f1 r c = frow.f0 r c + frow.f2 r c)
    (s : SecondHalfStepSpec R C frow fcol dt tmp new) (s' : SecondHalfStepSpec R C frow fcol dt tmp new') :
    ∀ r c, r ≤ R → c ≤ C → new r c = new' r c :=
  secondHalfStepSpec_unique_of_eqOn R C frow fcol dt tmp tmp new new' hdt h0 h2 hmid (fun _ _ _ _ => rfl) s s'

/-! ## 3./4. the executed step is the solution of the two systems -/

variable (pow : α → α → α) (sq nu : α → α) (lo mx mn : α)
local notation "SF" => fieldScalar α pow sq nu lo mx mn

/-- **erode_determined**: on an `(R+1) × (C+1)` grid (`R, C ≥ 2` as in `erode_spec`; smaller grids
have no interior node), for non-negative face factors with centre factor = mean of the face
factors (what `set_factors` builds for `K ≥ 0`) and `dt ≥ 0`, the erosion the model returns is
`e - new'` for *any* fields `tmp'`, `new'` solving the two Peaceman–Rachford half-step systems. -/
theorem erode_determined (R C : Nat) (hR : 2 ≤ R) (hC : 2 ≤ C) (frow fcol : Factors α) (dt : α) (e er : Fld α)
    (hdt : 0 ≤ dt)
    (hc0 : ∀ r c, 0 ≤ fcol.f0 r c) (hc2 : ∀ r c, 0 ≤ fcol.f2 r c)
    (hcmid : ∀ r c, 2 * fcol.f1 r c = fcol.f0 r c + fcol.f2 r c)
    (hr0 : ∀ r c, 0 ≤ frow.f0 r c) (hr2 : ∀ r c, 0 ≤ frow.f2 r c)
    (hrmid : ∀ r c, 2 * frow.f1 r c = frow.f0 r c + frow.f2 r c)
    (h : erode (SF) (R + 1) (C + 1) frow fcol dt e = some er)
    (tmp' new' : Fld α)
    (s1' : HalfStepSpec R C frow fcol dt e tmp') (s2' : SecondHalfStepSpec R C frow fcol dt tmp' new') :
    ∀ r c, r ≤ R → c ≤ C → er r c = e r c - new' r c := by
  obtain ⟨tmp, nxt, s1, _, s2, her⟩ := erode_spec pow sq nu lo mx mn R C hR hC frow fcol dt e er h
  have htmp := halfStepSpec_unique R C frow fcol dt e tmp tmp' hdt hc0 hc2 hcmid s1 s1'
  have hnew := secondHalfStepSpec_unique_of_eqOn R C frow fcol dt tmp tmp' (fun r c => nxt c r) new'
    hdt hr0 hr2 hrmid htmp s2 s2'
  intro r c hr hc
  rw [her r c, show nxt c r = new' r c from hnew r c hr hc]

/-- existence and uniqueness together: under the hypotheses of `erode_determined` the step returns,
the two half-step systems have a solution, and every solution gives the returned erosion -/
theorem erode_exists_unique (R C : Nat) (hR : 2 ≤ R) (hC : 2 ≤ C) (frow fcol : Factors α) (dt : α) (e : Fld α)
    (hdt : 0 ≤ dt)
    (hc0 : ∀ r c, 0 ≤ fcol.f0 r c) (hc2 : ∀ r c, 0 ≤ fcol.f2 r c)
    (hcmid : ∀ r c, 2 * fcol.f1 r c = fcol.f0 r c + fcol.f2 r c)
    (hr0 : ∀ r c, 0 ≤ frow.f0 r c) (hr2 : ∀ r c, 0 ≤ frow.f2 r c)
    (hrmid : ∀ r c, 2 * frow.f1 r c = frow.f0 r c + frow.f2 r c) :
    ∃ er, erode (SF) (R + 1) (C + 1) frow fcol dt e = some er ∧
      (∃ tmp new, HalfStepSpec R C frow fcol dt e tmp ∧ SecondHalfStepSpec R C frow fcol dt tmp new) ∧
      ∀ tmp' new', HalfStepSpec R C frow fcol dt e tmp' → SecondHalfStepSpec R C frow fcol dt tmp' new' →
        ∀ r c, r ≤ R → c ≤ C → er r c = e r c - new' r c := by
  obtain ⟨er, h⟩ := erode_isSome_of_nonneg pow sq nu lo mx mn (R + 1) (C + 1) (Nat.succ_pos R) (Nat.succ_pos C)
    frow fcol dt e hdt hc0 hc2 hcmid hr0 hr2 hrmid
  refine ⟨er, h, ?_, fun tmp' new' s1' s2' =>
    erode_determined pow sq nu lo mx mn R C hR hC frow fcol dt e er hdt hc0 hc2 hcmid hr0 hr2 hrmid h tmp' new' s1' s2'⟩
  obtain ⟨tmp, nxt, s1, _, s2, _⟩ := erode_spec pow sq nu lo mx mn R C hR hC frow fcol dt e er h
  exact ⟨tmp, _, s1, s2⟩

/-- **erode_determined_array**: `erode_determined` for the tables `set_factors` builds from an array
diffusivity `K ≥ 0` (`quarter = 1/4`) -/
theorem erode_determined_array (R C : Nat) (hR : 2 ≤ R) (hC : 2 ≤ C) (dx dy dt : α) (k e er : Fld α)
    (hdt : 0 ≤ dt) (hk : ∀ r c, 0 ≤ k r c)
    (h : erode (SF) (R + 1) (C + 1) (factorsRow (SF) (1 / 4) dy k) (factorsCol (SF) (1 / 4) dx k) dt e = some er)
    (tmp' new' : Fld α)
    (s1' : HalfStepSpec R C (factorsRow (SF) (1 / 4) dy k) (factorsCol (SF) (1 / 4) dx k) dt e tmp')
    (s2' : SecondHalfStepSpec R C (factorsRow (SF) (1 / 4) dy k) (factorsCol (SF) (1 / 4) dx k) dt tmp' new') :
    ∀ r c, r ≤ R → c ≤ C → er r c = e r c - new' r c := by
  have hq : (0 : α) ≤ 1 / 4 := by positivity
  exact erode_determined pow sq nu lo mx mn R C hR hC _ _ dt e er hdt
    (fun r c => (factorsCol_nonneg pow sq nu lo mx mn (1 / 4) dx k hq hk r c).1)
    (fun r c => (factorsCol_nonneg pow sq nu lo mx mn (1 / 4) dx k hq hk r c).2)
    (fun r c => factorsCol_mid pow sq nu lo mx mn (1 / 4) dx k r c)
    (fun r c => (factorsRow_nonneg pow sq nu lo mx mn (1 / 4) dy k hq hk r c).1)
    (fun r c => (factorsRow_nonneg pow sq nu lo mx mn (1 / 4) dy k hq hk r c).2)
    (fun r c => factorsRow_mid pow sq nu lo mx mn (1 / 4) dy k r c)
    h tmp' new' s1' s2'

/-- same for a scalar diffusivity `k₀ ≥ 0` (`half = 1/2`) -/
theorem erode_determined_scalar (R C : Nat) (hR : 2 ≤ R) (hC : 2 ≤ C) (dx dy dt k₀ : α) (e er : Fld α)
    (hdt : 0 ≤ dt) (hk : 0 ≤ k₀)
    (h : erode (SF) (R + 1) (C + 1) (factorsScalar (SF) (1 / 2) k₀ dy) (factorsScalar (SF) (1 / 2) k₀ dx) dt e = some er)
    (tmp' new' : Fld α)
    (s1' : HalfStepSpec R C (factorsScalar (SF) (1 / 2) k₀ dy) (factorsScalar (SF) (1 / 2) k₀ dx) dt e tmp')
    (s2' : SecondHalfStepSpec R C (factorsScalar (SF) (1 / 2) k₀ dy) (factorsScalar (SF) (1 / 2) k₀ dx) dt tmp' new') :
    ∀ r c, r ≤ R → c ≤ C → er r c = e r c - new' r c := by
  have hnn : ∀ d : α, 0 ≤ k₀ * (1 / 2) / (d * d) :=
    fun d => div_nonneg (mul_nonneg hk (by positivity)) (mul_self_nonneg d)
  exact erode_determined pow sq nu lo mx mn R C hR hC _ _ dt e er hdt
    (fun _ _ => by simpa only [factorsScalar, sf_mul, sf_div] using hnn dx)
    (fun _ _ => by simpa only [factorsScalar, sf_mul, sf_div] using hnn dx)
    (fun r c => factorsScalar_mid pow sq nu lo mx mn (1 / 2) k₀ dx r c)
    (fun _ _ => by simpa only [factorsScalar, sf_mul, sf_div] using hnn dy)
    (fun _ _ => by simpa only [factorsScalar, sf_mul, sf_div] using hnn dy)
    (fun r c => factorsScalar_mid pow sq nu lo mx mn (1 / 2) k₀ dy r c)
    h tmp' new' s1' s2'

end ordered

/-! ## the ℚ instance of `C14E2E.lean` -/
section examples

/-- on the 3 × 4 instance (`R = 2`, `C = 3`, non-uniform `K`): the step returns, the two half-step
systems are solvable, and every solution `(tmp', new')` reproduces the returned erosion -/
example : ∃ er, erode exS 3 4 exRow exCol (1 / 2) exE = some er ∧
    (∃ tmp new, HalfStepSpec 2 3 exRow exCol (1 / 2) exE tmp ∧ SecondHalfStepSpec 2 3 exRow exCol (1 / 2) tmp new) ∧
    ∀ tmp' new', HalfStepSpec 2 3 exRow exCol (1 / 2) exE tmp' → SecondHalfStepSpec 2 3 exRow exCol (1 / 2) tmp' new' →
      ∀ r c, r ≤ 2 → c ≤ 3 → er r c = exE r c - new' r c := by
  obtain ⟨er, h⟩ := ex_erode
  refine ⟨er, h, ?_, fun tmp' new' s1' s2' =>
    erode_determined_array (fun a _ => a) id id 0 0 0 2 3 (by decide) (by decide) 1 2 (1 / 2) exK exE er
      (by norm_num) exK_nonneg h tmp' new' s1' s2'⟩
  obtain ⟨tmp, nxt, s1, _, s2, _⟩ :=
    erode_spec (fun a _ => a) id id 0 0 0 2 3 (by decide) (by decide) exRow exCol (1 / 2) exE er h
  exact ⟨tmp, _, s1, s2⟩

/-- combined with the kernel evaluation of `C14E2E.lean`: any solution of the two systems on the
instance has `new' 1 1 = exE 1 1 + 928/501` -/
example (tmp' new' : Fld ℚ) (s1' : HalfStepSpec 2 3 exRow exCol (1 / 2) exE tmp')
    (s2' : SecondHalfStepSpec 2 3 exRow exCol (1 / 2) tmp' new') :
    new' 1 1 = exE 1 1 + 928 / 501 := by
  obtain ⟨er, h⟩ := ex_erode
  have hdet := erode_determined_array (fun a _ => a) id id 0 0 0 2 3 (by decide) (by decide) 1 2 (1 / 2) exK exE er
    (by norm_num) exK_nonneg h tmp' new' s1' s2' 1 1 (by decide) (by decide)
  have hval : (erode exS 3 4 exRow exCol (1 / 2) exE).map (fun er => er 1 1) = some (-928 / 501) := by
    decide +kernel
  rw [h] at hval
  simp only [Option.map_some, Option.some.injEq] at hval
  rw [hval] at hdet
  linarith

end examples
end Fs.C14
