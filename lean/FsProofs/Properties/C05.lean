import FsModel.Flow
import FsProofs.FieldScalar
import Mathlib.Algebra.Order.BigOperators.Group.List
import Mathlib.Algebra.BigOperators.Ring.List

/-! # C05 — multiple-direction routing partitions flow over all lower neighbours

Theorems about `Fs.Flow.multiRow` / `Fs.Flow.multiWeights`, the definitions the model driver
executes for the multi router.  Receivers: for any scalar instance.  Weights: over an arbitrary
linearly ordered field with an abstract `pow` of which only `pow 1 p = 1` and `0 ≤ pow x p` for
`0 ≤ x` are used (both true of IEEE `pow`; positivity of `pow x p` for small `x` is *not* assumed -
that is what failed before the D3 repair). -/
namespace Fs.C05
open Fs Fs.Flow

section receivers
variable {α : Type} (S : Scalar α) (p : α) (e : Env α) (f : Nat → α) (i : Nat)

/-- base-level and masked nodes are their own single receiver -/
theorem terminal_row (h : (e.mask i || e.isBase i) = true) :
    (multiRow S p e f i).recv = [i] ∧ (multiRow S p e f i).dist = [S.zero] := by
  simp [multiRow, h]

/-- a node with no strictly lower unmasked neighbour is its own single receiver -/
theorem pit_row (h : (e.mask i || e.isBase i) = false)
    (hno : ∀ q, q ∈ e.topo.nbrs i → (!e.mask q.1 && S.lt (f q.1) (f i)) = false) :
    (multiRow S p e f i).recv = [i] := by
  have : multiCands S e f i = [] := by
    simp only [multiCands, List.filter_eq_nil_iff]
    intro q hq; simp [hno q hq]
  simp [multiRow, h, this]

/-- **multi_router_receivers**: otherwise the receivers are exactly the unmasked strictly lower
neighbours, each once per neighbour slot, in neighbour order, with the grid distance -/
theorem receivers_row (h : (e.mask i || e.isBase i) = false)
    (hsome : ∃ q, q ∈ e.topo.nbrs i ∧ (!e.mask q.1 && S.lt (f q.1) (f i)) = true) :
    (multiRow S p e f i).recv = ((e.topo.nbrs i).filter (fun q => !e.mask q.1 && S.lt (f q.1) (f i))).map (·.1) ∧
    (multiRow S p e f i).dist = ((e.topo.nbrs i).filter (fun q => !e.mask q.1 && S.lt (f q.1) (f i))).map (·.2) := by
  have hne : (multiCands S e f i).isEmpty = false := by
    obtain ⟨q, hq, hc⟩ := hsome
    have : q ∈ multiCands S e f i := by simp [multiCands, List.mem_filter, hq, hc]
    cases hl : multiCands S e f i with
    | nil => rw [hl] at this; cases this
    | cons a t => rfl
  unfold multiRow
  simp only [h, Bool.false_eq_true, if_false, hne]
  exact ⟨rfl, rfl⟩

end receivers

section weights
variable {α : Type} [Field α] [LinearOrder α] [IsStrictOrderedRing α]
variable (pow : α → α → α) (sq nu : α → α) (lo mx mn : α)

local notation "SF" => fieldScalar α pow sq nu lo mx mn

theorem foldl_add_eq (l : List α) (a : α) : l.foldl (SF).add a = a + l.sum := by
  induction l generalizing a with
  | nil => simp
  | cons x t ih => simp only [List.foldl_cons, List.sum_cons]; rw [ih]; simp only [fieldScalar]; ring

/-- running maximum as the router computes it (`std::max`) -/
theorem foldl_max_spec (l : List α) (m : α) :
    (m ≤ l.foldl (fun m s => (SF).max m s) m) ∧ (∀ x, x ∈ l → x ≤ l.foldl (fun m s => (SF).max m s) m) ∧
    (l.foldl (fun m s => (SF).max m s) m = m ∨ l.foldl (fun m s => (SF).max m s) m ∈ l) := by
  induction l generalizing m with
  | nil => simp
  | cons x t ih =>
    simp only [List.foldl_cons]
    have hmx : (SF).max m x = if m < x then x else m := by
      simp [Scalar.max, fieldScalar]
    obtain ⟨h1, h2, h3⟩ := ih ((SF).max m x)
    have hle1 : m ≤ (SF).max m x := by rw [hmx]; split <;> [exact le_of_lt ‹_›; exact le_refl _]
    have hle2 : x ≤ (SF).max m x := by rw [hmx]; split <;> [exact le_refl _; exact not_lt.mp ‹_›]
    refine ⟨le_trans hle1 h1, ?_, ?_⟩
    · intro y hy
      rcases List.mem_cons.mp hy with rfl | hy
      · exact le_trans hle2 h1
      · exact h2 y hy
    · rcases h3 with h3 | h3
      · rw [h3, hmx]
        split
        · right; exact List.mem_cons_self
        · left; rfl
      · right; exact List.mem_cons_of_mem _ h3

/-- **multi_router_weights**: for a non-empty list of positive slopes the weights are non-negative,
sum to one, and are proportional to `pow (slope / max slope) p` -/
theorem weights_spec (p : α) (slopes : List α) (hne : slopes ≠ []) (hpos : ∀ s, s ∈ slopes → 0 < s)
    (hpow1 : pow 1 p = 1) (hpow0 : ∀ x, 0 ≤ x → 0 ≤ pow x p) :
    let w := multiWeights (SF) p slopes
    w.length = slopes.length ∧ w.sum = 1 ∧ (∀ x, x ∈ w → 0 ≤ x) ∧
    ∃ smax c, smax ∈ slopes ∧ 0 < c ∧ w = slopes.map (fun s => pow (s / smax) p / c) := by
  intro w
  obtain ⟨_, hmaxge, hmem⟩ := foldl_max_spec pow sq nu lo mx mn slopes 0
  set smax := slopes.foldl (fun m s => (SF).max m s) (SF).zero with hsmax
  have hz : (SF).zero = (0 : α) := rfl
  rw [hz] at hsmax
  rw [← hsmax] at hmaxge hmem
  -- the maximum is one of the slopes, hence positive
  have hmemS : smax ∈ slopes := by
    rcases hmem with h0 | hm
    · obtain ⟨x, hx⟩ := List.exists_mem_of_ne_nil slopes hne
      have := hmaxge x hx; have := hpos x hx; rw [h0] at *; linarith
    · exact hm
  have hsp : 0 < smax := hpos smax hmemS
  have hlt : (SF).lt 0 smax = true := by simp [fieldScalar, hsp]
  set raw := slopes.map (fun s => pow (s / smax) p) with hraw
  have hraw_nonneg : ∀ x, x ∈ raw → 0 ≤ x := by
    intro x hx
    obtain ⟨s, hs, rfl⟩ := List.mem_map.mp hx
    exact hpow0 _ (div_nonneg (le_of_lt (hpos s hs)) (le_of_lt hsp))
  have hone : (1 : α) ∈ raw := by
    refine List.mem_map.mpr ⟨smax, hmemS, ?_⟩
    rw [div_self (ne_of_gt hsp), hpow1]
  have hsum_ge : 1 ≤ raw.sum := by
    have := List.single_le_sum hraw_nonneg 1 hone
    exact this
  have hsum_pos : 0 < raw.sum := lt_of_lt_of_le one_pos hsum_ge
  have hw : w = raw.map (fun x => x / raw.sum) := by
    show multiWeights (SF) p slopes = _
    unfold multiWeights
    simp only [← hsmax, hz, hlt, if_true]
    have e1 : slopes.map (fun s => (SF).pow ((SF).div s smax) p) = raw := by
      simp [hraw, fieldScalar]
    rw [e1, foldl_add_eq]
    simp only [hz, zero_add]
    apply List.map_congr_left
    intro x _; simp [fieldScalar]
  refine ⟨by rw [hw]; simp [hraw], ?_, ?_, smax, raw.sum, hmemS, hsum_pos, ?_⟩
  · rw [hw]
    have : (raw.map (fun x => x / raw.sum)).sum = raw.sum / raw.sum := by
      have : (fun x : α => x / raw.sum) = (fun x => x * raw.sum⁻¹) := by funext x; rw [div_eq_mul_inv]
      rw [this, List.sum_map_mul_right, div_eq_mul_inv]
      simp only [List.map_id']
    rw [this, div_self (ne_of_gt hsum_pos)]
  · intro x hx
    rw [hw] at hx
    obtain ⟨y, hy, rfl⟩ := List.mem_map.mp hx
    exact div_nonneg (hraw_nonneg y hy) (le_of_lt hsum_pos)
  · rw [hw, hraw, List.map_map]; rfl

end weights
end Fs.C05
