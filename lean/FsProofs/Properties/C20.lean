import FsModel.OpSeq
import FsModel.Generated
import FsModel.Driver

/-! # C20 — operator sequences are validated and their declared effects hold

Property theorems about `Fs.OpSeq.build`, the function the model driver executes for every
`graph` call (acceptance, reported direction, table width, array identity), for operator lists of
any length and any flag table; then instantiated on the flag table regenerated from the source
(`Fs.Gen.flags_*`). -/
namespace Fs.OpSeq

/-- some operator updates the graph and defines a flow direction -/
def Defines (f : Flags) : Prop := f.graphUpdated = true ∧ f.outDir ≠ .undefined

theorem dirAfter_snoc (pre : List Flags) (f : Flags) :
    dirAfter (pre ++ [f]) = if f.graphUpdated && f.outDir != .undefined then f.outDir else dirAfter pre := by
  cases pre <;> simp [dirAfter, List.foldl_append]

def dstep (d : Dir) (f : Flags) : Dir := if f.graphUpdated && f.outDir != .undefined then f.outDir else d

theorem dirAfter_eq_foldl (ops : List Flags) : dirAfter ops = ops.foldl dstep .undefined := by
  cases ops <;> rfl

theorem foldl_dstep_ne (ops : List Flags) (d : Dir) :
    ops.foldl dstep d ≠ .undefined ↔ d ≠ .undefined ∨ ∃ f, f ∈ ops ∧ Defines f := by
  induction ops generalizing d with
  | nil => simp
  | cons g rest ih =>
    simp only [List.foldl_cons]
    rw [ih]
    by_cases h : (g.graphUpdated && g.outDir != .undefined) = true
    · have h' : Defines g := by
        simp only [Bool.and_eq_true, bne_iff_ne, ne_eq] at h; exact h
      simp only [dstep, h, if_true]
      constructor
      · intro _; exact Or.inr ⟨g, by simp, h'⟩
      · intro _; exact Or.inl h'.2
    · simp only [dstep, h, if_false, Bool.false_eq_true]
      constructor
      · rintro (hd | ⟨f, hf, hdf⟩)
        · exact Or.inl hd
        · exact Or.inr ⟨f, by simp [hf], hdf⟩
      · rintro (hd | ⟨f, hf, hdf⟩)
        · exact Or.inl hd
        · simp only [List.mem_cons] at hf
          rcases hf with rfl | hf
          · exfalso; apply h; simp [hdf.1, hdf.2]
          · exact Or.inr ⟨f, hf, hdf⟩

theorem dirAfter_ne_undefined_iff (ops : List Flags) :
    dirAfter ops ≠ .undefined ↔ ∃ f, f ∈ ops ∧ Defines f := by
  rw [dirAfter_eq_foldl, foldl_dstep_ne]; simp

/-- bookkeeping of one `add_operator` -/
theorem add_fields (a b : Acc) (f : Flags) (h : add a f = some b) :
    (b.elevUpdated = (a.elevUpdated || f.elevUpdated)) ∧
    (b.graphUpdated = (a.graphUpdated || f.graphUpdated)) ∧
    (b.allSingle = (a.allSingle && !(f.graphUpdated && f.outDir != .undefined && f.outDir != .single))) := by
  unfold add at h
  split at h
  · cases h
  · split at h
    · cases h
    · cases h
      cases hg : f.graphUpdated <;> cases he : f.elevUpdated <;> cases hu : (f.outDir != Dir.undefined) <;>
        cases hs : (f.outDir == Dir.single) <;> cases hae : a.elevUpdated <;> cases hag : a.graphUpdated <;>
        cases has : a.allSingle <;> simp_all

theorem fold_fields (ops : List Flags) (a b : Acc) (h : ops.foldlM add a = some b) :
    (b.elevUpdated = (a.elevUpdated || ops.any (·.elevUpdated))) ∧
    (b.graphUpdated = (a.graphUpdated || ops.any (·.graphUpdated))) ∧
    (b.allSingle = (a.allSingle && ops.all (fun f => !(f.graphUpdated && f.outDir != .undefined && f.outDir != .single)))) := by
  induction ops generalizing a with
  | nil => simp [List.foldlM] at h; subst h; simp
  | cons f rest ih =>
    simp only [List.foldlM_cons] at h
    cases hadd : add a f with
    | none => simp [hadd] at h
    | some a' =>
      simp only [hadd, Option.bind_some] at h
      obtain ⟨e1, e2, e3⟩ := add_fields a a' f hadd
      obtain ⟨r1, r2, r3⟩ := ih a' h
      refine ⟨?_, ?_, ?_⟩
      · rw [r1, e1]; simp [Bool.or_assoc]
      · rw [r2, e2]; simp [Bool.or_assoc]
      · rw [r3, e3]; simp [Bool.and_assoc]

/-- **accepts_iff**: a flow graph can be built from an operator sequence exactly when every
operator's required input direction equals the direction produced before it, every graph snapshot
is preceded by a router (`Compatible`), and some operator updates the graph and defines a
direction. -/
theorem accepts_iff (ops : List Flags) :
    (build ops).isSome = true ↔ Compatible [] ops ∧ ∃ f, f ∈ ops ∧ Defines f := by
  unfold build
  constructor
  · intro h
    cases hf : ops.foldlM add ({} : Acc) with
    | none => simp [hf] at h
    | some b =>
      simp only [hf, Option.bind_some] at h
      obtain ⟨hd, hc⟩ := foldlM_add_dir [] ops {} b rfl hf
      refine ⟨hc, ?_⟩
      rw [← dirAfter_ne_undefined_iff]
      simp only [List.nil_append] at hd
      rw [← hd]
      split at h
      · rename_i hh
        simp only [Bool.and_eq_true, bne_iff_ne, ne_eq] at hh
        exact hh.2
      · cases h
  · rintro ⟨hc, hdef⟩
    obtain ⟨b, hb⟩ := (fold_accepts_iff ops).mpr hc
    obtain ⟨hd, _⟩ := foldlM_add_dir [] ops {} b rfl hb
    simp only [List.nil_append] at hd
    have hne : b.outDir ≠ .undefined := by rw [hd]; exact (dirAfter_ne_undefined_iff ops).mpr hdef
    have hg : b.graphUpdated = true := by
      rw [(fold_fields ops {} b hb).2.1]
      obtain ⟨f, hf, hdf⟩ := hdef
      simp only [Bool.false_or, List.any_eq_true]
      exact ⟨f, hf, hdf.1⟩
    simp [hb, hg, hne]

/-- **declared effects** of an accepted sequence: reported direction = direction of the last
direction-defining operator; single-column receiver table iff every direction-defining operator
is single-direction; the caller's own array is returned iff no operator edits elevation. -/
theorem effects (ops : List Flags) (b : Acc) (h : build ops = some b) :
    b.outDir = dirAfter ops ∧
    (b.allSingle = true ↔ ∀ f, f ∈ ops → Defines f → f.outDir = .single) ∧
    (b.elevUpdated = false ↔ ∀ f, f ∈ ops → f.elevUpdated = false) := by
  unfold build at h
  cases hf : ops.foldlM add ({} : Acc) with
  | none => simp [hf] at h
  | some c =>
    simp only [hf, Option.bind_some] at h
    split at h
    · cases h
      obtain ⟨hd, _⟩ := foldlM_add_dir [] ops {} b rfl hf
      obtain ⟨e1, _, e3⟩ := fold_fields ops {} b hf
      refine ⟨by simpa using hd, ?_, ?_⟩
      · rw [e3]
        simp only [Bool.true_and, List.all_eq_true]
        constructor
        · intro hall f hf' hdf
          have := hall f hf'
          rcases hdf with ⟨hg, ho⟩
          cases hod : f.outDir
          · exact absurd hod ho
          · rfl
          · simp [hg, hod] at this
        · intro hall f hf'
          cases hg : f.graphUpdated
          · simp
          · cases ho : f.outDir
            · simp
            · simp
            · have := hall f hf' ⟨hg, by simp [ho]⟩; simp [ho] at this
      · rw [e1]
        simp only [Bool.false_or]
        constructor
        · intro hany f hf'
          cases he : f.elevUpdated
          · rfl
          · have : ops.any (·.elevUpdated) = true := List.any_eq_true.mpr ⟨f, hf', he⟩
            rw [hany] at this; cases this
        · intro hall
          cases hany : ops.any (·.elevUpdated)
          · rfl
          · obtain ⟨f, hf', he⟩ := List.any_eq_true.mp hany
            rw [hall f hf'] at he; cases he
    · cases h

end Fs.OpSeq

/-! ### the flag table regenerated from the source -/
namespace Fs.Driver
open Fs.OpSeq

/-- the driver reads its flags from the regenerated table -/
theorem flagsOf_generated :
    (flagsOf (.single 0)).outDir = ofGenDir Fs.Gen.flags_single_flow_router.outDir ∧
    (flagsOf (.multi 0.0)).outDir = ofGenDir Fs.Gen.flags_multi_flow_router.outDir ∧
    (flagsOf .pflood).elevUpdated = Fs.Gen.flags_pflood_sink_resolver.elevUpdated ∧
    (flagsOf (.mst false false)).inDir = ofGenDir Fs.Gen.flags_mst_sink_resolver.inDir := by
  exact ⟨rfl, rfl, rfl, rfl⟩

/-- with the flags found in the source: the spanning-tree resolver is refused unless a single
router precedes it, a lone sink resolver is refused, a snapshot before any router is refused -/
theorem generated_table_examples :
    (build [flagsOf (.single 0), flagsOf (.mst false true)]).isSome = true ∧
    (build [flagsOf (.multi 0.0), flagsOf (.mst false true)]).isSome = false ∧
    (build [flagsOf (.mst true true)]).isSome = false ∧
    (build [flagsOf .pflood]).isSome = false ∧
    (build [flagsOf (.snap "a" true false), flagsOf (.single 0)]).isSome = false ∧
    (build [flagsOf .pflood, flagsOf (.single 0), flagsOf (.snap "a" true false), flagsOf (.multi 0.0)]).isSome = true := by
  decide

/-- non-vacuity of `effects`: a mixed sequence is accepted with multi direction, a wide table and edited elevation -/
example : (build [flagsOf .pflood, flagsOf (.single 0), flagsOf (.multi 0.0)]).map
    (fun b => (b.outDir, b.allSingle, b.elevUpdated)) = some (.multi, false, true) := by decide

end Fs.Driver
