import FsProofs.Properties.C02MstSpill

/-! # C02 for the spanning-tree sink resolver, stage T4 (basic): not below the spill level

With `basic` re-routing the new receiver path is not a neighbour path (the pit of an entered basin
is linked to the pass node `p0` or `p1`, in general not a neighbour; `C02MstExample`).  The lower
bound still holds, with a witness path that does NOT follow the new receivers: for a node `y` of
an entered basin `B` (pit `π`, pass nodes `p1 ∈ B`, `p0` in the parent basin)

    [witness path of `p0`]  ++  `p1`  ++  [old path `p1 ⇝ π`]  ++  [old path `π ⇜ y`, reversed]

All links are neighbour links (old router links, in one of the two directions, and the pass link
`p0 — p1`).  Bounds on the INPUT elevations, all relative to `z' y`:
* `p0` is strictly downstream of `y` on the new chain, so `z' p0 ≤ z' y` and the witness path of
  `p0` is bounded by `z' p0` (induction on the depth of the basin);
* `f p1 ≤ z' y`: in the first branch of `routeBasic` (`f p1 < f p0`) because
  `f p1 < f p0 ≤ z' p0 ≤ z' y`; in the second branch because then `p1` lies on the NEW chain of
  every node of `B` (`… → π → p1 → p0` or `… → p1 → p0`), so `f p1 ≤ z' p1 ≤ z' y`;
* the old path `p1 ⇝ π` descends in `f` from `f p1`; the old path `y ⇝ π` descends from
  `f y ≤ z' y`.
Nodes outside the entered basins follow their old path to a base-level outlet. -/
namespace Fs.C02Mst
open Fs Fs.Flow Fs.Mst Fs.Dfs Fs.C06 Fs.C01Mst Fs.C02 Fs.C15 Fs.C15Connect Fs.Kruskal

variable {α : Type}

/-! ### "equal or strictly below" (only irreflexivity and transitivity of `S.lt` are assumed) -/

/-- `a ≤ b` as "equal or strictly below" -/
def Le (S : Scalar α) (a b : α) : Prop := a = b ∨ S.lt a b = true

section order
variable (S : Scalar α)
  (htr : ∀ a b c, S.lt a b = true → S.lt b c = true → S.lt a c = true)

theorem Le.rfl' (a : α) : Le S a a := Or.inl rfl

include htr

theorem le_trans' {a b c : α} (h1 : Le S a b) (h2 : Le S b c) : Le S a c := by
  rcases h1 with rfl | h1
  · exact h2
  · rcases h2 with rfl | h2
    · exact Or.inr h1
    · exact Or.inr (htr _ _ _ h1 h2)

/-- `w ≤ b` (as `¬ b < w`) and `b ≤ c` give `¬ c < w` -/
theorem nlt_of_le_right {b c w : α} (h1 : S.lt b w = false) (h2 : Le S b c) : S.lt c w = false := by
  rcases h2 with rfl | h2
  · exact h1
  · exact not_lt_of_lt S htr h1 h2

/-- `w ≤ v` and `v ≤ c` (as `¬ c < v`) give `¬ c < w` -/
theorem nlt_of_le_left {w v c : α} (h1 : Le S w v) (h2 : S.lt c v = false) : S.lt c w = false := by
  rcases h1 with rfl | h1
  · exact h2
  · cases h : S.lt c w with
    | false => rfl
    | true => rw [htr _ _ _ h h1] at h2; cases h2

/-- a valuation that strictly descends along the proper links of `r` weakly descends along
`iter r` -/
theorem desc_iter_le {n : Nat} {r : Nat → Nat} {v : Nat → α} (hlt : ∀ i, i < n → r i < n)
    (hd : ∀ x, x < n → r x ≠ x → S.lt (v (r x)) (v x) = true) (k x : Nat) (hx : x < n) :
    iter r k x < n ∧ Le S (v (iter r k x)) (v x) := by
  induction k with
  | zero => exact ⟨hx, Or.inl rfl⟩
  | succ k ih =>
    rw [iter_succ']
    obtain ⟨h1, h2⟩ := ih
    refine ⟨hlt _ h1, ?_⟩
    by_cases hs : r (iter r k x) = iter r k x
    · rw [hs]; exact h2
    · exact le_trans' S htr (Or.inr (hd _ h1 hs)) h2

end order

/-! ### bounded neighbour paths -/

/-- there is a path from a seed to `x` through unmasked neighbours all of whose INPUT elevations
are at most `c` -/
def PB (S : Scalar α) (nb : Nat → List Nat) (seed mask : Nat → Bool) (f : Nat → α) (c : α) (x : Nat) : Prop :=
  ∃ p, Fs.UB.Path nb seed mask p x ∧ ∀ w, w ∈ p → S.lt c (f w) = false

section pb
variable (S : Scalar α) {nb : Nat → List Nat} {seed mask : Nat → Bool} {f : Nat → α}

theorem PB.end_le {c : α} {x : Nat} (h : PB S nb seed mask f c x) : S.lt c (f x) = false := by
  obtain ⟨p, hp, hb⟩ := h
  exact hb x hp.end_mem

theorem PB.step {c : α} {x m : Nat} (h : PB S nb seed mask f c x) (hm : m ∈ nb x) (hk : mask m = false)
    (hc : S.lt c (f m) = false) : PB S nb seed mask f c m := by
  obtain ⟨p, hp, hb⟩ := h
  refine ⟨p ++ [m], .step p x m hp hm hk, ?_⟩
  intro w hw
  rcases List.mem_append.mp hw with hw | hw
  · exact hb w hw
  · simp only [List.mem_singleton] at hw
    subst hw; exact hc

theorem PB.mono (htr : ∀ a b c, S.lt a b = true → S.lt b c = true → S.lt a c = true)
    {b c : α} {x : Nat} (h : PB S nb seed mask f b x) (hbc : Le S b c) : PB S nb seed mask f c x := by
  obtain ⟨p, hp, hb⟩ := h
  exact ⟨p, hp, fun w hw => nlt_of_le_right S htr (hb w hw) hbc⟩

variable {n : Nat} {ρ : Nat → Nat}
  (htr : ∀ a b c, S.lt a b = true → S.lt b c = true → S.lt a c = true)
  (hρlt : ∀ i, i < n → ρ i < n)
  (hρm : ∀ i, i < n → mask i = false → mask (ρ i) = false)
  (hdesc : ∀ x, x < n → ρ x ≠ x → S.lt (f (ρ x)) (f x) = true)
  (hrn : ∀ x, x < n → ρ x ≠ x → ρ x ∈ nb x)

include htr hρlt hρm hdesc hrn in
/-- extend a bounded path down the old receivers -/
theorem PB.down {c : α} (k : Nat) {x : Nat} (hx : x < n) (hm : mask x = false)
    (h : PB S nb seed mask f c x) :
    iter ρ k x < n ∧ mask (iter ρ k x) = false ∧ PB S nb seed mask f c (iter ρ k x) := by
  induction k with
  | zero => exact ⟨hx, hm, h⟩
  | succ k ih =>
    rw [iter_succ']
    obtain ⟨h1, h2, h3⟩ := ih
    refine ⟨hρlt _ h1, hρm _ h1 h2, ?_⟩
    by_cases hs : ρ (iter ρ k x) = iter ρ k x
    · rw [hs]; exact h3
    · exact h3.step S (hrn _ h1 hs) (hρm _ h1 h2)
        (nlt_of_le_left S htr (Or.inr (hdesc _ h1 hs)) (h3.end_le S))

include htr hρlt hρm hdesc hrn in
/-- extend a bounded path up the old receivers (against the links; `hsym`) -/
theorem PB.up (hsym : ∀ u v, u < n → v ∈ nb u → u ∈ nb v) {c : α} (k : Nat) :
    ∀ {x : Nat}, x < n → mask x = false → S.lt c (f x) = false →
      PB S nb seed mask f c (iter ρ k x) → PB S nb seed mask f c x := by
  induction k with
  | zero => intro x _ _ _ h; exact h
  | succ k ih =>
    intro x hx hm hc h
    by_cases hs : ρ x = x
    · rw [iter_fix' hs] at h; exact h
    · have hc' : S.lt c (f (ρ x)) = false := nlt_of_le_left S htr (Or.inr (hdesc x hx hs)) hc
      have h' : PB S nb seed mask f c (ρ x) := ih (hρlt x hx) (hρm x hx hm) hc' h
      exact h'.step S (hsym x (ρ x) hx (hrn x hx hs)) hm hc

end pb

/-! ### the table `routeBasic` leaves, with the branch that was taken -/

/-- `BasicLoc` together with the comparison `f p1 < f p0` that selected the branch -/
def BasicLoc2 (S : Scalar α) (f : Nat → α) (n : Nat) (mask : Nat → Bool) (lab : Nat → Nat) (ρ : Nat → Nat)
    (outl : Array Nat) (e : BEdge α) (T : Nat → Nat) : Prop :=
  (S.lt (f e.p1) (f e.p0) = true ∧ T (outl.getD e.l1 0) = e.p0 ∧
    ∀ y, InB n mask lab e.l1 y → y ≠ outl.getD e.l1 0 → T y = ρ y) ∨
  (S.lt (f e.p1) (f e.p0) = false ∧ T e.p1 = e.p0 ∧ (outl.getD e.l1 0 ≠ e.p1 → T (outl.getD e.l1 0) = e.p1) ∧
    ∀ y, InB n mask lab e.l1 y → y ≠ outl.getD e.l1 0 → y ≠ e.p1 → T y = ρ y)

section loc
variable {n : Nat} {mask : Nat → Bool} {ρ : Nat → Nat} {lab : Nat → Nat} {outl : Array Nat}

theorem BasicLoc2.toLoc {S : Scalar α} {f : Nat → α} {e : BEdge α} {T : Nat → Nat}
    (h : BasicLoc2 S f n mask lab ρ outl e T) : BasicLoc n mask lab ρ outl e T := by
  rcases h with ⟨_, a, b⟩ | ⟨_, a, b, c⟩
  · exact ⟨Or.inl ⟨a, b⟩⟩
  · exact ⟨Or.inr ⟨a, b, c⟩⟩

theorem basicLoc2_stable (S : Scalar α) (f : Nat → α) (bd : BasinData n mask ρ lab outl) (e : BEdge α)
    (hp1 : InB n mask lab e.l1 e.p1) (T T' : Nat → Nat) (h : ∀ y, InB n mask lab e.l1 y → T' y = T y)
    (hl : BasicLoc2 S f n mask lab ρ outl e T) : BasicLoc2 S f n mask lab ρ outl e T' := by
  have hpit := bd.inB_pit hp1
  rcases hl with ⟨l, a, b⟩ | ⟨l, a, b, c⟩
  · exact Or.inl ⟨l, by rw [h _ hpit]; exact a, fun y hy hn => by rw [h y hy]; exact b y hy hn⟩
  · exact Or.inr ⟨l, by rw [h _ hp1]; exact a, fun hn => by rw [h _ hpit]; exact b hn,
      fun y hy h1 h2 => by rw [h y hy]; exact c y hy h1 h2⟩

/-- the fold of `routeBasic` over the oriented tree, remembering the branch (cf. `fold_basic`) -/
theorem fold_basic2 (S : Scalar α) (f : Nat → α) (bd : BasinData n mask ρ lab outl) {edges : Array (BEdge α)}
    {tree : List Nat} (th : TreeHyp n mask lab edges tree) (r0 : RR α) (hr0 : ∀ y, r0.recv.get y = ρ y) :
    ∀ idx, idx ∈ tree → ∀ e, edges[idx]? = some e → e.p0 ≠ Mst.none →
      BasicLoc2 S f n mask lab ρ outl e (tree.foldl (routeBasic S f outl edges) r0).recv.get := by
  have := fold_local th ρ (routeBasic S f outl edges)
    (fun e T => InB n mask lab e.l1 e.p1 ∧ BasicLoc2 S f n mask lab ρ outl e T)
    (fun r idx h => routeBasic_skip_none S f outl edges r idx h)
    (fun r idx e h hv => routeBasic_skip_virtual S f outl edges r idx e h hv)
    (by
      intro r idx e hidx he hreal hin
      have hp1 := (th.real idx hidx e he hreal).2
      have hpit := bd.inB_pit hp1
      obtain ⟨c0, c1, c2⟩ := routeBasic_spec S f outl edges r idx e he hreal
      by_cases hlt : S.lt (f e.p1) (f e.p0) = true
      · obtain ⟨a, b, _⟩ := c1 hlt
        refine ⟨⟨hp1, Or.inl ⟨hlt, a, fun y hy hn => by rw [b y hn]; exact hin y hy⟩⟩, ?_, c0⟩
        intro y hy
        exact b y (fun h => hy (h ▸ hpit))
      · have hlt' : S.lt (f e.p1) (f e.p0) = false := by simpa using hlt
        obtain ⟨a, b, c, _⟩ := c2 hlt'
        refine ⟨⟨hp1, Or.inr ⟨hlt', a, b, fun y hy h1 h2 => by rw [c y h1 h2]; exact hin y hy⟩⟩, ?_, c0⟩
        intro y hy
        exact c y (fun h => hy (h ▸ hpit)) (fun h => hy (h ▸ hp1)))
    (fun e T T' h ⟨hp1, hl⟩ => ⟨hp1, basicLoc2_stable S f bd e hp1 T T' h hl⟩)
    r0 hr0
  exact fun idx hi e he hr => (this.2.2 idx hi e he hr).2

/-- in the second branch (`¬ f p1 < f p0`) every node of the basin reaches `p1` along the NEW
receivers -/
theorem basic_reaches_p1 (bd : BasinData n mask ρ lab outl) {b p1 : Nat} {T : Nat → Nat}
    (hb : outl.getD b 0 ≠ p1 → T (outl.getD b 0) = p1)
    (hc : ∀ y, InB n mask lab b y → y ≠ outl.getD b 0 → y ≠ p1 → T y = ρ y) :
    ∀ m y, InB n mask lab b y → iter ρ m y = outl.getD b 0 → ∃ t, iter T t y = p1 := by
  have hpit : ∃ t, iter T t (outl.getD b 0) = p1 := by
    by_cases hne : outl.getD b 0 = p1
    · exact ⟨0, hne⟩
    · exact ⟨1, by simp only [iter]; exact hb hne⟩
  intro m
  induction m with
  | zero => intro y _ hy; simp only [iter] at hy; subst hy; exact hpit
  | succ m ih =>
    intro y hBy hy
    by_cases hp : y = outl.getD b 0
    · subst hp; exact hpit
    · by_cases hp1' : y = p1
      · exact ⟨0, hp1'⟩
      · simp only [iter] at hy
        obtain ⟨t, ht⟩ := ih (ρ y) (bd.inB_step hBy) hy
        exact ⟨t + 1, by simp only [iter]; rw [hc y hBy hp hp1']; exact ht⟩

end loc

/-! ### the abstract argument: induction on the depth of the basin -/

section abstract
variable (S : Scalar α) {n : Nat} {mask : Nat → Bool} {ρ : Nat → Nat} {lab : Nat → Nat} {outl : Array Nat}
  {edges : Array (BEdge α)} {tree : List Nat} {T : Nat → Nat} {isBase : Nat → Bool} {f z' : Nat → α}
  {nb : Nat → List Nat}

/-- **T4 (basic), abstract form.**  `T` is the re-routed table (`BasicLoc2` in the entered basins,
the old receivers elsewhere), `z'` dominates `f`, strictly descends along `T`, base levels are
self-receivers of `T`; old links and pass links are neighbour links.  Then every unmasked node
whose `T`-chain ends at a base level has a bounded neighbour path from an unmasked base level. -/
theorem basic_spill_abstract
    (htr : ∀ a b c, S.lt a b = true → S.lt b c = true → S.lt a c = true)
    (bd : BasinData n mask ρ lab outl) (th : TreeHyp n mask lab edges tree)
    (hdesc : ∀ x, x < n → ρ x ≠ x → S.lt (f (ρ x)) (f x) = true)
    (hrn : ∀ x, x < n → ρ x ≠ x → ρ x ∈ nb x)
    (hsym : ∀ u v, u < n → v ∈ nb u → u ∈ nb v)
    (hadj : ∀ idx, idx ∈ tree → ∀ ed, edges[idx]? = some ed → ed.p0 ≠ Mst.none →
      ed.p1 ∈ nb ed.p0 ∨ ed.p0 ∈ nb ed.p1)
    (frame : ∀ y, y < n → mask y = false → ¬ Touched n mask lab edges tree y → T y = ρ y)
    (loc : ∀ idx, idx ∈ tree → ∀ ed, edges[idx]? = some ed → ed.p0 ≠ Mst.none →
      BasicLoc2 S f n mask lab ρ outl ed T)
    (hTlt : ∀ i, i < n → T i < n)
    (hge : ∀ i, i < n → S.lt (z' i) (f i) = false)
    (hc : ∀ i, i < n → T i ≠ i → S.lt (z' (T i)) (z' i) = true)
    (hbase : ∀ i, i < n → isBase i = true → T i = i) :
    ∀ t y, y < n → mask y = false → isBase (iter T t y) = true →
      PB S nb (fun b => isBase b && !mask b) mask f (z' y) y := by
  obtain ⟨depth, hdepth⟩ := th.depth
  -- a self-receiver reached by the chain is reached from every node of the chain
  have hmeet : ∀ t s y, y < n → isBase (iter T t y) = true → iter T t (iter T s y) = iter T t y := by
    intro t s y hy hb
    have hfix : T (iter T t y) = iter T t y := hbase _ (desc_iter_le S htr hTlt hc t y hy).1 hb
    rw [← iter_add', Nat.add_comm, iter_add', iter_fix' hfix]
  suffices H : ∀ d t y, y < n → mask y = false → isBase (iter T t y) = true → depth (lab y) < d →
      PB S nb (fun b => isBase b && !mask b) mask f (z' y) y from
    fun t y hy hm hb => H _ t y hy hm hb (Nat.lt_succ_self _)
  intro d
  induction d with
  | zero => intro t y _ _ _ h; omega
  | succ d ih =>
    intro t y hy hm hb hd
    have hBy : InB n mask lab (lab y) y := ⟨hy, hm, rfl⟩
    obtain ⟨m, hm'⟩ := bd.drains y hy hm
    by_cases ht : Touched n mask lab edges tree y
    · obtain ⟨idx, hi, ed, he, hr, hin⟩ := ht
      obtain ⟨hp0, hp1⟩ := th.real idx hi ed he hr
      have hl := loc idx hi ed he hr
      have hpit := bd.inB_pit hp1
      -- `p0` is downstream of `y` on the new chain
      obtain ⟨t1, h1, _⟩ := basicLoc_reach bd ed hp1 T hl.toLoc y hin
      have hb0 : isBase (iter T t ed.p0) = true := by
        rw [← h1, hmeet t t1 y hy hb]; exact hb
      have hlt := hdepth idx hi ed he
      have hP0 : PB S nb (fun b => isBase b && !mask b) mask f (z' ed.p0) ed.p0 :=
        ih t ed.p0 hp0.1 hp0.2.1 hb0 (by rw [hp0.2.2, ← hin.2.2] at *; omega)
      have hle0 : Le S (z' ed.p0) (z' y) := by
        rw [← h1]; exact (desc_iter_le S htr hTlt hc t1 y hy).2
      -- `f p1 ≤ z' y`
      have hfp1 : S.lt (z' y) (f ed.p1) = false := by
        rcases hl with ⟨l, _, _⟩ | ⟨_, _, b, c⟩
        · exact nlt_of_le_right S htr (nlt_of_le_left S htr (Or.inr l) (hge _ hp0.1)) hle0
        · have hm2 := hm'
          rw [hin.2.2] at hm2
          obtain ⟨t2, h2⟩ := basic_reaches_p1 bd b c m y hin hm2
          have hle1 : Le S (z' ed.p1) (z' y) := by
            rw [← h2]; exact (desc_iter_le S htr hTlt hc t2 y hy).2
          exact nlt_of_le_right S htr (hge _ hp1.1) hle1
      -- over the pass
      have hnb01 : ed.p1 ∈ nb ed.p0 := by
        rcases hadj idx hi ed he hr with h | h
        · exact h
        · exact hsym ed.p1 ed.p0 hp1.1 h
      have hP1 : PB S nb (fun b => isBase b && !mask b) mask f (z' y) ed.p1 :=
        (hP0.mono S htr hle0).step S hnb01 hp1.2.1 hfp1
      -- down to the pit, up to `y`
      obtain ⟨k, hk⟩ := bd.drains ed.p1 hp1.1 hp1.2.1
      rw [hp1.2.2] at hk
      have hPpit := (PB.down S htr bd.ρ_lt bd.mask_closed hdesc hrn k hp1.1 hp1.2.1 hP1).2.2
      rw [hk] at hPpit
      rw [hin.2.2] at hm'
      rw [← hm'] at hPpit
      exact PB.up S htr bd.ρ_lt bd.mask_closed hdesc hrn hsym m hy hm (hge y hy) hPpit
    · -- the old path to the outlet, which is the base level the chain ends at
      have hun : ∀ z, InB n mask lab (lab y) z → ¬ Touched n mask lab edges tree z := by
        rintro z hz ⟨idx, hi, e, he, hr, hb'⟩
        exact ht ⟨idx, hi, e, he, hr, hy, hm, by rw [← hb'.2.2, hz.2.2]⟩
      have hpo := bd.inB_pit hBy
      have hTm : iter T m y = outl.getD (lab y) 0 := by
        rw [← hm']
        exact iter_congr m (fun j _ => frame _ (bd.inB_iter hBy j).1 (bd.inB_iter hBy j).2.1
          (hun _ (bd.inB_iter hBy j)))
      have hTo : T (outl.getD (lab y) 0) = outl.getD (lab y) 0 := by
        rw [frame _ hpo.1 hpo.2.1 (hun _ hpo)]; exact bd.pit_self y hy hm
      have hob : iter T t y = outl.getD (lab y) 0 := by
        rw [← hmeet t m y hy hb, hTm, iter_fix' hTo]
      rw [hob] at hb
      have hfo : S.lt (z' y) (f (outl.getD (lab y) 0)) = false := by
        rw [← hm']
        exact nlt_of_le_left S htr (desc_iter_le S htr bd.ρ_lt hdesc m y hy).2 (hge y hy)
      have hseed : PB S nb (fun b => isBase b && !mask b) mask f (z' y) (iter ρ m y) := by
        rw [hm']
        refine ⟨[outl.getD (lab y) 0], .seed _ (by show (isBase _ && !mask _) = true; rw [hb, hpo.2.1]; rfl) hpo.2.1, ?_⟩
        intro w hw
        simp only [List.mem_singleton] at hw
        subst hw; exact hfo
      exact PB.up S htr bd.ρ_lt bd.mask_closed hdesc hrn hsym m hy hm (hge y hy) hseed

end abstract

/-! ### `Fs.Mst.resolve` with `basic` re-routing -/

section basic
variable (S : Scalar α) (e : Env α) (g : Graph α) (f : Nat → α) (useBoruvka : Bool)
  (perm : List Nat) (maxLow : Nat) {recv1 : Nat → Nat} {skip : Nat → Bool}
  -- the hypotheses of `resolve_c01`, verbatim
  (hg : SingleGraph e.topo.n g recv1 skip) (hdfs : g.dfs = dfsBottomUp e.topo.n g)
  (hmc : ∀ x, x < e.topo.n → e.mask x = false → e.mask (recv1 x) = false)
  (hms : ∀ x, x < e.topo.n → e.mask x = true → recv1 x = x)
  (hbs : ∀ x, x < e.topo.n → e.isBase x = true → recv1 x = x)
  (hdesc : ∀ x, x < e.topo.n → recv1 x ≠ x → S.lt (f (recv1 x)) (f x) = true)
  (next_gt : ∀ x, S.lt x (S.nextUp x) = true)
  (th : TreeHyp e.topo.n e.mask (labOf e g) (bgOf S e g f useBoruvka perm maxLow).edges
    (bgOf S e g f useBoruvka perm maxLow).tree)
  (hinner : ∀ idx, idx ∈ (bgOf S e g f useBoruvka perm maxLow).tree → ∀ ed,
    (bgOf S e g f useBoruvka perm maxLow).edges[idx]? = some ed → ed.p0 ≠ Mst.none →
    e.isBase ((outlOf e g).getD ed.l1 0) = false)
  (rh : RootHyp e.isBase (outlOf e g) (bgOf S e g f useBoruvka perm maxLow).edges
    (bgOf S e g f useBoruvka perm maxLow).tree (bgOf S e g f useBoruvka perm maxLow).root)
  -- the two extra hypotheses of `resolve_ge_spill_carve`, verbatim
  (hrn : ∀ x, x < e.topo.n → recv1 x ≠ x → ∃ p, p ∈ e.topo.nbrs x ∧ p.1 = recv1 x)
  (hadj : ∀ idx, idx ∈ (bgOf S e g f useBoruvka perm maxLow).tree → ∀ ed,
    (bgOf S e g f useBoruvka perm maxLow).edges[idx]? = some ed → ed.p0 ≠ Mst.none →
    (∃ d, (ed.p1, d) ∈ e.topo.nbrs ed.p0) ∨ (∃ d, (ed.p0, d) ∈ e.topo.nbrs ed.p1))

include hg hdfs hmc hms hbs hdesc next_gt th hinner rh hrn hadj in
/-- **T4 (basic): not below the spill level.**  Hypotheses: exactly those of
`resolve_ge_spill_carve`.  For every unmasked node `y` from which `t` steps along the returned
receivers lead to a base-level node, there is a path `p` from an unmasked base level to `y`
through unmasked neighbours along which the INPUT elevation never exceeds the returned elevation
of `y`.  The path does NOT follow the returned receivers (it cannot: `C02MstExample`). -/
theorem resolve_ge_spill_basic (hirr : ∀ a, S.lt a a = false)
    (htr : ∀ a b c, S.lt a b = true → S.lt b c = true → S.lt a c = true)
    (hsym : ∀ u v d, u < e.topo.n → (v, d) ∈ e.topo.nbrs u → ∃ d', (u, d') ∈ e.topo.nbrs v) :
    let n := e.topo.n
    let o := resolve S e g f useBoruvka false perm maxLow
    let recv' := recv0 o.g
    let z' := look o.elev S.zero
    ∀ t y, y < n → e.mask y = false → e.isBase (iter recv' t y) = true →
      ∃ p, Fs.UB.Path (nbIdx e.topo) (baseSeed e) e.mask p y ∧
        (∀ w, w ∈ p → S.lt (z' y) (f w) = false) := by
  intro n o recv' z'
  cases hp : (basins n g e.mask e.isBase).pits.isEmpty with
  | true =>
    -- no pit: both methods return the input, the carve statement applies
    have heq : resolve S e g f useBoruvka false perm maxLow = resolve S e g f useBoruvka true perm maxLow := by
      rw [resolve_empty S e g f useBoruvka false perm maxLow hp,
        resolve_empty S e g f useBoruvka true perm maxLow hp]
    have hcv := resolve_ge_spill_carve S e g f useBoruvka perm maxLow hg hdfs hmc hms hbs hdesc next_gt th
      hinner rh hrn hadj hirr htr hsym
    intro t y hy hm hb
    have hb' : e.isBase (iter (recv0 (resolve S e g f useBoruvka true perm maxLow).g) t y) = true := by
      rw [← heq]; exact hb
    obtain ⟨p, h1, _, h3⟩ := hcv t y hy hm hb'
    refine ⟨p, h1, ?_⟩
    intro w hw
    show S.lt (look (resolve S e g f useBoruvka false perm maxLow).elev S.zero y) (f w) = false
    rw [heq]; exact h3 w hw
  | false =>
    obtain ⟨ha, _, _, hlt, _, hc, _, _⟩ :=
      resolve_c01 S e g f useBoruvka false perm maxLow hg hdfs hmc hms hbs hdesc next_gt th hinner rh
    have hge := resolve_ge_input S e g f useBoruvka false perm maxLow hg hdfs hmc hms hbs hdesc next_gt th
      hinner rh hirr htr
    have bd : BasinData n e.mask (recv0 g) (labOf e g) (outlOf e g) :=
      basinData_of hg hdfs e.mask e.isBase hmc
    have hr : ∀ i, i < n → recv0 g i = recv1 i := fun i hi => recv0_eq hg i hi
    obtain ⟨o1, _⟩ := resolve_nonempty S e g f useBoruvka false perm maxLow hp
    obtain ⟨_, q2, _, _⟩ := rrOf_spec S e g f useBoruvka false perm maxLow hg hdfs hmc th
    have hr'T : ∀ i, i < n → recv' i = (rrOf S e g f useBoruvka false perm maxLow).recv.get i := by
      intro i hi
      show recv0 o.g i = _
      unfold recv0
      show ((resolve S e g f useBoruvka false perm maxLow).g.recv i).headD i = _
      rw [o1]
      exact look_tab n 0 _ i hi
    have hfold : (rrOf S e g f useBoruvka false perm maxLow).recv.get =
        ((bgOf S e g f useBoruvka perm maxLow).tree.foldl
          (routeBasic S f (outlOf e g) (bgOf S e g f useBoruvka perm maxLow).edges) (rr0 S g)).recv.get := by
      simp [rrOf]
    have f3 := fold_basic2 S f bd th (rr0 S g) (fun _ => rfl)
    rw [← hfold] at f3
    have hnbI : ∀ x, x < n → recv0 g x ≠ x → recv0 g x ∈ nbIdx e.topo x := by
      intro x hx hne
      rw [hr x hx] at hne ⊢
      obtain ⟨p, hp, hp1⟩ := hrn x hx hne
      rw [← hp1]; exact mem_nbIdx _ _ _ p.2 hp
    have hsymI : ∀ u v, u < n → v ∈ nbIdx e.topo u → u ∈ nbIdx e.topo v := by
      intro u v hu hv
      obtain ⟨⟨v', d⟩, hvd, rfl⟩ := List.mem_map.mp hv
      obtain ⟨d', hd'⟩ := hsym u v' d hu hvd
      exact mem_nbIdx _ _ _ d' hd'
    have H := basic_spill_abstract S (n := n) (mask := e.mask) (ρ := recv0 g) (lab := labOf e g)
      (outl := outlOf e g) (edges := (bgOf S e g f useBoruvka perm maxLow).edges)
      (tree := (bgOf S e g f useBoruvka perm maxLow).tree) (T := recv') (isBase := e.isBase) (f := f)
      (z' := z') (nb := nbIdx e.topo) htr bd th
      (by intro x hx hne; rw [hr x hx] at hne ⊢; exact hdesc x hx hne)
      hnbI hsymI
      (by
        intro idx hi ed he hreal
        rcases hadj idx hi ed he hreal with ⟨d, hd⟩ | ⟨d, hd⟩
        · exact Or.inl (mem_nbIdx _ _ _ d hd)
        · exact Or.inr (mem_nbIdx _ _ _ d hd))
      (by intro y hy _ ht; rw [hr'T y hy]; exact q2.frame y ht)
      (by
        intro idx hi ed he hreal
        exact basicLoc2_stable S f bd ed (th.real idx hi ed he hreal).2 _ recv'
          (fun y hy => hr'T y hy.1) (f3 idx hi ed he hreal))
      hlt hge hc (fun i hi hb => ha i hi (Or.inr hb))
    intro t y hy hm hb
    obtain ⟨p, h1, h2⟩ := H t y hy hm hb
    exact ⟨p, h1, h2⟩

include hg hdfs hmc hms hbs hdesc next_gt th hinner rh hrn hadj in
/-- **T4, both methods.**  Under the hypotheses of `resolve_ge_spill_carve`, for `carve` and for
`basic`: the returned elevation of an unmasked node that reaches a base level along the returned
receivers is at least the spill level (witnessed by a bounded neighbour path). -/
theorem resolve_ge_spill (carve : Bool) (hirr : ∀ a, S.lt a a = false)
    (htr : ∀ a b c, S.lt a b = true → S.lt b c = true → S.lt a c = true)
    (hsym : ∀ u v d, u < e.topo.n → (v, d) ∈ e.topo.nbrs u → ∃ d', (u, d') ∈ e.topo.nbrs v) :
    let n := e.topo.n
    let o := resolve S e g f useBoruvka carve perm maxLow
    let recv' := recv0 o.g
    let z' := look o.elev S.zero
    ∀ t y, y < n → e.mask y = false → e.isBase (iter recv' t y) = true →
      ∃ p, Fs.UB.Path (nbIdx e.topo) (baseSeed e) e.mask p y ∧
        (∀ w, w ∈ p → S.lt (z' y) (f w) = false) := by
  cases carve with
  | true =>
    intro n o recv' z' t y hy hm hb
    obtain ⟨p, h1, _, h3⟩ := resolve_ge_spill_carve S e g f useBoruvka perm maxLow hg hdfs hmc hms hbs hdesc
      next_gt th hinner rh hrn hadj hirr htr hsym t y hy hm hb
    exact ⟨p, h1, h3⟩
  | false =>
    exact resolve_ge_spill_basic S e g f useBoruvka perm maxLow hg hdfs hmc hms hbs hdesc next_gt th hinner
      rh hrn hadj hirr htr hsym

end basic

end Fs.C02Mst
