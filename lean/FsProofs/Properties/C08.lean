import FsModel.Flow
import Batteries.Data.List.Perm
import FsProofs.Properties.C04
import FsProofs.Properties.C06
import FsProofs.Properties.C06Graphs

/-! # C08 — no operation reads or writes outside its buffers (the logic part)

fastscapelib stores, per node, the receivers in a table of `nmax` columns (`1` column for
single-direction graphs), the donors in a table of `nmax + 1` columns, the traversal orders in
arrays of `n` entries (stacks are `reserve(n)`-sized vectors).  This file proves, on the executed
model (`Fs.Flow.multiRouter`, `Fs.Flow.singleRouter`, `accumulate`, `basins`), that every row
length and every stored index is within these bounds; memory safety proper is covered by the
sanitizer runs.  Core Lean + Batteries.

Topology hypotheses: `TopoOk` (neighbour indices `< n`; rows of at most `nmax` neighbours;
symmetry with multiplicity).  "No self neighbour" is not needed.  `1 ≤ nmax` is needed (only) for
the receiver rows of the multi router (self row `[i]`; counterexample `loneEnv` below).

Main statements (namespace `Fs.C08`, `n := e.topo.n`):
* `sum_count_range` — counting lemma; `multiWeights_length`;
* `multi_recv_row`, `multi_recv_lt`, `single_recv_row`, `single_recv_lt` — receiver rows;
* `multi_donors_row` (`≤ nmax`), `single_donors_row` (`≤ nmax + 1`, both variants; the `+ 1` is
  attained in both variants, example `pitEnv`), `multi_donors_lt`, `single_donors_lt`,
  `singleGraph_donors_length` (any `Fs.C06.SingleGraph`);
* `multi_orders`, `single_orders : OrdersFit n g`;
* `levelOffsets_spec`, `levelOffsets_fit`, `levelOffsets_strict` — the `levels` offsets array;
* `accumulate_frame`, `accumulate_no_write_outside`, `size_accumulate`, `basins_frame`,
  `basins_no_write_outside`, `size_basins_labels`;
* `multi_fits`, `single_fits : TablesFit n rw dw g` — the summary. -/
namespace Fs.C08
open Fs Fs.Flow List

variable {α : Type}

/-! ## 0. list lemmas -/

theorem sum_map_add (l : List Nat) (f g : Nat → Nat) :
    (l.map (fun d => f d + g d)).sum = (l.map f).sum + (l.map g).sum := by
  induction l with
  | nil => rfl
  | cons a t ih => simp only [map_cons, sum_cons, ih]; omega

theorem sum_map_le (l : List Nat) (f g : Nat → Nat) (h : ∀ d, d ∈ l → f d ≤ g d) :
    (l.map f).sum ≤ (l.map g).sum := by
  induction l with
  | nil => exact Nat.le_refl _
  | cons a t ih =>
    simp only [map_cons, sum_cons]
    have := h a mem_cons_self
    have := ih (fun d hd => h d (mem_cons_of_mem _ hd))
    omega

theorem sum_indicator_range (a n : Nat) :
    ((List.range n).map (fun d => if a = d then 1 else 0)).sum = if a < n then 1 else 0 := by
  induction n with
  | zero => rfl
  | succ m ih =>
    rw [List.range_succ, map_append, sum_append, ih]
    simp only [map_cons, map_nil, sum_cons, sum_nil]
    by_cases h1 : a < m
    · have : a ≠ m := by omega
      simp [h1, this]; omega
    · by_cases h2 : a = m
      · subst h2; simp
      · have : ¬ a < m + 1 := by omega
        simp [h1, h2, this]

/-- the slots of `l` holding a value below `n`, counted value by value -/
theorem sum_count_range_filter (l : List Nat) (n : Nat) :
    ((List.range n).map (fun d => l.count d)).sum = (l.filter (fun a => decide (a < n))).length := by
  induction l with
  | nil =>
    simp only [count_nil, filter_nil, length_nil]
    generalize List.range n = l
    induction l with
    | nil => rfl
    | cons a t ih => simpa using ih
  | cons a t ih =>
    have e : (fun d => (a :: t).count d) = (fun d => t.count d + (if a = d then 1 else 0)) := by
      funext d; rw [count_cons]; simp
    rw [e, sum_map_add, ih, sum_indicator_range, filter_cons]
    by_cases h : a < n <;> simp [h]

/-- **the counting lemma**: a list of naturals all below `n` has as many slots as the sum, over
the values `d < n`, of the number of slots holding `d` -/
theorem sum_count_range (l : List Nat) (n : Nat) (h : ∀ a, a ∈ l → a < n) :
    ((List.range n).map (fun d => l.count d)).sum = l.length := by
  rw [sum_count_range_filter, filter_eq_self.mpr]
  intro a ha; simpa using h a ha

theorem sum_count_range_le (l : List Nat) (n : Nat) :
    ((List.range n).map (fun d => l.count d)).sum ≤ l.length := by
  rw [sum_count_range_filter]; exact length_filter_le _ _

theorem count_flatMap_sum (ds : List Nat) (g : Nat → List Nat) (r : Nat) :
    (ds.flatMap g).count r = (ds.map (fun d => (g d).count r)).sum := by
  induction ds with
  | nil => rfl
  | cons a t ih => simp only [flatMap_cons, count_append, ih, map_cons, sum_cons]

/-! ## topology hypotheses -/

/-- what every grid provides: neighbour indices are nodes, a row of neighbours fits in `nmax`
columns, and the neighbour relation is symmetric, slot for slot (a periodic grid two cells wide
lists the same neighbour twice, on both sides) -/
structure TopoOk (t : Topo α) : Prop where
  nb_lt : ∀ i, i < t.n → ∀ q, q ∈ t.nbrs i → q.1 < t.n
  width : ∀ i, i < t.n → (t.nbrs i).length ≤ t.nmax
  sym : ∀ i j, i < t.n → j < t.n →
    ((t.nbrs i).map (·.1)).count j = ((t.nbrs j).map (·.1)).count i

theorem nbIdx_length (t : Topo α) (i : Nat) : (nbIdx t i).length = (t.nbrs i).length := by
  simp [nbIdx]

/-! ## 1. receiver rows -/

section multi
variable (S : Scalar α) (p : α) (e : Env α) (f : Nat → α)

theorem multiWeights_length (l : List α) : (multiWeights S p l).length = l.length := by
  simp [multiWeights]

/-- the three columns of a row have the same length -/
theorem multiRow_lengths (i : Nat) :
    (multiRow S p e f i).dist.length = (multiRow S p e f i).recv.length ∧
    (multiRow S p e f i).weight.length = (multiRow S p e f i).recv.length := by
  unfold multiRow
  by_cases h : (e.mask i || e.isBase i) = true
  · simp [h]
  · by_cases hc : (multiCands S e f i).isEmpty = true
    · simp [h, hc]
    · simp only [h, hc, Bool.false_eq_true, if_false, length_map, multiWeights_length, and_self]

/-- a receiver row is a sub-list of the neighbour row unless it is the self row -/
theorem multiRow_recv_sublist (i : Nat) :
    (multiRow S p e f i).recv = [i] ∨
    ((multiRow S p e f i).recv ≠ [] ∧ (multiRow S p e f i).recv.Sublist (nbIdx e.topo i)) := by
  rcases Fs.C06.multiRow_recv S p e f i with h | ⟨h1, h2⟩
  · exact Or.inl h
  · right
    refine ⟨h1, ?_⟩
    rw [h2]
    exact (filter_sublist).map _

/-- the sharp row length: at least one, at most the number of neighbour slots (one for a node
without neighbours) -/
theorem multiRow_recv_length (i : Nat) :
    1 ≤ (multiRow S p e f i).recv.length ∧
    (multiRow S p e f i).recv.length ≤ max 1 (e.topo.nbrs i).length := by
  rcases multiRow_recv_sublist S p e f i with h | ⟨h1, h2⟩
  · rw [h]; simp; omega
  · have := h2.length_le
    rw [nbIdx_length] at this
    have : 0 < (multiRow S p e f i).recv.length := length_pos_iff.mpr h1
    omega

/-- **C08.1, multi router**: every receiver row has at least one entry and fits in the `nmax`
columns of the receiver table; the distance and weight rows have the same length.
(`1 ≤ nmax` is needed for the self row `[i]` of a node without lower neighbour: with `nmax = 0`,
`n = 1`, no neighbours, the row `[0]` has length `1 > 0`.  Every grid has `nmax ≥ 2`: profile 2,
raster 4 or 8, mesh 20.) -/
theorem multi_recv_row (T : TopoOk e.topo) (hmax : 1 ≤ e.topo.nmax) (i : Nat) (hi : i < e.topo.n) :
    1 ≤ ((multiRouter S p e f).recv i).length ∧
    ((multiRouter S p e f).recv i).length ≤ e.topo.nmax ∧
    ((multiRouter S p e f).rdist i).length = ((multiRouter S p e f).recv i).length ∧
    ((multiRouter S p e f).rweight i).length = ((multiRouter S p e f).recv i).length := by
  obtain ⟨h1, h2, h3⟩ := Fs.C06.multi_rows S p e f i hi
  rw [h1, h2, h3]
  obtain ⟨a, b⟩ := multiRow_recv_length S p e f i
  obtain ⟨c, d⟩ := multiRow_lengths S p e f i
  have := T.width i hi
  exact ⟨a, by omega, c, d⟩

/-- without `1 ≤ nmax`: the row fits in `max 1 nmax` columns -/
theorem multi_recv_row' (T : TopoOk e.topo) (i : Nat) (hi : i < e.topo.n) :
    ((multiRouter S p e f).recv i).length ≤ max 1 e.topo.nmax := by
  rw [(Fs.C06.multi_rows S p e f i hi).1]
  have := (multiRow_recv_length S p e f i).2
  have := T.width i hi
  omega

/-- **C08.1, multi router**: every stored receiver index is a node -/
theorem multi_recv_lt (T : TopoOk e.topo) (i : Nat) (hi : i < e.topo.n) (r : Nat)
    (hr : r ∈ (multiRouter S p e f).recv i) : r < e.topo.n := by
  rcases Fs.C06.multi_recv_lower S p e f i hi r hr with h | ⟨q, hq, hqr, _⟩
  · rw [h]; exact hi
  · rw [← hqr]; exact T.nb_lt i hi q hq

/-! ## 2. donor rows -/

/-- number of donor slots of `r` = number of receiver slots holding `r` -/
theorem multi_donors_length (r : Nat) (hr : r < e.topo.n) :
    ((multiRouter S p e f).donors r).length =
      ((List.range e.topo.n).map (fun d =>
        (if (multiRouter S p e f).recv d = [d] then [] else (multiRouter S p e f).recv d).count r)).sum := by
  rw [Fs.C06.multi_donors S p e f r hr, ← count_flatMap_sum]
  exact Fs.C06.length_flatMap_donSlots (multiRouter S p e f).recv r e.topo.n

/-- **C08.2, multi router**: the donors of a node fit in `nmax` columns (the table has
`nmax + 1`): the donor slots of `r` inject into the neighbour slots of `r` -/
theorem multi_donors_row (T : TopoOk e.topo) (r : Nat) (hr : r < e.topo.n) :
    ((multiRouter S p e f).donors r).length ≤ (e.topo.nbrs r).length ∧
    ((multiRouter S p e f).donors r).length ≤ e.topo.nmax := by
  have key : ((multiRouter S p e f).donors r).length ≤ (e.topo.nbrs r).length := by
    rw [multi_donors_length S p e f r hr, ← nbIdx_length]
    refine Nat.le_trans (sum_map_le _ _ (fun d => (nbIdx e.topo r).count d) ?_)
      (sum_count_range_le _ _)
    intro d hd
    have hdn : d < e.topo.n := mem_range.mp hd
    have hs : (nbIdx e.topo d).count r = (nbIdx e.topo r).count d := T.sym d r hdn hr
    rw [← hs, (Fs.C06.multi_rows S p e f d hdn).1]
    rcases multiRow_recv_sublist S p e f d with h | ⟨_, h⟩
    · rw [if_pos h]; simp
    · split
      · simp
      · exact h.count_le r
  exact ⟨key, Nat.le_trans key (T.width r hr)⟩

/-- **C08.2, multi router**: every stored donor index is a node -/
theorem multi_donors_lt (r : Nat) (hr : r < e.topo.n) (d : Nat)
    (hd : d ∈ (multiRouter S p e f).donors r) : d < e.topo.n :=
  ((Fs.C06.multi_mem_donors S p e f r hr d).mp hd).1

end multi

/-! ## 1–2 for single-direction graphs -/

/-- donor rows of any single-direction graph (`Fs.C06.SingleGraph`: routers, spanning-tree
resolver): if every node that is not its own receiver is listed in `nb` of its receiver, the
donors of `r` are distinct entries of `nb r`, plus possibly `r` itself -/
theorem singleGraph_donors_length {n : Nat} {g : Graph α} {recv1 : Nat → Nat} {skip : Nat → Bool}
    (h : Fs.C06.SingleGraph n g recv1 skip) (nb : Nat → List Nat)
    (hnb : ∀ d, d < n → recv1 d ≠ d → d ∈ nb (recv1 d)) (r : Nat) (hr : r < n) :
    (g.donors r).length ≤ (nb r).length + 1 := by
  have hnd := Fs.C06.donors_nodup h r hr
  have hsub : (g.donors r).erase r ⊆ nb r := by
    intro x hx
    obtain ⟨hxr, hxm⟩ := (hnd.mem_erase_iff).mp hx
    obtain ⟨hxn, _, hx0⟩ := (Fs.C06.mem_donors h r hr x).mp hxm
    rw [Fs.C06.recv0_eq h x hxn] at hx0
    have := hnb x hxn (by rw [hx0]; exact fun e => hxr e.symm)
    rw [hx0] at this; exact this
  have h1 := (subperm_of_subset (hnd.erase r) hsub).length_le
  rw [length_erase] at h1
  split at h1 <;> omega

section single
variable (S : Scalar α) (e : Env α) (par : Bool) (f : Nat → α)

/-- **C08.1, single router** (both variants): the three rows of a node have exactly one entry -/
theorem single_recv_row (i : Nat) (hi : i < e.topo.n) :
    ((singleRouter S e par f).recv i).length = 1 ∧
    ((singleRouter S e par f).rdist i).length = 1 ∧
    ((singleRouter S e par f).rweight i).length = 1 := by
  obtain ⟨h1, h2, h3⟩ := Fs.C04.rows S e par f i hi
  rw [h1, h2, h3]; simp

/-- **C08.1, single router**: every stored receiver index is a node -/
theorem single_recv_lt (T : TopoOk e.topo) (L : Fs.Router.Laws (routerOps S))
    (hlow : Fs.C04.HLow S e f)
    (i : Nat) (hi : i < e.topo.n) (r : Nat) (hr : r ∈ (singleRouter S e par f).recv i) :
    r < e.topo.n := by
  have hg := Fs.C06.singleRouter_graph S e par f L T.nb_lt hlow
  rw [hg.recv_eq i hi] at hr
  rw [mem_singleton.mp hr]; exact hg.recv_lt i hi

/-- **C08.2, single router** (both variants; the multi-threaded one registers base levels and
masked nodes as donors of themselves, and in both a pit is a donor of itself): the donors of a
node fit in the `nmax + 1` columns of the donor table -/
theorem single_donors_row (T : TopoOk e.topo) (L : Fs.Router.Laws (routerOps S))
    (hlow : Fs.C04.HLow S e f)
    (r : Nat) (hr : r < e.topo.n) :
    ((singleRouter S e par f).donors r).length ≤ (e.topo.nbrs r).length + 1 ∧
    ((singleRouter S e par f).donors r).length ≤ e.topo.nmax + 1 := by
  have hg := Fs.C06.singleRouter_graph S e par f L T.nb_lt hlow
  have key : ((singleRouter S e par f).donors r).length ≤ (e.topo.nbrs r).length + 1 := by
    rw [← nbIdx_length]
    refine singleGraph_donors_length hg (nbIdx e.topo) ?_ r hr
    intro d hd hne
    rw [← Fs.C06.recv0_single S e par f] at hne ⊢
    rcases Fs.C04.recv_lower S e par f L d hd hlow with h | ⟨_, _, _, q, hq, hqe⟩
    · exact absurd h hne
    · have hrn : recv0 (singleRouter S e par f) d < e.topo.n := by
        rw [← hqe]; exact T.nb_lt d hd q hq
      have hm : recv0 (singleRouter S e par f) d ∈ nbIdx e.topo d :=
        mem_map.mpr ⟨q, hq, hqe⟩
      have hs : (nbIdx e.topo d).count (recv0 (singleRouter S e par f) d) =
          (nbIdx e.topo (recv0 (singleRouter S e par f) d)).count d := T.sym d _ hd hrn
      exact count_pos_iff.mp (hs ▸ count_pos_iff.mpr hm)
  have := T.width r hr
  exact ⟨key, by omega⟩

/-- **C08.2, single router**: every stored donor index is a node -/
theorem single_donors_lt (T : TopoOk e.topo) (L : Fs.Router.Laws (routerOps S))
    (hlow : Fs.C04.HLow S e f)
    (r : Nat) (hr : r < e.topo.n) (d : Nat) (hd : d ∈ (singleRouter S e par f).donors r) :
    d < e.topo.n :=
  ((Fs.C06.mem_donors (Fs.C06.singleRouter_graph S e par f L T.nb_lt hlow) r hr d).mp hd).1

end single

/-! ## 3. traversal orders -/

/-- a list of non-empty levels has at most as many levels as entries -/
theorem length_le_flatten_length (L : List (List Nat)) (h : ∀ l, l ∈ L → l ≠ []) :
    L.length ≤ L.flatten.length := by
  induction L with
  | nil => exact Nat.le_refl _
  | cons a t ih =>
    have ha : 0 < a.length := length_pos_iff.mpr (h a mem_cons_self)
    have := ih (fun l hl => h l (mem_cons_of_mem _ hl))
    simp only [length_cons, flatten_cons, length_append]
    omega

/-- what "fits" means for the order arrays of a graph over `n` nodes -/
structure OrdersFit (n : Nat) (g : Graph α) : Prop where
  dfs_length : g.dfs.length = n
  dfs_lt : ∀ x, x ∈ g.dfs → x < n
  bfs_length : g.bfs.flatten.length = n
  bfs_lt : ∀ x, x ∈ g.bfs.flatten → x < n
  levels_le : g.bfs.length ≤ n
  levels_ne : ∀ l, l ∈ g.bfs → l ≠ []

theorem ordersFit_of_perm {n : Nat} {g : Graph α} (h1 : g.dfs.Perm (List.range n))
    (h2 : g.bfs.flatten.Perm (List.range n)) (h3 : ∀ l, l ∈ g.bfs → l ≠ []) : OrdersFit n g := by
  have e1 : g.dfs.length = n := by rw [h1.length_eq, length_range]
  have e2 : g.bfs.flatten.length = n := by rw [h2.length_eq, length_range]
  refine ⟨e1, fun x hx => mem_range.mp (h1.subset hx), e2,
    fun x hx => mem_range.mp (h2.subset hx), ?_, h3⟩
  rw [← e2]; exact length_le_flatten_length _ h3

/-- **C08.3, multi router**: `dfs` and `bfs` have exactly `n` entries, all nodes; at most `n`
levels -/
theorem multi_orders (S : Scalar α) (p : α) (e : Env α) (f : Nat → α) (T : TopoOk e.topo)
    (L : Fs.Router.Laws (routerOps S)) : OrdersFit e.topo.n (multiRouter S p e f) := by
  obtain ⟨b1, b2, _⟩ := Fs.C06.multi_bfs S p e f L T.nb_lt
  exact ordersFit_of_perm (Fs.C06.multi_dfs S p e f L T.nb_lt).1 b1 b2

/-- **C08.3, single router** (both variants) -/
theorem single_orders (S : Scalar α) (e : Env α) (par : Bool) (f : Nat → α) (T : TopoOk e.topo)
    (L : Fs.Router.Laws (routerOps S))
    (hlow : Fs.C04.HLow S e f) :
    OrdersFit e.topo.n (singleRouter S e par f) := by
  obtain ⟨b1, b2, _⟩ := Fs.C06.singleRouter_bfs S e par f L T.nb_lt hlow
  exact ordersFit_of_perm (Fs.C06.single_dfs S e par f L T.nb_lt hlow).1 b1 b2

/-! ## 4. level offsets -/

/-- the `levels` line the driver prints (`dumpGraph`): prefix sums of the level sizes -/
def levelOffsets (bfs : List (List Nat)) : List Nat :=
  bfs.foldl (fun acc l => acc ++ [acc.getLast! + l.length]) [0]

/-- running sums of the level sizes, started at `s` (`s` itself not listed) -/
def offsFrom (s : Nat) : List (List Nat) → List Nat
  | [] => []
  | l :: t => (s + l.length) :: offsFrom (s + l.length) t

theorem offs_fold (bfs : List (List Nat)) (pre : List Nat) (s : Nat) :
    bfs.foldl (fun acc l => acc ++ [acc.getLast! + l.length]) (pre ++ [s]) =
      pre ++ s :: offsFrom s bfs := by
  induction bfs generalizing pre s with
  | nil => simp [offsFrom]
  | cons l t ih =>
    rw [foldl_cons, getLast!_of_getLast? getLast?_concat]
    have := ih (pre ++ [s]) (s + l.length)
    rw [this]; simp [offsFrom]

theorem levelOffsets_eq (bfs : List (List Nat)) : levelOffsets bfs = 0 :: offsFrom 0 bfs := by
  have := offs_fold bfs [] 0
  simpa [levelOffsets] using this

theorem offsFrom_length (s : Nat) (bfs : List (List Nat)) : (offsFrom s bfs).length = bfs.length := by
  induction bfs generalizing s with
  | nil => rfl
  | cons l t ih => simp [offsFrom, ih]

theorem offsFrom_ge (s : Nat) (bfs : List (List Nat)) : ∀ x, x ∈ offsFrom s bfs → s ≤ x := by
  induction bfs generalizing s with
  | nil => intro x hx; cases hx
  | cons l t ih =>
    intro x hx
    simp only [offsFrom, mem_cons] at hx
    rcases hx with rfl | hx
    · omega
    · have := ih _ x hx; omega

theorem offsFrom_le (s : Nat) (bfs : List (List Nat)) :
    ∀ x, x ∈ offsFrom s bfs → x ≤ s + bfs.flatten.length := by
  induction bfs generalizing s with
  | nil => intro x hx; cases hx
  | cons l t ih =>
    intro x hx
    simp only [offsFrom, mem_cons] at hx
    simp only [flatten_cons, length_append]
    rcases hx with rfl | hx
    · omega
    · have := ih _ x hx; omega

theorem offsFrom_gt (s : Nat) (bfs : List (List Nat)) (hne : ∀ l, l ∈ bfs → l ≠ []) :
    ∀ x, x ∈ offsFrom s bfs → s < x := by
  induction bfs generalizing s with
  | nil => intro x hx; cases hx
  | cons l t ih =>
    intro x hx
    have hl : 0 < l.length := length_pos_iff.mpr (hne l mem_cons_self)
    simp only [offsFrom, mem_cons] at hx
    rcases hx with rfl | hx
    · omega
    · have := ih _ (fun l hl => hne l (mem_cons_of_mem _ hl)) x hx; omega

theorem offsFrom_strict (s : Nat) (bfs : List (List Nat)) (hne : ∀ l, l ∈ bfs → l ≠ []) :
    (s :: offsFrom s bfs).Pairwise (· < ·) := by
  induction bfs generalizing s with
  | nil => simp [offsFrom]
  | cons l t ih =>
    rw [pairwise_cons]
    refine ⟨offsFrom_gt s (l :: t) hne, ?_⟩
    exact ih (s + l.length) (fun l hl => hne l (mem_cons_of_mem _ hl))

theorem levelOffsets_strict (bfs : List (List Nat)) (hne : ∀ l, l ∈ bfs → l ≠ []) :
    (levelOffsets bfs).Pairwise (· < ·) := by
  rw [levelOffsets_eq]; exact offsFrom_strict 0 bfs hne

theorem offsFrom_sorted (s : Nat) (bfs : List (List Nat)) : (s :: offsFrom s bfs).Pairwise (· ≤ ·) := by
  induction bfs generalizing s with
  | nil => simp [offsFrom]
  | cons l t ih =>
    rw [pairwise_cons]
    refine ⟨offsFrom_ge s (l :: t), ?_⟩
    exact ih (s + l.length)

theorem offsFrom_last (s : Nat) (bfs : List (List Nat)) :
    (s :: offsFrom s bfs).getLast? = some (s + bfs.flatten.length) := by
  induction bfs generalizing s with
  | nil => simp [offsFrom]
  | cons l t ih =>
    have := ih (s + l.length)
    simp only [offsFrom, flatten_cons, length_append]
    rw [getLast?_cons_cons, this]
    congr 1; omega

/-- **C08.4**: the offsets array has one entry more than there are levels, starts at `0`, is
non-decreasing and ends at the number of entries of the breadth-first order (strictly increasing
when no level is empty: `levelOffsets_strict`) -/
theorem levelOffsets_spec (bfs : List (List Nat)) :
    (levelOffsets bfs).length = bfs.length + 1 ∧
    (levelOffsets bfs).head? = some 0 ∧
    (levelOffsets bfs).Pairwise (· ≤ ·) ∧
    (levelOffsets bfs).getLast? = some bfs.flatten.length := by
  rw [levelOffsets_eq]
  refine ⟨by simp [offsFrom_length], rfl, offsFrom_sorted 0 bfs, ?_⟩
  have := offsFrom_last 0 bfs
  simpa using this

/-- for the graphs the routers build the last offset is `n` and every offset is `≤ n`: the slices
`[off k, off (k+1))` of the `n`-entry `bfs_indices` array are in range -/
theorem levelOffsets_fit {n : Nat} {g : Graph α} (h : OrdersFit n g) :
    (levelOffsets g.bfs).length = g.bfs.length + 1 ∧
    (levelOffsets g.bfs).length ≤ n + 1 ∧
    (levelOffsets g.bfs).head? = some 0 ∧
    (levelOffsets g.bfs).Pairwise (· ≤ ·) ∧
    (levelOffsets g.bfs).getLast? = some n ∧
    ∀ x, x ∈ levelOffsets g.bfs → x ≤ n := by
  obtain ⟨h1, h2, h3, h4⟩ := levelOffsets_spec g.bfs
  rw [h.bfs_length] at h4
  refine ⟨h1, by have := h.levels_le; omega, h2, h3, h4, ?_⟩
  intro x hx
  rw [levelOffsets_eq] at hx
  rcases mem_cons.mp hx with rfl | hx
  · exact Nat.zero_le _
  · have := offsFrom_le 0 g.bfs x hx
    rw [h.bfs_length] at this; omega

/-! ## 5. accumulation and basin labels touch entries below `n` only -/

section acc
variable (S : Scalar α)

theorem size_accumulate (n : Nat) (g : Graph α) (area src : Nat → α) :
    (accumulate S n g area src).size = n := size_tab _ _

theorem size_basins_labels (n : Nat) (g : Graph α) (mask isBase : Nat → Bool) :
    (basins n g mask isBase).labels.size = n := size_tab _ _

theorem foldl_congr_mem {β γ : Type} (l : List γ) (F G : β → γ → β) (b : β)
    (h : ∀ b x, x ∈ l → F b x = G b x) : l.foldl F b = l.foldl G b := by
  induction l generalizing b with
  | nil => rfl
  | cons a t ih =>
    rw [foldl_cons, foldl_cons, h b a mem_cons_self]
    exact ih _ (fun b x hx => h b x (mem_cons_of_mem _ hx))

/-- **C08.5, reads**: `accumulate` reads `area`, `src` and the receiver / weight rows only at the
entries of `g.dfs`; when these are `< n`, changing the inputs at indices `≥ n` changes nothing -/
theorem accumulate_frame (n : Nat) (g g' : Graph α) (area src area' src' : Nat → α)
    (hdfs : g'.dfs = g.dfs) (hlt : ∀ i, i ∈ g.dfs → i < n)
    (hr : ∀ i, i < n → g'.recv i = g.recv i) (hw : ∀ i, i < n → g'.rweight i = g.rweight i)
    (ha : ∀ i, i < n → area' i = area i) (hs : ∀ i, i < n → src' i = src i) :
    accumulate S n g' area' src' = accumulate S n g area src := by
  unfold accumulate
  rw [hdfs]
  congr 2
  apply foldl_congr_mem
  intro acc i hi
  have hin := hlt i (mem_reverse.mp hi)
  simp only [accStep, hr i hin, hw i hin, ha i hin, hs i hin]

theorem accInner_other (i j : Nat) (zs : List (Nat × α)) (a : Tbl α) (h : ∀ rw, rw ∈ zs → rw.1 ≠ j) :
    (zs.foldl (fun (a : Tbl α) rw =>
      if rw.1 = i then a else a.set rw.1 (S.add (a.get rw.1) (S.mul (a.get i) rw.2))) a).get j
      = a.get j := by
  induction zs generalizing a with
  | nil => rfl
  | cons z t ih =>
    rw [foldl_cons, ih _ (fun rw hrw => h rw (mem_cons_of_mem _ hrw))]
    have hz : j ≠ z.1 := fun e => h z mem_cons_self e.symm
    split
    · rfl
    · exact Tbl.get_set_other _ _ _ _ hz

/-- one step writes to the node and to its receivers only -/
theorem accStep_other (g : Graph α) (area src : Nat → α) (acc : Tbl α) (i j : Nat)
    (hji : j ≠ i) (hjr : j ∉ g.recv i) : (accStep S g area src acc i).get j = acc.get j := by
  unfold accStep
  rw [accInner_other]
  · exact Tbl.get_set_other _ _ _ _ hji
  · intro rw hrw e
    exact hjr (e ▸ (of_mem_zip hrw).1)

/-- **C08.5, writes**: when the entries of the order and the receivers are nodes, no entry at an
index `≥ n` of the accumulator is ever written -/
theorem accumulate_no_write_outside (n : Nat) (g : Graph α) (area src : Nat → α)
    (hlt : ∀ i, i ∈ g.dfs → i < n) (hr : ∀ i, i < n → ∀ r, r ∈ g.recv i → r < n)
    (j : Nat) (hj : n ≤ j) :
    (g.dfs.reverse.foldl (accStep S g area src) (Tbl.const S.zero)).get j = S.zero := by
  have hlt' : ∀ i, i ∈ g.dfs.reverse → i < n := fun i hi => hlt i (mem_reverse.mp hi)
  generalize g.dfs.reverse = l at hlt'
  suffices H : ∀ acc : Tbl α, (l.foldl (accStep S g area src) acc).get j = acc.get j from H _
  induction l with
  | nil => intro acc; rfl
  | cons i t ih =>
    intro acc
    have hi := hlt' i mem_cons_self
    rw [foldl_cons, ih (fun x hx => hlt' x (mem_cons_of_mem _ hx))]
    exact accStep_other S g area src acc i j (by omega)
      (fun hm => by have := hr i hi j hm; omega)

end acc

/-- **C08.5, basins**: labels are written at the entries of `g.dfs` only (so below `n`), and the
receiver / mask are read at these entries only -/
theorem basins_frame (n : Nat) (g g' : Graph α) (mask mask' isBase : Nat → Bool)
    (hdfs : g'.dfs = g.dfs) (hlt : ∀ i, i ∈ g.dfs → i < n)
    (hr : ∀ i, i < n → g'.recv i = g.recv i) (hm : ∀ i, i < n → mask' i = mask i) :
    (basins n g' mask' isBase).labels = (basins n g mask isBase).labels ∧
    (basins n g' mask' isBase).outlets = (basins n g mask isBase).outlets := by
  have h0 : ∀ i, i < n → recv0 g' i = recv0 g i := by intro i hi; simp [recv0, hr i hi]
  unfold basins
  simp only [hdfs]
  constructor
  · congr 2
    unfold Fs.Basins.run
    apply foldl_congr_mem
    intro st x hx
    have hxn := hlt x hx
    simp only [Fs.Basins.bstep, h0 x hxn, hm x hxn]
  · apply filter_congr
    intro x hx
    have hxn := hlt x hx
    rw [h0 x hxn, hm x hxn]

theorem basins_no_write_outside (g : Graph α) (mask : Nat → Bool) (n : Nat)
    (hlt : ∀ i, i ∈ g.dfs → i < n) (j : Nat) (hj : n ≤ j) :
    (Fs.Basins.run (recv0 g) mask maxLabel g.dfs (0, fun _ => 0)).2 j = 0 :=
  Fs.Basins.run_other _ _ _ _ _ j (fun hm => by have := hlt j hm; omega)

/-! ## summary: all tables of a graph fit their buffers -/

/-- the graph tables over `n` nodes fit a receiver table of `rw` columns, a donor table of `dw`
columns, order arrays of `n` entries -/
structure TablesFit (n rw dw : Nat) (g : Graph α) : Prop where
  recv_len : ∀ i, i < n → 1 ≤ (g.recv i).length ∧ (g.recv i).length ≤ rw
  rdist_len : ∀ i, i < n → (g.rdist i).length = (g.recv i).length
  rweight_len : ∀ i, i < n → (g.rweight i).length = (g.recv i).length
  recv_lt : ∀ i, i < n → ∀ r, r ∈ g.recv i → r < n
  don_len : ∀ r, r < n → (g.donors r).length ≤ dw
  don_lt : ∀ r, r < n → ∀ d, d ∈ g.donors r → d < n
  orders : OrdersFit n g

/-- **C08 (logic part), multi router**: receiver rows in `nmax` columns, donor rows in `nmax`
columns (the table has `nmax + 1`), orders in `n` entries, all indices nodes -/
theorem multi_fits (S : Scalar α) (p : α) (e : Env α) (f : Nat → α) (T : TopoOk e.topo)
    (hmax : 1 ≤ e.topo.nmax) (L : Fs.Router.Laws (routerOps S)) :
    TablesFit e.topo.n e.topo.nmax e.topo.nmax (multiRouter S p e f) where
  recv_len i hi := by
    obtain ⟨a, b, _⟩ := multi_recv_row S p e f T hmax i hi; exact ⟨a, b⟩
  rdist_len i hi := (multi_recv_row S p e f T hmax i hi).2.2.1
  rweight_len i hi := (multi_recv_row S p e f T hmax i hi).2.2.2
  recv_lt := multi_recv_lt S p e f T
  don_len r hr := (multi_donors_row S p e f T r hr).2
  don_lt := multi_donors_lt S p e f
  orders := multi_orders S p e f T L

/-- **C08 (logic part), single router** (both variants): receiver rows of one column, donor rows
in `nmax + 1` columns, orders in `n` entries, all indices nodes -/
theorem single_fits (S : Scalar α) (e : Env α) (par : Bool) (f : Nat → α) (T : TopoOk e.topo)
    (L : Fs.Router.Laws (routerOps S))
    (hlow : Fs.C04.HLow S e f) :
    TablesFit e.topo.n 1 (e.topo.nmax + 1) (singleRouter S e par f) where
  recv_len i hi := by rw [(single_recv_row S e par f i hi).1]; exact ⟨Nat.le_refl _, Nat.le_refl _⟩
  rdist_len i hi := by
    obtain ⟨a, b, _⟩ := single_recv_row S e par f i hi; rw [a, b]
  rweight_len i hi := by
    obtain ⟨a, _, c⟩ := single_recv_row S e par f i hi; rw [a, c]
  recv_lt := single_recv_lt S e par f T L hlow
  don_len r hr := (single_donors_row S e par f T L hlow r hr).2
  don_lt := single_donors_lt S e par f T L hlow
  orders := single_orders S e par f T L hlow

/-! ## the hypotheses are satisfiable: concrete instances over `Nat` -/

open Fs.C06 (exS exLaws)

/-- `Fs.C06.exEnv` made symmetric (its node 5 lists node 3 twice but node 3 did not list node 5):
a diamond 3 → {1, 2} → 0, node 0 a base level, node 4 masked, and node 5 joined to node 3 by two
neighbour slots on both sides (as on a periodic grid two cells wide) -/
def exEnv : Env Nat where
  topo := { n := 6, nmax := 5,
            nbrs := fun i => match i with
              | 0 => [(1, 1), (2, 1)] | 1 => [(0, 1), (3, 1)] | 2 => [(0, 1), (3, 1)]
              | 3 => [(1, 1), (2, 1), (4, 1), (5, 1), (5, 1)] | 4 => [(3, 1)]
              | 5 => [(3, 1), (3, 1)] | _ => [] }
  mask := fun i => i == 4
  seeds := [0]
  isBase := fun i => i == 0

def exElev : Nat → Nat := fun i => match i with
  | 0 => 1 | 1 => 2 | 2 => 2 | 3 => 4 | 4 => 0 | 5 => 7 | _ => 0

theorem exTopoOk : TopoOk exEnv.topo where
  nb_lt := by decide
  width := by decide
  sym := by
    have h : ∀ i, i < exEnv.topo.n → ∀ j, j < exEnv.topo.n →
        ((exEnv.topo.nbrs i).map (·.1)).count j = ((exEnv.topo.nbrs j).map (·.1)).count i := by
      decide
    exact fun i j hi hj => h i hi j hj

theorem exLow : Fs.C04.HLow exS exEnv exElev := by
  intro i _ q _ h
  simp only [Fs.Router.cand, routerOps, exS, Fs.C04.exS, Bool.and_eq_true, decide_eq_true_eq] at h ⊢
  omega

/-- the instance: row 5 holds the receiver 3 twice and 5 is listed twice among the donors of 3 -/
example : (multiRouter exS 1 exEnv exElev).recv 5 = [3, 3] ∧
    (multiRouter exS 1 exEnv exElev).donors 3 = [5, 5] ∧
    (multiRouter exS 1 exEnv exElev).donors 0 = [1, 2] ∧
    (multiRouter exS 1 exEnv exElev).dfs.length = 6 ∧
    (multiRouter exS 1 exEnv exElev).bfs = [[0, 4], [1, 2], [3], [5]] ∧
    levelOffsets (multiRouter exS 1 exEnv exElev).bfs = [0, 2, 4, 5, 6] := by decide

example : (singleRouter exS exEnv true exElev).donors 0 = [0, 1, 2] ∧
    (singleRouter exS exEnv false exElev).donors 0 = [1, 2] ∧
    (singleRouter exS exEnv false exElev).donors 3 = [5] := by decide

/-- the theorems applied to the instance -/
example (i : Nat) (hi : i < 6) : ((multiRouter exS 1 exEnv exElev).recv i).length ≤ 5 :=
  (multi_recv_row exS 1 exEnv exElev exTopoOk (by decide) i hi).2.1

example (r : Nat) (hr : r < 6) : ((multiRouter exS 1 exEnv exElev).donors r).length ≤ 5 :=
  (multi_donors_row exS 1 exEnv exElev exTopoOk r hr).2

example (par : Bool) (r : Nat) (hr : r < 6) :
    ((singleRouter exS exEnv par exElev).donors r).length ≤ 5 + 1 :=
  (single_donors_row exS exEnv par exElev exTopoOk exLaws exLow r hr).2

example : OrdersFit 6 (multiRouter exS 1 exEnv exElev) :=
  multi_orders exS 1 exEnv exElev exTopoOk exLaws

example (par : Bool) : OrdersFit 6 (singleRouter exS exEnv par exElev) :=
  single_orders exS exEnv par exElev exTopoOk exLaws exLow

example (par : Bool) : (levelOffsets (singleRouter exS exEnv par exElev).bfs).getLast? = some 6 :=
  (levelOffsets_fit (single_orders exS exEnv par exElev exTopoOk exLaws exLow)).2.2.2.2.1

example : TablesFit 6 5 5 (multiRouter exS 1 exEnv exElev) :=
  multi_fits exS 1 exEnv exElev exTopoOk (by decide) exLaws

example (par : Bool) : TablesFit 6 1 6 (singleRouter exS exEnv par exElev) :=
  single_fits exS exEnv par exElev exTopoOk exLaws exLow

/-- accumulation on the instance: inputs beyond the `n = 6` entries are irrelevant, nothing is
written beyond them -/
example (area src : Nat → Nat) :
    accumulate exS 6 (multiRouter exS 1 exEnv exElev) (fun i => if i < 6 then area i else 0)
        (fun i => if i < 6 then src i else 0) =
      accumulate exS 6 (multiRouter exS 1 exEnv exElev) area src := by
  have h := multi_fits exS 1 exEnv exElev exTopoOk (by decide) exLaws
  refine accumulate_frame exS 6 _ _ _ _ _ _ rfl h.orders.dfs_lt (fun _ _ => rfl) (fun _ _ => rfl) ?_ ?_
  · intro i hi; simp [hi]
  · intro i hi; simp [hi]

example (area src : Nat → Nat) (j : Nat) (hj : 6 ≤ j) :
    ((multiRouter exS 1 exEnv exElev).dfs.reverse.foldl
      (accStep exS (multiRouter exS 1 exEnv exElev) area src) (Tbl.const exS.zero)).get j = exS.zero :=
  let h := multi_fits exS 1 exEnv exElev exTopoOk (by decide) exLaws
  accumulate_no_write_outside exS 6 _ area src h.orders.dfs_lt h.recv_lt j hj

/-- **the `+ 1` is needed in both variants of the single router**: a pit is a donor of itself even
in the sequential variant.  Profile 0 - 1 - 2 with elevations 5, 1, 5 and no base level: the pit 1
has the donors 0, 1, 2, that is `nmax + 1 = 3` entries. -/
def pitEnv : Env Nat where
  topo := { n := 3, nmax := 2,
            nbrs := fun i => match i with
              | 0 => [(1, 1)] | 1 => [(0, 1), (2, 1)] | 2 => [(1, 1)] | _ => [] }
  mask := fun _ => false
  seeds := []
  isBase := fun _ => false

theorem pitTopoOk : TopoOk pitEnv.topo where
  nb_lt := by decide
  width := by decide
  sym := by
    have h : ∀ i, i < pitEnv.topo.n → ∀ j, j < pitEnv.topo.n →
        ((pitEnv.topo.nbrs i).map (·.1)).count j = ((pitEnv.topo.nbrs j).map (·.1)).count i := by
      decide
    exact fun i j hi hj => h i hi j hj

example : (singleRouter exS pitEnv false (fun i => if i = 1 then 1 else 5)).donors 1 = [0, 1, 2] ∧
    (singleRouter exS pitEnv true (fun i => if i = 1 then 1 else 5)).donors 1 = [0, 1, 2] := by
  decide

/-- the multi router does not list a pit among its own donors: `nmax` columns suffice -/
example : (multiRouter exS 1 pitEnv (fun i => if i = 1 then 1 else 5)).donors 1 = [0, 2] := by
  decide

/-- **`1 ≤ nmax` is needed for the receiver rows**: a single node without neighbours and a table
of width `nmax = 0` satisfies `TopoOk`, and its self row `[0]` has one entry -/
def loneEnv : Env Nat where
  topo := { n := 1, nmax := 0, nbrs := fun _ => [] }
  mask := fun _ => false
  seeds := []
  isBase := fun _ => false

example : TopoOk loneEnv.topo ∧ ((multiRouter exS 1 loneEnv (fun _ => 0)).recv 0).length = 1 ∧
    loneEnv.topo.nmax = 0 := by
  refine ⟨⟨by decide, by decide, ?_⟩, by decide, rfl⟩
  intro i j hi hj
  rfl

end Fs.C08

