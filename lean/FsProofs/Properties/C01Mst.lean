import FsProofs.Properties.C01MstResolve
import FsProofs.Properties.C01MstOrient
import FsProofs.Properties.C01MstKruskal
import FsProofs.Properties.C15Connect

/-! # C01 for the spanning-tree sink resolver, end to end

`resolve_c01` (file `C01MstResolve`) needs three facts about the oriented basin tree
(`TreeHyp`, inner heads of real edges, `RootHyp`).  Here they are derived for the executed
`basinGraph` from
* the specification of `connect_basins` (`Fs.C15Connect`, whose hypotheses are themselves derived
  from `Fs.C19.basins_spec`),
* the specification of `orient` (`orient_spec`, `orient_root_edges`),
* two facts about the spanning tree `tree0` handed to `orient`: its abstract edges form a
  forest, and it contains every virtual edge.  For Kruskal the first is `Fs.C15.kruskal_forest`. -/
namespace Fs.C01Mst
open Fs Fs.Flow Fs.Mst Fs.Dfs Fs.C06 Fs.Kruskal Fs.C15 Fs.C15Connect

variable {α : Type}

section
variable (S : Scalar α) (e : Env α) (g : Graph α) (f : Nat → α) (useBoruvka : Bool)
  (perm : List Nat) (maxLow : Nat)

/-- the result of `connect_basins` inside `resolve` -/
def cbOf : CB α :=
  connectBasins S e.topo e.mask e.isBase (recv0 g) g.dfs (labOf e g)
    (basins e.topo.n g e.mask e.isBase).outlets f

/-- the spanning tree handed to `orient` inside `resolve` -/
def tree0Of : List Nat :=
  if useBoruvka then boruvka S (basins e.topo.n g e.mask e.isBase).outlets.length (cbOf S e g f).edges maxLow
  else kruskal (basins e.topo.n g e.mask e.isBase).outlets.length (cbOf S e g f).edges perm

theorem bgOf_eq :
    (bgOf S e g f useBoruvka perm maxLow).edges =
      (orient (basins e.topo.n g e.mask e.isBase).outlets.length (cbOf S e g f).edges
        (tree0Of S e g f useBoruvka perm maxLow) (cbOf S e g f).root).1 ∧
    (bgOf S e g f useBoruvka perm maxLow).tree =
      (orient (basins e.topo.n g e.mask e.isBase).outlets.length (cbOf S e g f).edges
        (tree0Of S e g f useBoruvka perm maxLow) (cbOf S e g f).root).2 ∧
    (bgOf S e g f useBoruvka perm maxLow).root = (cbOf S e g f).root :=
  ⟨rfl, rfl, rfl⟩

end

theorem length_le_work (t : Topo α) (l : List Nat) : l.length ≤ work t l := by
  induction l with
  | nil => simp [work]
  | cons a l ih => rw [work_cons]; simp only [List.length_cons]; omega

/-! ### the hypotheses of the `connect_basins` theorems hold inside `resolve` -/

section
variable (S : Scalar α) (e : Env α) {g : Graph α} {recv1 : Nat → Nat} {skip : Nat → Bool}

theorem sweepHyp_resolve (hlaws : LtLaws S) (hg : SingleGraph e.topo.n g recv1 skip)
    (hdfs : g.dfs = dfsBottomUp e.topo.n g)
    (hmc : ∀ x, x < e.topo.n → e.mask x = false → e.mask (recv1 x) = false)
    (hwork : work e.topo g.dfs < Mst.none) :
    SweepHyp S e.topo e.mask (recv0 g) g.dfs (labOf e g) (basins e.topo.n g e.mask e.isBase).outlets := by
  obtain ⟨_, _, _, c4, _, c6, _, _, c9, _⟩ := Fs.C19.basins_spec hg hdfs e.mask e.isBase hmc
  have hmemn : ∀ x, x ∈ g.dfs → x < e.topo.n := fun x hx => by
    rw [hdfs] at hx; exact (Fs.C19.mem_order hg x).mp hx
  have hlen : g.dfs.length = e.topo.n := by
    rw [hdfs, (C06.dfs_perm hg).length_eq]; simp
  have hn : e.topo.n < Mst.none := by
    have := length_le_work e.topo g.dfs; omega
  apply sweepHyp_of_outlets hlaws ?_ ?_ hwork rfl c6 ?_
  · -- blocks
    obtain ⟨bs, hbs, hblk⟩ := Fs.C19.order_blocks hg e.mask hmc
    refine ⟨bs, by rw [hdfs]; exact hbs, ?_⟩
    intro b hb
    obtain ⟨r, ext, rfl, hr, hext⟩ := hblk b hb
    have hin : ∀ x, x ∈ r :: ext → x < e.topo.n := by
      intro x hx
      apply hmemn; rw [hdfs, hbs]
      exact List.mem_flatten.mpr ⟨_, hb, hx⟩
    have hrn := hin r List.mem_cons_self
    have hR : ∀ x, x < e.topo.n → recv0 g x = recvR e.topo.n recv1 x := by
      intro x hx; simp [recvR, hx, recv0_eq hg x hx]
    have hr1 : recv1 r = r := by simpa [recvR, hrn] using hr
    refine ⟨r, ext, rfl, by rw [hR r hrn]; exact hr, ?_⟩
    intro x hx
    have hxn := hin x (List.mem_cons_of_mem _ hx)
    obtain ⟨h1, ⟨k, hk⟩, h3⟩ := hext x hx
    refine ⟨by rw [hR x hxn]; exact h1, ?_⟩
    intro hmx
    have hmr := h3 hmx
    refine ⟨hmr, ?_⟩
    rw [(iter_recvR hg.recv_lt k x hxn).1] at hk
    exact (c9 x r hxn hrn hmx hmr).mpr ⟨k, 0, hk, by rw [hk]; exact hr1⟩
  · intro x hx; have := hmemn x hx; omega
  · have : (g.dfs.filter (fun i => !e.mask i && recv0 g i == i)).length ≤ g.dfs.length :=
      List.length_filter_le _ _
    omega

end

/-! ### the facts about the oriented tree -/

section
variable (S : Scalar α) (e : Env α) (g : Graph α) (f : Nat → α) (useBoruvka : Bool)
  (perm : List Nat) (maxLow : Nat) {recv1 : Nat → Nat} {skip : Nat → Bool}

/-- **the oriented basin tree has the three properties `resolve_c01` needs.**
`hF` and `hvt` are the two facts about the spanning tree. -/
theorem bg_hyps (hlaws : LtLaws S) (hg : SingleGraph e.topo.n g recv1 skip)
    (hdfs : g.dfs = dfsBottomUp e.topo.n g)
    (hmc : ∀ x, x < e.topo.n → e.mask x = false → e.mask (recv1 x) = false)
    (hwork : work e.topo g.dfs < Mst.none)
    (hnb : ∀ i, i < e.topo.n → ∀ p, p ∈ e.topo.nbrs i → p.1 < e.topo.n)
    (hF : Forest ((tree0Of S e g f useBoruvka perm maxLow).filterMap (toE (cbOf S e g f).edges)))
    (hvt : ∀ k ed, (cbOf S e g f).edges[k]? = some ed → ed.p0 = Mst.none →
      k ∈ tree0Of S e g f useBoruvka perm maxLow) :
    TreeHyp e.topo.n e.mask (labOf e g) (bgOf S e g f useBoruvka perm maxLow).edges
      (bgOf S e g f useBoruvka perm maxLow).tree ∧
    (∀ idx, idx ∈ (bgOf S e g f useBoruvka perm maxLow).tree → ∀ ed,
      (bgOf S e g f useBoruvka perm maxLow).edges[idx]? = some ed → ed.p0 ≠ Mst.none →
      e.isBase ((outlOf e g).getD ed.l1 0) = false) ∧
    RootHyp e.isBase (outlOf e g) (bgOf S e g f useBoruvka perm maxLow).edges
      (bgOf S e g f useBoruvka perm maxLow).tree (bgOf S e g f useBoruvka perm maxLow).root := by
  have H := sweepHyp_resolve S e hlaws hg hdfs hmc hwork
  have bd : BasinData e.topo.n e.mask (recv0 g) (labOf e g) (outlOf e g) :=
    basinData_of hg hdfs e.mask e.isBase hmc
  obtain ⟨hE, hT, hR⟩ := bgOf_eq S e g f useBoruvka perm maxLow
  obtain ⟨o_nd, _, o_flip, _, o_uniq, o_noroot, ⟨d, o_depth⟩, o_src⟩ :=
    orient_spec (basins e.topo.n g e.mask e.isBase).outlets.length (cbOf S e g f).edges
      (tree0Of S e g f useBoruvka perm maxLow) (cbOf S e g f).root hF
  rw [← hE, ← hT] at o_flip o_uniq o_noroot o_depth o_src
  rw [← hT] at o_nd
  generalize hbg : bgOf S e g f useBoruvka perm maxLow = bg at *
  -- sizes
  have hmemn : ∀ x, x ∈ g.dfs → x < e.topo.n := fun x hx => by
    rw [hdfs] at hx; exact (Fs.C19.mem_order hg x).mp hx
  have hmemd : ∀ x, x < e.topo.n → x ∈ g.dfs := fun x hx => by
    rw [hdfs]; exact (Fs.C19.mem_order hg x).mpr hx
  have hn : e.topo.n < Mst.none := by
    have h1 := length_le_work e.topo g.dfs
    have h2 : g.dfs.length = e.topo.n := by rw [hdfs, (C06.dfs_perm hg).length_eq]; simp
    omega
  -- the original edges
  have sound := c15_edge_sound (isBase := e.isBase) (f := f) H
  obtain ⟨v_root, v_list⟩ := c15_virtual (isBase := e.isBase) (f := f) H
  change (cbOf S e g f).root = _ at v_root
  change (cbOf S e g f).edges.toList.filter _ = _ at v_list
  have hreal0 : ∀ (k : Nat) (e0 : BEdge α), (cbOf S e g f).edges[k]? = some e0 → e0.p0 ≠ Mst.none →
      InB e.topo.n e.mask (labOf e g) e0.l0 e0.p0 ∧ InB e.topo.n e.mask (labOf e g) e0.l1 e0.p1 := by
    intro k e0 hk hr
    obtain ⟨s1, s2, s3, ⟨dd, s4, _⟩, s5, s6, _⟩ := sound e0 (Array.mem_iff_getElem?.mpr ⟨k, hk⟩) hr
    have hp0 := hmemn _ s1
    exact ⟨⟨hp0, s2, s5⟩, ⟨hnb _ hp0 _ s4, s3, s6⟩⟩
  -- virtual edges: exactly `(root, labels o, none, none)` for the later outer outlets `o`
  have hvirt0 : ∀ (k : Nat) (e0 : BEdge α), (cbOf S e g f).edges[k]? = some e0 → e0.p0 = Mst.none →
      e0.p1 = Mst.none ∧ e0.l0 = (cbOf S e g f).root ∧
      ∃ o, o ∈ (outers e.mask e.isBase (recv0 g) g.dfs).tail ∧ e0.l1 = labOf e g o := by
    intro k e0 hk hv
    have hm : e0 ∈ (cbOf S e g f).edges.toList.filter (fun ed => ed.p0 == Mst.none) :=
      List.mem_filter.mpr ⟨Array.mem_toList_iff.mpr (Array.mem_iff_getElem?.mpr ⟨k, hk⟩), by simp [hv]⟩
    rw [v_list] at hm
    obtain ⟨o, ho, rfl⟩ := List.mem_map.mp hm
    exact ⟨rfl, rfl, o, ho, rfl⟩
  have hvirt_ex : ∀ o, o ∈ (outers e.mask e.isBase (recv0 g) g.dfs).tail →
      ∃ k : Nat, ∃ ev : BEdge α, (cbOf S e g f).edges[k]? = some ev ∧ ev.p0 = Mst.none ∧ ev.l0 = (cbOf S e g f).root ∧
        ev.l1 = labOf e g o := by
    intro o ho
    have hm : vE S (cbOf S e g f).root (labOf e g o) ∈
        (cbOf S e g f).edges.toList.filter (fun ed => ed.p0 == Mst.none) := by
      rw [v_list]; exact List.mem_map.mpr ⟨o, ho, rfl⟩
    obtain ⟨k, hk⟩ := Array.mem_iff_getElem?.mp (Array.mem_toList_iff.mp (List.mem_filter.mp hm).1)
    exact ⟨k, _, hk, rfl, rfl, rfl⟩
  -- outer outlets
  have houter : ∀ o, o ∈ outers e.mask e.isBase (recv0 g) g.dfs →
      o < e.topo.n ∧ e.mask o = false ∧ e.isBase o = true ∧ (outlOf e g).getD (labOf e g o) 0 = o := by
    intro o ho
    unfold outers at ho
    obtain ⟨h1, h2⟩ := List.mem_filter.mp ho
    simp only [isRootB, Bool.and_eq_true, Bool.not_eq_true', beq_iff_eq] at h2
    obtain ⟨⟨h3, h4⟩, h5⟩ := h2
    refine ⟨hmemn o h1, h3, h5, ?_⟩
    have := (H.lab o h1 h3 h4).2
    unfold outlOf; rw [toArray_getD]; exact this
  -- a real edge of the oriented tree comes from a real edge
  have hreal : ∀ idx, idx ∈ bg.tree → ∀ ed, bg.edges[idx]? = some ed → ed.p0 ≠ Mst.none →
      InB e.topo.n e.mask (labOf e g) ed.l0 ed.p0 ∧ InB e.topo.n e.mask (labOf e g) ed.l1 ed.p1 := by
    intro idx _ ed hed hr
    rcases o_flip idx with h1 | ⟨_, e0, he0, h1⟩
    · rw [hed] at h1; exact hreal0 idx ed h1.symm hr
    · rw [hed] at h1; cases h1
      have hr0 : e0.p0 ≠ Mst.none := by
        intro hv
        exact hr (hvirt0 idx e0 he0 hv).1
      obtain ⟨a, b⟩ := hreal0 idx e0 he0 hr0
      exact ⟨b, a⟩
  -- a virtual edge of the oriented tree is an unflipped virtual edge
  have hvirt : ∀ idx, idx ∈ bg.tree → ∀ ed, bg.edges[idx]? = some ed → ed.p0 = Mst.none →
      ∃ o, o ∈ (outers e.mask e.isBase (recv0 g) g.dfs).tail ∧ ed.l1 = labOf e g o := by
    intro idx hidx ed hed hv
    rcases o_flip idx with h1 | ⟨_, e0, he0, h1⟩
    · rw [hed] at h1; exact (hvirt0 idx ed h1.symm hv).2.2
    · rw [hed] at h1; cases h1
      exfalso
      have hv0 : e0.p0 = Mst.none := by
        apply Classical.byContradiction
        intro hr0
        have := (hreal0 idx e0 he0 hr0).2.1
        have hv' : e0.p1 = Mst.none := hv
        omega
      exact o_noroot idx hidx _ hed (hvirt0 idx e0 he0 hv0).2.1
  have th : TreeHyp e.topo.n e.mask (labOf e g) bg.edges bg.tree := by
    refine ⟨o_nd, hreal, o_uniq, ⟨d, ?_⟩⟩
    intro idx hidx ed hed
    have := o_depth idx hidx ed hed
    omega
  -- the root basin
  have hroot_cases : (outers e.mask e.isBase (recv0 g) g.dfs = [] ∧ (cbOf S e g f).root = Mst.none) ∨
      ∃ o1 rest, outers e.mask e.isBase (recv0 g) g.dfs = o1 :: rest ∧ (cbOf S e g f).root = labOf e g o1 := by
    cases ho : outers e.mask e.isBase (recv0 g) g.dfs with
    | nil => left; rw [ho] at v_root; exact ⟨rfl, v_root⟩
    | cons o1 rest => right; rw [ho] at v_root; exact ⟨o1, rest, rfl, v_root⟩
  have hsize : (outlOf e g).size ≤ e.topo.n := by
    have h1 : (basins e.topo.n g e.mask e.isBase).outlets.length ≤ g.dfs.length := by
      show (g.dfs.filter _).length ≤ _
      exact List.length_filter_le _ _
    have h2 : g.dfs.length = e.topo.n := by rw [hdfs, (C06.dfs_perm hg).length_eq]; simp
    simp only [outlOf, List.size_toArray]; omega
  refine ⟨th, ?_, ⟨?_, ?_, ?_⟩⟩
  · -- real edges enter inner basins
    intro idx hidx ed hed hr
    cases hb : e.isBase ((outlOf e g).getD ed.l1 0) with
    | false => rfl
    | true =>
      exfalso
      obtain ⟨_, hp1⟩ := hreal idx hidx ed hed hr
      have hpit := bd.inB_pit hp1
      have hself := bd.pit_self' hp1
      generalize (outlOf e g).getD ed.l1 0 = oo at hpit hself hb
      -- the outlet of basin `ed.l1` is an outer outlet
      have hout : oo ∈ outers e.mask e.isBase (recv0 g) g.dfs := by
        unfold outers
        refine List.mem_filter.mpr ⟨hmemd _ hpit.1, ?_⟩
        show (isRootB e.mask (recv0 g) oo && e.isBase oo) = true
        unfold isRootB
        rw [hpit.2.1, hself, hb]; simp
      rcases hroot_cases with ⟨h0, _⟩ | ⟨o1, rest, h0, hroot⟩
      · rw [h0] at hout; cases hout
      · rw [h0] at hout
        rcases List.mem_cons.mp hout with h1 | h1
        · -- it is the root basin: no tree edge enters the root
          apply o_noroot idx hidx ed hed
          rw [hroot, ← h1]; exact hpit.2.2.symm
        · -- it hangs under the root by a virtual edge, which the tree keeps
          have ho : oo ∈ (outers e.mask e.isBase (recv0 g) g.dfs).tail := by
            rw [h0]; exact h1
          obtain ⟨k, ev, hk, hv, hl0, hl1⟩ := hvirt_ex _ ho
          have hkt := hvt k ev hk hv
          have hrlt : (cbOf S e g f).root < (basins e.topo.n g e.mask e.isBase).outlets.length := by
            obtain ⟨a1, a2, _, _⟩ := houter o1 (by rw [h0]; simp)
            rw [hroot]
            have := bd.lab_lt o1 a1 a2
            simpa [outlOf] using this
          have hktree : k ∈ bg.tree := by
            rw [hT]
            exact orient_root_edges _ _ _ _ hrlt k hkt ev hk (Or.inl hl0)
          -- in the oriented table it is still `ev`
          have hk' : bg.edges[k]? = some ev := by
            rcases o_flip k with h2 | ⟨_, e0, he0, h2⟩
            · rw [h2]; exact hk
            · exfalso
              rw [hk] at he0; cases he0
              exact o_noroot k hktree _ h2 hl0
          have : k = idx := o_uniq k idx hktree hidx ev ed hk' hed (by rw [hl1]; exact hpit.2.2)
          subst this
          rw [hed] at hk'; cases hk'
          exact hr hv
  · -- root_outer
    intro hlt
    rcases hroot_cases with ⟨_, h0⟩ | ⟨o1, rest, h0, hroot⟩
    · rw [hR, h0] at hlt; omega
    · obtain ⟨_, _, a3, a4⟩ := houter o1 (by rw [h0]; simp)
      rw [hR, hroot, a4]; exact a3
  · -- virt
    intro idx hidx ed hed hv
    obtain ⟨o, ho, hl⟩ := hvirt idx hidx ed hed hv
    obtain ⟨_, _, a3, a4⟩ := houter o (List.mem_of_mem_tail ho)
    rw [hl, a4]; exact a3
  · -- src
    intro idx hidx ed hed
    rw [hR]; exact o_src idx hidx ed hed

/-- every edge stored by `connect_basins` joins two basin labels below the number of basins -/
theorem cb_edges_lt (hlaws : LtLaws S) (hg : SingleGraph e.topo.n g recv1 skip)
    (hdfs : g.dfs = dfsBottomUp e.topo.n g)
    (hmc : ∀ x, x < e.topo.n → e.mask x = false → e.mask (recv1 x) = false)
    (hwork : work e.topo g.dfs < Mst.none)
    (hnb : ∀ i, i < e.topo.n → ∀ p, p ∈ e.topo.nbrs i → p.1 < e.topo.n) :
    ∀ (k : Nat) (ed : BEdge α), (cbOf S e g f).edges[k]? = some ed →
      ed.l0 < (basins e.topo.n g e.mask e.isBase).outlets.length ∧
      ed.l1 < (basins e.topo.n g e.mask e.isBase).outlets.length := by
  have H := sweepHyp_resolve S e hlaws hg hdfs hmc hwork
  have bd : BasinData e.topo.n e.mask (recv0 g) (labOf e g) (outlOf e g) :=
    basinData_of hg hdfs e.mask e.isBase hmc
  have hmemn : ∀ x, x ∈ g.dfs → x < e.topo.n := fun x hx => by
    rw [hdfs] at hx; exact (Fs.C19.mem_order hg x).mp hx
  have hlab : ∀ x, x < e.topo.n → e.mask x = false →
      labOf e g x < (basins e.topo.n g e.mask e.isBase).outlets.length := by
    intro x hx hm
    have := bd.lab_lt x hx hm
    simpa [outlOf] using this
  have sound := c15_edge_sound (isBase := e.isBase) (f := f) H
  obtain ⟨v_root, v_list⟩ := c15_virtual (isBase := e.isBase) (f := f) H
  change (cbOf S e g f).root = _ at v_root
  change (cbOf S e g f).edges.toList.filter _ = _ at v_list
  have houter : ∀ o, o ∈ outers e.mask e.isBase (recv0 g) g.dfs → o < e.topo.n ∧ e.mask o = false := by
    intro o ho
    unfold outers at ho
    obtain ⟨h1, h2⟩ := List.mem_filter.mp ho
    simp only [isRootB, Bool.and_eq_true, Bool.not_eq_true', beq_iff_eq] at h2
    exact ⟨hmemn o h1, h2.1.1⟩
  intro k ed hk
  by_cases hv : ed.p0 = Mst.none
  · have hm : ed ∈ (cbOf S e g f).edges.toList.filter (fun ed => ed.p0 == Mst.none) :=
      List.mem_filter.mpr ⟨Array.mem_toList_iff.mpr (Array.mem_iff_getElem?.mpr ⟨k, hk⟩), by simp [hv]⟩
    rw [v_list] at hm
    obtain ⟨o, ho, rfl⟩ := List.mem_map.mp hm
    cases hos : outers e.mask e.isBase (recv0 g) g.dfs with
    | nil => rw [hos] at ho; cases ho
    | cons o1 rest =>
      rw [hos] at v_root ho
      obtain ⟨a1, a2⟩ := houter o1 (by rw [hos]; simp)
      obtain ⟨b1, b2⟩ := houter o (by rw [hos]; exact List.mem_cons_of_mem _ ho)
      refine ⟨?_, hlab o b1 b2⟩
      show (cbOf S e g f).root < _
      rw [v_root]; exact hlab o1 a1 a2
  · obtain ⟨s1, s2, s3, ⟨dd, s4, _⟩, s5, s6, _⟩ := sound ed (Array.mem_iff_getElem?.mpr ⟨k, hk⟩) hv
    have hp0 := hmemn _ s1
    rw [← s5, ← s6]
    exact ⟨hlab _ hp0 s2, hlab _ (hnb _ hp0 _ s4) s3⟩

/-- **C01 for the spanning-tree resolver**, any spanning tree: `resolve_c01` with the facts about
the oriented tree derived.  What is still assumed about the tree handed to `orient`: it is a
forest (`hF`) and contains the virtual edges (`hvt`).

Other hypotheses: `hlaws` (strict order laws of `S.lt`), the input graph is a `SingleGraph` in
bottom-up order with a receiver-closed mask, masked / base-level nodes their own receivers,
receivers strictly descending in `f` (all true for `singleRouter`), `next_gt`
(`x < nextUp x`, the hypothesis of `tilt_descends`), `hwork` (the arrays fit in memory: the
hypothesis of the `connect_basins` theorems), `hnb` (neighbours are nodes). -/
theorem resolve_c01_tree (carve : Bool) (hlaws : LtLaws S) (hg : SingleGraph e.topo.n g recv1 skip)
    (hdfs : g.dfs = dfsBottomUp e.topo.n g)
    (hmc : ∀ x, x < e.topo.n → e.mask x = false → e.mask (recv1 x) = false)
    (hms : ∀ x, x < e.topo.n → e.mask x = true → recv1 x = x)
    (hbs : ∀ x, x < e.topo.n → e.isBase x = true → recv1 x = x)
    (hdesc : ∀ x, x < e.topo.n → recv1 x ≠ x → S.lt (f (recv1 x)) (f x) = true)
    (next_gt : ∀ x, S.lt x (S.nextUp x) = true)
    (hwork : work e.topo g.dfs < Mst.none)
    (hnb : ∀ i, i < e.topo.n → ∀ p, p ∈ e.topo.nbrs i → p.1 < e.topo.n)
    (hF : Forest ((tree0Of S e g f useBoruvka perm maxLow).filterMap (toE (cbOf S e g f).edges)))
    (hvt : ∀ k ed, (cbOf S e g f).edges[k]? = some ed → ed.p0 = Mst.none →
      k ∈ tree0Of S e g f useBoruvka perm maxLow) :
    let n := e.topo.n
    let o := resolve S e g f useBoruvka carve perm maxLow
    let recv' := recv0 o.g
    let z' := look o.elev S.zero
    (∀ i, i < n → (e.mask i = true ∨ e.isBase i = true) → recv' i = i) ∧
    (∃ recv1' skip', SingleGraph n o.g recv1' skip' ∧ (∀ i, i < n → recv' i = recv1' i)) ∧
    o.g.dfs = dfsBottomUp n o.g ∧
    (∀ i, i < n → recv' i < n) ∧
    (∀ i, i < n → ∃ k, recv' (iter recv' k i) = iter recv' k i) ∧
    (∀ i, i < n → recv' i ≠ i → S.lt (z' (recv' i)) (z' i) = true) ∧
    (∀ y, y < n → e.mask y = false →
      ((basins n g e.mask e.isBase).pits.isEmpty = true ∨
        ReachedB (bgOf S e g f useBoruvka perm maxLow).edges (bgOf S e g f useBoruvka perm maxLow).tree
          (bgOf S e g f useBoruvka perm maxLow).root (labOf e g y)) →
      ∃ t, e.isBase (iter recv' t y) = true ∧ recv' (iter recv' t y) = iter recv' t y) ∧
    o.hang = false := by
  obtain ⟨th, hinner, rh⟩ := bg_hyps S e g f useBoruvka perm maxLow hlaws hg hdfs hmc hwork hnb hF hvt
  exact resolve_c01 S e g f useBoruvka carve perm maxLow hg hdfs hmc hms hbs hdesc next_gt th hinner rh

/-- **C01 for the spanning-tree resolver with Kruskal's tree**: the forest hypothesis is
`Fs.C15.kruskal_forest`. -/
theorem resolve_c01_kruskal (carve : Bool) (hlaws : LtLaws S) (hg : SingleGraph e.topo.n g recv1 skip)
    (hdfs : g.dfs = dfsBottomUp e.topo.n g)
    (hmc : ∀ x, x < e.topo.n → e.mask x = false → e.mask (recv1 x) = false)
    (hms : ∀ x, x < e.topo.n → e.mask x = true → recv1 x = x)
    (hbs : ∀ x, x < e.topo.n → e.isBase x = true → recv1 x = x)
    (hdesc : ∀ x, x < e.topo.n → recv1 x ≠ x → S.lt (f (recv1 x)) (f x) = true)
    (next_gt : ∀ x, S.lt x (S.nextUp x) = true)
    (hwork : work e.topo g.dfs < Mst.none)
    (hnb : ∀ i, i < e.topo.n → ∀ p, p ∈ e.topo.nbrs i → p.1 < e.topo.n)
    (hvt : ∀ k ed, (cbOf S e g f).edges[k]? = some ed → ed.p0 = Mst.none →
      k ∈ tree0Of S e g f false perm maxLow) :
    let n := e.topo.n
    let o := resolve S e g f false carve perm maxLow
    let recv' := recv0 o.g
    let z' := look o.elev S.zero
    (∀ i, i < n → (e.mask i = true ∨ e.isBase i = true) → recv' i = i) ∧
    (∃ recv1' skip', SingleGraph n o.g recv1' skip' ∧ (∀ i, i < n → recv' i = recv1' i)) ∧
    o.g.dfs = dfsBottomUp n o.g ∧
    (∀ i, i < n → recv' i < n) ∧
    (∀ i, i < n → ∃ k, recv' (iter recv' k i) = iter recv' k i) ∧
    (∀ i, i < n → recv' i ≠ i → S.lt (z' (recv' i)) (z' i) = true) ∧
    (∀ y, y < n → e.mask y = false →
      ((basins n g e.mask e.isBase).pits.isEmpty = true ∨
        ReachedB (bgOf S e g f false perm maxLow).edges (bgOf S e g f false perm maxLow).tree
          (bgOf S e g f false perm maxLow).root (labOf e g y)) →
      ∃ t, e.isBase (iter recv' t y) = true ∧ recv' (iter recv' t y) = iter recv' t y) ∧
    o.hang = false := by
  apply resolve_c01_tree S e g f false perm maxLow carve hlaws hg hdfs hmc hms hbs hdesc next_gt hwork hnb _ hvt
  have : tree0Of S e g f false perm maxLow =
      kruskal (basins e.topo.n g e.mask e.isBase).outlets.length (cbOf S e g f).edges perm := by
    simp [tree0Of]
  rw [this]
  apply Fs.C15.kruskal_forest
  intro i _ ed hed
  exact cb_edges_lt S e g f hlaws hg hdfs hmc hwork hnb i ed hed

/-- positions in a list whose filtered image under `g` has no repetition -/
theorem index_unique_of_nodup_map_filter {β γ : Type} (p : β → Bool) (g : β → γ) (l : List β)
    (hnd : ((l.filter p).map g).Nodup) (j k : Nat) (a b : β) (hj : l[j]? = some a) (hk : l[k]? = some b)
    (ha : p a = true) (hb : p b = true) (hg : g a = g b) : j = k := by
  have key : ∀ (j k : Nat) (a b : β), l[j]? = some a → l[k]? = some b → p a = true → p b = true →
      g a = g b → j < k → False := by
    intro j k a b hj hk ha hb hg hjk
    have h1 : a ∈ l.take k := by
      apply List.mem_of_getElem? (i := j)
      rw [List.getElem?_take, if_pos hjk]; exact hj
    have h2 : b ∈ l.drop k := by
      apply List.mem_of_getElem? (i := 0)
      rw [List.getElem?_drop]; simpa using hk
    rw [← List.take_append_drop k l, List.filter_append, List.map_append] at hnd
    exact (List.nodup_append.mp hnd).2.2 (g a) (List.mem_map.mpr ⟨a, List.mem_filter.mpr ⟨h1, ha⟩, rfl⟩)
      (g b) (List.mem_map.mpr ⟨b, List.mem_filter.mpr ⟨h2, hb⟩, rfl⟩) hg
  rcases Nat.lt_trichotomy j k with h | h | h
  · exact (key j k a b hj hk ha hb hg h).elim
  · exact h
  · exact (key k j b a hk hj hb ha hg.symm h).elim

/-- the virtual edges stored by `connect_basins`: a star around the root with distinct leaves -/
theorem cb_virtual_star (hlaws : LtLaws S) (hg : SingleGraph e.topo.n g recv1 skip)
    (hdfs : g.dfs = dfsBottomUp e.topo.n g)
    (hmc : ∀ x, x < e.topo.n → e.mask x = false → e.mask (recv1 x) = false)
    (hwork : work e.topo g.dfs < Mst.none) :
    (∀ (k : Nat) (ed : BEdge α), (cbOf S e g f).edges[k]? = some ed → ed.p0 = Mst.none →
      ed.l0 = (cbOf S e g f).root ∧ ed.l1 ≠ (cbOf S e g f).root ∧ ed.pe = S.lowest) ∧
    (∀ (j k : Nat) (ej ek : BEdge α), (cbOf S e g f).edges[j]? = some ej → (cbOf S e g f).edges[k]? = some ek →
      ej.p0 = Mst.none → ek.p0 = Mst.none → ej.l1 = ek.l1 → j = k) := by
  have H := sweepHyp_resolve S e hlaws hg hdfs hmc hwork
  obtain ⟨v_root, v_list⟩ := c15_virtual (isBase := e.isBase) (f := f) H
  change (cbOf S e g f).root = _ at v_root
  change (cbOf S e g f).edges.toList.filter _ = _ at v_list
  -- outer outlets are distinguished by their labels
  have houter : ∀ o, o ∈ outers e.mask e.isBase (recv0 g) g.dfs →
      (basins e.topo.n g e.mask e.isBase).outlets.getD (labOf e g o) 0 = o := by
    intro o ho
    unfold outers at ho
    obtain ⟨h1, h2⟩ := List.mem_filter.mp ho
    simp only [isRootB, Bool.and_eq_true, Bool.not_eq_true', beq_iff_eq] at h2
    exact (H.lab o h1 h2.1.1 h2.1.2).2
  have hlabinj : ∀ o o', o ∈ outers e.mask e.isBase (recv0 g) g.dfs →
      o' ∈ outers e.mask e.isBase (recv0 g) g.dfs → labOf e g o = labOf e g o' → o = o' := by
    intro o o' ho ho' hl
    rw [← houter o ho, ← houter o' ho', hl]
  have hond : (outers e.mask e.isBase (recv0 g) g.dfs).Nodup := by
    unfold outers
    have h0 : g.dfs.Nodup := by rw [hdfs]; exact Fs.C19.order_nodup hg
    exact h0.filter _
  have hmapnd : ((outers e.mask e.isBase (recv0 g) g.dfs).tail.map (labOf e g)).Nodup := by
    have htl : (outers e.mask e.isBase (recv0 g) g.dfs).tail.Nodup :=
      List.Sublist.nodup (List.tail_sublist _) hond
    unfold List.Nodup
    rw [List.pairwise_map]
    apply List.Pairwise.imp_of_mem _ htl
    intro a b ha hb hab hl
    exact hab (hlabinj a b (List.mem_of_mem_tail ha) (List.mem_of_mem_tail hb) hl)
  constructor
  · intro k ed hk hv
    have hm : ed ∈ (cbOf S e g f).edges.toList.filter (fun ed => ed.p0 == Mst.none) :=
      List.mem_filter.mpr ⟨Array.mem_toList_iff.mpr (Array.mem_iff_getElem?.mpr ⟨k, hk⟩), by simp [hv]⟩
    rw [v_list] at hm
    obtain ⟨o, ho, rfl⟩ := List.mem_map.mp hm
    refine ⟨rfl, ?_, rfl⟩
    show labOf e g o ≠ (cbOf S e g f).root
    cases hos : outers e.mask e.isBase (recv0 g) g.dfs with
    | nil => rw [hos] at ho; cases ho
    | cons o1 rest =>
      rw [hos] at v_root ho hond
      rw [v_root]
      intro hl
      have : o = o1 := hlabinj o o1 (by rw [hos]; exact List.mem_cons_of_mem _ ho) (by rw [hos]; simp) hl
      exact (List.nodup_cons.mp hond).1 (this ▸ ho)
  · intro j k ej ek hj hk hvj hvk hl
    have hnd : (((cbOf S e g f).edges.toList.filter (fun ed => ed.p0 == Mst.none)).map (·.l1)).Nodup := by
      rw [v_list, List.map_map]
      exact hmapnd
    exact index_unique_of_nodup_map_filter _ (·.l1) _ hnd j k ej ek (by simpa using hj) (by simpa using hk)
      (by simp [hvj]) (by simp [hvk]) hl

/-- **C01 for the spanning-tree resolver with Kruskal's tree and a sorted permutation.**
Nothing is assumed about the tree any more: the permutation passes the harness check
`validPerm`, `≤` of the scalar is transitive (`hnt`) and all elevations are above `lowest`
(`hfin`), so Kruskal keeps the virtual edges (`kruskal_keeps_virtual`). -/
theorem resolve_c01_kruskal_sorted (carve : Bool) (hlaws : LtLaws S) (hg : SingleGraph e.topo.n g recv1 skip)
    (hdfs : g.dfs = dfsBottomUp e.topo.n g)
    (hmc : ∀ x, x < e.topo.n → e.mask x = false → e.mask (recv1 x) = false)
    (hms : ∀ x, x < e.topo.n → e.mask x = true → recv1 x = x)
    (hbs : ∀ x, x < e.topo.n → e.isBase x = true → recv1 x = x)
    (hdesc : ∀ x, x < e.topo.n → recv1 x ≠ x → S.lt (f (recv1 x)) (f x) = true)
    (next_gt : ∀ x, S.lt x (S.nextUp x) = true)
    (hwork : work e.topo g.dfs < Mst.none)
    (hnb : ∀ i, i < e.topo.n → ∀ p, p ∈ e.topo.nbrs i → p.1 < e.topo.n)
    (hvp : validPerm S (cbOf S e g f).edges perm = true)
    (hnt : ∀ a b c, S.lt b a = false → S.lt c b = false → S.lt c a = false)
    (hfin : ∀ i, i < e.topo.n → S.lt S.lowest (f i) = true) :
    let n := e.topo.n
    let o := resolve S e g f false carve perm maxLow
    let recv' := recv0 o.g
    let z' := look o.elev S.zero
    (∀ i, i < n → (e.mask i = true ∨ e.isBase i = true) → recv' i = i) ∧
    (∃ recv1' skip', SingleGraph n o.g recv1' skip' ∧ (∀ i, i < n → recv' i = recv1' i)) ∧
    o.g.dfs = dfsBottomUp n o.g ∧
    (∀ i, i < n → recv' i < n) ∧
    (∀ i, i < n → ∃ k, recv' (iter recv' k i) = iter recv' k i) ∧
    (∀ i, i < n → recv' i ≠ i → S.lt (z' (recv' i)) (z' i) = true) ∧
    (∀ y, y < n → e.mask y = false →
      ((basins n g e.mask e.isBase).pits.isEmpty = true ∨
        ReachedB (bgOf S e g f false perm maxLow).edges (bgOf S e g f false perm maxLow).tree
          (bgOf S e g f false perm maxLow).root (labOf e g y)) →
      ∃ t, e.isBase (iter recv' t y) = true ∧ recv' (iter recv' t y) = iter recv' t y) ∧
    o.hang = false := by
  apply resolve_c01_kruskal S e g f perm maxLow carve hlaws hg hdfs hmc hms hbs hdesc next_gt hwork hnb
  have : tree0Of S e g f false perm maxLow =
      kruskal (basins e.topo.n g e.mask e.isBase).outlets.length (cbOf S e g f).edges perm := by
    simp [tree0Of]
  rw [this]
  obtain ⟨hV, hVinj⟩ := cb_virtual_star S e g f hlaws hg hdfs hmc hwork
  apply kruskal_keeps_virtual S _ _ perm hvp hnt
    (cb_edges_lt S e g f hlaws hg hdfs hmc hwork hnb) (cbOf S e g f).root hV hVinj
  -- real passes are above `lowest`
  intro k ed hk hr
  have H := sweepHyp_resolve S e hlaws hg hdfs hmc hwork
  obtain ⟨s1, _, _, ⟨dd, s4, _⟩, _, _, s7, _⟩ :=
    c15_edge_sound (isBase := e.isBase) (f := f) H ed (Array.mem_iff_getElem?.mpr ⟨k, hk⟩) hr
  have hp0 : ed.p0 < e.topo.n := by
    rw [hdfs] at s1; exact (Fs.C19.mem_order hg _).mp s1
  rw [s7]
  unfold Scalar.max
  split
  · exact hfin _ (hnb _ hp0 _ s4)
  · exact hfin _ hp0

end

end Fs.C01Mst
