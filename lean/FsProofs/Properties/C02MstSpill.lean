import FsProofs.Properties.C02Mst
import FsProofs.Properties.C01MstRouter

/-! # C02 for the spanning-tree sink resolver, stage T4 (carve): not below the spill level

With `carve` re-routing every link of the returned receiver table joins two grid neighbours:
links outside the entered basins are old router links, the links of a carved path are old links
reversed, and the link over the pass joins the two pass nodes of a basin-graph edge
(`c15_edge_sound`).  Hence the new flow path of a node that reaches a base level is a path
through unmasked neighbours from that base level (`Fs.UB.Path`, the notion of
`Fs.C02.pflood_ge_spill`); the returned elevation does not increase along it (C01 (c)) and
dominates the input (T1), so no input elevation on the path exceeds the returned elevation of
the node: the returned elevation is at least the spill level.

For `basic` re-routing the statement about receiver paths is false: the pit is linked directly
to the pass node `p0` (or to `p1`), in general not a neighbour (instance in `C02MstExample`). -/
namespace Fs.C02Mst
open Fs Fs.Flow Fs.Mst Fs.Dfs Fs.C06 Fs.C01Mst Fs.C02 Fs.C15 Fs.C15Connect Fs.Kruskal

variable {α : Type}

/-- the base levels a path may start from: unmasked base-level nodes -/
def baseSeed (e : Env α) (b : Nat) : Bool := e.isBase b && !e.mask b

theorem mem_nbIdx (t : Topo α) (u v : Nat) (d : α) (h : (v, d) ∈ t.nbrs u) : v ∈ nbIdx t u :=
  List.mem_map.mpr ⟨(v, d), h, rfl⟩

theorem path_seed_mono {nbrs : Nat → List Nat} {seed seed' mask : Nat → Bool}
    (h : ∀ b, seed b = true → seed' b = true) {p : List Nat} {x : Nat}
    (hp : Fs.UB.Path nbrs seed mask p x) : Fs.UB.Path nbrs seed' mask p x := by
  induction hp with
  | seed s hs hm => exact .seed s (h s hs) hm
  | step p c m _ hm hk ih => exact .step p c m ih hm hk

section carve
variable (S : Scalar α) (e : Env α) (g : Graph α) (f : Nat → α) (useBoruvka : Bool)
  (perm : List Nat) (maxLow : Nat) {recv1 : Nat → Nat} {skip : Nat → Bool}
  -- the hypotheses of `resolve_c01`, verbatim
  (hg : SingleGraph e.topo.n g recv1 skip) (hdfs : g.dfs = dfsBottomUp e.topo.n g)
  (hmc : ∀ x, x < e.topo.n → e.mask x = false → e.mask (recv1 x) = false)
  (hms : ∀ x, x < e.topo.n → e.mask x = true → recv1 x = x)
  (hbs : ∀ x, x < e.topo.n → e.isBase x = true → recv1 x = x)
  (hdesc : ∀ x, x < e.topo.n → recv1 x ≠ x → S.lt (f (recv1 x)) (f x) = true)
  (next_gt : ∀ x, S.lt x (S.nextUp x) = true)
  (th : TreeHyp e.topo.n e.mask (labOf e g) (bgOf S e g f useBoruvka perm maxLow).edges
    (bgOf S e g f useBoruvka perm maxLow).tree)
  (hinner : ∀ idx, idx ∈ (bgOf S e g f useBoruvka perm maxLow).tree → ∀ ed,
    (bgOf S e g f useBoruvka perm maxLow).edges[idx]? = some ed → ed.p0 ≠ Mst.none →
    e.isBase ((outlOf e g).getD ed.l1 0) = false)
  (rh : RootHyp e.isBase (outlOf e g) (bgOf S e g f useBoruvka perm maxLow).edges
    (bgOf S e g f useBoruvka perm maxLow).tree (bgOf S e g f useBoruvka perm maxLow).root)
  -- the links of the input graph are neighbour steps (C04 `recv_lower` for `singleRouter`)
  (hrn : ∀ x, x < e.topo.n → recv1 x ≠ x → ∃ p, p ∈ e.topo.nbrs x ∧ p.1 = recv1 x)
  -- the pass nodes of a real tree edge are neighbours (`c15_edge_sound` + `orient_spec`: `bg_adj`)
  (hadj : ∀ idx, idx ∈ (bgOf S e g f useBoruvka perm maxLow).tree → ∀ ed,
    (bgOf S e g f useBoruvka perm maxLow).edges[idx]? = some ed → ed.p0 ≠ Mst.none →
    (∃ d, (ed.p1, d) ∈ e.topo.nbrs ed.p0) ∨ (∃ d, (ed.p0, d) ∈ e.topo.nbrs ed.p1))

include hg hdfs hmc th hrn hadj in
/-- **every link of the carve-re-routed table is a neighbour pair** (in one of the two
directions) and leads to an unmasked node. -/
theorem carve_link :
    let n := e.topo.n
    let o := resolve S e g f useBoruvka true perm maxLow
    let recv' := recv0 o.g
    ∀ y, y < n → e.mask y = false → recv' y ≠ y →
      e.mask (recv' y) = false ∧
      ((∃ d, (recv' y, d) ∈ e.topo.nbrs y) ∨ (∃ d, (y, d) ∈ e.topo.nbrs (recv' y))) := by
  intro n o recv'
  have bd : BasinData n e.mask (recv0 g) (labOf e g) (outlOf e g) :=
    basinData_of hg hdfs e.mask e.isBase hmc
  have hr : ∀ i, i < n → recv0 g i = recv1 i := fun i hi => recv0_eq hg i hi
  -- the old links
  have hold : ∀ x, x < n → e.mask x = false → recv0 g x ≠ x →
      e.mask (recv0 g x) = false ∧ ∃ d, (recv0 g x, d) ∈ e.topo.nbrs x := by
    intro x hx hm hne
    rw [hr x hx] at hne ⊢
    obtain ⟨p, hp, hp1⟩ := hrn x hx hne
    refine ⟨hmc x hx hm, p.2, ?_⟩
    rw [← hp1]; exact hp
  cases hp : (basins n g e.mask e.isBase).pits.isEmpty with
  | true =>
    have ho : o = { g := g, elev := tab n f, hang := false } :=
      resolve_empty S e g f useBoruvka true perm maxLow hp
    have hr' : recv' = recv0 g := by simp [recv', ho]
    intro y hy hm hne
    rw [hr'] at hne ⊢
    obtain ⟨a, d, b⟩ := hold y hy hm hne
    exact ⟨a, Or.inl ⟨d, b⟩⟩
  | false =>
    obtain ⟨o1, _⟩ := resolve_nonempty S e g f useBoruvka true perm maxLow hp
    obtain ⟨_, q2, _, q4⟩ := rrOf_spec S e g f useBoruvka true perm maxLow hg hdfs hmc th
    have hr'T : ∀ i, i < n → recv' i = (rrOf S e g f useBoruvka true perm maxLow).recv.get i := by
      intro i hi
      show recv0 o.g i = _
      unfold recv0
      show ((resolve S e g f useBoruvka true perm maxLow).g.recv i).headD i = _
      rw [o1]
      exact look_tab n 0 _ i hi
    generalize (rrOf S e g f useBoruvka true perm maxLow).recv.get = T at q2 q4 hr'T
    have key : ∀ y, y < n → e.mask y = false → T y ≠ y →
        e.mask (T y) = false ∧ ((∃ d, (T y, d) ∈ e.topo.nbrs y) ∨ (∃ d, (y, d) ∈ e.topo.nbrs (T y))) := by
      intro y hy hm hne
      have oldcase : T y = recv0 g y →
          e.mask (T y) = false ∧ ((∃ d, (T y, d) ∈ e.topo.nbrs y) ∨ (∃ d, (y, d) ∈ e.topo.nbrs (T y))) := by
        intro h
        rw [h] at hne ⊢
        obtain ⟨a, d, b⟩ := hold y hy hm hne
        exact ⟨a, Or.inl ⟨d, b⟩⟩
      by_cases ht : Touched n e.mask (labOf e g) (bgOf S e g f useBoruvka perm maxLow).edges
          (bgOf S e g f useBoruvka perm maxLow).tree y
      · obtain ⟨idx, hi, ed, he, hreal, hb⟩ := ht
        obtain ⟨hp0, hp1⟩ := th.real idx hi ed he hreal
        have hc := q4 idx hi ed he hreal
        simp only [if_true] at hc
        obtain ⟨k, hk, hinj, h0, hpath, hframe⟩ := hc
        by_cases hon : ∃ i, i ≤ k ∧ y = iter (recv0 g) i ed.p1
        · obtain ⟨i, hik, rfl⟩ := hon
          cases i with
          | zero =>
            simp only [iter] at hne ⊢
            rw [h0]
            refine ⟨hp0.2.1, ?_⟩
            rcases hadj idx hi ed he hreal with ⟨d, hd⟩ | ⟨d, hd⟩
            · exact Or.inr ⟨d, hd⟩
            · exact Or.inl ⟨d, hd⟩
          | succ i =>
            rw [hpath i (by omega)]
            have hx := bd.inB_iter hp1 i
            have hstep : recv0 g (iter (recv0 g) i ed.p1) = iter (recv0 g) (i + 1) ed.p1 :=
              (iter_succ' (recv0 g) i ed.p1).symm
            have hne' : recv0 g (iter (recv0 g) i ed.p1) ≠ iter (recv0 g) i ed.p1 := by
              rw [hstep]; exact (hinj i (i + 1) (by omega) (by omega)).symm
            obtain ⟨_, d, hd⟩ := hold _ hx.1 hx.2.1 hne'
            rw [hstep] at hd
            exact ⟨hx.2.1, Or.inr ⟨d, hd⟩⟩
        · exact oldcase (hframe y hb (fun i hi' e' => hon ⟨i, hi', e'⟩))
      · exact oldcase (q2.frame y ht)
    intro y hy hm hne
    rw [hr'T y hy] at hne ⊢
    exact key y hy hm hne

include hg hdfs hmc hms hbs hdesc next_gt th hinner rh hrn hadj in
/-- **T4 (carve): not below the spill level.**  For every unmasked node `y` from which `t` steps
along the returned receivers lead to a base-level node, there is a path `p` from an unmasked
base level to `y` through unmasked neighbours - the new flow path of `y`, reversed - along which
the INPUT elevation never exceeds the returned elevation of `y`.  (`hsym`: the neighbour relation
is symmetric.)  Clause (d) of `resolve_c01` says which nodes reach a base level. -/
theorem resolve_ge_spill_carve (hirr : ∀ a, S.lt a a = false)
    (htr : ∀ a b c, S.lt a b = true → S.lt b c = true → S.lt a c = true)
    (hsym : ∀ u v d, u < e.topo.n → (v, d) ∈ e.topo.nbrs u → ∃ d', (u, d') ∈ e.topo.nbrs v) :
    let n := e.topo.n
    let o := resolve S e g f useBoruvka true perm maxLow
    let recv' := recv0 o.g
    let z' := look o.elev S.zero
    ∀ t y, y < n → e.mask y = false → e.isBase (iter recv' t y) = true →
      ∃ p, Fs.UB.Path (nbIdx e.topo) (baseSeed e) e.mask p y ∧
        (∀ w, w ∈ p → ∃ s, s ≤ t ∧ w = iter recv' s y) ∧
        (∀ w, w ∈ p → S.lt (z' y) (f w) = false) := by
  intro n o recv' z'
  obtain ⟨_, _, _, hlt, _, hc, _, _⟩ :=
    resolve_c01 S e g f useBoruvka true perm maxLow hg hdfs hmc hms hbs hdesc next_gt th hinner rh
  have hge := resolve_ge_input S e g f useBoruvka true perm maxLow hg hdfs hmc hms hbs hdesc next_gt th hinner rh hirr htr
  have hlink := carve_link S e g f useBoruvka perm maxLow hg hdfs hmc th hrn hadj
  intro t
  induction t with
  | zero =>
    intro y hy hm hb
    simp only [iter] at hb
    refine ⟨[y], .seed y (by simp [baseSeed, hb, hm]) hm, ?_, ?_⟩
    · intro w hw; simp only [List.mem_singleton] at hw
      exact ⟨0, Nat.le_refl _, hw⟩
    · intro w hw; simp only [List.mem_singleton] at hw
      subst hw; exact hge w hy
  | succ t ih =>
    intro y hy hm hb
    by_cases hs : recv' y = y
    · have hb' : e.isBase (iter recv' t y) = true := by
        rw [iter_fix' hs] at hb ⊢; exact hb
      obtain ⟨p, h1, h2, h3⟩ := ih y hy hm hb'
      refine ⟨p, h1, ?_, h3⟩
      intro w hw
      obtain ⟨s, hs', hw'⟩ := h2 w hw
      exact ⟨s, by omega, hw'⟩
    · obtain ⟨hmr, hnbr⟩ := hlink y hy hm hs
      have hrn' : recv' y < n := hlt y hy
      have hyr : y ∈ nbIdx e.topo (recv' y) := by
        rcases hnbr with ⟨d, hd⟩ | ⟨d, hd⟩
        · obtain ⟨d', hd'⟩ := hsym y (recv' y) d hy hd
          exact mem_nbIdx _ _ _ d' hd'
        · exact mem_nbIdx _ _ _ d hd
      obtain ⟨p, h1, h2, h3⟩ := ih (recv' y) hrn' hmr hb
      refine ⟨p ++ [y], .step p (recv' y) y h1 hyr hm, ?_, ?_⟩
      · intro w hw
        rcases List.mem_append.mp hw with hw | hw
        · obtain ⟨s, hs', hw'⟩ := h2 w hw
          exact ⟨s + 1, by omega, hw'⟩
        · simp only [List.mem_singleton] at hw
          exact ⟨0, by omega, hw⟩
      · intro w hw
        rcases List.mem_append.mp hw with hw | hw
        · exact not_lt_of_lt S htr (h3 w hw) (hc y hy hs)
        · simp only [List.mem_singleton] at hw
          subst hw; exact hge w hy

end carve

/-! ### the pass nodes of an oriented tree edge are neighbours -/

section
variable (S : Scalar α) (e : Env α) (g : Graph α) (f : Nat → α) (useBoruvka : Bool)
  (perm : List Nat) (maxLow : Nat) {recv1 : Nat → Nat} {skip : Nat → Bool}

/-- a real edge of the oriented basin tree joins two neighbouring nodes: in the table of
`connect_basins` `p1` is a neighbour entry of `p0` (`c15_edge_sound`), and `orient` keeps the edge
or swaps its ends (`orient_spec`). -/
theorem bg_adj (hlaws : LtLaws S) (hg : SingleGraph e.topo.n g recv1 skip)
    (hdfs : g.dfs = dfsBottomUp e.topo.n g)
    (hmc : ∀ x, x < e.topo.n → e.mask x = false → e.mask (recv1 x) = false)
    (hwork : work e.topo g.dfs < Mst.none)
    (hF : Forest ((tree0Of S e g f useBoruvka perm maxLow).filterMap (toE (cbOf S e g f).edges))) :
    ∀ idx, idx ∈ (bgOf S e g f useBoruvka perm maxLow).tree → ∀ ed,
      (bgOf S e g f useBoruvka perm maxLow).edges[idx]? = some ed → ed.p0 ≠ Mst.none →
      (∃ d, (ed.p1, d) ∈ e.topo.nbrs ed.p0) ∨ (∃ d, (ed.p0, d) ∈ e.topo.nbrs ed.p1) := by
  have H := sweepHyp_resolve S e hlaws hg hdfs hmc hwork
  obtain ⟨hE, hT, _⟩ := bgOf_eq S e g f useBoruvka perm maxLow
  obtain ⟨_, _, o_flip, _⟩ :=
    orient_spec (basins e.topo.n g e.mask e.isBase).outlets.length (cbOf S e g f).edges
      (tree0Of S e g f useBoruvka perm maxLow) (cbOf S e g f).root hF
  rw [← hE, ← hT] at o_flip
  have sound := c15_edge_sound (isBase := e.isBase) (f := f) H
  obtain ⟨_, v_list⟩ := c15_virtual (isBase := e.isBase) (f := f) H
  change (cbOf S e g f).edges.toList.filter _ = _ at v_list
  intro idx _ ed hed hr
  rcases o_flip idx with h1 | ⟨_, e0, he0, h1⟩
  · rw [hed] at h1
    obtain ⟨_, _, _, ⟨d, s4, _⟩, _⟩ := sound ed (Array.mem_iff_getElem?.mpr ⟨idx, h1.symm⟩) hr
    exact Or.inl ⟨d, s4⟩
  · rw [hed] at h1; cases h1
    have hr0 : e0.p0 ≠ Mst.none := by
      intro hv
      have hm : e0 ∈ (cbOf S e g f).edges.toList.filter (fun ed => ed.p0 == Mst.none) :=
        List.mem_filter.mpr ⟨Array.mem_toList_iff.mpr (Array.mem_iff_getElem?.mpr ⟨idx, he0⟩), by simp [hv]⟩
      rw [v_list] at hm
      obtain ⟨o, _, rfl⟩ := List.mem_map.mp hm
      exact hr rfl
    obtain ⟨_, _, _, ⟨d, s4, _⟩, _⟩ := sound e0 (Array.mem_iff_getElem?.mpr ⟨idx, he0⟩) hr0
    exact Or.inr ⟨d, s4⟩

/-- with Kruskal's tree and a sorted permutation (the hypotheses of
`resolve_c01_kruskal_sorted`) everything `resolve_c01` and `resolve_ge_spill_carve` assume about
the oriented basin tree holds. -/
theorem kruskal_sorted_hyps (hlaws : LtLaws S) (hg : SingleGraph e.topo.n g recv1 skip)
    (hdfs : g.dfs = dfsBottomUp e.topo.n g)
    (hmc : ∀ x, x < e.topo.n → e.mask x = false → e.mask (recv1 x) = false)
    (hwork : work e.topo g.dfs < Mst.none)
    (hnb : ∀ i, i < e.topo.n → ∀ p, p ∈ e.topo.nbrs i → p.1 < e.topo.n)
    (hvp : validPerm S (cbOf S e g f).edges perm = true)
    (hnt : ∀ a b c, S.lt b a = false → S.lt c b = false → S.lt c a = false)
    (hfin : ∀ i, i < e.topo.n → S.lt S.lowest (f i) = true) :
    TreeHyp e.topo.n e.mask (labOf e g) (bgOf S e g f false perm maxLow).edges
      (bgOf S e g f false perm maxLow).tree ∧
    (∀ idx, idx ∈ (bgOf S e g f false perm maxLow).tree → ∀ ed,
      (bgOf S e g f false perm maxLow).edges[idx]? = some ed → ed.p0 ≠ Mst.none →
      e.isBase ((outlOf e g).getD ed.l1 0) = false) ∧
    RootHyp e.isBase (outlOf e g) (bgOf S e g f false perm maxLow).edges
      (bgOf S e g f false perm maxLow).tree (bgOf S e g f false perm maxLow).root ∧
    (∀ idx, idx ∈ (bgOf S e g f false perm maxLow).tree → ∀ ed,
      (bgOf S e g f false perm maxLow).edges[idx]? = some ed → ed.p0 ≠ Mst.none →
      (∃ d, (ed.p1, d) ∈ e.topo.nbrs ed.p0) ∨ (∃ d, (ed.p0, d) ∈ e.topo.nbrs ed.p1)) := by
  have ht0 : tree0Of S e g f false perm maxLow =
      kruskal (basins e.topo.n g e.mask e.isBase).outlets.length (cbOf S e g f).edges perm := by
    simp [tree0Of]
  have hedlt := cb_edges_lt S e g f hlaws hg hdfs hmc hwork hnb
  have hF : Forest ((tree0Of S e g f false perm maxLow).filterMap (toE (cbOf S e g f).edges)) := by
    rw [ht0]
    exact Fs.C15.kruskal_forest _ _ perm (fun i _ ed hed => hedlt i ed hed)
  have hvt : ∀ k ed, (cbOf S e g f).edges[k]? = some ed → ed.p0 = Mst.none →
      k ∈ tree0Of S e g f false perm maxLow := by
    rw [ht0]
    obtain ⟨hV, hVinj⟩ := cb_virtual_star S e g f hlaws hg hdfs hmc hwork
    apply kruskal_keeps_virtual S _ _ perm hvp hnt hedlt (cbOf S e g f).root hV hVinj
    intro k ed hk hr
    have H := sweepHyp_resolve S e hlaws hg hdfs hmc hwork
    obtain ⟨s1, _, _, ⟨dd, s4, _⟩, _, _, s7, _⟩ :=
      c15_edge_sound (isBase := e.isBase) (f := f) H ed (Array.mem_iff_getElem?.mpr ⟨k, hk⟩) hr
    have hp0 : ed.p0 < e.topo.n := by
      rw [hdfs] at s1; exact (Fs.C19.mem_order hg _).mp s1
    rw [s7]
    unfold Scalar.max
    split
    · exact hfin _ (hnb _ hp0 _ s4)
    · exact hfin _ hp0
  obtain ⟨a, b, c⟩ := bg_hyps S e g f false perm maxLow hlaws hg hdfs hmc hwork hnb hF hvt
  exact ⟨a, b, c, bg_adj S e g f false perm maxLow hlaws hg hdfs hmc hwork hF⟩

end

end Fs.C02Mst
