import FsModel.Flow
import FsModel.Descent
import FsProofs.DfsPerm
import FsProofs.Properties.C04

/-! # C06 — graph tables and traversal orders are mutually consistent (single-direction graphs)

End-to-end statements about the graph value the model driver builds for single-direction
operators (`Fs.Flow.singleRouter`, and any graph assembled the same way from a receiver function
and `Fs.Donors.donors`, such as the one `Fs.Mst.resolve` returns): the donor table is the exact
inverse of the receiver table, the bottom-up order `dfsBottomUp` is a permutation of all nodes with
every node after its receiver.  The generic part (`SingleGraph`) needs only that following
receivers ends at a self-receiver; for the router this follows from strict descent (C04). -/
namespace Fs.C06
open Fs Fs.Flow Fs.Dfs List

variable {α : Type}

/-! ### the order depends only on the tables below `n` -/

theorem drain_congr {don don' : Nat → List Nat} {n : Nat}
    (hd : ∀ s, s < n → don s = don' s) (hlt : ∀ s, s < n → ∀ d, d ∈ don s → d < n)
    (fuel : Nat) (st out : List Nat) (hst : ∀ s, s ∈ st → s < n) :
    drain don fuel st out = drain don' fuel st out := by
  induction fuel generalizing st out with
  | zero => rfl
  | succ f ih =>
    cases st with
    | nil => rfl
    | cons s st =>
      have hs := hst s mem_cons_self
      simp only [drain, ← hd s hs]
      apply ih
      intro x hx
      rcases mem_append.mp hx with h | h
      · exact hlt s hs x (mem_reverse.mp h)
      · exact hst x (mem_cons_of_mem _ h)

theorem dfs_congr {don don' : Nat → List Nat} {recv recv' : Nat → Nat} {n : Nat}
    (hd : ∀ s, s < n → don s = don' s) (hlt : ∀ s, s < n → ∀ d, d ∈ don s → d < n)
    (hr : ∀ i, i < n → recv i = recv' i) (fuel : Nat) :
    dfs don recv n fuel = dfs don' recv' n fuel := by
  have hroots : roots recv n = roots recv' n := by
    unfold roots
    apply filter_congr
    intro i hi
    rw [hr i (mem_range.mp hi)]
  unfold dfs
  rw [← hroots]
  have hin : ∀ r, r ∈ roots recv n → r < n := by
    intro r hr'; simp only [roots, mem_filter, mem_range] at hr'; exact hr'.1
  generalize roots recv n = rs at hin
  suffices H : ∀ out, rs.foldl (fun out r => drain don fuel [r] (out ++ [r])) out =
      rs.foldl (fun out r => drain don' fuel [r] (out ++ [r])) out from H []
  induction rs with
  | nil => intro out; rfl
  | cons r t ih =>
    intro out
    simp only [foldl_cons]
    rw [drain_congr hd hlt fuel [r] (out ++ [r]) (by intro s hs; simp at hs; subst hs; exact hin s mem_cons_self)]
    exact ih (fun x hx => hin x (mem_cons_of_mem _ hx)) _

/-! ### graphs assembled from a receiver function -/

/-- a single-direction graph over `n` nodes whose tables are those the routers / the spanning-tree
resolver build: one receiver per node, donors = `Fs.Donors.donors recv1 skip n` where skipped
nodes are their own receiver -/
structure SingleGraph (n : Nat) (g : Graph α) (recv1 : Nat → Nat) (skip : Nat → Bool) : Prop where
  recv_eq : ∀ i, i < n → g.recv i = [recv1 i]
  don_eq : ∀ i, i < n → g.donors i = (Fs.Donors.donors recv1 skip n).get i
  skip_self : ∀ d, d < n → skip d = true → recv1 d = d
  recv_lt : ∀ i, i < n → recv1 i < n
  /-- following receivers from any node ends at a node that is its own receiver -/
  forest : ∀ i, i < n → ∃ k, recv1 (Dfs.iter recv1 k i) = Dfs.iter recv1 k i

/-- receiver function and donor lists (self excluded), made total outside `0 … n-1` -/
def recvR (n : Nat) (recv1 : Nat → Nat) (i : Nat) : Nat := if i < n then recv1 i else i
def donR (n : Nat) (g : Graph α) (s : Nat) : List Nat := if s < n then donNoSelf g s else []

theorem recv0_eq {n : Nat} {g : Graph α} {recv1 skip} (h : SingleGraph n g recv1 skip) (i : Nat) (hi : i < n) :
    recv0 g i = recv1 i := by simp [recv0, h.recv_eq i hi]

/-- **donors are the exact inverse of the receivers** (table order = increasing index) -/
theorem mem_donors {n : Nat} {g : Graph α} {recv1 skip} (h : SingleGraph n g recv1 skip)
    (i : Nat) (hi : i < n) (d : Nat) :
    d ∈ g.donors i ↔ d < n ∧ skip d = false ∧ recv0 g d = i := by
  rw [h.don_eq i hi, Fs.Donors.mem_donors]
  constructor
  · rintro ⟨a, b, c⟩; exact ⟨a, b, by rw [recv0_eq h d a]; exact c⟩
  · rintro ⟨a, b, c⟩; exact ⟨a, b, by rw [← recv0_eq h d a]; exact c⟩

/-- for distinct nodes the inverse is exact whatever is skipped -/
theorem mem_donors_ne {n : Nat} {g : Graph α} {recv1 skip} (h : SingleGraph n g recv1 skip)
    (i : Nat) (hi : i < n) (d : Nat) (hne : d ≠ i) :
    d ∈ g.donors i ↔ d < n ∧ recv0 g d = i := by
  rw [mem_donors h i hi]
  constructor
  · rintro ⟨a, _, c⟩; exact ⟨a, c⟩
  · rintro ⟨a, c⟩
    refine ⟨a, ?_, c⟩
    cases hs : skip d
    · rfl
    · exfalso; apply hne; rw [← c, recv0_eq h d a]; exact (h.skip_self d a hs).symm

theorem donors_nodup {n : Nat} {g : Graph α} {recv1 skip} (h : SingleGraph n g recv1 skip)
    (i : Nat) (hi : i < n) : (g.donors i).Nodup := by
  rw [h.don_eq i hi]; exact Fs.Donors.donors_nodup _ _ _ _

theorem G'_of {n : Nat} {g : Graph α} {recv1 skip} (h : SingleGraph n g recv1 skip) :
    G' (donR n g) (recvR n recv1) n := by
  refine ⟨⟨?_⟩, ?_, ?_⟩
  · intro d s
    unfold donR recvR
    by_cases hs : s < n
    · simp only [hs, if_true, donNoSelf, mem_filter, bne_iff_ne]
      constructor
      · rintro ⟨hm, hne⟩
        obtain ⟨hd, _, hr⟩ := (mem_donors h s hs d).mp hm
        simp only [hd, if_true]
        exact ⟨by rw [← recv0_eq h d hd]; exact hr, hne⟩
      · rintro ⟨hr, hne⟩
        by_cases hd : d < n
        · simp only [hd, if_true] at hr
          exact ⟨(mem_donors_ne h s hs d hne).mpr ⟨hd, by rw [recv0_eq h d hd]; exact hr⟩, hne⟩
        · simp only [hd, if_false] at hr; exact absurd hr hne
    · simp only [hs, if_false, not_mem_nil, false_iff, not_and]
      intro hr hne
      by_cases hd : d < n
      · simp only [hd, if_true] at hr
        exact absurd (hr ▸ h.recv_lt d hd) hs
      · simp only [hd, if_false] at hr; exact hne hr
  · intro s
    unfold donR
    by_cases hs : s < n
    · simp only [hs, if_true, donNoSelf]; exact (donors_nodup h s hs).filter _
    · simp [hs]
  · intro s d hd
    unfold donR at hd
    by_cases hs : s < n
    · simp only [hs, if_true, donNoSelf, mem_filter] at hd
      exact ((mem_donors h s hs d).mp hd.1).1
    · simp [hs] at hd

theorem iter_recvR {n : Nat} {recv1 : Nat → Nat} (hlt : ∀ i, i < n → recv1 i < n) (k i : Nat) (hi : i < n) :
    Dfs.iter (recvR n recv1) k i = Dfs.iter recv1 k i ∧ Dfs.iter recv1 k i < n := by
  induction k generalizing i with
  | zero => exact ⟨rfl, hi⟩
  | succ k ih =>
    simp only [Dfs.iter]
    have : recvR n recv1 i = recv1 i := by simp [recvR, hi]
    rw [this]
    exact ih _ (hlt i hi)

theorem dfs_eq {n : Nat} {g : Graph α} {recv1 skip} (h : SingleGraph n g recv1 skip) :
    dfsBottomUp n g = dfs (donR n g) (recvR n recv1) n (n + 1) := by
  unfold dfsBottomUp
  symm
  apply dfs_congr
  · intro s hs; simp [donR, hs]
  · intro s hs d hd; exact (G'_of h).don_lt s d hd
  · intro i hi; simp [recvR, hi, recv0_eq h i hi]

/-- **the bottom-up order is a permutation of all nodes** -/
theorem dfs_perm {n : Nat} {g : Graph α} {recv1 skip} (h : SingleGraph n g recv1 skip) :
    (dfsBottomUp n g).Perm (range n) := by
  rw [dfs_eq h]
  apply Fs.Dfs.dfs_perm (G'_of h)
  · intro i hi; simp only [recvR, hi, if_true]; exact h.recv_lt i hi
  · intro i hi
    obtain ⟨k, hk⟩ := h.forest i hi
    obtain ⟨e1, e2⟩ := iter_recvR h.recv_lt k i hi
    refine ⟨k, ?_⟩
    rw [e1]; simp only [recvR, e2, if_true]; exact hk

/-- **every node appears after its receiver** -/
theorem dfs_recv_before {n : Nat} {g : Graph α} {recv1 skip} (h : SingleGraph n g recv1 skip)
    (pre : List Nat) (x : Nat) (post : List Nat) (hsplit : dfsBottomUp n g = pre ++ x :: post) :
    recv0 g x = x ∨ recv0 g x ∈ pre := by
  have hx : x < n := by
    have : x ∈ dfsBottomUp n g := by rw [hsplit]; simp
    exact mem_range.mp ((dfs_perm h).subset this)
  rw [dfs_eq h] at hsplit
  have := Fs.Dfs.dfs_recv_before (G'_of h).toG n (n + 1) pre x post hsplit
  simpa [recvR, hx, recv0_eq h x hx] using this

/-! ### the single-direction router builds such a graph -/

section router
variable (S : Scalar α) (e : Env α) (par : Bool) (f : Nat → α)

def routerSkip (i : Nat) : Bool := if par then false else (e.mask i || e.isBase i)

/-- strict descent along receivers ends at a self-receiver -/
theorem forest_of_descent (n : Nat) (recv1 : Nat → Nat) (f : Nat → α) (lt : α → α → Bool)
    (irrefl : ∀ a, lt a a = false) (trans : ∀ a b c, lt a b = true → lt b c = true → lt a c = true)
    (hlt : ∀ i, i < n → recv1 i < n)
    (hdesc : ∀ i, i < n → recv1 i = i ∨ lt (f (recv1 i)) (f i) = true) :
    ∀ i, i < n → ∃ k, recv1 (Dfs.iter recv1 k i) = Dfs.iter recv1 k i := by
  let R : α → α → Prop := fun a b => lt a b = true
  have hR : ∀ m i, i < n → Fs.rank R n f i < m → ∃ k, recv1 (Dfs.iter recv1 k i) = Dfs.iter recv1 k i := by
    intro m
    induction m with
    | zero => intro i _ h; omega
    | succ m ih =>
      intro i hi hm
      rcases hdesc i hi with hself | hl
      · exact ⟨0, hself⟩
      · have hr := Fs.rank_lt R (fun a h => by simp [R, irrefl a] at h) (fun a b c => trans a b c) n f i (recv1 i) (hlt i hi) hl
        obtain ⟨k, hk⟩ := ih (recv1 i) (hlt i hi) (by omega)
        exact ⟨k + 1, by simpa [Dfs.iter] using hk⟩
  intro i hi
  exact hR _ i hi (Nat.lt_succ_self _)

/-- the receiver column of the router's table -/
def rowRecv (i : Nat) : Nat :=
  (look (tab e.topo.n (singleRow S e f)) ({ recv := 0, dist := S.zero, smax := S.lowest } : Fs.Router.Best α) i).recv

theorem recv0_single : recv0 (singleRouter S e par f) = rowRecv S e f := by
  funext i; simp [recv0, singleRouter, rowRecv]

theorem donors_single : (singleRouter S e par f).donors =
    look (tab e.topo.n (Fs.Donors.donors (rowRecv S e f) (routerSkip e par) e.topo.n).get) [] := rfl

theorem dfs_single : (singleRouter S e par f).dfs = dfsBottomUp e.topo.n (singleRouter S e par f) := rfl

theorem singleRouter_graph (L : Fs.Router.Laws (routerOps S))
    (hnb : ∀ i, i < e.topo.n → ∀ p, p ∈ e.topo.nbrs i → p.1 < e.topo.n)
    (hlow : Fs.C04.HLow S e f) :
    SingleGraph e.topo.n (singleRouter S e par f) (rowRecv S e f) (routerSkip e par) := by
  have hr0 := recv0_single S e par f
  have hrecv : ∀ i, i < e.topo.n → (singleRouter S e par f).recv i = [rowRecv S e f i] := by
    intro i hi; rw [← hr0]; simp [recv0, (Fs.C04.rows S e par f i hi).1]
  have hlt : ∀ i, i < e.topo.n → rowRecv S e f i < e.topo.n := by
    intro i hi
    rw [← hr0]
    rcases Fs.C04.recv_lower S e par f L i hi hlow with h | ⟨_, _, _, p, hp, hpe⟩
    · rw [h]; exact hi
    · rw [← hpe]; exact hnb i hi p hp
  refine ⟨hrecv, ?_, ?_, hlt, ?_⟩
  · intro i hi
    rw [donors_single, look_tab _ _ _ _ hi]
  · intro d hd hs
    unfold routerSkip at hs
    by_cases hp : par = true
    · simp [hp] at hs
    · simp only [hp, if_false] at hs
      rw [← hr0]
      simp [recv0, (Fs.C04.terminal_row S e par f d hd hs).1]
  · apply forest_of_descent e.topo.n _ f S.lt L.irrefl L.trans hlt
    intro i hi
    rw [← hr0]
    rcases Fs.C04.recv_lower S e par f L i hi hlow with h | ⟨h, _⟩
    · exact Or.inl h
    · exact Or.inr h

/-- **C06 for the single router, donors**: for distinct nodes the donor table is the inverse of
the receiver table -/
theorem single_donors_inverse (L : Fs.Router.Laws (routerOps S))
    (hnb : ∀ i, i < e.topo.n → ∀ p, p ∈ e.topo.nbrs i → p.1 < e.topo.n)
    (hlow : Fs.C04.HLow S e f)
    (i : Nat) (hi : i < e.topo.n) (d : Nat) (hne : d ≠ i) :
    d ∈ (singleRouter S e par f).donors i ↔ d < e.topo.n ∧ recv0 (singleRouter S e par f) d = i :=
  mem_donors_ne (singleRouter_graph S e par f L hnb hlow) i hi d hne

/-- **C06 for the single router, bottom-up order**: a permutation of all nodes in which every node
appears after its receiver -/
theorem single_dfs (L : Fs.Router.Laws (routerOps S))
    (hnb : ∀ i, i < e.topo.n → ∀ p, p ∈ e.topo.nbrs i → p.1 < e.topo.n)
    (hlow : Fs.C04.HLow S e f) :
    (singleRouter S e par f).dfs.Perm (range e.topo.n) ∧
    ∀ pre x post, (singleRouter S e par f).dfs = pre ++ x :: post →
      recv0 (singleRouter S e par f) x = x ∨ recv0 (singleRouter S e par f) x ∈ pre := by
  have hg := singleRouter_graph S e par f L hnb hlow
  rw [dfs_single]
  exact ⟨dfs_perm hg, dfs_recv_before hg⟩

end router

end Fs.C06
