import FsModel.Pool5

/-! # C11 — the worker pool under SPURIOUS WAKE-UPS (`Fs.Pool5`)

`Fs.Pool4` (re-exported in `C11.lean`) models `m_cv.wait(lk)` as a contract-level wait that returns
only when notified.  `std::condition_variable::wait` may return spuriously; with the pause job
`++m_paused_count; m_cv.wait(lk); --m_paused_count` a worker woken spuriously left the pause job
while `pause()` was still spinning on `m_paused_count != m_size`, and `pause()` never returned
(`old_pause_hangs` below: a 14-step schedule, one worker, ONE spurious wake-up).

`Fs.Pool5` models the repaired code (`while (m_pause_requested) m_cv.wait(lk);`, the flag written
under `m_cv_m` by `pause()` before publishing and by `resume()` before `notify_all`) with a
condition variable that may wake up spuriously (`Tid.spur i`), any finite number of times per
worker slot (`init n ops sp`, `sp : Nat → Nat` arbitrary).  For every pool size, every program
accepted by `okProg`, every budget function and every interleaving:

* the invariant holds (`invariant5`), exactly-once (`exactly_once5`, `at_most_once_in_flight5`,
  `no_exec_outside_run5`), no reachable non-final state is stuck (`no_stuck_state5`), there is no
  infinite execution (`terminates5`, `no_infinite_run5`; the measure charges every trip round the
  wait loop to the spurious budget), a finished state stays reachable (`reaches_finished5`);
* `pause()` returns only when all workers are inside the wait loop with `m_paused_count = m_size`
  (`pause_returns_all_parked`), and from then until `resume()` clears `m_pause_requested` no
  worker leaves it (`pause_ends_only_by_resume`, `parked_stays5`, `leaves_only_when_cleared5`,
  `pauseReq_cleared_by_resume5`). -/
namespace Fs.C11

open Fs.Pool5

/-! ### the repaired protocol: invariant, exactly once, no stuck state, termination -/

/-- the invariant holds in every reachable state, whatever the spurious wake-up budgets -/
theorem invariant5 (n : Nat) (ops : List Op) (sp : Nat → Nat) (hops : okProg false false ops = true)
    (s : S) (h : Reachable (init n ops sp) s) : Inv s :=
  Fs.Pool5.reachable_inv n ops sp hops s h

/-- **exactly once** under spurious wake-ups -/
theorem exactly_once5 (n : Nat) (ops : List Op) (sp : Nat → Nat) (hops : okProg false false ops = true)
    (s : S) (h : Reachable (init n ops sp) s) (hc : s.cpc = .ready) : ∀ i, s.execs i = s.want i :=
  Fs.Pool5.exactly_once n ops sp hops s h hc

theorem at_most_once_in_flight5 (n : Nat) (ops : List Op) (sp : Nat → Nat) (hops : okProg false false ops = true)
    (s : S) (h : Reachable (init n ops sp) s) (i : Nat) :
    s.want i ≤ s.execs i ∧ s.execs i ≤ s.want i + 1 ∧
    (s.execs i = s.want i + 1 ↔ (i < s.N ∧ doneB s.cpc i (s.w i) (s.flags i) = true)) :=
  Fs.Pool5.at_most_once_in_flight n ops sp hops s h i

theorem no_exec_outside_run5 (n : Nat) (ops : List Op) (sp : Nat → Nat) (hops : okProg false false ops = true)
    (s : S) (h : Reachable (init n ops sp) s) (hc : ∀ k b, s.cpc ≠ .rbPub k b) (hc' : ∀ b, s.cpc ≠ .rbWait b) :
    ∀ i, s.execs i = s.want i :=
  Fs.Pool5.no_exec_outside_run n ops sp hops s h hc hc'

/-- **no deadlock, no lost wake-up, `pause()` cannot hang**: a reachable state whose caller has not
finished has an enabled thread.  The enabled thread found by the proof is never a spurious
wake-up (`Fs.Pool5.progress` only uses `caller`, `work i`, `exit i`): progress does not rely on
the condition variable waking up spuriously. -/
theorem no_stuck_state5 (n : Nat) (ops : List Op) (sp : Nat → Nat) (hops : okProg false false ops = true)
    (s : S) (h : Reachable (init n ops sp) s) (hnf : ¬ finished s) : ∃ t, (step s t).isSome = true :=
  Fs.Pool5.no_stuck_state n ops sp hops s h hnf

/-- **termination**: the step relation is well-founded on states satisfying the invariant; the
measure is `(callerLeft, Σ_i 4 * spur i + wbase …)`, every trip round the wait loop of the pause job
consumes one unit of the (finite, arbitrary) spurious budget -/
theorem terminates5 : WellFounded (fun s' s : S => Inv s ∧ ∃ t, step s t = some s') :=
  Fs.Pool5.terminates

theorem no_infinite_run5 (n : Nat) (ops : List Op) (sp : Nat → Nat) (hops : okProg false false ops = true)
    (run : Nat → S) (sched : Nat → Tid) (h0 : run 0 = init n ops sp)
    (hstep : ∀ k, step (run k) (sched k) = some (run (k + 1))) : False :=
  Fs.Pool5.no_infinite_run n ops sp hops run sched h0 hstep

theorem reaches_finished5 (n : Nat) (ops : List Op) (sp : Nat → Nat) (hops : okProg false false ops = true)
    (s : S) (h : Reachable (init n ops sp) s) : ∃ s', Reachable s s' ∧ finished s' :=
  Fs.Pool5.reaches_finished n ops sp hops s h

theorem between_calls5 (n : Nat) (ops : List Op) (sp : Nat → Nat) (hops : okProg false false ops = true) (s : S)
    (h : Reachable (init n ops sp) s) (hc : s.cpc = .ready) (i : Nat) (hi : i < s.N) :
    (s.stopped = true → s.w i = .exited ∧ s.flags i = false) ∧
    (s.stopped = false → s.paused = false → s.w i = .idle ∧ s.flags i = false) ∧
    (s.stopped = false → s.paused = true → parked (s.w i) = true ∧ s.flags i = true) :=
  Fs.Pool5.between_calls n ops sp hops s h hc i hi

theorem no_stranded_flag5 (n : Nat) (ops : List Op) (sp : Nat → Nat) (hops : okProg false false ops = true) (s : S)
    (h : Reachable (init n ops sp) s) (i : Nat) (hi : i < s.N) (hw : s.w i = .exited) : s.flags i = false :=
  Fs.Pool5.no_stranded_flag n ops sp hops s h i hi hw

theorem exit_only_when_flag_clear5 (n : Nat) (ops : List Op) (sp : Nat → Nat) (hops : okProg false false ops = true)
    (s : S) (h : Reachable (init n ops sp) s) (i : Nat) (hi : i < s.N) (hx : (stepX s i).isSome = true) :
    s.flags i = false :=
  Fs.Pool5.exit_only_when_flag_clear n ops sp hops s h i hi hx

/-- non-vacuity: the library's call pattern is an accepted program, with any budgets -/
example : okProg false false demoProg = true := by decide
example : okProg false false [.resume, .runBlocks 2, .pause, .resume, .runBlocks 2, .pause, .stop] = true := by decide

/-! ### the defect is gone: a spurious wake-up cannot end a pause -/

/-- **`pause()` returns only when every worker is parked** (whatever the spurious budgets): between
API calls, while paused, `m_pause_requested` is set, the pool is not stopped,
`m_paused_count = m_size`, and every worker is inside the wait loop of its pause job
(`pCheck` - necessarily with `pauseReq` set -, `pWaitEnter`, `pWaiting`, `pReacquire`), flag set. -/
theorem pause_returns_all_parked (n : Nat) (ops : List Op) (sp : Nat → Nat) (hops : okProg false false ops = true)
    (s : S) (h : Reachable (init n ops sp) s) (hc : s.cpc = .ready) (hp : s.paused = true) :
    s.pauseReq = true ∧ s.stopped = false ∧ s.count = s.N ∧
    ∀ i, i < s.N → parked (s.w i) = true ∧ s.flags i = true :=
  Fs.Pool5.pause_returns_parked n ops sp hops s h hc hp

/-- **only `resume()` ends a pause**: in EVERY reachable state with `m_paused` and
`m_pause_requested` set in which the caller is past the `m_paused_count` spin (between calls, in
`stop`'s `stSet`, in `resume`'s `reLock`/`reReq`), all workers are inside the wait loop and
`m_paused_count = m_size`.  So from the return of `pause()` until `resume()` executes
`m_pause_requested = false`, no worker is at `pDec`, `clear` or `idle`, in any interleaving and
with any number of spurious wake-ups. -/
theorem pause_ends_only_by_resume (n : Nat) (ops : List Op) (sp : Nat → Nat) (hops : okProg false false ops = true)
    (s : S) (h : Reachable (init n ops sp) s)
    (hp : s.paused = true) (hpr : s.pauseReq = true) (hns : s.cpc ≠ .paSpin) :
    s.count = s.N ∧ ∀ i, i < s.N → parked (s.w i) = true ∧ s.flags i = true :=
  Fs.Pool5.parked_while_requested n ops sp hops s h hp hpr hns

/-- step-level form: while `m_pause_requested` is set no step of any thread - in particular no
spurious wake-up - takes a parked worker out of the wait loop -/
theorem parked_stays5 (s s' : S) (inv : Inv s) (t : Tid) (h : step s t = some s')
    (hpr : s.pauseReq = true) (i : Nat) (hpk : parked (s.w i) = true) : parked (s'.w i) = true :=
  Fs.Pool5.parked_stays s s' inv t h hpr i hpk

/-- a worker reaches `pDec` only through its own loop-head test with `m_pause_requested` clear -/
theorem leaves_only_when_cleared5 (s s' : S) (t : Tid) (h : step s t = some s') (i : Nat)
    (h0 : s.w i ≠ .pDec) (h1 : s'.w i = .pDec) : t = .work i ∧ s.w i = .pCheck ∧ s.pauseReq = false :=
  Fs.Pool5.leaves_only_when_cleared s s' t h i h0 h1

/-- and `m_pause_requested` is cleared by `resume()` only -/
theorem pauseReq_cleared_by_resume5 (s s' : S) (t : Tid) (h : step s t = some s')
    (h0 : s.pauseReq = true) (h1 : s'.pauseReq = false) : t = .caller ∧ s.cpc = .reReq :=
  Fs.Pool5.pauseReq_cleared_by_resume s s' t h h0 h1

/-- the schedule that defeats the old protocol, replayed on the repaired one (with the extra
`paLock/paReq/paUnlock` caller steps and the loop head): the worker is woken spuriously, re-acquires
the mutex, re-tests `m_pause_requested`, goes back to sleep - and `pause()` returns -/
def spuriousSchedule : List Tid :=
  [.caller, .caller, .caller, .caller, .caller, .caller, .caller,   -- pause: wait, lock, set, unlock, set_tasks, publish
   .work 0, .work 0, .work 0, .work 0, .work 0,                      -- take job, lock, ++count, test, wait
   .spur 0,                                                          -- SPURIOUS return of wait
   .work 0, .work 0, .work 0,                                        -- re-acquire, re-test, wait again
   .caller, .caller, .caller]                                        -- m_paused = true, spin (count = 1), return

example : (match runSched (init 1 [.pause] (fun _ => 1)) spuriousSchedule with
    | some s => finishedB s && s.paused && s.pauseReq && s.count == 1 && s.w 0 == .pWaiting && s.flags 0 &&
                s.spur 0 == 0 && invB s
    | none => false) = true := by decide

/-- non-vacuity of `pause_returns_all_parked` / `pause_ends_only_by_resume`: a reachable state
(reached through a spurious wake-up) that satisfies their hypotheses -/
example : ∃ s, Reachable (init 1 [.pause] (fun _ => 1)) s ∧ s.cpc = .ready ∧ s.paused = true ∧
    s.pauseReq = true ∧ s.spur 0 = 0 := by
  cases h : runSched (init 1 [.pause] (fun _ => 1)) spuriousSchedule with
  | none => exact absurd h (by decide)
  | some s =>
    have hr := runSched_reachable _ _ _ h
    have hb : (match runSched (init 1 [.pause] (fun _ => 1)) spuriousSchedule with
        | some s => decide (s.cpc = .ready) && s.paused && s.pauseReq && s.spur 0 == 0
        | none => false) = true := by decide
    rw [h] at hb
    simp only [Bool.and_eq_true, decide_eq_true_eq, beq_iff_eq] at hb
    exact ⟨s, hr, hb.1.1.1, hb.1.1.2, hb.1.2, hb.2⟩

/-! ### the defect was real: the OLD protocol under one spurious wake-up

`Fs.Pool5.stepOld` is `Fs.Pool4.step` (pause job `lock; ++count; wait; --count`, no
`m_pause_requested`) plus the spurious-wake rule. -/

/-- one worker, program `[pause]`, one spurious wake-up: the worker is woken before the caller
reaches its spin loop, decrements the count, clears its flag and goes back to its main loop -/
def oldHangSchedule : List Tid :=
  [.caller, .caller, .caller, .caller,                -- pause: wait, set_tasks, publish job 0
   .work 0, .work 0, .work 0, .work 0,                 -- take job, lock, ++count (= 1), wait
   .spur 0,                                            -- SPURIOUS return of wait
   .work 0, .work 0, .work 0,                          -- re-acquire, --count (= 0) and unlock, flag := 0
   .caller, .caller]                                   -- m_paused = true, enter `while (count != size) {}`

/-- "no thread of a 1-worker pool can move" as a Boolean -/
def stuckOldB (s : S) : Bool :=
  s.N == 1 && (stepCOld s).isNone && (stepWOld s 0).isNone && (stepX s 0).isNone && (stepS s 0).isNone

theorem stuckOldB_sound (s : S) (h : stuckOldB s = true) : ∀ t, stepOld s t = none := by
  simp only [stuckOldB, Bool.and_eq_true, beq_iff_eq, Option.isNone_iff_eq_none] at h
  obtain ⟨⟨⟨⟨hN, hC⟩, hW⟩, hX⟩, hS⟩ := h
  intro t
  cases t with
  | caller => exact hC
  | work i =>
    simp only [stepOld, hN]
    split
    · rename_i hi; have : i = 0 := by omega
      subst this; exact hW
    · rfl
  | exit i =>
    simp only [stepOld, hN]
    split
    · rename_i hi; have : i = 0 := by omega
      subst this; exact hX
    · rfl
  | spur i =>
    simp only [stepOld, hN]
    split
    · rename_i hi; have : i = 0 := by omega
      subst this; exact hS
    · rfl

theorem oldHangSchedule_runs :
    (match runSchedOld (init 1 [.pause] (fun _ => 1)) oldHangSchedule with
      | some s => stuckOldB s && decide (s.cpc = .paSpin) && decide (s.paused = true) && s.count == 0 &&
                  decide (s.w 0 = .idle) && !s.flags 0
      | none => false) = true := by decide

/-- **the old protocol hangs in `pause()`**: with ONE worker, the program `[pause]` and ONE
spurious wake-up, the old protocol reaches a state in which the caller is in the
`while (m_paused_count != m_size) {}` loop of `pause()` with `m_paused_count = 0`, the worker is
back in its main loop with no job, and NO thread can ever move again: the state is not finished,
nothing is enabled, hence no finished state is reachable from it (`pause()` never returns; in the
C++ the caller burns a core for ever). -/
theorem old_pause_hangs :
    ∃ s, ReachableOld (init 1 [.pause] (fun _ => 1)) s ∧
      s.cpc = .paSpin ∧ s.count = 0 ∧ s.N = 1 ∧ s.w 0 = .idle ∧ s.flags 0 = false ∧
      ¬ finished s ∧ (∀ t, stepOld s t = none) ∧ (∀ s', ReachableOld s s' → ¬ finished s') := by
  have hrun := oldHangSchedule_runs
  cases h : runSchedOld (init 1 [.pause] (fun _ => 1)) oldHangSchedule with
  | none => rw [h] at hrun; cases hrun
  | some s =>
    rw [h] at hrun
    simp only [Bool.and_eq_true, decide_eq_true_eq, beq_iff_eq, Bool.not_eq_true'] at hrun
    obtain ⟨⟨⟨⟨⟨hst, hc⟩, _⟩, hcnt⟩, hw⟩, hf⟩ := hrun
    have hreach := runSchedOld_reachable (init 1 [.pause] (fun _ => 1)) oldHangSchedule _ s ReachableOld.refl h
    have hnone := stuckOldB_sound s hst
    have hN : s.N = 1 := by
      simp only [stuckOldB, Bool.and_eq_true, beq_iff_eq] at hst; exact hst.1.1.1.1
    have hnf : ¬ finished s := by
      intro hfin; have := hfin.1; rw [hc] at this; cases this
    refine ⟨s, hreach, hc, hcnt, hN, hw, hf, hnf, hnone, ?_⟩
    intro s' hr
    have : s' = s := by
      induction hr with
      | refl => rfl
      | step a b t _ hab ih => subst ih; rw [hnone t] at hab; cases hab
    rw [this]; exact hnf

/-- in contrast, the repaired protocol has no stuck state for the same pool, program and budget
(instance of `no_stuck_state5`), and WITHOUT spurious wake-ups the old protocol is fine
(`Fs.Pool4.no_stuck_state`; here: its complete state space for a 3-call program) -/
example (s : S) (h : Reachable (init 1 [.pause] (fun _ => 1)) s) (hnf : ¬ finished s) :
    ∃ t, (step s t).isSome = true :=
  no_stuck_state5 1 [.pause] (fun _ => 1) (by decide) s h hnf

set_option maxRecDepth 1000000 in
example : exploreOldFrom 1000 1 [.pause] (fun _ => 0) = (21, true) := by decide +kernel
set_option maxRecDepth 1000000 in
example : exploreOldFrom 1000 1 [.pause] (fun _ => 1) = (37, false) := by decide +kernel

/-! ### exhaustive explorations of small instances of the repaired protocol (kernel-checked)

`exploreFrom fuel n ops sp = (k, true)`: the `k` reachable states (all interleavings of the
caller, the workers, their exits and their spurious wake-ups) all satisfy the Boolean version of
the invariant, every state without a successor is finished, and exactly-once holds whenever the
caller is `ready`; the fuel was sufficient. -/

set_option maxRecDepth 1000000 in
example : exploreFrom 1000 1 [.pause] (fun _ => 2) = (60, true) := by decide +kernel
set_option maxRecDepth 1000000 in
example : exploreFrom 1000 1 [.pause, .resume] (fun _ => 2) = (150, true) := by decide +kernel
set_option maxRecDepth 1000000 in
example : exploreFrom 1000 1 [.runBlocks 1, .pause, .stop] (fun _ => 2) = (192, true) := by decide +kernel
set_option maxRecDepth 1000000 in
example : exploreFrom 1000 1 [.pause, .runBlocks 1, .resize 2, .stop] (fun _ => 1) = (152, true) := by decide +kernel
set_option maxRecDepth 1000000 in
example : exploreFrom 1000 2 [.pause] (fun i => if i = 0 then 2 else 0) = (231, true) := by decide +kernel
set_option maxRecDepth 1000000 in
example : exploreFrom 1000 2 [.pause] (fun _ => 1) = (275, true) := by decide +kernel

end Fs.C11
