import FsProofs.Properties.C02MstUpperPath
import FsProofs.Properties.C01MstOrientComplete
import FsProofs.Properties.C15Bottleneck

/-! # C02 for the spanning-tree sink resolver, upper bound, stage U3 (basin level)

* `orient_edge_complete` - a tree edge with an end point reached by `orient` is itself reached
  (the sweep is complete: read off the invariant `PInv` of `C01MstOrientComplete`);
* `low_congr_conn` - along a tree edge of pass elevation `≤ v` the predicate `Low … v` (all tree
  edges above the basin have pass elevation `≤ v`) is the same at both ends: for a reached edge
  because it is the only edge entering its head (`orient_spec`), for an unreached edge because
  no reached edge enters either end;
* `low_of_conn_root` - hence every basin joined to the root by tree edges of pass elevation `≤ v`
  satisfies `Low … v`;
* `kruskal_bottleneck_scalar` - `Fs.C15.kruskal_exec_bottleneck_of_validPerm` for a scalar record
  whose `lt` satisfies `Fs.UB.Laws` (linear order), with the thresholds written with `S.lt`:
  basins joined by stored edges of pass elevation `≤ v` are joined by TREE edges of pass elevation
  `≤ v`. -/
namespace Fs.C02Mst
open Fs Fs.Mst Fs.Kruskal Fs.C15 Fs.Dfs Fs.C01Mst Fs.C02

variable {α : Type}

/-- **the sweep of `orient` is edge-complete**: a tree edge one of whose end points is the root or
is entered by a reached edge is reached. -/
theorem orient_edge_complete (nb : Nat) (edges0 : Array (BEdge α)) (tree0 : List Nat) (root : Nat)
    (hF : Forest (tree0.filterMap (toE edges0)))
    (hlt : ∀ i, i ∈ tree0 → ∀ e0, edges0[i]? = some e0 → e0.l0 < nb ∧ e0.l1 < nb) (hr : root < nb) :
    ∀ i, i ∈ tree0 → ∀ e0, edges0[i]? = some e0 →
      (ReachedB (orient nb edges0 tree0 root).1 (orient nb edges0 tree0 root).2 root e0.l0 ∨
       ReachedB (orient nb edges0 tree0 root).1 (orient nb edges0 tree0 root).2 root e0.l1) →
      i ∈ (orient nb edges0 tree0 root).2 := by
  have hadj : ∀ node, AdjOk edges0 tree0 node
      (look (tab nb (tree0.foldl (adjStep edges0) (Tbl.const [])).get) [] node) := by
    intro node
    by_cases hn : node < nb
    · rw [look_tab _ _ _ _ hn, adjT_get]
      simp only [Tbl.get_const, List.nil_append]
      refine flatMap_adjC_ok edges0 node tree0 ?_ (nodup_filter_of_filterMap _ _ (Forest.nodup hF))
      intro i hi e0 he0 hh
      apply Forest.no_self_loop hF e0.l0 e0.pe
      have : (e0.l0, e0.l1, e0.pe) ∈ tree0.filterMap (toE edges0) :=
        List.mem_filterMap.mpr ⟨i, hi, by simp [toE, he0]⟩
      rw [← hh] at this; exact this
    · rw [look_tab_ge _ _ _ _ hn]
      exact ⟨List.nodup_nil, fun i hi => by cases hi⟩
  have hinit : PInv (edges0 := edges0) (tree0 := tree0) (root := root)
      (look (tab nb (tree0.foldl (adjStep edges0) (Tbl.const [])).get) []) []
      ({ edges := edges0, stack := [(root, root)], reached := [] } : OS α) := by
    refine ⟨core_init, (fun p hp => by cases hp), ?_⟩
    rintro v (hv | ⟨i, hi, _⟩)
    · right; simp [hv]
    · cases hi
  obtain ⟨P, hP, hstack⟩ := ploop hF _ hadj nb hlt hr (nb + 1) _ [] hinit (by simp; omega)
  generalize hs : orientLoop (look (tab nb (tree0.foldl (adjStep edges0) (Tbl.const [])).get) []) (nb + 1)
        { edges := edges0, stack := [(root, root)], reached := [] } = s at hP hstack
  have hc := hP.core
  have hed : (orient nb edges0 tree0 root).1 = s.edges := by rw [← hs]; rfl
  have htr : (orient nb edges0 tree0 root).2 = tree0.filter (fun e => s.reached.contains e) := by rw [← hs]; rfl
  have hmem : ∀ i, i ∈ (orient nb edges0 tree0 root).2 ↔ i ∈ s.reached := by
    intro i
    rw [htr, List.mem_filter, List.contains_iff_mem]
    exact ⟨fun h => h.2, fun h => ⟨(hc.re i h).1, h⟩⟩
  have hRB : ∀ v, ReachedB (orient nb edges0 tree0 root).1 (orient nb edges0 tree0 root).2 root v → InV root s v := by
    intro v
    unfold ReachedB InV
    rw [hed]
    rintro (h | ⟨j, hj, ej, hej, hl⟩)
    · exact Or.inl h
    · exact Or.inr ⟨j, (hmem j).mp hj, ej, hej, hl⟩
  have hall : ∀ u, InV root s u → ∀ i, i ∈ look (tab nb (tree0.foldl (adjStep edges0) (Tbl.const [])).get) [] u →
      i ∈ s.reached := by
    intro u hu i hi
    rcases hP.cover u hu with h1 | h1
    · exact hP.closed u h1 i hi
    · rw [hstack] at h1; cases h1
  intro i hi e0 he0 hre
  obtain ⟨a, b⟩ := hlt i hi e0 he0
  have hin : ∀ u, u < nb → (e0.l0 = u ∨ e0.l1 = u) →
      i ∈ look (tab nb (tree0.foldl (adjStep edges0) (Tbl.const [])).get) [] u := by
    intro u hu hl
    rw [look_tab _ _ _ _ hu, adjT_get]
    simp only [Tbl.get_const, List.nil_append]
    apply List.mem_flatMap.mpr ⟨i, hi, ?_⟩
    unfold adjC; rw [he0]
    rcases hl with h | h <;> simp [h]
  rw [hmem]
  rcases hre with h | h
  · exact hall _ (hRB _ h) i (hin _ a (Or.inl rfl))
  · exact hall _ (hRB _ h) i (hin _ b (Or.inr rfl))

/-! ### `Low` along tree edges -/

section low
variable {S : Scalar α} {edges : Array (BEdge α)} {tree : List Nat} {v : α}

/-- along an oriented tree edge of pass elevation `≤ v`, `Low` is the same at both ends -/
theorem low_edge_iff
    (uniq : ∀ i j, i ∈ tree → j ∈ tree → ∀ ei ej, edges[i]? = some ei → edges[j]? = some ej →
      ei.l1 = ej.l1 → i = j)
    (idx : Nat) (ed : BEdge α) (hidx : idx ∈ tree) (hed : edges[idx]? = some ed)
    (hv : S.lt v ed.pe = false) :
    Low S edges tree v ed.l0 ↔ Low S edges tree v ed.l1 := by
  constructor
  · exact fun h => Low.down idx ed hidx hed hv h
  · intro h
    generalize hb : ed.l1 = b at h
    cases h with
    | top _ hno => exact absurd hb (hno idx hidx ed hed)
    | down idx' ed' hidx' hed' _ hl0 =>
      have : idx = idx' := uniq idx idx' hidx hidx' ed ed' hed hed' hb
      subst this
      rw [hed] at hed'; cases hed'
      exact hl0

theorem low_unreached (b : Nat)
    (h : ∀ idx, idx ∈ tree → ∀ ed, edges[idx]? = some ed → ed.l1 ≠ b) : Low S edges tree v b :=
  Low.top b h

end low

/-- **`Low` is constant on the components of the sub-forest of tree edges of pass elevation
`≤ v`.** -/
theorem low_congr_conn (S : Scalar α) (nb : Nat) (edges0 : Array (BEdge α)) (tree0 : List Nat) (root : Nat)
    (hF : Forest (tree0.filterMap (toE edges0)))
    (hlt : ∀ i, i ∈ tree0 → ∀ e0, edges0[i]? = some e0 → e0.l0 < nb ∧ e0.l1 < nb) (hr : root < nb)
    (v : α) :
    ∀ a b, Conn ((tree0.filterMap (toE edges0)).filter (fun x => !S.lt v x.2.2)) a b →
      (Low S (orient nb edges0 tree0 root).1 (orient nb edges0 tree0 root).2 v a ↔
       Low S (orient nb edges0 tree0 root).1 (orient nb edges0 tree0 root).2 v b) := by
  obtain ⟨_, _, o_flip, _, o_uniq, _, _, _⟩ := orient_spec nb edges0 tree0 root hF
  have hec := orient_edge_complete nb edges0 tree0 root hF hlt hr
  generalize (orient nb edges0 tree0 root).1 = edges' at *
  generalize (orient nb edges0 tree0 root).2 = tree at *
  intro a b c
  induction c with
  | refl a => exact Iff.rfl
  | edge u w pe hm =>
    obtain ⟨hm1, hm2⟩ := List.mem_filter.mp hm
    have hpe : S.lt v pe = false := by simpa using hm2
    obtain ⟨i, hi, hix⟩ := List.mem_filterMap.mp hm1
    unfold toE at hix
    cases he : edges0[i]? with
    | none => rw [he] at hix; cases hix
    | some e0 =>
      rw [he] at hix
      simp only [Option.map_some, Option.some.injEq, Prod.mk.injEq] at hix
      obtain ⟨rfl, rfl, rfl⟩ := hix
      by_cases hit : i ∈ tree
      · rcases o_flip i with h1 | ⟨_, e0', he0', h1⟩
        · rw [he] at h1
          exact low_edge_iff o_uniq i e0 hit h1 hpe
        · rw [he] at he0'; cases he0'
          exact (low_edge_iff o_uniq i (flipE e0) hit h1 hpe).symm
      · have hnr : ∀ x, (x = e0.l0 ∨ x = e0.l1) →
            ∀ idx, idx ∈ tree → ∀ ed, edges'[idx]? = some ed → ed.l1 ≠ x := by
          intro x hx idx hidx ed hed hl
          apply hit
          apply hec i hi e0 he
          rcases hx with rfl | rfl
          · exact Or.inl (Or.inr ⟨idx, hidx, ed, hed, hl⟩)
          · exact Or.inr (Or.inr ⟨idx, hidx, ed, hed, hl⟩)
        exact ⟨fun _ => Low.top _ (hnr _ (Or.inr rfl)), fun _ => Low.top _ (hnr _ (Or.inl rfl))⟩
  | symm _ ih => exact ih.symm
  | trans _ _ ih1 ih2 => exact ih1.trans ih2

/-- **basins joined to the root by tree edges of pass elevation `≤ v` satisfy `Low … v`.** -/
theorem low_of_conn_root (S : Scalar α) (nb : Nat) (edges0 : Array (BEdge α)) (tree0 : List Nat) (root : Nat)
    (hF : Forest (tree0.filterMap (toE edges0)))
    (hlt : ∀ i, i ∈ tree0 → ∀ e0, edges0[i]? = some e0 → e0.l0 < nb ∧ e0.l1 < nb) (hr : root < nb)
    (v : α) (b : Nat)
    (hc : Conn ((tree0.filterMap (toE edges0)).filter (fun x => !S.lt v x.2.2)) root b) :
    Low S (orient nb edges0 tree0 root).1 (orient nb edges0 tree0 root).2 v b := by
  obtain ⟨_, _, _, _, _, o_noroot, _, _⟩ := orient_spec nb edges0 tree0 root hF
  exact (low_congr_conn S nb edges0 tree0 root hF hlt hr v root b hc).mp (Low.top root o_noroot)

/-! ### the bottleneck property of the executed Kruskal, thresholds written with `S.lt` -/

/-- the linear order of a scalar record satisfying `Fs.UB.Laws` -/
@[reducible] def linOrd (S : Scalar α) (L : Fs.UB.Laws (ubOrd S)) : LinearOrder α where
  le a b := S.lt b a = false
  lt a b := S.lt a b = true
  le_refl a := L.irrefl a
  le_trans _ _ _ h1 h2 := ule_trans L h1 h2
  lt_iff_le_not_ge a b := by
    constructor
    · intro h
      exact ⟨ule_of_lt L h, fun h' => by rw [h] at h'; cases h'⟩
    · rintro ⟨_, h2⟩
      cases h : S.lt a b with
      | false => exact absurd h h2
      | true => rfl
  le_antisymm a b h1 h2 := L.antisymm a b h2 h1
  le_total a b := by
    rcases Bool.eq_false_or_eq_true (S.lt b a) with h | h
    · exact Or.inr (ule_of_lt L h)
    · exact Or.inl h
  toDecidableLE := fun a b => inferInstanceAs (Decidable (S.lt b a = false))
  toDecidableLT := fun a b => inferInstanceAs (Decidable (S.lt a b = true))

/-- **bottleneck property of the executed Kruskal** for a scalar record with a linear `lt`:
basins joined by handed-over edges of pass elevation `≤ v` are joined by accepted edges of pass
elevation `≤ v`. -/
theorem kruskal_bottleneck_scalar (S : Scalar α) (L : Fs.UB.Laws (ubOrd S))
    (nb : Nat) (edges : Array (BEdge α)) (perm : List Nat)
    (hv : ∀ i, i ∈ perm → ∀ e, edges[i]? = some e → e.l0 < nb ∧ e.l1 < nb)
    (hvalid : validPerm S edges perm = true) (v : α) (a b : Nat)
    (h : Conn ((perm.filterMap (toE edges)).filter (fun x => !S.lt v x.2.2)) a b) :
    Conn (((Fs.Mst.kruskal nb edges perm).filterMap (toE edges)).filter (fun x => !S.lt v x.2.2)) a b := by
  let _ : LinearOrder α := linOrd S L
  have hpred : (fun x : E α => decide (x.2.2 ≤ v)) = (fun x : E α => !S.lt v x.2.2) := by
    funext x
    apply Bool.eq_iff_iff.mpr
    simp only [decide_eq_true_iff, Bool.not_eq_true']
    exact Iff.rfl
  have hlt : ∀ a b : α, S.lt a b = decide (a < b) := by
    intro a b
    apply Bool.eq_iff_iff.mpr
    simp only [decide_eq_true_iff]
    exact Iff.rfl
  have := kruskal_exec_bottleneck_of_validPerm S hlt nb edges perm hv hvalid v a b (by rw [hpred]; exact h)
  rw [hpred] at this
  exact this

end Fs.C02Mst
