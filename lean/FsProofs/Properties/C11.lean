import FsModel.Blocks
import FsModel.Pool
import FsModel.Pool3
import FsModel.Pool4
import FsModel.Hb
import FsModel.Generated
import FsModel.DriverMain

/-! # C11 — worker pool runs each block exactly once and never hangs or races

* block arithmetic: theorems about `Fs.mkBlocks`, the function the model driver executes for every
  `blocks` / `run` call;
* protocol: the transition system `Fs.Pool3` (caller program + N workers, flags, mutex, condition
  variable with pending notifications) models the source **iff** `resume()` notifies while holding
  the mutex — that flag is regenerated from thread_pool_inl.hpp on every run and checked here by
  `decide`; for that configuration `no_stuck_state` holds for every pool size, every
  library-issued program and every interleaving;
* publication: with the memory orders regenerated from the source, job data written before the
  flag store is visible to the worker and results are visible to the caller after `wait`
  (`publication_iff`, a view-based release/acquire fragment). -/
namespace Fs.C11

/-- **blocks_partition**, at the level of the constructor arguments: for every non-empty range,
pool size ≥ 1 and minimum block size, the blocks are at most `poolSize`, non-empty, contiguous,
start at `first` and end at `last` — hence every index of `[first, last)` lies in exactly one. -/
theorem blocks_exact (first last poolSize minSize : Nat) (hp : 0 < poolSize) (h : first < last) :
    let b := Fs.mkBlocks first last poolSize minSize
    0 < b.nb ∧ b.nb ≤ poolSize ∧ b.start 0 = first ∧ b.stop (b.nb - 1) = last ∧
    (∀ k, k < b.nb → b.start k < b.stop k) ∧ (∀ k, k + 1 < b.nb → b.stop k = b.start (k + 1)) := by
  intro b
  have w := Fs.mkBlocks_wf first last poolSize minSize hp h
  obtain ⟨h1, h2, h3, h4⟩ := Fs.blocks_partition b w
  have hf : b.first = first := by
    show (Fs.mkBlocks first last poolSize minSize).first = first
    unfold Fs.mkBlocks; simp only [gt_iff_lt, h, if_true]; repeat' split
    all_goals rfl
  have hl : b.last = last := by
    show (Fs.mkBlocks first last poolSize minSize).last = last
    unfold Fs.mkBlocks; simp only [gt_iff_lt, h, if_true]; repeat' split
    all_goals rfl
  exact ⟨w.nb_pos, w.nb_le, by rw [h1, hf], by rw [h2, hl], h3, h4⟩

/-- an empty range dispatches nothing -/
theorem blocks_empty (first last poolSize minSize : Nat) (h : ¬ first < last) :
    (Fs.mkBlocks first last poolSize minSize).nb = 0 := by
  unfold Fs.mkBlocks; simp [h]

/-- abstract form: any family of `nb` non-empty contiguous intervals from `first` to `last`
contains every index of `[first, last)` in exactly one interval -/
theorem unique_interval (nb first last : Nat) (start stop : Nat → Nat) (hpos : 0 < nb)
    (h0 : start 0 = first) (hlast : stop (nb - 1) = last)
    (hne : ∀ k, k < nb → start k < stop k) (hcont : ∀ k, k + 1 < nb → stop k = start (k + 1))
    (x : Nat) (hx : first ≤ x ∧ x < last) :
    (∃ k, k < nb ∧ start k ≤ x ∧ x < stop k) ∧
    (∀ k k', k < nb → k' < nb → start k ≤ x → x < stop k → start k' ≤ x → x < stop k' → k = k') := by
  have mono : ∀ k, k + 1 < nb → start k < start (k + 1) := by
    intro k hk; rw [← hcont k hk]; exact hne k (by omega)
  have mono' : ∀ k, k < nb → ∀ j, j ≤ k → start j ≤ start k := by
    intro k
    induction k with
    | zero => intro _ j hj; have : j = 0 := by omega
              subst this; exact Nat.le_refl _
    | succ m ih =>
      intro hk j hj
      by_cases hjm : j = m + 1
      · subst hjm; exact Nat.le_refl _
      · have h1 := ih (by omega) j (by omega)
        have h2 := mono m hk
        omega
  constructor
  · have : ∀ d n, nb - 1 - n = d → n < nb → start n ≤ x → ∃ k, k < nb ∧ start k ≤ x ∧ x < stop k := by
      intro d
      induction d with
      | zero =>
        intro n hd hn hs
        have : n = nb - 1 := by omega
        exact ⟨n, hn, hs, by rw [this, hlast]; exact hx.2⟩
      | succ m ih =>
        intro n hd hn hs
        by_cases hlt : x < stop n
        · exact ⟨n, hn, hs, hlt⟩
        · have hn1 : n + 1 < nb := by omega
          have : start (n + 1) ≤ x := by rw [← hcont n hn1]; omega
          exact ih (n + 1) (by omega) hn1 this
    exact this (nb - 1 - 0) 0 rfl hpos (by rw [h0]; exact hx.1)
  · intro k k' hk hk' a1 a2 b1 b2
    rcases Nat.lt_trichotomy k k' with hlt | heq | hgt
    · have h1 : stop k = start (k + 1) := hcont k (by omega)
      have h2 := mono' k' hk' (k + 1) (by omega)
      omega
    · exact heq
    · have h1 : stop k' = start (k' + 1) := hcont k' (by omega)
      have h2 := mono' k hk (k' + 1) (by omega)
      omega

/-- **exactly once**: every index of the range lies in exactly one block -/
theorem index_in_unique_block (first last poolSize minSize : Nat) (hp : 0 < poolSize) (h : first < last)
    (x : Nat) (hx : first ≤ x ∧ x < last) :
    (∃ k, k < (Fs.mkBlocks first last poolSize minSize).nb ∧
        (Fs.mkBlocks first last poolSize minSize).start k ≤ x ∧ x < (Fs.mkBlocks first last poolSize minSize).stop k) ∧
    (∀ k k', k < (Fs.mkBlocks first last poolSize minSize).nb → k' < (Fs.mkBlocks first last poolSize minSize).nb →
      (Fs.mkBlocks first last poolSize minSize).start k ≤ x → x < (Fs.mkBlocks first last poolSize minSize).stop k →
      (Fs.mkBlocks first last poolSize minSize).start k' ≤ x → x < (Fs.mkBlocks first last poolSize minSize).stop k' → k = k') := by
  obtain ⟨hpos, _, h0, hlast, hne, hcont⟩ := blocks_exact first last poolSize minSize hp h
  exact unique_interval _ first last _ _ hpos h0 hlast hne hcont x hx

/-! ### the configuration found in the source -/

/-- `resume()` issues `notify_all` while holding `m_cv_m` (regenerated from the source) -/
theorem source_notifies_under_mutex : Fs.Gen.poolNotifyAfterLock = true := by decide

def moOf : Fs.Gen.MemOrder → Fs.Hb.MO
  | .relaxed => .relaxed | .acquire => .acquire | .release => .release | .acqRel => .seqCst | .seqCst => .seqCst

def sourceOrders : Fs.Hb.Cfg :=
  { publishStore := moOf Fs.Gen.poolOrders.publishStore, workerLoad := moOf Fs.Gen.poolOrders.workerLoad,
    doneStore := moOf Fs.Gen.poolOrders.doneStore, callerLoad := moOf Fs.Gen.poolOrders.waitLoad }

/-- **hb_publication** for the orders found in the source: the worker's read of the job and the
caller's read of the results are both ordered after the corresponding writes -/
theorem source_publication : Fs.Hb.round sourceOrders = (true, true) := by decide

/-- the protocol model of the configuration found in the source (`Fs.Pool` with the generated flag)
rejects the lost-wake-up schedule of the unrepaired code: the caller blocks on the mutex until the
worker is inside `wait` -/
theorem source_rejects_lost_wakeup_schedule :
    Fs.Pool.runTrace ⟨Fs.Gen.poolNotifyAfterLock⟩ (Fs.Pool.init 1 [Fs.Pool.Op.pause, Fs.Pool.Op.resume])
      Fs.Pool.lostWakeupTrace = none := by decide

/-- **no_stuck_state** (re-exported): for every pool size, every program the library issues
(run_blocks only while not paused) and every interleaving of caller and worker steps, a reachable
state whose caller has not finished has an enabled thread — no lost wake-up, no deadlock. -/
theorem no_stuck_state (n : Nat) (ops : List Fs.Pool3.Op) (hops : Fs.Pool3.okProg false ops = true) (s : Fs.Pool3.S)
    (h : Fs.Pool3.Reachable (Fs.Pool3.init n ops) s) (hnf : ¬ Fs.Pool3.finished s) :
    ∃ t, (Fs.Pool3.step s t).isSome = true :=
  Fs.Pool3.no_stuck_state n ops hops s h hnf

/-- non-vacuity: the library's own call pattern (resume; run_blocks; pause, repeated) is an accepted program -/
example : Fs.Pool3.okProg false [.resume, .runBlocks, .pause, .resume, .runBlocks, .pause] = true := by decide

/-- what the unrepaired configuration does (kept as documentation of finding D6): a 13-step
schedule with one worker ends in a state where no thread can move -/
example : (Fs.Pool.runTrace ⟨false⟩ (Fs.Pool.init 1 [Fs.Pool.Op.pause, Fs.Pool.Op.resume]) Fs.Pool.lostWakeupTrace).map
    (Fs.Pool.stuck ⟨false⟩) = some true := by decide

example : Fs.Hb.round ⟨.relaxed, .relaxed, .relaxed, .relaxed⟩ = (false, false) := by decide

/-! ### extended protocol (`Fs.Pool4`): stop / resize / destruction, exactly-once, termination -/

/-- the steps of the C++ pool that `Fs.Pool4` transcribes are all present in the source
(regenerated on every run; a change of the protocol's shape falsifies this `decide`) -/
theorem source_protocol_shape : Fs.Gen.poolProtocolShape.all (·.2) = true := by decide

/-- **exactly once**: between API calls every worker has executed its block exactly once per
`run_blocks` call that gave it one - any pool size, any program of run / pause / resume / resize /
stop the library can issue, any interleaving -/
theorem exactly_once (n : Nat) (ops : List Fs.Pool4.Op) (hops : Fs.Pool4.okProg false false ops = true)
    (s : Fs.Pool4.S) (h : Fs.Pool4.Reachable (Fs.Pool4.init n ops) s) (hc : s.cpc = .ready) :
    ∀ i, s.execs i = s.want i :=
  Fs.Pool4.exactly_once n ops hops s h hc

/-- **no deadlock** with stop, resize and destruction included -/
theorem no_stuck_state4 (n : Nat) (ops : List Fs.Pool4.Op) (hops : Fs.Pool4.okProg false false ops = true)
    (s : Fs.Pool4.S) (h : Fs.Pool4.Reachable (Fs.Pool4.init n ops) s) (hnf : ¬ Fs.Pool4.finished s) :
    ∃ t, (Fs.Pool4.step s t).isSome = true :=
  Fs.Pool4.no_stuck_state n ops hops s h hnf

/-- **termination**: no infinite execution (spins modelled as blocking: every fair schedule of the
C++ terminates) -/
theorem no_infinite_run (n : Nat) (ops : List Fs.Pool4.Op) (hops : Fs.Pool4.okProg false false ops = true)
    (run : Nat → Fs.Pool4.S) (sched : Nat → Fs.Pool4.Tid) (h0 : run 0 = Fs.Pool4.init n ops)
    (hstep : ∀ k, Fs.Pool4.step (run k) (sched k) = some (run (k + 1))) : False :=
  Fs.Pool4.no_infinite_run n ops hops run sched h0 hstep

end Fs.C11
