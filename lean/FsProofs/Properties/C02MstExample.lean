import FsProofs.Properties.C02MstRouter
import FsProofs.Properties.C01MstExample

/-! # C02 (spanning-tree resolver): concrete instances

The 1×5 profiles of `C01MstExample` (`xF = 1 5 3 7 2`) and a second one (`zF = 1 5 3 2 9`, one
depression `{2,3,4}` with pit `3`, pass `1 — 2` at height `5`) behind the single router: the
hypotheses of the theorems of `C02Mst`, `C02MstSpill`, `C02MstRouter` hold, the candidate
statements were tested on the executed model with `decide +kernel` (kernel reduction only), and
the instance on which the receiver-path statement T4 fails for `basic`. -/
namespace Fs.C02Mst.Example
open Fs Fs.Flow Fs.Mst Fs.Dfs Fs.C06 Fs.C01Mst Fs.C02 Fs.C02Mst Fs.C15Connect Fs.C01Mst.Example

/-! ### the executed model on the two profiles -/

def zF : Nat → Nat := fun i => [1, 5, 3, 2, 9].getD i 1
def zG : Graph Nat := singleRouter xS2 xEnv false zF

/-- router: `2 → 3 ← 4`, pit `3`; one real basin edge `(p0, p1) = (2, 1)` of height `5` -/
example : (List.range 5).map (recv0 zG) = [0, 0, 3, 3, 3] ∧
    (cbOf xS2 xEnv zG zF).edges.toList.map (fun e => (e.l0, e.l1, e.p0, e.p1, e.pe)) = [(1, 0, 2, 1, 5)] := by
  decide +kernel

/-- carve: the path `2 → 3` is reversed, `2 → 1` over the pass; `2` and `3` are lifted to one and
two increments above the pass height `5` (the spill level of both), node `4` (already above)
keeps its elevation -/
example : (let o := resolve xS2 xEnv zG zF false true [0] 0
    ((List.range 5).map (recv0 o.g), o.elev, o.hang)) = ([0, 0, 1, 2, 3], #[1, 5, 6, 7, 9], false) := by
  decide +kernel

/-- **`basic`: the receiver path is not a neighbour path.**  The pit `3` is linked directly to
the pass node `p0 = 1` (`f p1 = 3 < f p0 = 5`); `1` and `3` are not neighbours.  Hence T4 as a
statement about the new flow path is false for `basic`.  (The returned elevations
`1 5 7 6 9` are still not below the spill levels `1 5 5 5 9`.) -/
example : (let o := resolve xS2 xEnv zG zF false false [0] 0
    ((List.range 5).map (recv0 o.g), o.elev, nbIdx exT 3, nbIdx exT 1)) =
    ([0, 0, 3, 1, 3], #[1, 5, 7, 6, 9], [2, 4], [0, 2]) := by
  decide +kernel

/-! ### the candidate statements, tested on the executed model -/

/-- `resolve_shape` (hence T1–T3), carve and basic, both profiles -/
example : ∀ carve : Bool,
    (let o := resolve xS2 xEnv zG zF false carve [0] 0
     ∀ i, i < 5 → look o.elev 0 i = tiltVal (tiltOrdOf xS2) (recv0 o.g) zF (look o.elev 0) i) ∧
    (let o := resolve xS2 xEnv (singleRouter xS2 xEnv false xF) xF false carve [0, 1] 0
     ∀ i, i < 5 → look o.elev 0 i = tiltVal (tiltOrdOf xS2) (recv0 o.g) xF (look o.elev 0) i) := by
  decide +kernel

/-- T1 and T2 read off directly -/
example : ∀ carve : Bool,
    (let o := resolve xS2 xEnv zG zF false carve [0] 0
     ∀ i, i < 5 → xS2.lt (look o.elev 0 i) (zF i) = false ∧
       ((xEnv.mask i || xEnv.isBase i) = true → look o.elev 0 i = zF i) ∧
       (xS2.lt (look o.elev 0 (recv0 o.g i)) (zF i) = true → look o.elev 0 i = zF i)) := by
  decide +kernel

/-- T3 on the carve result: node `3` is `t = 2` links above `j = 1`, `z' 3 = nextUp² (f 1) = 7` -/
example : (let o := resolve xS2 xEnv zG zF false true [0] 0
    (iter (recv0 o.g) 2 3, look o.elev 0 3, Fs.UB.pw (ubOrd xS2) 2 (zF 1))) = (1, 7, 7) := by
  decide +kernel

/-! ### the hypotheses of the theorems are satisfiable -/

theorem zValid : validPerm xS2 (cbOf xS2 xEnv zG zF).edges [0] = true := by decide +kernel

/-- `resolve_c02_singleRouter` applies to both profiles, carve and basic -/
example (carve : Bool) :=
  resolve_c02_singleRouter xS2 xEnv false zF [0] 0 carve xLaws2 (by decide)
    (by intro i p _; simp [xS2, exS]) (by intro x; simp [xS2, exS]) (by decide +kernel) zValid (by decide)

example (carve : Bool) :=
  resolve_c02_singleRouter xS2 xEnv false xF [0, 1] 0 carve xLaws2 (by decide)
    (by intro i p _; simp [xS2, exS]) (by intro x; simp [xS2, exS]) (by decide +kernel) (by decide +kernel)
    (by decide)

theorem zConn : NConn exT exMask 3 0 :=
  .step (y := 1) (z := 0) 1 (.step (y := 2) (z := 1) 1 (.step (y := 3) (z := 2) 1 (.refl 3) (by decide) rfl)
    (by decide) rfl) (by decide) rfl

/-- T4 on the second profile: node `3` is connected to the base level `0`; its new flow path is a
neighbour path from an unmasked seed along which the input never exceeds `z' 3` -/
example :
    let o := resolve xS2 xEnv zG zF false true [0] 0
    ∃ p, Fs.UB.Path (nbIdx xEnv.topo) (seedP xEnv) xEnv.mask p 3 ∧
      (∀ w, w ∈ p → ∃ s, w = iter (recv0 o.g) s 3) ∧
      (∀ w, w ∈ p → xS2.lt (look o.elev xS2.zero 3) (zF w) = false) := by
  intro o
  obtain ⟨p, h1, h2, h3⟩ :=
    ((resolve_c02_singleRouter xS2 xEnv false zF [0] 0 true xLaws2 (by decide)
      (by intro i p _; simp [xS2, exS]) (by intro x; simp [xS2, exS]) (by decide +kernel) zValid
      (by decide)).2.2.2.2.2.2 rfl xSym).2 3 0 (by decide) rfl (by decide) rfl rfl zConn
  refine ⟨p, path_baseSeed_seedP xEnv ?_ h1, h2, h3⟩
  intro b hb
  have : b = 0 := by simpa [xEnv, exBase] using hb
  subst this; decide

/-! ### the theorems stated under the hypotheses of `resolve_c01` (any spanning tree) -/

/-- the facts about the oriented tree hold on the instance of `C01MstExample` (graph `xG`, scalar
`exS`), so `resolve_shape`, `resolve_ge_input`, `resolve_fixed`, `resolve_exact_shape`,
`resolve_chain` apply (carve and basic) -/
example (carve : Bool) : True := by
  obtain ⟨th, hinner, rh, _⟩ := kruskal_sorted_hyps exS xEnv xG xF [0, 1] 0 exLaws xG_single rfl
    (by decide) (by decide) (by decide) xValid xNt (by decide)
  have _h1 :=
    (resolve_shape exS xEnv xG xF false carve [0, 1] 0 xG_single rfl (by decide) (by decide)
      (by decide) (by decide) xNext th hinner rh)
  have _h2 :=
    (resolve_ge_input exS xEnv xG xF false carve [0, 1] 0 xG_single rfl (by decide) (by decide)
      (by decide) (by decide) xNext th hinner rh exLaws.irrefl exLaws.trans)
  have _h3 :=
    (resolve_fixed exS xEnv xG xF false carve [0, 1] 0 xG_single rfl (by decide) (by decide)
      (by decide) (by decide) xNext th hinner rh)
  have _h4 :=
    (resolve_exact_shape exS xEnv xG xF false carve [0, 1] 0 xG_single rfl (by decide) (by decide)
      (by decide) (by decide) xNext th hinner rh)
  have _h5 :=
    (resolve_chain exS xEnv xG xF false carve [0, 1] 0 xG_single rfl (by decide) (by decide)
      (by decide) (by decide) xNext th hinner rh exLaws.irrefl exLaws.trans)
  trivial

/-- and `carve_link`, `resolve_ge_spill_carve` (the input links `exRecv` are neighbour steps) -/
example : True := by
  obtain ⟨th, hinner, rh, hadj⟩ := kruskal_sorted_hyps exS xEnv xG xF [0, 1] 0 exLaws xG_single rfl
    (by decide) (by decide) (by decide) xValid xNt (by decide)
  have hrn : ∀ x, x < xEnv.topo.n → exRecv x ≠ x → ∃ p, p ∈ xEnv.topo.nbrs x ∧ p.1 = exRecv x := by
    decide
  have _h := resolve_ge_spill_carve exS xEnv xG xF false [0, 1] 0 xG_single rfl (by decide) (by decide)
    (by decide) (by decide) xNext th hinner rh hrn hadj exLaws.irrefl exLaws.trans xSym
  trivial

end Fs.C02Mst.Example
