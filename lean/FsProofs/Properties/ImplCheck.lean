import FsModel.ImplCheck
import FsModel.Descent
import FsModel.PFlood
import Batteries.Data.List.Perm
import FsProofs.Properties.C01Multi

/-! # Soundness of the implementation-output checkers of `FsModel/ImplCheck.lean`

`checker … = true → <the Prop-level statement the end-to-end theorems conclude>`, with the shapes
of `Fs.C06.multi_dfs`, `Fs.C06.multi_bfs`, `Fs.C06.multi_donors_inverse`, `Fs.C19.basins_spec`
and `Fs.C01.C01_pflood_multiRouter`, but about ANY tables (the ones the implementation printed). -/
namespace Fs.ImplCheck
open List

theorem all_range {n : Nat} {p : Nat → Bool} :
    (List.range n).all p = true ↔ ∀ i, i < n → p i = true := by
  simp [List.all_eq_true, List.mem_range]

/-! ### permutation of `range n` -/

theorem isPermRange_sound {n : Nat} {l : List Nat} (h : isPermRange n l = true) :
    l.Perm (List.range n) := by
  simp only [isPermRange, Bool.and_eq_true, beq_iff_eq, all_range, List.contains_iff_mem] at h
  obtain ⟨hlen, hall⟩ := h
  have hsub : List.range n ⊆ l := fun i hi => hall i (List.mem_range.mp hi)
  have hsp := List.subperm_of_subset List.nodup_range hsub
  exact (hsp.perm_of_length_le (by simp [hlen])).symm

/-- converse: the check accepts every permutation of `range n` -/
theorem isPermRange_complete {n : Nat} {l : List Nat} (h : l.Perm (List.range n)) :
    isPermRange n l = true := by
  simp only [isPermRange, Bool.and_eq_true, beq_iff_eq, all_range, List.contains_iff_mem]
  exact ⟨by simpa using h.length_eq, fun i hi => h.symm.subset (List.mem_range.mpr hi)⟩

/-! ### C06: donors -/

/-- **donors are the inverse of the receivers with multiplicity, for distinct nodes**, and all
entries of both tables are node indices (shape of `Fs.C06.multi_donors_inverse`) -/
theorem checkDonors_sound {t : Tables} (h : checkDonors t = true) :
    (∀ r, r < t.n → ∀ d, d < t.n → d ≠ r →
      (t.donors r).count d = if t.recv d ≠ [d] then (t.recv d).count r else 0) ∧
    (∀ i, i < t.n → ∀ r, r ∈ t.recv i → r < t.n) ∧
    (∀ i, i < t.n → ∀ d, d ∈ t.donors i → d < t.n) := by
  simp only [checkDonors, Bool.and_eq_true, List.all_eq_true, List.mem_range, decide_eq_true_eq,
    Bool.or_eq_true, beq_iff_eq] at h
  refine ⟨fun r hr d hd hne => ?_, fun i hi r hr => (h i hi).1.1 r hr, fun i hi d hd => (h i hi).1.2 d hd⟩
  rcases (h r hr).2 d hd with e | e
  · exact absurd e hne
  · exact e

/-- membership form: a node `d ≠ r` is a donor of `r` iff `r` is a receiver of `d` -/
theorem checkDonors_mem {t : Tables} (h : checkDonors t = true)
    (r : Nat) (hr : r < t.n) (d : Nat) (hne : d ≠ r) :
    d ∈ t.donors r ↔ d < t.n ∧ r ∈ t.recv d := by
  obtain ⟨h1, _, h3⟩ := checkDonors_sound h
  constructor
  · intro hd
    have hdn := h3 r hr d hd
    refine ⟨hdn, ?_⟩
    have hc := h1 r hr d hdn hne
    have hpos : 0 < (t.donors r).count d := List.count_pos_iff.mpr hd
    rw [hc] at hpos
    split at hpos
    · exact List.count_pos_iff.mp hpos
    · exact absurd hpos (Nat.lt_irrefl 0)
  · rintro ⟨hdn, hm⟩
    have hc := h1 r hr d hdn hne
    have hrow : t.recv d ≠ [d] := by
      intro e
      rw [e] at hm
      exact hne (List.mem_singleton.mp hm).symm
    rw [if_pos hrow] at hc
    apply List.count_pos_iff.mp
    rw [hc]
    exact List.count_pos_iff.mpr hm

/-! ### C06: bottom-up order -/

theorem orderOk_sound (recv : Nat → List Nat) (l : List Nat) : ∀ seen : List Nat,
    orderOk recv seen l = true →
    ∀ pre x post, l = pre ++ x :: post → ∀ r, r ∈ recv x → r ≠ x → r ∈ pre ∨ r ∈ seen := by
  induction l with
  | nil => intro seen _ pre x post hsplit; cases pre <;> cases hsplit
  | cons a l ih =>
    intro seen h pre x post hsplit r hr hne
    simp only [orderOk, Bool.and_eq_true, List.all_eq_true, Bool.or_eq_true, beq_iff_eq,
      List.contains_iff_mem] at h
    cases pre with
    | nil =>
      simp only [List.nil_append, List.cons.injEq] at hsplit
      obtain ⟨rfl, _⟩ := hsplit
      rcases h.1 r hr with e | e
      · exact absurd e hne
      · exact Or.inr e
    | cons b pre =>
      simp only [List.cons_append, List.cons.injEq] at hsplit
      obtain ⟨rfl, hl⟩ := hsplit
      rcases ih (a :: seen) h.2 pre x post hl r hr hne with e | e
      · exact Or.inl (List.mem_cons_of_mem _ e)
      · rcases List.mem_cons.mp e with e | e
        · exact Or.inl (e ▸ List.mem_cons_self)
        · exact Or.inr e

/-- **bottom-up order**: a permutation of all nodes in which every node comes after each of its
receivers other than itself (shape of `Fs.C06.multi_dfs`) -/
theorem checkDfs_sound {t : Tables} (h : checkDfs t = true) :
    t.dfs.Perm (List.range t.n) ∧
    ∀ pre x post, t.dfs = pre ++ x :: post → ∀ r, r ∈ t.recv x → r ≠ x → r ∈ pre := by
  simp only [checkDfs, Bool.and_eq_true] at h
  refine ⟨isPermRange_sound h.1, fun pre x post hs r hr hne => ?_⟩
  rcases orderOk_sound t.recv t.dfs [] h.2 pre x post hs r hr hne with e | e
  · exact e
  · cases e

/-- the same for single-direction tables, in the shape of `Fs.C06.single_dfs` -/
theorem checkDfs_sound_single {t : Tables} (h : checkDfs t = true)
    (hsingle : ∀ i, i < t.n → (t.recv i).length = 1) :
    t.dfs.Perm (List.range t.n) ∧
    ∀ pre x post, t.dfs = pre ++ x :: post → recv1 t x = x ∨ recv1 t x ∈ pre := by
  obtain ⟨hp, ho⟩ := checkDfs_sound h
  refine ⟨hp, fun pre x post hs => ?_⟩
  have hx : x < t.n := List.mem_range.mp (hp.subset (by rw [hs]; simp))
  by_cases e : recv1 t x = x
  · exact Or.inl e
  · right
    refine ho pre x post hs _ ?_ e
    have hl := hsingle x hx
    unfold recv1
    cases hrow : t.recv x with
    | nil => rw [hrow] at hl; cases hl
    | cons a rest => simp

theorem orderOk_complete (recv : Nat → List Nat) (l : List Nat) : ∀ seen : List Nat,
    (∀ pre x post, l = pre ++ x :: post → ∀ r, r ∈ recv x → r ≠ x → r ∈ pre ∨ r ∈ seen) →
    orderOk recv seen l = true := by
  induction l with
  | nil => intro _ _; rfl
  | cons a l ih =>
    intro seen h
    simp only [orderOk, Bool.and_eq_true, List.all_eq_true, Bool.or_eq_true, beq_iff_eq,
      List.contains_iff_mem]
    refine ⟨fun r hr => ?_, ih (a :: seen) fun pre x post hs r hr hne => ?_⟩
    · by_cases e : r = a
      · exact Or.inl e
      · rcases h [] a l rfl r hr e with e' | e'
        · cases e'
        · exact Or.inr e'
    · rcases h (a :: pre) x post (by rw [hs]; rfl) r hr hne with e | e
      · rcases List.mem_cons.mp e with e | e
        · exact Or.inr (e ▸ List.mem_cons_self)
        · exact Or.inl e
      · exact Or.inr (List.mem_cons_of_mem _ e)

/-- **the checker decides the property**: it accepts exactly the orders of `checkDfs_sound` -/
theorem checkDfs_iff (t : Tables) :
    checkDfs t = true ↔
      (t.dfs.Perm (List.range t.n) ∧
        ∀ pre x post, t.dfs = pre ++ x :: post → ∀ r, r ∈ t.recv x → r ≠ x → r ∈ pre) := by
  refine ⟨checkDfs_sound, fun ⟨h1, h2⟩ => ?_⟩
  simp only [checkDfs, Bool.and_eq_true]
  exact ⟨isPermRange_complete h1,
    orderOk_complete t.recv t.dfs [] fun pre x post hs r hr hne => Or.inl (h2 pre x post hs r hr hne)⟩

/-! ### C06: breadth-first levels -/

theorem levelsOk_sound (recv : Nat → List Nat) (l : List (List Nat)) : ∀ seen : List Nat,
    levelsOk recv seen l = true →
    ∀ pre lvl post, l = pre ++ lvl :: post → ∀ d, d ∈ lvl → ∀ r, r ∈ recv d → r ≠ d →
      r ∈ pre.flatten ∨ r ∈ seen := by
  induction l with
  | nil => intro seen _ pre x post hsplit; cases pre <;> cases hsplit
  | cons a l ih =>
    intro seen h pre lvl post hsplit d hd r hr hne
    simp only [levelsOk, Bool.and_eq_true, List.all_eq_true, Bool.or_eq_true, beq_iff_eq,
      List.contains_iff_mem] at h
    cases pre with
    | nil =>
      simp only [List.nil_append, List.cons.injEq] at hsplit
      obtain ⟨rfl, _⟩ := hsplit
      rcases h.1 d hd r hr with e | e
      · exact absurd e hne
      · exact Or.inr e
    | cons b pre =>
      simp only [List.cons_append, List.cons.injEq] at hsplit
      obtain ⟨rfl, hl⟩ := hsplit
      rcases ih (a.reverse ++ seen) h.2 pre lvl post hl d hd r hr hne with e | e
      · exact Or.inl (by rw [List.flatten_cons]; exact List.mem_append_right _ e)
      · rcases List.mem_append.mp e with e | e
        · exact Or.inl (by rw [List.flatten_cons]; exact List.mem_append_left _ (List.mem_reverse.mp e))
        · exact Or.inr e

/-- **breadth-first order**: a permutation of all nodes, partitioned into non-empty levels, every
receiver (other than the node itself) in a strictly earlier level (shape of `Fs.C06.multi_bfs`,
`Fs.C06.single_bfs`) -/
theorem checkBfs_sound {t : Tables} (h : checkBfs t = true) :
    t.bfs.flatten.Perm (List.range t.n) ∧
    (∀ lvl, lvl ∈ t.bfs → lvl ≠ []) ∧
    (∀ pre lvl post, t.bfs = pre ++ lvl :: post →
        ∀ d, d ∈ lvl → ∀ r, r ∈ t.recv d → r ≠ d → r ∈ pre.flatten) := by
  simp only [checkBfs, Bool.and_eq_true] at h
  refine ⟨isPermRange_sound h.1.1, fun lvl hl e => ?_, fun pre lvl post hs d hd r hr hne => ?_⟩
  · have := List.all_eq_true.mp h.1.2 lvl hl
    rw [e] at this
    cases this
  · rcases levelsOk_sound t.recv t.bfs [] h.2 pre lvl post hs d hd r hr hne with e | e
    · exact e
    · cases e

theorem levelsOk_complete (recv : Nat → List Nat) (l : List (List Nat)) : ∀ seen : List Nat,
    (∀ pre lvl post, l = pre ++ lvl :: post → ∀ d, d ∈ lvl → ∀ r, r ∈ recv d → r ≠ d →
      r ∈ pre.flatten ∨ r ∈ seen) →
    levelsOk recv seen l = true := by
  induction l with
  | nil => intro _ _; rfl
  | cons a l ih =>
    intro seen h
    simp only [levelsOk, Bool.and_eq_true, List.all_eq_true, Bool.or_eq_true, beq_iff_eq,
      List.contains_iff_mem]
    refine ⟨fun d hd r hr => ?_, ih (a.reverse ++ seen) fun pre lvl post hs d hd r hr hne => ?_⟩
    · by_cases e : r = d
      · exact Or.inl e
      · rcases h [] a l rfl d hd r hr e with e' | e'
        · cases e'
        · exact Or.inr e'
    · rcases h (a :: pre) lvl post (by rw [hs]; rfl) d hd r hr hne with e | e
      · rw [List.flatten_cons] at e
        rcases List.mem_append.mp e with e | e
        · exact Or.inr (List.mem_append_left _ (List.mem_reverse.mpr e))
        · exact Or.inl e
      · exact Or.inr (List.mem_append_right _ e)

/-- **the checker decides the property** -/
theorem checkBfs_iff (t : Tables) :
    checkBfs t = true ↔
      (t.bfs.flatten.Perm (List.range t.n) ∧
        (∀ lvl, lvl ∈ t.bfs → lvl ≠ []) ∧
        (∀ pre lvl post, t.bfs = pre ++ lvl :: post →
          ∀ d, d ∈ lvl → ∀ r, r ∈ t.recv d → r ≠ d → r ∈ pre.flatten)) := by
  refine ⟨checkBfs_sound, fun ⟨h1, h2, h3⟩ => ?_⟩
  simp only [checkBfs, Bool.and_eq_true]
  refine ⟨⟨isPermRange_complete h1, List.all_eq_true.mpr fun lvl hl => ?_⟩,
    levelsOk_complete t.recv t.bfs [] fun pre lvl post hs d hd r hr hne =>
      Or.inl (h3 pre lvl post hs d hd r hr hne)⟩
  cases lvl with
  | nil => exact absurd rfl (h2 [] hl)
  | cons _ _ => rfl

/-- **C06 on reported tables** -/
theorem checkC06_sound {t : Tables} (h : checkC06 t = true) :
    ((∀ r, r < t.n → ∀ d, d < t.n → d ≠ r →
      (t.donors r).count d = if t.recv d ≠ [d] then (t.recv d).count r else 0) ∧
     (∀ i, i < t.n → ∀ r, r ∈ t.recv i → r < t.n) ∧
     (∀ i, i < t.n → ∀ d, d ∈ t.donors i → d < t.n)) ∧
    (t.dfs.Perm (List.range t.n) ∧
      ∀ pre x post, t.dfs = pre ++ x :: post → ∀ r, r ∈ t.recv x → r ≠ x → r ∈ pre) ∧
    (t.bfs.flatten.Perm (List.range t.n) ∧
      (∀ lvl, lvl ∈ t.bfs → lvl ≠ []) ∧
      (∀ pre lvl post, t.bfs = pre ++ lvl :: post →
        ∀ d, d ∈ lvl → ∀ r, r ∈ t.recv d → r ≠ d → r ∈ pre.flatten)) := by
  simp only [checkC06, Bool.and_eq_true] at h
  exact ⟨checkDonors_sound h.1.1, checkDfs_sound h.1.2, checkBfs_sound h.2⟩

/-! ### C19: basins -/

/-- **basins on reported single-direction tables**: items 1, 2 (for an unmasked receiver), 3
(first half), 4, 5 and 7 of `Fs.C19.basins_spec`, plus (0) every receiver row has length one -/
theorem checkBasins_sound {t : Tables} {mask isBase : Nat → Bool} {labels : Nat → Nat}
    {outlets pits : List Nat} {maxLabel : Nat}
    (h : checkBasins t mask isBase labels outlets pits maxLabel = true) :
    -- 0. single-direction tables
    (∀ i, i < t.n → t.recv i = [recv1 t i]) ∧
    -- 1. masked nodes carry the reserved label
    (∀ x, x < t.n → mask x = true → labels x = maxLabel) ∧
    -- 2. an unmasked node with an unmasked receiver has the label of its receiver
    (∀ x, x < t.n → mask x = false → mask (recv1 t x) = false → labels x = labels (recv1 t x)) ∧
    -- 3. the outlets are the unmasked self-receivers, in bottom-up order
    outlets = t.dfs.filter (fun i => !mask i && recv1 t i == i) ∧
    -- 4. outlets are numbered consecutively from zero in that order
    (∀ k (hk : k < outlets.length), labels (outlets[k]) = k) ∧
    -- 5. every unmasked label is the index of an outlet
    (∀ x, x < t.n → mask x = false → labels x < outlets.length) ∧
    -- 7. pits are the outlets that are not base levels
    pits = outlets.filter (fun o => !isBase o) := by
  simp only [checkBasins, Bool.and_eq_true, all_range, beq_iff_eq] at h
  obtain ⟨⟨⟨⟨h0, h12⟩, h3⟩, h4⟩, h7⟩ := h
  refine ⟨fun i hi => ?_, fun x hx hm => ?_, fun x hx hm hr => ?_, h3, fun k hk => ?_,
    fun x hx hm => ?_, h7⟩
  · have hl := h0 i hi
    unfold recv1
    cases hrow : t.recv i with
    | nil => rw [hrow] at hl; cases hl
    | cons a rest =>
      rw [hrow] at hl
      cases rest with
      | nil => rfl
      | cons _ _ => simp at hl
  · have := h12 x hx
    rw [if_pos hm] at this
    exact beq_iff_eq.mp this
  · have := h12 x hx
    rw [hm] at this
    simp only [Bool.false_eq_true, if_false, Bool.and_eq_true, Bool.or_eq_true, beq_iff_eq] at this
    rcases this.1 with e | e
    · rw [hr] at e; cases e
    · exact e
  · have := h4 k hk
    simpa [List.getD_eq_getElem?_getD, hk] using this
  · have := h12 x hx
    rw [hm] at this
    simp only [Bool.false_eq_true, if_false, Bool.and_eq_true, decide_eq_true_eq] at this
    exact this.2

/-- with the order check in addition: the second half of item 3 of `Fs.C19.basins_spec` -/
theorem checkBasins_outlets {t : Tables} {mask isBase : Nat → Bool} {labels : Nat → Nat}
    {outlets pits : List Nat} {maxLabel : Nat}
    (h : checkBasins t mask isBase labels outlets pits maxLabel = true)
    (hdfs : checkDfs t = true) :
    (∀ o, o ∈ outlets ↔ o < t.n ∧ mask o = false ∧ recv1 t o = o) ∧ outlets.Nodup := by
  obtain ⟨_, _, _, h3, _⟩ := checkBasins_sound h
  obtain ⟨hp, _⟩ := checkDfs_sound hdfs
  refine ⟨fun o => ?_, ?_⟩
  · rw [h3, List.mem_filter, hp.mem_iff, List.mem_range]
    simp
  · rw [h3]
    exact ((hp.nodup_iff).mpr List.nodup_range).filter _

/-- with the order check and the hypothesis of `Fs.C19.basins_spec` that the receiver of an
unmasked node is unmasked: item 6, **the label of an unmasked node is the index of the outlet it
drains to** (following receivers) -/
theorem checkBasins_drain {t : Tables} {mask isBase : Nat → Bool} {labels : Nat → Nat}
    {outlets pits : List Nat} {maxLabel : Nat}
    (h : checkBasins t mask isBase labels outlets pits maxLabel = true)
    (hdfs : checkDfs t = true)
    (hmask_closed : ∀ x, x < t.n → mask x = false → mask (recv1 t x) = false) :
    ∀ x, x < t.n → mask x = false →
      ∃ k, outlets[labels x]? = some (Fs.Dfs.iter (recv1 t) k x) ∧
        recv1 t (Fs.Dfs.iter (recv1 t) k x) = Fs.Dfs.iter (recv1 t) k x := by
  obtain ⟨h0, _, h2, h3, h4, _, _⟩ := checkBasins_sound h
  obtain ⟨hmem, _⟩ := checkBasins_outlets h hdfs
  obtain ⟨hp, hord⟩ := checkDfs_sound_single hdfs (fun i hi => by rw [h0 i hi]; rfl)
  have key : ∀ m pre x post, pre.length = m → t.dfs = pre ++ x :: post → mask x = false →
      ∃ k, outlets[labels x]? = some (Fs.Dfs.iter (recv1 t) k x) ∧
        recv1 t (Fs.Dfs.iter (recv1 t) k x) = Fs.Dfs.iter (recv1 t) k x := by
    intro m
    induction m using Nat.strongRecOn with
    | _ m ih =>
      intro pre x post hlen hs hm
      have hx : x < t.n := List.mem_range.mp (hp.subset (by rw [hs]; simp))
      rcases hord pre x post hs with e | e
      · have hxo : x ∈ outlets := (hmem x).mpr ⟨hx, hm, e⟩
        obtain ⟨k, hk, hkx⟩ := List.getElem_of_mem hxo
        have hlab := h4 k hk
        rw [hkx] at hlab
        refine ⟨0, ?_, e⟩
        rw [hlab]
        show outlets[k]? = some x
        rw [List.getElem?_eq_getElem hk, hkx]
      · obtain ⟨pre', post', hsp⟩ := List.append_of_mem e
        have hmr := hmask_closed x hx hm
        obtain ⟨k, hk1, hk2⟩ := ih pre'.length (by rw [← hlen, hsp]; simp) pre' (recv1 t x)
          (post' ++ x :: post) rfl (by rw [hs, hsp]; simp) hmr
        refine ⟨k + 1, ?_, hk2⟩
        rw [h2 x hx hm hmr]
        exact hk1
  intro x hx hm
  have hxd : x ∈ t.dfs := hp.symm.subset (List.mem_range.mpr hx)
  obtain ⟨pre, post, hs⟩ := List.append_of_mem hxd
  exact key pre.length pre x post rfl hs hm

/-! ### C01: the connected set -/

section search
variable (nb : Nat → List Nat) (seed mask : Nat → Bool)

theorem getD_set_true (a : Array Bool) (m i : Nat)
    (h : (a.setIfInBounds m true).getD i false = true) : i = m ∨ a.getD i false = true := by
  rw [Array.getD_eq_getD_getElem?, Array.getElem?_setIfInBounds] at h
  by_cases e : m = i
  · exact Or.inl e.symm
  · rw [if_neg e] at h
    right
    rw [Array.getD_eq_getD_getElem?]
    exact h

/-- search invariant: every marked node and every stacked node is connected to a seed -/
def SInv (p : Array Bool × List Nat) : Prop :=
  (∀ i, p.1.getD i false = true → Fs.Reach nb seed mask i) ∧
  (∀ c, c ∈ p.2 → Fs.Reach nb seed mask c)

theorem visit_fold_inv (mask' : Nat → Bool) (l : List Nat)
    (hl : ∀ m, m ∈ l → mask' m = false → Fs.Reach nb seed mask m) :
    ∀ p, SInv nb seed mask p → SInv nb seed mask (l.foldl (visitNbr mask') p) := by
  induction l with
  | nil => intro p hp; exact hp
  | cons m l ih =>
    intro p hp
    rw [List.foldl_cons]
    apply ih (fun x hx => hl x (List.mem_cons_of_mem _ hx))
    unfold visitNbr
    split
    · exact hp
    · rename_i hc
      have hm : mask' m = false := by
        cases hmm : mask' m
        · rfl
        · rw [hmm] at hc; simp at hc
      have hr := hl m List.mem_cons_self hm
      refine ⟨fun i hi => ?_, fun c hc' => ?_⟩
      · rcases getD_set_true _ _ _ hi with e | e
        · rw [e]; exact hr
        · exact hp.1 i e
      · rcases List.mem_cons.mp hc' with e | e
        · rw [e]; exact hr
        · exact hp.2 c e

theorem search_inv : ∀ (f : Nat) (vis : Array Bool) (st : List Nat),
    SInv nb seed mask (vis, st) →
    ∀ i, (search nb mask f vis st).getD i false = true → Fs.Reach nb seed mask i := by
  intro f
  induction f with
  | zero => intro vis st hp i hi; exact hp.1 i hi
  | succ f ih =>
    intro vis st hp i hi
    cases st with
    | nil => exact hp.1 i hi
    | cons c st =>
      simp only [search] at hi
      have hc : Fs.Reach nb seed mask c := hp.2 c List.mem_cons_self
      have hinv := visit_fold_inv nb seed mask mask (nb c)
        (fun m hm hmask => Fs.Reach.step c m hc hm hmask) (vis, st)
        ⟨hp.1, fun x hx => hp.2 x (List.mem_cons_of_mem _ hx)⟩
      exact ih _ _ hinv i hi

end search

/-- the seeds of the connectivity relation: unmasked base levels -/
def seedOf (mask isBase : Nat → Bool) (b : Nat) : Bool := isBase b && !mask b

/-- the computed connected set, as a predicate -/
def conn (n : Nat) (nb : Nat → List Nat) (mask isBase : Nat → Bool) (i : Nat) : Bool :=
  (connTable n nb mask isBase).getD i false

/-- **the search only finds connected nodes** (no false alarm of `checkFlow` can come from an
over-approximated connected set) -/
theorem conn_reach (n : Nat) (nb : Nat → List Nat) (mask isBase : Nat → Bool) (i : Nat)
    (h : conn n nb mask isBase i = true) : Fs.Reach nb (seedOf mask isBase) mask i := by
  unfold conn connTable at h
  refine search_inv nb (seedOf mask isBase) mask _ _ _ ?_ i h
  apply visit_fold_inv nb (seedOf mask isBase) mask (fun _ => false)
  · intro m hm _
    have := (List.mem_filter.mp hm).2
    exact Fs.Reach.seed m this
  · refine ⟨fun i hi => ?_, fun c hc => by cases hc⟩
    simp only [Array.getD_eq_getD_getElem?, Array.getElem?_replicate] at hi
    split at hi <;> cases hi

/-- **completeness of a closed set**: a set that passes `closedOk` contains every node connected
to an unmasked base level (all of which are below `n`).  `hbase`: the unmasked base levels are
node indices; the real data satisfies it (base levels are read from the node-status table). -/
theorem closedOk_reach {n : Nat} {nb : Nat → List Nat} {mask isBase c : Nat → Bool}
    (h : closedOk n nb mask isBase c = true)
    (hbase : ∀ b, isBase b = true → mask b = false → b < n) :
    ∀ i, Fs.Reach nb (seedOf mask isBase) mask i → i < n ∧ c i = true := by
  simp only [closedOk, Bool.and_eq_true, List.mem_range, List.all_eq_true, decide_eq_true_eq,
    Bool.or_eq_true, Bool.not_eq_true'] at h
  obtain ⟨⟨hnb, hseed⟩, hclosed⟩ := h
  intro i hr
  induction hr with
  | seed b hb =>
    have hb' : isBase b = true ∧ mask b = false := by
      simpa [seedOf] using hb
    have hbn := hbase b hb'.1 hb'.2
    refine ⟨hbn, ?_⟩
    rcases hseed b hbn with e | e
    · have hb2 : (isBase b && !mask b) = true := hb
      rw [hb2] at e; cases e
    · exact e
  | step a m _ hm hmask ih =>
    obtain ⟨han, hca⟩ := ih
    refine ⟨hnb a han m hm, ?_⟩
    rcases hclosed a han with e | e
    · rw [hca] at e; cases e
    · rcases e m hm with e | e
      · rw [hmask] at e; cases e
      · exact e

/-! ### C01: soundness -/

section flow
variable {α : Type} (S : Scalar α) (t : Tables) (nb : Nat → List Nat) (mask isBase : Nat → Bool)
  (z' : Nat → α) (strictNbr : Bool)

theorem checkFlow_parts (h : checkFlow S t nb mask isBase z' strictNbr = true) :
    closedOk t.n nb mask isBase (conn t.n nb mask isBase) = true ∧
    terminalOk t mask isBase = true ∧ descentOk S t nb mask z' strictNbr = true ∧
    noPitOk t mask isBase (conn t.n nb mask isBase) = true := by
  simp only [checkFlow, Bool.and_eq_true] at h
  exact ⟨h.1.1.1, h.1.1.2, h.1.2, h.2⟩

theorem noPitOk_spec {c : Nat → Bool} (h : noPitOk t mask isBase c = true) (i : Nat)
    (hi : i < t.n) (hc : c i = true) :
    mask i = false ∧ (isBase i = true ∨ ∃ r, r ∈ t.recv i ∧ r ≠ i) ∧
      ∀ r, r ∈ t.recv i → c r = true := by
  simp only [noPitOk, all_range] at h
  have := h i hi
  rw [hc] at this
  simp only [Bool.not_true, Bool.false_or, Bool.and_eq_true, Bool.not_eq_true', Bool.or_eq_true,
    List.any_eq_true, bne_iff_ne, List.all_eq_true] at this
  exact ⟨this.1.1, this.1.2, this.2⟩

theorem descentOk_spec (h : descentOk S t nb mask z' strictNbr = true) (i : Nat) (hi : i < t.n)
    (r : Nat) (hr : r ∈ t.recv i) :
    r < t.n ∧ (r ≠ i → S.lt (z' r) (z' i) = true ∧ mask r = false ∧
      (strictNbr = true → r ∈ nb i)) := by
  simp only [descentOk, List.mem_range, List.all_eq_true, Bool.and_eq_true, decide_eq_true_eq,
    Bool.or_eq_true, beq_iff_eq, Bool.not_eq_true', List.contains_iff_mem] at h
  obtain ⟨h1, h2⟩ := h i hi r hr
  refine ⟨h1, fun hne => ?_⟩
  rcases h2 with e | e
  · exact absurd e hne
  · refine ⟨e.1.1, e.1.2, fun hs => ?_⟩
    rcases e.2 with e' | e'
    · rw [hs] at e'; cases e'
    · exact e'

/-- **C01 on the reported receivers and returned elevation** (shape of items (1), (2), (3), (3')
of `Fs.C01.C01_pflood_multiRouter`): (1) masked and base-level nodes are their own single
receiver; (2) every proper receiver is a node, strictly lower in `z'`, unmasked and (if
`strictNbr`) a neighbour; (3) a node connected through unmasked neighbours to an unmasked base
level that is not a base level is not a pit; (3') all receivers of a connected node are
connected.  `hbase`: unmasked base levels are node indices (true of the real data). -/
theorem checkFlow_sound (h : checkFlow S t nb mask isBase z' strictNbr = true)
    (hbase : ∀ b, isBase b = true → mask b = false → b < t.n) :
    let seed := fun b => isBase b && !mask b
    -- (0) the neighbour and receiver tables stay in range
    (∀ i, i < t.n → ∀ m, m ∈ nb i → m < t.n) ∧
    (∀ i, i < t.n → ∀ r, r ∈ t.recv i → r < t.n) ∧
    -- (1)
    (∀ i, i < t.n → (mask i || isBase i) = true → t.recv i = [i]) ∧
    -- (2)
    (∀ i, i < t.n → ∀ r, r ∈ t.recv i → r ≠ i →
      S.lt (z' r) (z' i) = true ∧ mask r = false ∧ (strictNbr = true → r ∈ nb i)) ∧
    -- (3)
    (∀ i, i < t.n → Fs.Reach nb seed mask i → isBase i = false →
      t.recv i ≠ [i] ∧ ∃ r, r ∈ t.recv i ∧ r ≠ i) ∧
    -- (3')
    (∀ i, i < t.n → Fs.Reach nb seed mask i →
      ∀ r, r ∈ t.recv i → Fs.Reach nb seed mask r) := by
  intro seed
  obtain ⟨hcl, hterm, hdesc, hpit⟩ := checkFlow_parts S t nb mask isBase z' strictNbr h
  have hreach := closedOk_reach hcl hbase
  refine ⟨?_, fun i hi r hr => (descentOk_spec S t nb mask z' strictNbr hdesc i hi r hr).1, ?_,
    fun i hi r hr hne => (descentOk_spec S t nb mask z' strictNbr hdesc i hi r hr).2 hne, ?_, ?_⟩
  · simp only [closedOk, Bool.and_eq_true, List.mem_range, List.all_eq_true, decide_eq_true_eq] at hcl
    exact hcl.1.1
  · intro i hi hm
    simp only [terminalOk, all_range] at hterm
    have := hterm i hi
    rw [hm] at this
    simpa using this
  · intro i hi hr hb
    obtain ⟨_, h2, _⟩ := noPitOk_spec t mask isBase hpit i hi (hreach i hr).2
    rcases h2 with e | ⟨r, hr1, hr2⟩
    · rw [hb] at e; cases e
    · refine ⟨fun hrow => ?_, r, hr1, hr2⟩
      rw [hrow] at hr1
      exact hr2 (List.mem_singleton.mp hr1)
  · intro i hi hr r hrr
    obtain ⟨_, _, h3⟩ := noPitOk_spec t mask isBase hpit i hi (hreach i hr).2
    exact conn_reach t.n nb mask isBase r (h3 r hrr)

/-! ### C01: flow paths -/

open Fs.C01 (Path)

section paths
variable (hin : ∀ i, i < t.n → ∀ r, r ∈ t.recv i → r < t.n)
  (hdesc : ∀ i, i < t.n → ∀ r, r ∈ t.recv i → r ≠ i → S.lt (z' r) (z' i) = true)
  (irrefl : ∀ a, S.lt a a = false)
  (trans : ∀ a b c, S.lt a b = true → S.lt b c = true → S.lt a c = true)

/-- number of nodes strictly below node `i` in the returned elevation -/
def zrank (i : Nat) : Nat := Fs.rank (fun a b => S.lt a b = true) t.n z' i

include irrefl in
theorem zrank_lt_n (i : Nat) (hi : i < t.n) : zrank S t z' i < t.n := by
  have h := Fs.countP_lt_of_imp (List.range t.n)
    (fun j => decide (S.lt (z' j) (z' i) = true)) (fun _ => true) (fun _ _ _ => rfl)
    i (List.mem_range.mpr hi) rfl (by simp [irrefl])
  have h2 : (List.range t.n).countP (fun _ => true) = t.n := by simp
  rw [h2] at h
  exact h

include irrefl trans in
theorem zrank_lt (i j : Nat) (hj : j < t.n) (hlt : S.lt (z' j) (z' i) = true) :
    zrank S t z' j < zrank S t z' i :=
  Fs.rank_lt (fun a b => S.lt a b = true) (fun a hh => by rw [irrefl a] at hh; cases hh)
    (fun a b c => trans a b c) t.n z' i j hj hlt

include hin hdesc irrefl trans in
theorem path_rank {i tt k : Nat} (hp : Path t.recv i tt k) : i < t.n →
    tt < t.n ∧ zrank S t z' tt + k ≤ zrank S t z' i ∧ (0 < k → S.lt (z' tt) (z' i) = true) := by
  induction hp with
  | nil i => intro hi; exact ⟨hi, Nat.le_refl _, fun h => absurd h (Nat.lt_irrefl 0)⟩
  | cons i r tt k hr hne hp ih =>
    intro hi
    have hrn := hin i hi r hr
    have hst := hdesc i hi r hr hne
    obtain ⟨h1, h2, h3⟩ := ih hrn
    have hrk := zrank_lt S t z' irrefl trans i r hrn hst
    refine ⟨h1, by omega, fun _ => ?_⟩
    by_cases hk : k = 0
    · subst hk; rw [hp.zero_eq]; exact hst
    · exact trans _ _ _ (h3 (by omega)) hst

include hin hdesc irrefl trans in
/-- every node has a maximal flow path -/
theorem exists_maximal : ∀ m i, i < t.n → zrank S t z' i = m →
    ∃ tt k, Path t.recv i tt k ∧ ∀ r, r ∈ t.recv tt → r = tt := by
  intro m
  induction m using Nat.strongRecOn with
  | _ m ih =>
    intro i hi hm
    by_cases hex : ∃ r, r ∈ t.recv i ∧ r ≠ i
    · obtain ⟨r, hr, hne⟩ := hex
      have hrn := hin i hi r hr
      have hrk := zrank_lt S t z' irrefl trans i r hrn (hdesc i hi r hr hne)
      obtain ⟨tt, k, hp, ht⟩ := ih _ (by rw [← hm]; exact hrk) r hrn rfl
      exact ⟨tt, k + 1, Path.cons i r tt k hr hne hp, ht⟩
    · refine ⟨i, 0, Path.nil i, fun r hr => ?_⟩
      apply Classical.byContradiction
      intro hne
      exact hex ⟨r, hr, hne⟩

end paths

/-- a flow path from a node of a receiver-closed set stays in the set -/
theorem path_closed {c : Nat → Bool}
    (hin : ∀ i, i < t.n → ∀ r, r ∈ t.recv i → r < t.n)
    (hc : ∀ i, i < t.n → c i = true → ∀ r, r ∈ t.recv i → c r = true)
    {i tt k : Nat} (hp : Path t.recv i tt k) : i < t.n → c i = true → tt < t.n ∧ c tt = true := by
  induction hp with
  | nil i => intro hi h; exact ⟨hi, h⟩
  | cons i r tt k hr _ _ ih => intro hi h; exact ih (hin i hi r hr) (hc i hi h r hr)

/-- **C01 on the reported tables, flow paths** (shape of items (4a'), (4b), (4c), (4c') of
`Fs.C01.C01_pflood_multiRouter`; `Path` is `Fs.C01.Path`, a path may choose any proper receiver
at each step).  (4a') no flow path returns to its origin; (4b) a flow path stays in range, has
fewer than `n` steps and ends strictly lower than it started; (4c) **every maximal flow path from
a connected node ends at an unmasked base level** (a path is maximal when its end has no proper
receiver, in particular when `t.recv tt = [tt]`); (4c') every node has a maximal flow path.
`irrefl`, `trans`: `<` on the elevations is a strict order (IEEE `<` is). -/
theorem checkFlow_paths (h : checkFlow S t nb mask isBase z' strictNbr = true)
    (hbase : ∀ b, isBase b = true → mask b = false → b < t.n)
    (irrefl : ∀ a, S.lt a a = false)
    (trans : ∀ a b c, S.lt a b = true → S.lt b c = true → S.lt a c = true) :
    let seed := fun b => isBase b && !mask b
    -- (4a')
    (∀ i, i < t.n → ∀ k, ¬ Path t.recv i i (k + 1)) ∧
    -- (4b)
    (∀ i, i < t.n → ∀ tt k, Path t.recv i tt k →
      tt < t.n ∧ k < t.n ∧ (0 < k → S.lt (z' tt) (z' i) = true)) ∧
    -- (4c)
    (∀ i, i < t.n → Fs.Reach nb seed mask i → ∀ tt k, Path t.recv i tt k →
      (∀ r, r ∈ t.recv tt → r = tt) → isBase tt = true ∧ mask tt = false) ∧
    (∀ i, i < t.n → Fs.Reach nb seed mask i → ∀ tt k, Path t.recv i tt k →
      t.recv tt = [tt] → isBase tt = true ∧ mask tt = false) ∧
    -- (4c')
    (∀ i, i < t.n → ∃ tt k, Path t.recv i tt k ∧ ∀ r, r ∈ t.recv tt → r = tt) := by
  intro seed
  obtain ⟨hcl, _, hdesc, hpit⟩ := checkFlow_parts S t nb mask isBase z' strictNbr h
  have hreach := closedOk_reach hcl hbase
  have hin : ∀ i, i < t.n → ∀ r, r ∈ t.recv i → r < t.n :=
    fun i hi r hr => (descentOk_spec S t nb mask z' strictNbr hdesc i hi r hr).1
  have hd : ∀ i, i < t.n → ∀ r, r ∈ t.recv i → r ≠ i → S.lt (z' r) (z' i) = true :=
    fun i hi r hr hne => ((descentOk_spec S t nb mask z' strictNbr hdesc i hi r hr).2 hne).1
  have h4c : ∀ i, i < t.n → Fs.Reach nb seed mask i → ∀ tt k, Path t.recv i tt k →
      (∀ r, r ∈ t.recv tt → r = tt) → isBase tt = true ∧ mask tt = false := by
    intro i hi hr tt k hp hmax
    obtain ⟨htn, hct⟩ := path_closed t hin
      (fun i hi hc => (noPitOk_spec t mask isBase hpit i hi hc).2.2) hp hi (hreach i hr).2
    obtain ⟨hm, hb, _⟩ := noPitOk_spec t mask isBase hpit tt htn hct
    refine ⟨?_, hm⟩
    rcases hb with e | ⟨r, hr1, hr2⟩
    · exact e
    · exact absurd (hmax r hr1) hr2
  refine ⟨fun i hi k hp => ?_, fun i hi tt k hp => ?_, h4c, ?_, fun i hi => ?_⟩
  · have := (path_rank S t z' hin hd irrefl trans hp hi).2.2 (Nat.succ_pos k)
    rw [irrefl] at this
    cases this
  · obtain ⟨h1, h2, h3⟩ := path_rank S t z' hin hd irrefl trans hp hi
    have := zrank_lt_n S t z' irrefl i hi
    exact ⟨h1, by omega, h3⟩
  · intro i hi hr tt k hp hrow
    refine h4c i hi hr tt k hp (fun r hrr => ?_)
    rw [hrow] at hrr
    exact List.mem_singleton.mp hrr
  · exact exists_maximal S t z' hin hd irrefl trans _ i hi rfl

end flow

/-! ### instances: the checkers accept good tables and reject bad ones -/

/-- the diamond `3 → {1,2} → 0` -/
def exRecv : Nat → List Nat := fun i => match i with
  | 0 => [0] | 1 => [0] | 2 => [0] | 3 => [1, 2] | _ => []

def exDonors : Nat → List Nat := fun i => match i with
  | 0 => [1, 2] | 1 => [3] | 2 => [3] | _ => []

def exT : Tables :=
  { n := 4, recv := exRecv, donors := exDonors, dfs := [0, 1, 2, 3], bfs := [[0], [1, 2], [3]] }

example : checkDonors exT = true := by decide
example : checkDfs exT = true := by decide
example : checkBfs exT = true := by decide
example : checkC06 exT = true := by decide
/-- another valid order of the same graph is accepted as well -/
example : checkDfs { exT with dfs := [0, 2, 1, 3] } = true := by decide
/-- a node before one of its receivers -/
example : checkDfs { exT with dfs := [0, 1, 3, 2] } = false := by decide
/-- not a permutation: a node twice, a node missing -/
example : checkDfs { exT with dfs := [0, 1, 1, 3] } = false := by decide
example : checkDfs { exT with dfs := [0, 1, 2] } = false := by decide
/-- a receiver in the same level -/
example : checkBfs { exT with bfs := [[0], [1, 2, 3]] } = false := by decide
/-- an empty level -/
example : checkBfs { exT with bfs := [[0], [], [1, 2], [3]] } = false := by decide
/-- a donors table missing an entry; one with an entry too many; one with a wrong multiplicity -/
example : checkDonors { exT with donors := fun i => if i = 0 then [1] else exDonors i } = false := by
  decide
example : checkDonors { exT with donors := fun i => if i = 3 then [0] else exDonors i } = false := by
  decide
example : checkDonors { exT with donors := fun i => if i = 1 then [3, 3] else exDonors i } = false := by
  decide
/-- an out-of-range receiver -/
example : checkDonors { exT with recv := fun i => if i = 3 then [1, 7] else exRecv i } = false := by
  decide

/-- the soundness theorems applied to the instance -/
example :
    exT.dfs.Perm (List.range 4) ∧
    ∀ pre x post, exT.dfs = pre ++ x :: post → ∀ r, r ∈ exT.recv x → r ≠ x → r ∈ pre :=
  checkDfs_sound (t := exT) (by decide)

example :
    exT.bfs.flatten.Perm (List.range 4) ∧ (∀ lvl, lvl ∈ exT.bfs → lvl ≠ []) ∧
    (∀ pre lvl post, exT.bfs = pre ++ lvl :: post →
        ∀ d, d ∈ lvl → ∀ r, r ∈ exT.recv d → r ≠ d → r ∈ pre.flatten) :=
  checkBfs_sound (t := exT) (by decide)

example : (exT.donors 0).count 1 = (exT.recv 1).count 0 :=
  (checkDonors_sound (t := exT) (by decide)).1 0 (by decide) 1 (by decide) (by decide)

/-- basins: two trees `1 → 0` (base level) and `3 → 2` (a pit) -/
def exRecvB : Nat → List Nat := fun i => match i with
  | 0 => [0] | 1 => [0] | 2 => [2] | 3 => [2] | _ => []

def exTB : Tables :=
  { n := 4, recv := exRecvB, donors := fun _ => [], dfs := [0, 1, 2, 3], bfs := [[0, 2], [1, 3]] }

def exLabels : Nat → Nat := fun i => match i with
  | 0 => 0 | 1 => 0 | 2 => 1 | 3 => 1 | _ => 0

example : checkBasins exTB (fun _ => false) (fun i => i == 0) exLabels [0, 2] [2] 99 = true := by
  decide
example : checkDfs exTB = true := by decide
/-- a wrong label, outlets in the wrong order, a base level reported as a pit -/
example : checkBasins exTB (fun _ => false) (fun i => i == 0)
    (fun i => if i = 3 then 0 else exLabels i) [0, 2] [2] 99 = false := by decide
example : checkBasins exTB (fun _ => false) (fun i => i == 0) exLabels [2, 0] [2] 99 = false := by
  decide
example : checkBasins exTB (fun _ => false) (fun i => i == 0) exLabels [0, 2] [0, 2] 99 = false := by
  decide
/-- with node 3 masked: it carries the reserved label -/
example : checkBasins { exTB with recv := fun i => if i = 3 then [3] else exRecvB i }
    (fun i => i == 3) (fun i => i == 0) (fun i => if i = 3 then 99 else exLabels i) [0, 2] [2] 99
    = true := by decide

example : ∀ x, x < 4 → ∃ k, [0, 2][exLabels x]? = some (Fs.Dfs.iter (recv1 exTB) k x) ∧
    recv1 exTB (Fs.Dfs.iter (recv1 exTB) k x) = Fs.Dfs.iter (recv1 exTB) k x :=
  fun x hx => checkBasins_drain (t := exTB) (mask := fun _ => false) (isBase := fun i => i == 0)
    (pits := [2]) (maxLabel := 99) (by decide) (by decide) (fun _ _ _ => rfl) x hx rfl

/-- flow: the diamond as a neighbourhood graph, elevation = node index, node 0 the base level -/
def exNb : Nat → List Nat := fun i => match i with
  | 0 => [1, 2] | 1 => [0, 3] | 2 => [0, 3] | 3 => [1, 2] | _ => []

def exZ : Nat → Nat := fun i => i

example : checkFlow Fs.C04.exS exT exNb (fun _ => false) (fun i => i == 0) exZ true = true := by
  decide
/-- node 3 lowered to the level of the base: its receivers are no longer strictly lower -/
example : checkFlow Fs.C04.exS exT exNb (fun _ => false) (fun i => i == 0)
    (fun i => if i = 3 then 0 else i) true = false := by decide
/-- node 3 reported as a pit although it is connected to the base level -/
example : checkFlow Fs.C04.exS { exT with recv := fun i => if i = 3 then [3] else exRecv i } exNb
    (fun _ => false) (fun i => i == 0) exZ true = false := by decide
/-- … which is accepted when nodes 1 and 2 are masked (3 is then cut off from the base level) -/
example : checkFlow Fs.C04.exS
    { exT with recv := fun i => if i = 0 then [0] else [i] } exNb
    (fun i => i == 1 || i == 2) (fun i => i == 0) exZ true = true := by decide
/-- a receiver that is not a neighbour: rejected with `strictNbr`, accepted without -/
example : checkFlow Fs.C04.exS { exT with recv := fun i => if i = 3 then [0] else exRecv i } exNb
    (fun _ => false) (fun i => i == 0) exZ true = false := by decide
example : checkFlow Fs.C04.exS { exT with recv := fun i => if i = 3 then [0] else exRecv i } exNb
    (fun _ => false) (fun i => i == 0) exZ false = true := by decide
/-- a base level with a proper receiver -/
example : checkFlow Fs.C04.exS exT exNb (fun _ => false) (fun i => i == 0 || i == 1) exZ true
    = false := by decide

/-- the hypotheses of the flow theorems are satisfiable: every maximal path of the diamond from
node 3 ends at the base level 0 -/
example : ∀ tt k, Fs.C01.Path exT.recv 3 tt k → exT.recv tt = [tt] → tt = 0 := by
  intro tt k hp hrow
  have h := (checkFlow_paths Fs.C04.exS exT exNb (fun _ => false) (fun i => i == 0) exZ true
    (by decide) (fun b hb _ => by have : b = 0 := by simpa using hb
                                  subst this; decide)
    (fun a => by simp [Fs.C04.exS])
    (fun a b c h1 h2 => by simp [Fs.C04.exS] at *; omega)).2.2.2.1 3 (by decide)
    (Fs.Reach.step 1 3 (Fs.Reach.step 0 1 (Fs.Reach.seed 0 rfl) (by decide) rfl) (by decide) rfl)
    tt k hp hrow
  simpa using h.1

end Fs.ImplCheck

