import FsModel.SeedOrder
import FsProofs.Properties.C02

/-! # C09 — updating routes is a pure function of its current inputs

The model's `update_routes` (`Fs.Driver.runOps`) is a function of the operator list, the
environment (topology, mask, base levels) and the elevation by construction - there is no hidden
state in the model.  The one place where the C++ object's history can enter is the iteration
order of the hash set of base levels, which the harness hands to the model as the list
`Env.seeds`.  This file proves that the executed priority flood does not depend on that order:
any two seed lists that are permutations of each other give the same initial state, hence the
same filled elevations - for every grid size and every elevation field over a linear order. -/
namespace Fs.C09
open Fs Fs.Flow Fs.C02 List

variable {α : Type}

def withSeeds (e : Env α) (s : List Nat) : Env α := { e with seeds := s }

/-- one base level entering the open queue (`init_pflood`) -/
def seedStep (S : Scalar α) (e : Env α) (z : Nat → α) (s : Fs.PF α) (b : Nat) : Fs.PF α :=
  if e.mask b then s
  else { elev := s.elev, closed := Fs.upd s.closed b true, openQ := Fs.insertQ (ordOf S) (b, z b) s.openQ, pitQ := s.pitQ }

def pf0 (z : Nat → α) : Fs.PF α := { elev := z, closed := fun _ => false, openQ := [], pitQ := [] }

theorem pfInit_eq (S : Scalar α) (e : Env α) (z : Nat → α) : pfInit S e z = e.seeds.foldl (seedStep S e z) (pf0 z) := rfl

/-- the open queue of `pfInit` is the sorted insertion of the unmasked seeds -/
theorem pfInit_fields (S : Scalar α) (e : Env α) (z : Nat → α) (l : List Nat) (s0 : Fs.PF α) :
    (l.foldl (seedStep S e z) s0).elev = s0.elev ∧ (l.foldl (seedStep S e z) s0).pitQ = s0.pitQ ∧
    (l.foldl (seedStep S e z) s0).openQ =
      (l.filter (fun b => !e.mask b)).foldl (fun q b => Fs.UB.insertQ (ubOrd S) (b, z b) q) s0.openQ ∧
    (∀ n, (l.foldl (seedStep S e z) s0).closed n = (s0.closed n || ((l.filter (fun b => !e.mask b)).contains n))) := by
  induction l generalizing s0 with
  | nil => simp
  | cons a t ih =>
    simp only [List.foldl_cons]
    by_cases hm : e.mask a = true
    · have e1 : seedStep S e z s0 a = s0 := by simp [seedStep, hm]
      rw [e1]
      simp only [List.filter_cons, hm, Bool.not_true, Bool.false_eq_true, if_false]
      exact ih s0
    · have hm' : e.mask a = false := by cases h : e.mask a <;> simp_all
      obtain ⟨i1, i2, i3, i4⟩ := ih (seedStep S e z s0 a)
      have e1 : (seedStep S e z s0 a).elev = s0.elev := by simp [seedStep, hm']
      have e2 : (seedStep S e z s0 a).pitQ = s0.pitQ := by simp [seedStep, hm']
      have e3 : (seedStep S e z s0 a).openQ = Fs.UB.insertQ (ubOrd S) (a, z a) s0.openQ := by
        simp [seedStep, hm', insertQ_eq]
      have e4 : ∀ n, (seedStep S e z s0 a).closed n = (s0.closed n || decide (n = a)) := by
        intro n
        simp only [seedStep, hm', Bool.false_eq_true, if_false, Fs.upd]
        by_cases hn : n = a <;> simp [hn]
      simp only [List.filter_cons, hm', Bool.not_false, if_true, List.foldl_cons]
      refine ⟨by rw [i1, e1], by rw [i2, e2], by rw [i3, e3], ?_⟩
      intro n
      rw [i4 n, e4 n]
      simp only [List.contains_cons, Bool.or_assoc]
      by_cases hn : n = a
      · simp [hn]
      · have : (n == a) = false := by simp [hn]
        simp [hn, this]

/-- **pflood_seed_order_irrelevant**: permuting the list of base levels (the only
implementation-defined input of `update_routes`) does not change the state the flood starts
from - queue contents and order included -, hence not the filled elevations either -/
theorem pfInit_perm (S : Scalar α) (L : Fs.UB.Laws (ubOrd S)) (e : Env α) (z : Nat → α) (s₁ s₂ : List Nat) (h : s₁ ~ s₂) :
    pfInit S (withSeeds e s₁) z = pfInit S (withSeeds e s₂) z := by
  rw [pfInit_eq, pfInit_eq]
  show s₁.foldl (seedStep S e z) (pf0 z) = s₂.foldl (seedStep S e z) (pf0 z)
  obtain ⟨a1, a2, a3, a4⟩ := pfInit_fields S e z s₁ (pf0 z)
  obtain ⟨b1, b2, b3, b4⟩ := pfInit_fields S e z s₂ (pf0 z)
  have hf : s₁.filter (fun b => !e.mask b) ~ s₂.filter (fun b => !e.mask b) := h.filter _
  have hq := Fs.UB.seedQueue_perm (ubOrd S) L z _ _ hf
  unfold Fs.UB.seedQueue at hq
  have hc : ∀ n, ((s₁.filter (fun b => !e.mask b)).contains n) = ((s₂.filter (fun b => !e.mask b)).contains n) := by
    intro n
    have hiff := hf.mem_iff (a := n)
    cases h1 : (s₁.filter (fun b => !e.mask b)).contains n <;> cases h2 : (s₂.filter (fun b => !e.mask b)).contains n
    · rfl
    · rw [List.contains_iff_mem] at h2; have := hiff.mpr h2; rw [← List.contains_iff_mem, h1] at this; cases this
    · rw [List.contains_iff_mem] at h1; have := hiff.mp h1; rw [← List.contains_iff_mem, h2] at this; cases this
    · rfl
  generalize s₁.foldl (seedStep S e z) (pf0 z) = r1 at a1 a2 a3 a4
  generalize s₂.foldl (seedStep S e z) (pf0 z) = r2 at b1 b2 b3 b4
  cases r1; cases r2
  simp only at a1 a2 a3 a4 b1 b2 b3 b4
  congr 1
  · rw [a1, b1]
  · funext n; rw [a4 n, b4 n, hc n]
  · rw [a3, b3]; exact hq
  · rw [a2, b2]

theorem pflood_perm (S : Scalar α) (L : Fs.UB.Laws (ubOrd S)) (e : Env α) (z : Nat → α) (s₁ s₂ : List Nat) (h : s₁ ~ s₂) :
    pflood S (withSeeds e s₁) z = pflood S (withSeeds e s₂) z := by
  unfold pflood
  rw [pfInit_perm S L e z s₁ s₂ h]
  rfl

end Fs.C09
