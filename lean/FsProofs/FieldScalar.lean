import FsModel.Basic
import Mathlib.Algebra.Order.Field.Basic
import Mathlib.Algebra.BigOperators.Group.List.Basic
import Mathlib.Tactic.Ring
import Mathlib.Tactic.Linarith
import Mathlib.Tactic.FieldSimp

/-! The exact-arithmetic instance of the scalar-operation record: the model definitions that the
drivers run on `Float` are the same definitions instantiated here with the operations of an
arbitrary linearly ordered field (`pow`, `sqrt`, `nextUp` stay abstract parameters). Theorems
stated over `fieldScalar` say that the *algorithm* is right in exact arithmetic. -/
namespace Fs

def fieldScalar (α : Type) [Field α] [LinearOrder α] (pow : α → α → α) (sqrt nextUp : α → α)
    (lowest maxFinite minNormal : α) : Scalar α where
  lt a b := decide (a < b)
  add a b := a + b
  sub a b := a - b
  mul a b := a * b
  div a b := a / b
  pow := pow
  sqrt := sqrt
  nextUp := nextUp
  zero := 0
  one := 1
  lowest := lowest
  maxFinite := maxFinite
  minNormal := minNormal
  ofNat n := (n : α)

end Fs
