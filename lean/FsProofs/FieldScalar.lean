import FsModel.Basic
import Mathlib.Algebra.Order.Field.Basic
import Mathlib.Algebra.BigOperators.Group.List.Basic
import Mathlib.Tactic.Ring
import Mathlib.Tactic.Linarith
import Mathlib.Tactic.FieldSimp

/-! The exact-arithmetic instance of the scalar-operation record: the model definitions that the
drivers run on `Float` are the same definitions instantiated here with the operations of an
arbitrary linearly ordered field (`pow`, `sqrt`, `nextUp` stay abstract parameters). Theorems
stated over `fieldScalar` say that the *algorithm* is right in exact arithmetic. -/
namespace Fs

def fieldScalar (α : Type) [Field α] [LinearOrder α] (pow : α → α → α) (sqrt nextUp : α → α)
    (lowest maxFinite minNormal : α) : Scalar α where
  lt a b := decide (a < b)
  add a b := a + b
  sub a b := a - b
  mul a b := a * b
  div a b := a / b
  pow := pow
  sqrt := sqrt
  nextUp := nextUp
  zero := 0
  one := 1
  lowest := lowest
  maxFinite := maxFinite
  minNormal := minNormal
  ofNat n := (n : α)

section
variable {α : Type} [Field α] [LinearOrder α] (pow : α → α → α) (sq nu : α → α) (lo mx mn : α)
local notation "SF" => fieldScalar α pow sq nu lo mx mn
@[simp] theorem sf_lt (a b : α) : (SF).lt a b = decide (a < b) := rfl
@[simp] theorem sf_add (a b : α) : (SF).add a b = a + b := rfl
@[simp] theorem sf_sub (a b : α) : (SF).sub a b = a - b := rfl
@[simp] theorem sf_mul (a b : α) : (SF).mul a b = a * b := rfl
@[simp] theorem sf_div (a b : α) : (SF).div a b = a / b := rfl
@[simp] theorem sf_pow (a b : α) : (SF).pow a b = pow a b := rfl
@[simp] theorem sf_zero : (SF).zero = (0 : α) := rfl
@[simp] theorem sf_one : (SF).one = (1 : α) := rfl
@[simp] theorem sf_minNormal : (SF).minNormal = mn := rfl
@[simp] theorem sf_maxFinite : (SF).maxFinite = mx := rfl
@[simp] theorem sf_lowest : (SF).lowest = lo := rfl
@[simp] theorem sf_le (a b : α) : (SF).le a b = decide (a ≤ b) := by
  simp only [Scalar.le, sf_lt]
  by_cases h : b < a
  · simp [h, not_le.mpr h]
  · simp [h, not_lt.mp h]
end

end Fs
