import Mathlib.Algebra.Order.Field.Basic
import Mathlib.Algebra.BigOperators.Group.List.Basic
import Mathlib.Tactic.FieldSimp
import Mathlib.Tactic.Linarith
import Mathlib.Tactic.Ring
/-! Stream-power step, closed form (slope exponent one), one node, over a linear ordered field.
`rs` = contributing receivers as pairs (factor, receiver's new elevation). -/
namespace Fs.Spl

variable {α : Type} [Field α] [LinearOrder α] [IsStrictOrderedRing α]

def num (h : α) (rs : List (α × α)) : α := h + (rs.map (fun p => p.1 * p.2)).sum
def den (rs : List (α × α)) : α := 1 + (rs.map Prod.fst).sum
def solve (h : α) (rs : List (α × α)) : α := num h rs / den rs

/-- the clamp of spl.hpp: never below the floor (lowest new elevation among all receivers) -/
def clamp (floor tiny x : α) : α := if x < floor then floor + tiny else x

theorem sum_fac_nonneg (rs : List (α × α)) (hf : ∀ p ∈ rs, 0 ≤ p.1) : 0 ≤ (rs.map Prod.fst).sum := by
  induction rs with
  | nil => simp
  | cons a t ih =>
    simp only [List.map_cons, List.sum_cons]
    have := ih (fun p hp => hf p (List.mem_cons_of_mem _ hp))
    linarith [hf a List.mem_cons_self]

theorem sum_weighted_le (h : α) (rs : List (α × α)) (hf : ∀ p ∈ rs, 0 ≤ p.1) (hr : ∀ p ∈ rs, p.2 ≤ h) :
    (rs.map (fun p => p.1 * p.2)).sum ≤ (rs.map Prod.fst).sum * h := by
  induction rs with
  | nil => simp
  | cons a t ih =>
    simp only [List.map_cons, List.sum_cons]
    have := ih (fun p hp => hf p (List.mem_cons_of_mem _ hp)) (fun p hp => hr p (List.mem_cons_of_mem _ hp))
    have h1 : a.1 * a.2 ≤ a.1 * h := mul_le_mul_of_nonneg_left (hr a List.mem_cons_self) (hf a List.mem_cons_self)
    linarith [add_mul a.1 (List.map Prod.fst t).sum h]

/-- the implicit solution never exceeds the old elevation when every contributing receiver is
not above it: erosion `h - solve` is non-negative -/
theorem solve_le (h : α) (rs : List (α × α)) (hf : ∀ p ∈ rs, 0 ≤ p.1) (hr : ∀ p ∈ rs, p.2 ≤ h) :
    solve h rs ≤ h := by
  unfold solve num den
  have hd : 0 < 1 + (rs.map Prod.fst).sum := by linarith [sum_fac_nonneg rs hf]
  rw [div_le_iff₀ hd]
  have := sum_weighted_le h rs hf hr
  linarith [mul_comm h (1 + (rs.map Prod.fst).sum)]

/-- the closed form solves the backward-Euler equation exactly -/
theorem solve_residual (h : α) (rs : List (α × α)) (hf : ∀ p ∈ rs, 0 ≤ p.1) :
    solve h rs - h + (rs.map (fun p => p.1 * (solve h rs - p.2))).sum = 0 := by
  have hd : (1 + (rs.map Prod.fst).sum) ≠ 0 := by
    have := sum_fac_nonneg rs hf; intro e; linarith
  have key : ∀ (x : α) (l : List (α × α)),
      (l.map (fun p => p.1 * (x - p.2))).sum = x * (l.map Prod.fst).sum - (l.map (fun p => p.1 * p.2)).sum := by
    intro x l
    induction l with
    | nil => simp
    | cons a t ih => simp only [List.map_cons, List.sum_cons, ih]; ring
  rw [key]
  have hs : solve h rs * (1 + (rs.map Prod.fst).sum) = h + (rs.map (fun p => p.1 * p.2)).sum := by
    unfold solve num den; field_simp
  linarith

theorem clamp_ge_floor (floor tiny x : α) (ht : 0 ≤ tiny) : floor ≤ clamp floor tiny x := by
  unfold clamp; split
  · linarith
  · rename_i h; exact not_lt.mp h

/-- erosion after clamping is ≥ −tiny when the node is above the floor (not in a lake) -/
theorem erosion_ge (h floor tiny : α) (rs : List (α × α)) (hf : ∀ p ∈ rs, 0 ≤ p.1)
    (hr : ∀ p ∈ rs, p.2 ≤ h) (hfl : floor < h) (ht : 0 ≤ tiny) :
    -tiny ≤ h - clamp floor tiny (solve h rs) := by
  unfold clamp; split
  · linarith
  · have := solve_le h rs hf hr; linarith

end Fs.Spl
