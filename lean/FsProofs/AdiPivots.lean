import Mathlib.Algebra.Order.Field.Basic
import Mathlib.Tactic.FieldSimp
import Mathlib.Tactic.Linarith
import Mathlib.Tactic.Positivity
import Mathlib.Tactic.Ring
/-! ADI tridiagonal systems are diagonally dominant: every Thomas pivot is ≥ 1 (so `erode` never
throws "division by zero"), over a linear ordered field. `a i = -lower i ≥ 0`, `c i = -upper i ≥ 0`,
`diag i = 1 + a i + c i` (border rows have `a = c = 0`). -/
namespace Fs.AdiPivots

variable {α : Type} [Field α] [LinearOrder α] [IsStrictOrderedRing α]

/-- pivots of the Thomas forward sweep for `lower = -a`, `upper = -c`, `diag = 1 + a + c` -/
def bet (a c : Nat → α) : Nat → α
  | 0 => 1 + a 0 + c 0
  | i + 1 => (1 + a (i + 1) + c (i + 1)) - (-(a (i + 1))) * (-(c i) / bet a c i)

theorem bet_ge (a c : Nat → α) (ha : ∀ i, 0 ≤ a i) (hc : ∀ i, 0 ≤ c i) : ∀ i, 1 + c i ≤ bet a c i := by
  intro i
  induction i with
  | zero => simp only [bet]; linarith [ha 0]
  | succ i ih =>
    simp only [bet]
    have hb : 0 < bet a c i := by linarith [hc i]
    have hfrac : c i / bet a c i ≤ 1 := by
      rw [div_le_one hb]; linarith
    have hfrac0 : 0 ≤ c i / bet a c i := div_nonneg (hc i) hb.le
    have : -(a (i + 1)) * (-(c i) / bet a c i) = a (i + 1) * (c i / bet a c i) := by ring
    rw [this]
    have : a (i + 1) * (c i / bet a c i) ≤ a (i + 1) := by
      calc a (i + 1) * (c i / bet a c i) ≤ a (i + 1) * 1 := mul_le_mul_of_nonneg_left hfrac (ha _)
        _ = a (i + 1) := mul_one _
    linarith

/-- **adi_pivots_pos** -/
theorem pivots_ge_one (a c : Nat → α) (ha : ∀ i, 0 ≤ a i) (hc : ∀ i, 0 ≤ c i) : ∀ i, 1 ≤ bet a c i :=
  fun i => le_trans (by linarith [hc i]) (bet_ge a c ha hc i)

end Fs.AdiPivots
