import FsModel.DriverMain

def main (args : List String) : IO Unit := Fs.Driver.main args
