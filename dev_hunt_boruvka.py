#!/usr/bin/env python3
"""development aid (not a registered check): search LARGER rasters than the registered tiers use
for a basin graph on which the library's Boruvka (contracts only nodes of degree <= 16) returns a
tree that is not a minimum spanning forest - implementation + independent oracle only, no model.
usage: dev_hunt_boruvka.py <seed> <n_scenarios>"""
import os, random, sys, time
ROOT = os.path.dirname(os.path.abspath(__file__))
sys.path.insert(0, ROOT)
from vlib import build, run, gen, oracle  # noqa: E402
from vlib.common import hx  # noqa: E402

seed, N = int(sys.argv[1]), int(sys.argv[2])
rng = random.Random(seed)
exe, _ = build.build_harness("asan")
t0 = time.time()
bad = 0
stats = []
for batch in range(0, N, 32):
    scns = []
    for k in range(batch, min(N, batch + 32)):
        side = rng.choice([12, 16, 24, 32, 40])
        g = gen.raster(rng, side, side + 8, conn=rng.choice(["queen", "queen", "rook", "bishop"]), ov_prob=0.0)
        n = g.n
        fam = rng.choice(["ints", "ints2", "random", "steps", "plateau_eps"])
        z = gen.elevation(rng, g, fam)
        lines = [g.line(), "graph single"]
        r = rng.random()
        if r < 0.6:
            # many scattered base levels: many outer basins tied to the virtual root
            lines.append("set_base " + " ".join(map(str, sorted(rng.sample(range(n), rng.choice([1, 5, 40, n // 8, n // 3]))))))
        if rng.random() < 0.3:
            lines.append("set_mask " + " ".join(map(str, gen.mask_bits(rng, g))))
        lines.append("update " + gen.hexes(z))
        lines.append("bgraph k " + gen.hexes(z))
        lines.append("bgraph b " + gen.hexes(z))
        scns.append(("h%d" % k, lines))
    impl, notes, sans = run.run_harness(exe, scns, watchdog=120)
    for sid, lines in scns:
        s = impl.get(sid)
        if s is None or sid in notes:
            print("NOTE", sid, notes.get(sid)); bad += 1
            continue
        fails = oracle.c15(s)
        for c in s.calls:
            if c.cmd == "bgraph" and "bg_edges" in c.O:
                ev = c.O["bg_edges"]; deg = {}
                for q in range(0, len(ev), 6):
                    for x in (ev[q], ev[q + 1]):
                        deg[x] = deg.get(x, 0) + 1
                stats.append((len(c.O.get("bg_outlets", [])), len(c.O.get("bg_tree", [])), max(deg.values()) if deg else 0))
                break
        if fails:
            bad += 1
            print("FAIL", sid, fails[:3])
            with open(os.path.join(ROOT, "replays", "hunt_boruvka_%d_%s.txt" % (seed, sid)), "w") as f:
                f.write("\n".join(["scn " + sid] + lines + ["end"]) + "\n")
    print("batch", batch, "bad", bad, "t=%.0fs" % (time.time() - t0), flush=True)
print("done: %d scenarios, %d bad" % (N, bad))
print("basins/tree/maxdeg (largest 8):", sorted(stats)[-8:], "max degree seen:", max((x[2] for x in stats), default=0), " second-largest degrees >16:", sum(1 for x in stats if x[2] > 16))
