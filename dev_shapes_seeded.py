#!/usr/bin/env python3
"""development aid (not a registered check): how many of the stored seeded changes flip a
regenerated statement-level fact (or make a translator section fail) - i.e. are noticed by the
translator alone, before any scenario runs.  usage: FS_REPO=<clean worktree> dev_shapes_seeded.py"""
import os, sys, json, subprocess, glob, tempfile, shutil
HERE = os.path.dirname(os.path.abspath(__file__))
REPO = os.environ.get("FS_REPO", "/repo")
def main():
    tmp = tempfile.mkdtemp(prefix="fs_sens_")
    wt = os.path.join(tmp, "wt")
    subprocess.check_call(["git", "-C", REPO, "worktree", "add", "--detach", wt, "HEAD", "-q"])
    hit = tot = 0
    try:
        for d in sorted(glob.glob(os.path.join(HERE, "seeded", "*"))):
            p = os.path.join(d, "patch.diff")
            if not os.path.exists(p): continue
            subprocess.call(["git", "-C", wt, "checkout", "-q", "--", "."])
            if subprocess.call(["git", "-C", wt, "apply", p], stderr=subprocess.DEVNULL) != 0:
                print("%-14s patch does not apply" % os.path.basename(d)); continue
            out = os.path.join(tmp, "Generated.lean")
            env = dict(os.environ, FS_REPO=wt, FS_GENERATED_OUT=out)
            subprocess.call([sys.executable, os.path.join(HERE, "translate.py")], env=env, stdout=subprocess.DEVNULL, stderr=subprocess.DEVNULL)
            info = json.load(open(out + ".info.json"))
            flipped = ["%s.%s" % (g, n) for sec in ("flow_shapes", "grid_shapes") for g, fs in info.get(sec, {}).items() for n, v in fs.items() if not v]
            failed = list(info.get("failed_sections", {}).keys())
            tot += 1
            if flipped or failed: hit += 1
            print("%-14s flipped=%d failed_sections=%s %s" % (os.path.basename(d), len(flipped), failed, "; ".join(flipped)[:160]))
    finally:
        subprocess.call(["git", "-C", REPO, "worktree", "remove", "--force", wt])
        shutil.rmtree(tmp, ignore_errors=True)
    print("%d of %d seeded changes are noticed by the translator alone" % (hit, tot))
main()
