#!/usr/bin/env python3
"""Regenerate MANIFEST.json from the registry in vlib/props.py (levels, techniques, notes) so that the
manifest, the evidence files and the registry never drift apart.  Run after editing vlib/props.py."""
import json
import os
import sys

ROOT = os.path.dirname(os.path.abspath(__file__))
sys.path.insert(0, ROOT)
from vlib import props  # noqa: E402

ALL = ["C%02d" % i for i in range(1, 21)]

HOOK_COMMITS = []
try:
    HOOK_COMMITS = json.load(open(os.path.join(ROOT, "hooks.json")))["source_commits"]
except Exception:
    pass

man = {
    "version": 1,
    "setup_cmd": "python3 setup.py",
    "hooks": {
        "guard": "FASTSCAPELIB_VERIF_HOOKS",
        "enable": "-DFASTSCAPELIB_VERIF_HOOKS on the harness compile line (vlib/build.py); the library's own build never defines it",
        "baseline_off_cmd": "cmake -G Ninja -S /repo -B /repo/_build -DFS_BUILD_TESTS=ON -DCMAKE_BUILD_TYPE=RelWithDebInfo -DCMAKE_CXX_FLAGS=-Wno-error -DGTest_DIR=/root/miniconda/lib/cmake/GTest >/dev/null && cmake --build /repo/_build -j16 >/dev/null && ctest --test-dir /repo/_build -j8 --timeout 900",
        "source_commits": HOOK_COMMITS,
        "add_only": True,
    },
    "engines": [
        {"name": "lean-model-and-proofs", "path": "lean/", "serves_properties": [p for p in ALL if p in props.PROPS],
         "kind_free_text": "Lean 4 executable model (FsModel, core Lean, compiled to the fsmodel driver) + theorems (FsModel/*, FsProofs/*) checked by lake build and #print axioms on every run; Generated.lean is rewritten from /repo by translate.py on every run"},
        {"name": "cpp-harness", "path": "harness/", "serves_properties": [p for p in ALL if p in props.PROPS],
         "kind_free_text": "C++17 harness including /repo/include headers of the current working tree, ASan+UBSan(+TSan) builds, line protocol; its transcript is replayed by the Lean model and diffed bit for bit; python oracles (vlib/oracle.py) evaluate the property on the implementation's outputs"},
    ],
    "checks": [],
    "not_applicable": [],
    "notes": "All checks: python3 check.py <id> --tier quick|thorough (honours VERIF_SEED). See DESIGN.md.",
}

for pid in ALL:
    P = props.PROPS.get(pid)
    if P is None or not P.get("claimed", True):
        man["not_applicable"].append({"property_id": pid, "reason": props.NOT_CLAIMED.get(pid, "check not built yet (machinery under construction; see DESIGN.md section 13)")})
        continue
    man["checks"].append({
        "property_id": pid,
        "quick_cmd": "python3 check.py %s --tier quick" % pid,
        "thorough_cmd": "python3 check.py %s --tier thorough" % pid,
        "evidence_file": "evidence/%s.json" % pid,
        "replay_cmd_template": "python3 check.py %s --replay {path}" % pid,
        "engine": "lean-model-and-proofs",
        "level_claimed": {"category": P["level"], "text": P.get("level_text", ""), "design_ref": P.get("design_ref", "DESIGN.md section 6, " + pid)},
        "level_note": P.get("level_note", "Trusted: Lean kernel; axioms propext/Classical.choice/Quot.sound; translate.py; sampled bit-exact correspondence harness<->model; IEEE binary64 order laws assumed for Float"),
        "technique": P.get("technique", "Lean 4 theorems about the executable model + differential correspondence model<->C++ + oracle on implementation outputs"),
    })

# validation before anything is written: the category is an enum of the schema, and the whole document
# is checked against /root/.vp/MANIFEST.schema.json when the jsonschema module is available
_sch_path = "/root/.vp/MANIFEST.schema.json"
_cats = None
try:
    _sch = json.load(open(_sch_path))
    _cats = _sch["properties"]["checks"]["items"]["properties"]["level_claimed"]["properties"]["category"].get("enum")
except Exception:
    _sch = None
for c in man["checks"]:
    cat = c["level_claimed"]["category"]
    if (_cats and cat not in _cats) or " " in cat:
        sys.exit("mkmanifest: invalid level category %r for %s" % (cat[:60], c["property_id"]))
try:
    import jsonschema
    if _sch is not None:
        jsonschema.validate(man, _sch)
except ImportError:
    pass

with open(os.path.join(ROOT, "MANIFEST.json"), "w") as f:
    json.dump(man, f, indent=1)
print("MANIFEST.json: %d checks, %d not claimed" % (len(man["checks"]), len(man["not_applicable"])))
