"""Run scenario blocks through the real code (harness) and the Lean model (fsmodel); diff."""
import os
import re
import subprocess
import tempfile
import concurrent.futures as cf

from .common import parse_transcript

NPROC = int(os.environ.get("VERIF_JOBS", "14"))
ASAN_ENV = "halt_on_error=0:detect_leaks=0:allocator_may_return_null=1:log_path=stdout"


def scn_text(scn):
    """scn = (id, [lines]) -> block text"""
    sid, lines = scn
    return "scn %s\n%s\nend\n" % (sid, "\n".join(lines))


def _run_harness_chunk(exe, blocks, watchdog):
    """blocks: list of (id, text).  Restarts after a crash/hang so later scenarios still run.
    -> transcript text (concatenated), list of crash notes"""
    out_all = []
    notes = []
    i = 0
    hangs = 0
    while i < len(blocks):
        if hangs >= 2:
            # two scenarios of this batch already ran into the watchdog: the run is failing anyway;
            # the rest of the batch is not run (each further hang would cost a full watchdog period)
            for b in blocks[i:]:
                notes.append((b[0], -99, "not run: two scenarios of this batch already hung"))
            break
        data = "".join(b[1] for b in blocks[i:])
        env = dict(os.environ, ASAN_OPTIONS=ASAN_ENV, UBSAN_OPTIONS="print_stacktrace=1:log_path=stdout", TSAN_OPTIONS="halt_on_error=0:log_path=stdout")
        try:
            p = subprocess.run([exe, "/dev/stdin", str(watchdog)], input=data, capture_output=True, text=True,
                               env=env, timeout=watchdog * (len(blocks) - i) + 60, errors="replace")
            text = p.stdout
            err = p.stderr
            rc = p.returncode
        except subprocess.TimeoutExpired as e:
            text = (e.stdout or b"").decode(errors="replace") if isinstance(e.stdout, bytes) else (e.stdout or "")
            err = "runner timeout"
            rc = -9
        # find scenarios completed
        done = re.findall(r"^E (\S+)$", text, flags=re.M)
        started = re.findall(r"^S (\S+)$", text, flags=re.M)
        # attach stderr (sanitizer reports) to the transcript: ASan writes to stderr; we cannot
        # interleave exactly, so reports are attributed by the runner using report order
        out_all.append((text, err))
        if rc == 0 and len(done) == len(blocks) - i:
            break
        # the watchdog handler prints "O hang / E <id>" itself and exits with status 3: the hung
        # scenario is the last one listed as done
        if rc == 3 and done and started and started[-1] == done[-1]:
            bad = done[-1]
            hangs += 1
            notes.append((bad, rc, "watchdog"))
            idx = next(k for k in range(i, len(blocks)) if blocks[k][0] == bad)
            i = idx + 1
        # crashed or hung inside scenario `started[-1]` (if it has no E line)
        elif started and (not done or started[-1] != done[-1]):
            bad = started[-1]
            if rc == -9:
                hangs += 1
            notes.append((bad, rc, err[-4000:]))
            # skip past it
            idx = next(k for k in range(i, len(blocks)) if blocks[k][0] == bad)
            i = idx + 1
        else:
            # nothing started: give up on this chunk
            notes.append((blocks[i][0], rc, "harness produced no output: " + err[-2000:]))
            i += 1
    return out_all, notes


SAN_RE = re.compile(r"(ERROR: AddressSanitizer: [\w-]+|runtime error: [^\n]*|WARNING: ThreadSanitizer: [\w -]+)")
FRAME_RE = re.compile(r"(/repo/include/fastscapelib/[\w/\.]+:\d+)")


def san_reports(err):
    """split a stderr blob into sanitizer reports -> list of dict(kind, where, text)"""
    reps = []
    parts = re.split(r"(?m)^(?===\d+==ERROR|.*runtime error:|WARNING: ThreadSanitizer)", err)
    for part in parts:
        m = SAN_RE.search(part)
        if not m:
            continue
        fr = FRAME_RE.search(part)
        if fr:
            where = fr.group(1)
        else:
            f0 = re.search(r"#0 \S+ in (.{0,80}?) (\S+:\d+)", part)
            sm = re.search(r"SUMMARY: \w+: [\w-]+ (\S+:\d+)", part)
            where = (sm.group(1) if sm else (f0.group(2) if f0 else "?"))
        reps.append(dict(kind=m.group(1), where=where, text=part[:3000]))
    return reps


def _load_factor():
    try:
        return max(1.0, os.getloadavg()[0] / float(os.cpu_count() or 1))
    except Exception:
        return 1.0


def run_harness(exe, scns, watchdog=20, per_scn_stderr=False, confirm_hangs=True):
    """scns: list of (id, lines).  -> dict id -> Scn (parsed), dict id -> notes, all sanitizer reports.
    With per_scn_stderr the harness is run one scenario per process chunk of size 1 for exact
    attribution of sanitizer reports (slower).
    A scenario whose call did not return within the watchdog is run once more ALONE with a much
    longer watchdog before it counts as a hang: on a loaded machine (other checks, sanitizer
    slow-down) a slow call must not be taken for a hang."""
    # the per-call watchdog is scaled by the machine load (1-minute load average per core): with
    # sanitizer builds and busy-waiting worker threads an oversubscribed machine slows a call down
    # by about that factor; a real hang is still a hang, it is only reported later
    lf = _load_factor()
    watchdog = int(watchdog * min(lf, 4.0))
    parsed, notes, sans = _run_harness_once(exe, scns, watchdog, per_scn_stderr)
    if confirm_hangs:
        hung = [s for s in scns if (s[0] in parsed and parsed[s[0]].hang) or (s[0] in notes and notes[s[0]][0] in (3, -9))]
        for s in hung[:3]:
            p2, n2, s2 = _run_harness_once(exe, [s], watchdog * 4 + 20, True)
            ok = s[0] in p2 and not p2[s[0]].hang and not (s[0] in n2 and n2[s[0]][0] in (3, -9))
            if not ok:
                break       # a confirmed hang: the remaining reports stand as they are
            if ok:
                parsed[s[0]] = p2[s[0]]
                notes.pop(s[0], None)
                if s[0] in n2:
                    notes[s[0]] = n2[s[0]]
                sans = [r for r in sans if r.get("scn") != s[0]] + s2
    # the watchdog of the harness itself prints from a signal handler: not a report about the library
    sans = [r for r in sans if "signal-unsafe call inside of a signal" not in r.get("kind", "") and "signal-unsafe" not in r.get("text", "")[:200]]
    return parsed, notes, sans


def _run_harness_once(exe, scns, watchdog=20, per_scn_stderr=False):
    blocks = [(s[0], scn_text(s)) for s in scns]
    n = len(blocks)
    if n == 0:
        return {}, {}, []
    k = n if per_scn_stderr else min(NPROC, n)
    chunks = [blocks[j::k] for j in range(k)]
    parsed = {}
    notes = {}
    sans = []
    with cf.ThreadPoolExecutor(max_workers=NPROC) as ex:
        futs = [ex.submit(_run_harness_chunk, exe, ch, watchdog) for ch in chunks if ch]
        for fu, ch in zip(futs, [c for c in chunks if c]):
            outs, nts = fu.result()
            for text, err in outs:
                for s in parse_transcript(text):
                    parsed[s.id] = s
                    # sanitizer output is written to stdout too (log_path=stdout) and the
                    # harness flushes at scenario boundaries, so reports sit inside the block
                    for r in san_reports("\n".join(s.san)):
                        r["scn"] = s.id
                        sans.append(r)
                for r in san_reports(err):
                    r["scn"] = None
                    sans.append(r)
            for sid, rc, err in nts:
                notes[sid] = (rc, err)
                if sid in parsed:
                    parsed[sid].crashed = True
    return parsed, notes, sans


def transcript_text(scn_obj):
    """re-serialise a parsed harness scenario for the model driver (C and I lines only)"""
    lines = ["S " + scn_obj.id]
    for c in scn_obj.calls:
        if c.toks and c.toks[0] == "<pre>":
            continue
        lines.append("C %d %s" % (c.li, " ".join(c.toks)))
        for key, rows in c.I.items():
            for r in rows:
                lines.append("I %s %s" % (key, " ".join(r)))
        # outputs of the implementation on which the model driver evaluates a certificate checker
        # that has a Lean soundness theorem (C15: minimum spanning forest)
        if c.toks and c.toks[0] == "update" and c.O.get("update") == ["ok"] and "recv" in c.O:
            for key in ("rcount", "recv", "dcount", "donors", "dfs", "bfs", "levels", "elev"):
                if key in c.O:
                    lines.append("I impl_%s %s" % (key, " ".join(c.O[key])))
        if c.toks and c.toks[0] == "basins" and "basins" in c.O:
            for key in ("basins", "outlets", "pits"):
                if key in c.O:
                    lines.append("I impl_%s %s" % (key, " ".join(c.O[key])))
        if c.toks and c.toks[0] == "mstraw":
            for key in ("raw_k", "raw_b"):
                if key in c.O:
                    lines.append("I impl_%s %s" % (key, " ".join(c.O[key])))
        if c.toks and c.toks[0] == "bgraph" and "bg_edges" in c.O and "bg_tree" in c.O:
            lines.append("I impl_bg_edges " + " ".join(c.O["bg_edges"]))
            lines.append("I impl_bg_tree " + " ".join(c.O["bg_tree"]))
    lines.append("E " + scn_obj.id)
    return "\n".join(lines) + "\n"


def _run_model_chunk(exe, text, timeout):
    with tempfile.NamedTemporaryFile("w", suffix=".tr", delete=False) as f:
        f.write(text)
        path = f.name
    try:
        p = subprocess.run([exe, path], capture_output=True, text=True, timeout=timeout)
        return p.stdout, p.returncode, p.stderr
    except subprocess.TimeoutExpired as e:
        out = e.stdout.decode(errors="replace") if isinstance(e.stdout, bytes) else (e.stdout or "")
        return out, -9, "model timeout"
    finally:
        os.unlink(path)


def run_model(exe, impl, timeout=600):
    """impl: dict id -> Scn from the harness.  -> dict id -> Scn (model), list of notes"""
    ids = [i for i in impl if not impl[i].crashed and impl[i].complete]
    if not ids:
        return {}, []
    k = min(NPROC, len(ids))
    chunks = [ids[j::k] for j in range(k)]
    res = {}
    notes = []
    with cf.ThreadPoolExecutor(max_workers=NPROC) as ex:
        futs = []
        for ch in chunks:
            text = "".join(transcript_text(impl[i]) for i in ch)
            futs.append(ex.submit(_run_model_chunk, exe, text, timeout))
        for fu in futs:
            out, rc, err = fu.result()
            for s in parse_transcript(out):
                res[s.id] = s
            if rc != 0:
                notes.append("model rc=%d %s" % (rc, err[-500:]))
    return res, notes


def diff_scn(si, sm, sections=None):
    """compare O lines call by call.  sections: set of section names that belong to the
    property's correspondence (None = all).  -> list of (call li, cmd, section, impl, model)"""
    diffs = []
    mcalls = {c.li: c for c in sm.calls} if sm else {}
    for c in si.calls:
        if c.toks and c.toks[0] == "<pre>":
            continue
        m = mcalls.get(c.li)
        keys = list(c.O.keys())
        if m:
            keys += [k for k in m.O.keys() if k not in c.O]
        for key in keys:
            if key.startswith("pfx"):
                continue  # oracle-side sections printed by the harness only (prefix graphs, C16)
            if key.startswith("cert_") or key.startswith("bg_cert"):
                continue  # certificate verdicts printed by the model driver only (judged via model_certs)
            base = key.split(":")[-1] if key.startswith("snap:") else key
            if sections is not None and base not in sections and key not in sections:
                continue
            a = c.O.get(key)
            b = m.O.get(key) if m else None
            if a != b:
                diffs.append((c.li, c.cmd, key, a, b))
    return diffs
