"""Property predicates evaluated on the IMPLEMENTATION's outputs (harness transcripts).

Each oracle takes a parsed scenario (vlib.common.Scn) and returns a list of failures
(clause, witness-string).  They are written independently of the algorithms (reachability by
plain BFS, spill levels by Bellman iteration, Prim for tree weights, exact rationals for
algebraic identities) and are what turns a broken proof / correspondence into a replayable
failing input.  They are tests, not proofs.
"""
from fractions import Fraction
import math

from .common import unhx, next_up, ulps_between, SIZE_MAX, bits

DBL_MAX = 1.7976931348623157e308
DBL_MIN = 2.2250738585072014e-308
EPS = 2.220446049250313e-16


def ff(x):
    """float() of a Fraction that may exceed the double range (sums of -DBL_MAX weights)"""
    try:
        return repr(float(x))
    except OverflowError:
        return ("-" if x < 0 else "") + "huge(2^%d)" % (abs(x).numerator.bit_length() - abs(x).denominator.bit_length())


class Topo:
    def __init__(self, scn):
        self.n = 0
        self.nbrs = {}
        self.status = []
        for c in scn.calls:
            if "topo" in c.I:
                self.n = int(c.I["topo"][0][0])
                self.nmax = int(c.I["topo"][0][1])
                for row in c.I.get("nb", []):
                    i = int(row[0])
                    self.nbrs[i] = [(int(row[k]), unhx(row[k + 1])) for k in range(1, len(row), 2)]
                self.status = [int(x) for x in c.I.get("gstatus", [[]])[0]]
                break


class GraphView:
    """tables printed after an update (optionally of a snapshot: prefix 'snap:<name>:')"""

    def __init__(self, call, n, pre=""):
        o = call.O
        self.ok = all((pre + k) in o for k in ("rcount", "recv", "rdist", "rweight", "dcount", "donors", "dfs", "bfs", "levels"))
        if not self.ok:
            return
        self.rcount = [int(x) for x in o[pre + "rcount"]]
        self.dcount = [int(x) for x in o[pre + "dcount"]]

        def rows(flat, counts, conv):
            out, k = [], 0
            for c in counts:
                out.append([conv(x) for x in flat[k:k + c]])
                k += c
            return out, k == len(flat)

        self.recv, a = rows(o[pre + "recv"], self.rcount, int)
        self.rdist, b = rows(o[pre + "rdist"], self.rcount, unhx)
        self.rweight, c = rows(o[pre + "rweight"], self.rcount, unhx)
        self.donors, d = rows(o[pre + "donors"], self.dcount, int)
        self.wellformed = a and b and c and d and len(self.rcount) == n and len(self.dcount) == n
        self.dfs = [int(x) for x in o[pre + "dfs"]]
        self.bfs = [int(x) for x in o[pre + "bfs"]]
        self.levels = [int(x) for x in o[pre + "levels"]]


def update_calls(scn):
    return [c for c in scn.calls if c.cmd == "update" and "update" in c.O and c.O["update"] == ["ok"]]


def env_of(call, n):
    mask = [x == "1" for x in call.i("mask", ["0"] * n)]
    seeds = [int(x) for x in call.i("seeds", [])]
    ops = call.i("ops", [])
    zin = [unhx(x) for x in call.toks[1:1 + n]]
    return mask, seeds, ops, zin


def inputs_in_force(scn):
    """the mask and the base levels the implementation reports at an update (they are handed to the
    model as the inputs in force) must be the ones the scenario set last on that graph"""
    fails = []
    want_mask = None
    want_base = None
    for c in scn.calls:
        if c.cmd == "graph":
            want_mask = None
            want_base = None
        elif c.cmd == "set_mask" and c.O.get("set_mask") == ["ok"]:
            want_mask = [x == "1" for x in c.toks[1:]]
        elif c.cmd == "set_base" and c.O.get("set_base") == ["ok"]:
            want_base = set(int(x) for x in c.toks[1:])
        elif c.cmd in ("update", "update_again") and c.i("mask") is not None:
            if want_mask is not None and [x == "1" for x in c.i("mask")] != want_mask:
                fails.append(("mask_in_force_is_the_one_set", "line %d: the graph reports another mask than set_mask gave it" % c.li))
            if want_base is not None and set(int(x) for x in c.i("seeds", [])) != want_base:
                fails.append(("base_levels_in_force_are_the_ones_set", "line %d: the graph reports base levels %s, set_base_levels gave %s" % (c.li, sorted(int(x) for x in c.i("seeds", [])), sorted(want_base))))
    return fails


def connected_to_base(topo, mask, seeds):
    """nodes unmasked-connected to an unmasked base level (plain BFS)"""
    seen = set(b for b in seeds if not mask[b])
    todo = list(seen)
    while todo:
        c = todo.pop()
        for m, _ in topo.nbrs.get(c, []):
            if not mask[m] and m not in seen:
                seen.add(m)
                todo.append(m)
    return seen


def has_mst_basic_then_multi(ops):
    seen_basic = False
    for o in ops:
        if o.startswith("mst:") and o.endswith(":basic"):
            seen_basic = True
        elif o.startswith("multi") and seen_basic:
            return True
        elif o.startswith("single") or o.startswith("mst:"):
            seen_basic = o.endswith(":basic") if o.startswith("mst:") else False
    return False


def is_resolved_ops(ops):
    """the sink-resolved sequences C01 speaks about: priority flood ahead of a router, or the
    spanning-tree resolver after a single router (optionally followed by a multi router)"""
    real = [o for o in ops if not o.startswith("snap")]
    if len(real) == 2 and real[0] == "pflood" and real[1].startswith(("single", "multi")):
        return True
    if len(real) >= 2 and real[0].startswith("single") and real[1].startswith("mst:"):
        return len(real) == 2 or (len(real) == 3 and real[2].startswith("multi"))
    return False


# --------------------------------------------------------------------------- C01

def c01(scn):
    fails = []
    topo = Topo(scn)
    n = topo.n
    for call in update_calls(scn):
        mask, seeds, ops, zin = env_of(call, n)
        if not is_resolved_ops(ops):
            continue
        g = GraphView(call, n)
        if not g.ok or not g.wellformed:
            fails.append(("tables_wellformed", "call %d" % call.li))
            continue
        f = [unhx(x) for x in call.O["elev"]]
        base = set(seeds)
        conn = connected_to_base(topo, mask, seeds)
        # terminal nodes
        for i in range(n):
            if (mask[i] or i in base) and g.recv[i] != [i]:
                fails.append(("terminal_self", "node %d (masked/base) drains to %s" % (i, g.recv[i])))
        # strict descent on every proper step
        for i in range(n):
            for r in g.recv[i]:
                if r != i:
                    if not (0 <= r < n):
                        fails.append(("receiver_in_range", "node %d -> %d" % (i, r)))
                    elif not (f[r] < f[i]):
                        fails.append(("strict_descent", "node %d (%r) -> %d (%r)" % (i, f[i], r, f[r])))
        # reach a base level in <= n steps along every receiver
        for i in sorted(conn):
            # follow all receivers (DAG walk with a step bound)
            frontier = {i}
            ok = True
            for _ in range(n + 1):
                nxt = set()
                for x in frontier:
                    rs = [r for r in g.recv[x] if r != x]
                    if not rs:
                        if x not in base:
                            ok = False
                            fails.append(("reaches_base", "node %d stops at %d which is not a base level" % (i, x)))
                    nxt.update(rs)
                if not ok or not nxt:
                    break
                frontier = nxt
            else:
                fails.append(("finite_path", "node %d: path longer than n (cycle)" % i))
            if len(fails) > 20:
                return fails
    return fails


def c01_cause(scn, fail):
    """cause tag used to match known findings"""
    for call in update_calls(scn):
        ops = call.i("ops", [])
        if has_mst_basic_then_multi(ops) and fail[0] == "reaches_base":
            return "basic_then_multi"
        # D14: an input node at exactly -DBL_MAX under a spanning-tree resolver
        if any(o.startswith("mst") for o in ops) and "ffefffffffffffff" in call.toks[1:]:
            return "pass_at_lowest"
    return "other"


# --------------------------------------------------------------------------- C02

def spill_levels(topo, mask, seeds, z):
    """min over unmasked neighbour paths from a base level of the max input elevation
    (Bellman iteration, no priority queue)"""
    INF = float("inf")
    n = topo.n
    sp = [INF] * n
    for b in seeds:
        if not mask[b]:
            sp[b] = z[b]
    changed = True
    while changed:
        changed = False
        for c in range(n):
            if sp[c] == INF or mask[c]:
                continue
            for m, _ in topo.nbrs.get(c, []):
                if mask[m]:
                    continue
                v = max(sp[c], z[m])
                if v < sp[m]:
                    sp[m] = v
                    changed = True
    return sp


def c02(scn):
    fails = []
    topo = Topo(scn)
    n = topo.n
    for call in update_calls(scn):
        mask, seeds, ops, zin = env_of(call, n)
        real = [o for o in ops if not o.startswith("snap")]
        if not any(o == "pflood" or o.startswith("mst") for o in real):
            continue
        f = [unhx(x) for x in call.O["elev"]]
        base = set(seeds)
        sp = spill_levels(topo, mask, seeds, zin)
        # property's domain: each unmasked component holds a base level
        if any((not mask[i]) and sp[i] == float("inf") for i in range(n)):
            continue
        for i in range(n):
            if f[i] < zin[i]:
                fails.append(("ge_input", "node %d: %r < %r" % (i, f[i], zin[i])))
            if (mask[i] or i in base) and bits(f[i]) != bits(zin[i]):
                fails.append(("identity_at_terminal", "node %d" % i))
            if not mask[i] and i not in base:
                if f[i] < sp[i]:
                    fails.append(("ge_spill", "node %d: %r < spill %r" % (i, f[i], sp[i])))
                elif ulps_between(sp[i], f[i]) > n:
                    fails.append(("le_spill_plus_n_ulps", "node %d: %r exceeds spill %r by %d ulps > n=%d" % (i, f[i], sp[i], ulps_between(sp[i], f[i]), n)))
        if len(fails) > 20:
            break
    return fails


# --------------------------------------------------------------------------- C03

def _c03_one(fails, g, n, acc, src, area, agree, where):
    if agree != ["1"]:
        fails.append(("overloads_agree", where))
    if any(math.isnan(w) or math.isinf(w) for row in g.rweight for w in row):
        return  # C05's business
    F = Fraction
    # recurrence in exact arithmetic with a rounding allowance
    inflow = [F(0)] * n
    mag = [F(0)] * n
    for d in range(n):
        for r, w in zip(g.recv[d], g.rweight[d]):
            if r != d:
                inflow[r] += F(acc[d]) * F(w)
                mag[r] += abs(F(acc[d]) * F(w))
    for i in range(n):
        want = F(src[i]) * F(area[i]) + inflow[i]
        tol = F(EPS) * (n + 2) * (abs(F(src[i]) * F(area[i])) + mag[i]) + F(5e-324)
        if abs(F(acc[i]) - want) > tol:
            fails.append(("recurrence", "%snode %d: acc %r vs %r" % (where, i, acc[i], float(want))))
        if all(s_ * a_ >= 0 for s_, a_ in zip(src, area)) and F(acc[i]) < F(src[i]) * F(area[i]) - tol:
            fails.append(("ge_local", "%snode %d" % (where, i)))
    # conservation: terminal nodes collect everything
    bad = [i for i in range(n) if not (len(g.recv[i]) == 1 and g.recv[i][0] == i)
           and abs(sum(F(w) for w in g.rweight[i]) - 1) > F(EPS) * 4 * len(g.rweight[i])]
    if bad:
        fails.append(("conservation", "%sflow fractions of node %d sum to %r, not one" % (where, bad[0], float(sum(F(w) for w in g.rweight[bad[0]])))))
        return
    term = [i for i in range(n) if g.recv[i] == [i]]
    tot = sum(F(acc[t]) for t in term)
    want = sum(F(src[i]) * F(area[i]) for i in range(n))
    scale = sum(abs(F(src[i]) * F(area[i])) for i in range(n))
    if abs(tot - want) > F(EPS) * (n + 2) * n * scale + F(5e-324):
        fails.append(("conservation", "%sterminal sum %r vs integral %r" % (where, float(tot), float(want))))


def c03(scn):
    fails = []
    topo = Topo(scn)
    n = topo.n
    last = None
    for call in scn.calls:
        if call.cmd == "update" and call.O.get("update") == ["ok"]:
            last = call
        if last is None:
            continue
        if call.cmd == "acc" and "acc" in call.O:
            g = GraphView(last, n)
            if g.ok:
                _c03_one(fails, g, n, [unhx(x) for x in call.O["acc"]], [unhx(x) for x in call.i("src")],
                         [unhx(x) for x in call.i("area")], call.O.get("acc_overloads_agree"), "")
        elif call.cmd == "snapcall" and len(call.toks) > 2 and call.toks[2] == "acc":
            pre = "snap:%s:" % call.toks[1]
            g = GraphView(last, n, pre)
            if g.ok and (pre + "acc") in call.O and call.i(pre + "src") is not None:
                _c03_one(fails, g, n, [unhx(x) for x in call.O[pre + "acc"]], [unhx(x) for x in call.i(pre + "src")],
                         [unhx(x) for x in call.i(pre + "area")], call.O.get(pre + "acc_overloads_agree"), "snapshot %s: " % call.toks[1])
    return fails


def c03_areas(scn):
    """the cell areas `accumulate` integrates the source over are the grid's cell areas: the array
    the harness read from the grid for the accumulate call equals the one `grid_common` reported,
    and for structured grids it is the product of the spacings (meshes: judged by the C18 oracle,
    which runs on the same scenario)"""
    fails = []
    gc = None
    for c in scn.calls:
        if c.cmd == "grid_common" and "area" in c.O:
            gc = c.O["area"]
    if gc is None:
        return fails
    t = scn.calls[0].toks
    want = None
    if len(t) > 5 and t[1] == "raster":
        want = bits(unhx(t[4]) * unhx(t[5]))
    elif len(t) > 3 and t[1] == "profile":
        want = bits(unhx(t[3]))
    if want is not None and any(bits(unhx(x)) != want for x in gc):
        fails.append(("cell_area_is_spacing_product", "nodes_areas() differs from the product of the spacings"))
    for c in scn.calls:
        if c.cmd == "acc" and c.i("area") is not None:
            if list(c.i("area")) != list(gc):
                fails.append(("accumulate_uses_grid_cell_areas", "line %d: the areas used for accumulate differ from nodes_areas()" % c.li))
                break
    return fails


# --------------------------------------------------------------------------- C04 / C05

def last_router(ops):
    real = [o for o in ops if not o.startswith("snap")]
    routers = [o for o in real if o.startswith(("single", "multi", "mst"))]
    return routers[-1] if routers else None


def c04(scn):
    """single router spec, checked when the last graph-updating operator is a single router"""
    fails = []
    topo = Topo(scn)
    n = topo.n
    for call in update_calls(scn):
        mask, seeds, ops, zin = env_of(call, n)
        lr = last_router(ops)
        if lr is None or not lr.startswith("single"):
            continue
        g = GraphView(call, n)
        if not g.ok or not g.wellformed:
            fails.append(("tables_wellformed", "call %d" % call.li))
            continue
        f = [unhx(x) for x in call.O["elev"]]
        base = set(seeds)
        for i in range(n):
            if g.rcount[i] != 1 or g.rweight[i] != [1.0]:
                fails.append(("single_receiver_weight_one", "node %d" % i))
                continue
            r, d = g.recv[i][0], g.rdist[i][0]
            if mask[i] or i in base:
                if r != i or d != 0.0:
                    fails.append(("terminal_self", "node %d -> %d dist %r" % (i, r, d)))
                continue
            cands = [(m, dd) for m, dd in topo.nbrs.get(i, []) if not mask[m] and f[m] < f[i]]
            if not cands:
                if r != i:
                    fails.append(("self_iff_no_lower", "node %d has no lower unmasked neighbour but drains to %d" % (i, r)))
                continue
            if r == i:
                fails.append(("self_iff_no_lower", "node %d (%r) keeps itself although neighbour %d (%r) is lower" % (i, f[i], cands[0][0], f[cands[0][0]])))
                continue
            slopes = [((f[i] - f[m]) / dd, m, dd) for m, dd in cands]
            best = max(s for s, _, _ in slopes)
            mine = [(s, m, dd) for s, m, dd in slopes if m == r and bits(dd) == bits(d)]
            if not mine:
                fails.append(("receiver_is_lower_neighbor_with_distance", "node %d -> %d dist %r" % (i, r, d)))
            elif max(s for s, _, _ in mine) < best:
                fails.append(("steepest", "node %d -> %d slope %r < %r" % (i, r, max(s for s, _, _ in mine), best)))
        if len(fails) > 20:
            break
    return fails


def c05(scn):
    fails = []
    topo = Topo(scn)
    n = topo.n
    for call in update_calls(scn):
        mask, seeds, ops, zin = env_of(call, n)
        lr = last_router(ops)
        if lr is None or not lr.startswith("multi"):
            continue
        p = unhx(lr.split(":")[1])
        g = GraphView(call, n)
        if not g.ok or not g.wellformed:
            fails.append(("tables_wellformed", "call %d" % call.li))
            continue
        f = [unhx(x) for x in call.O["elev"]]
        base = set(seeds)
        for i in range(n):
            cands = [] if (mask[i] or i in base) else [(m, dd) for m, dd in topo.nbrs.get(i, []) if not mask[m] and f[m] < f[i]]
            if not cands:
                if g.recv[i] != [i]:
                    fails.append(("self_when_no_lower", "node %d -> %s" % (i, g.recv[i])))
                continue
            if g.recv[i] != [m for m, _ in cands] or [bits(x) for x in g.rdist[i]] != [bits(dd) for _, dd in cands]:
                fails.append(("receivers_are_lower_neighbors", "node %d: %s vs %s" % (i, g.recv[i], [m for m, _ in cands])))
                continue
            w = g.rweight[i]
            if any(math.isnan(x) or math.isinf(x) or x < 0 for x in w):
                fails.append(("weights_finite", "node %d: %s" % (i, w)))
                continue
            sw = sum(Fraction(x) for x in w)
            if abs(sw - 1) > Fraction(EPS) * 4 * len(w):
                fails.append(("weights_sum_one", "node %d: sum %r" % (i, float(sw))))
            # proportional to slope^p (relative tolerance; slopes in floating point)
            slopes = [(f[i] - f[m]) / dd for m, dd in cands]
            smax = max(slopes)
            try:
                rel = [(s / smax) ** p if smax > 0 else 1.0 for s in slopes]
            except (OverflowError, ZeroDivisionError):
                continue
            tot = sum(rel)
            if tot > 0 and all(math.isfinite(x) for x in rel):
                for x, y in zip(w, rel):
                    if abs(x - y / tot) > 1e-9 * max(1.0, abs(x)):
                        fails.append(("weights_proportional", "node %d: %r vs %r" % (i, x, y / tot)))
                        break
        if len(fails) > 20:
            break
    return fails


def c05_cause(scn, fail):
    return "pow_underflow" if fail[0] in ("weights_finite", "weights_sum_one") else "other"


# --------------------------------------------------------------------------- C06

def check_graph_consistency(g, n, single_dfs_contiguity=False):
    fails = []
    if not g.ok or not g.wellformed:
        return [("tables_wellformed", "")]
    # donors = inverse of receivers for distinct nodes, with multiplicity
    from collections import Counter
    inv = [Counter() for _ in range(n)]
    for d in range(n):
        for r in g.recv[d]:
            if r != d and 0 <= r < n:
                inv[r][d] += 1
    for i in range(n):
        got = Counter(x for x in g.donors[i] if x != i)
        if got != inv[i]:
            fails.append(("donors_inverse", "node %d: donors %s vs inverse %s" % (i, sorted(got.elements()), sorted(inv[i].elements()))))
    # bottom-up order
    if sorted(g.dfs) != list(range(n)):
        fails.append(("dfs_permutation", "%s" % g.dfs[:20]))
    else:
        pos = {x: k for k, x in enumerate(g.dfs)}
        for i in range(n):
            for r in g.recv[i]:
                if r != i and pos[r] > pos[i]:
                    fails.append(("dfs_after_receivers", "node %d before its receiver %d" % (i, r)))
    # breadth-first
    if sorted(g.bfs) != list(range(n)):
        fails.append(("bfs_permutation", "%s" % g.bfs[:20]))
    else:
        lv = g.levels
        if not lv or lv[0] != 0 or lv[-1] != n or any(lv[k] >= lv[k + 1] for k in range(len(lv) - 1)):
            fails.append(("bfs_levels_partition", "%s" % lv))
        else:
            level = {}
            for k in range(len(lv) - 1):
                for x in g.bfs[lv[k]:lv[k + 1]]:
                    level[x] = k
            for i in range(n):
                for r in g.recv[i]:
                    if r != i and level[r] >= level[i]:
                        fails.append(("bfs_receivers_earlier", "node %d level %d, receiver %d level %d" % (i, level[i], r, level[r])))
    return fails[:10]


def c06(scn):
    fails = []
    topo = Topo(scn)
    n = topo.n
    for call in update_calls(scn):
        g = GraphView(call, n)
        fails += check_graph_consistency(g, n)
        if len(fails) > 20:
            break
    return fails


# --------------------------------------------------------------------------- C19

def c19(scn):
    fails = []
    topo = Topo(scn)
    n = topo.n
    last = None
    for call in scn.calls:
        if call.cmd == "update" and call.O.get("update") == ["ok"]:
            last = call
        pre = ""
        if call.cmd == "snapcall" and len(call.toks) > 2 and call.toks[2] == "basins":
            pre = "snap:%s:" % call.toks[1]
        if (call.cmd == "basins" or pre) and last is not None and (pre + "basins") in call.O:
            mask, seeds, ops, zin = env_of(last, n)
            g = GraphView(last, n, pre)
            if not g.ok or any(c != 1 for c in g.rcount):
                continue
            lab = [int(x) for x in call.O[pre + "basins"]]
            outlets = [int(x) for x in call.O[pre + "outlets"]]
            pits = [int(x) for x in call.O[pre + "pits"]]
            base = set(seeds)
            want_outlets = [i for i in g.dfs if g.recv[i] == [i] and not mask[i]]
            if outlets != want_outlets:
                fails.append(("outlets_in_bottomup_order", "%s vs %s" % (outlets, want_outlets)))
            for k, o in enumerate(outlets):
                if lab[o] != k:
                    fails.append(("outlets_numbered_consecutively", "outlet %d label %d, expected %d" % (o, lab[o], k)))
            for i in range(n):
                if mask[i]:
                    if lab[i] != SIZE_MAX:
                        fails.append(("masked_reserved_label", "node %d label %d" % (i, lab[i])))
                else:
                    r = g.recv[i][0]
                    if not mask[r] and lab[r] != lab[i]:
                        fails.append(("same_label_as_receiver", "node %d label %d, receiver %d label %d" % (i, lab[i], r, lab[r])))
            if len(set(l for i, l in enumerate(lab) if not mask[i])) != len(outlets):
                fails.append(("labels_count_eq_outlets", ""))
            if pits != [o for o in outlets if o not in base]:
                fails.append(("pits_are_nonbase_outlets", "%s" % pits))
        if call.cmd == "pits" and "pits" in call.O and "outlets" in call.O:
            base_now = set(int(x) for x in call.i("seeds"))
            outlets = [int(x) for x in call.O["outlets"]]
            pits = [int(x) for x in call.O["pits"]]
            if pits != [o for o in outlets if o not in base_now]:
                fails.append(("pits_are_nonbase_outlets", "after set_base_levels %s: outlets %s, pits %s" % (sorted(base_now), outlets, pits)))
    return fails


# --------------------------------------------------------------------------- C07 / C17 (grids)

STV = {"c": 0, "v": 1, "g": 2, "l": 3}
PRIO = {0: 0, 3: 1, 2: 2, 1: 3}   # core < looped < fixed_gradient < fixed_value
DIRS = {"queen": [(-1, -1), (-1, 0), (-1, 1), (0, -1), (0, 1), (1, -1), (1, 0), (1, 1)],
        "rook": [(-1, 0), (0, -1), (0, 1), (1, 0)],
        "bishop": [(-1, -1), (-1, 1), (1, -1), (1, 1)]}


class GridSpec:
    def __init__(self, scn):
        t = scn.calls[0].toks if scn.calls else []
        self.kind = t[1] if len(t) > 1 else None
        self.ok_expected = True
        if self.kind == "raster":
            self.rows, self.cols = int(t[2]), int(t[3])
            self.dy, self.dx = unhx(t[4]), unhx(t[5])
            self.conn = t[6]
            self.b = [STV[x] for x in t[7:11]]  # left right top bottom
            k = int(t[13]) if len(t) > 13 and t[12] == "ov" else 0
            self.ov = [(int(t[14 + 3 * j]), int(t[15 + 3 * j]), STV[t[16 + 3 * j]]) for j in range(k)]
            self.n = self.rows * self.cols
        elif self.kind == "profile":
            self.size = int(t[2])
            self.dx = unhx(t[3])
            self.b = [STV[t[4]], STV[t[5]]]
            k = int(t[8]) if len(t) > 8 and t[7] == "ov" else 0
            self.ov = [(int(t[9 + 2 * j]), STV[t[10 + 2 * j]]) for j in range(k)]
            self.n = self.size

    def status(self):
        """documented composition -> list or None when construction must fail"""
        if self.kind == "raster":
            l, r, t, b = self.b
            if (l == 3) != (r == 3) or (t == 3) != (b == 3):
                return None
            st = [0] * self.n
            for rr in range(self.rows):
                for cc in range(self.cols):
                    rowb = t if rr == 0 else (b if rr == self.rows - 1 else None)
                    colb = l if cc == 0 else (r if cc == self.cols - 1 else None)
                    if rowb is not None and colb is not None:
                        s = rowb if PRIO[rowb] >= PRIO[colb] else colb
                    elif rowb is not None:
                        s = rowb
                    elif colb is not None:
                        s = colb
                    else:
                        s = 0
                    st[rr * self.cols + cc] = s
            for (rr, cc, s) in sorted(self.ov):
                if rr >= self.rows or cc >= self.cols or s == 3 or st[rr * self.cols + cc] == 3:
                    return None
                st[rr * self.cols + cc] = s
            return st
        if self.kind == "profile":
            l, r = self.b
            if (l == 3) != (r == 3):
                return None
            st = [0] * self.n
            st[0] = l
            st[self.n - 1] = r
            for (i, s) in sorted(self.ov):
                if i >= self.n or s == 3 or st[i] == 3:
                    return None
                st[i] = s
            return st
        return None

    def nbrs(self, i):
        """geometric neighbourhood: [(idx, dist)] one step under the connectivity, wrapping only
        across looped borders"""
        if self.kind == "profile":
            looped = self.b[0] == 3 and self.b[1] == 3
            out = []
            for d in (-1, 1):
                j = i + d
                if 0 <= j < self.n:
                    out.append((j, self.dx))
                elif looped:
                    out.append((j % self.n, self.dx))
            return out
        lv = self.b[2] == 3 and self.b[3] == 3
        lh = self.b[0] == 3 and self.b[1] == 3
        r, c = divmod(i, self.cols)
        out = []
        for dr, dc in DIRS[self.conn]:
            rr, cc = r + dr, c + dc
            if not (0 <= rr < self.rows):
                if not lv:
                    continue
                rr %= self.rows
            if not (0 <= cc < self.cols):
                if not lh:
                    continue
                cc %= self.cols
            a = (1.0 if dr else 0.0) * self.dy
            b = (1.0 if dc else 0.0) * self.dx
            out.append((rr * self.cols + cc, math.sqrt(a * a + b * b)))
        return out


def c07(scn):
    fails = []
    g = GridSpec(scn)
    if g.kind not in ("raster", "profile"):
        return fails
    if min(getattr(g, "rows", 2), getattr(g, "cols", 2), getattr(g, "size", 2)) < 2:
        return fails
    st = g.status()
    first = scn.calls[0].O.get("grid") if scn.calls else None
    if st is None or first != ["ok"]:
        return fails
    # the spacing accessor: it must be the spacing the grid was constructed with (or length /
    # (nodes - 1) for a grid built with from_length), and the reported distances are judged
    # against IT ("the step length from the grid spacing")
    for c in scn.calls:
        if c.cmd == "grid_common" and "spacing" in c.O:
            sp = [unhx(x) for x in c.O["spacing"]]
            toks = scn.calls[0].toks
            ln = [t for t in toks if t.startswith("len=")]
            if g.kind == "profile":
                want = [unhx(ln[0][4:]) / float(g.size - 1)] if ln else [g.dx]
            else:
                if ln:
                    a, b = ln[0][4:].split(",")
                    want = [unhx(a) / (float(g.rows) - 1), unhx(b) / (float(g.cols) - 1)]
                else:
                    want = [g.dy, g.dx]
            if [bits(x) for x in sp] != [bits(x) for x in want]:
                fails.append(("spacing", "spacing() reports %s, the grid was constructed with %s" % (sp, want)))
            if g.kind == "profile" and len(sp) == 1:
                g.dx = sp[0]
            elif g.kind == "raster" and len(sp) == 2:
                g.dy, g.dx = sp
            break
    seen = {}
    for c in scn.calls:
        if c.cmd == "q" and len(c.toks) == 3:
            kind, i = c.toks[1], int(c.toks[2])
            out = c.O.get("q")
            if out is None:
                fails.append(("accessor_returns", "q %s %d" % (kind, i)))
                continue
            vals = out[2:]
            spec = g.nbrs(i)
            key = sorted((j, bits(d)) for j, d in spec)
            if kind == "c":
                if int(vals[0]) != len(spec):
                    fails.append(("count", "node %d: %s vs %d" % (i, vals[0], len(spec))))
            elif kind in ("i", "ib"):
                if sorted(int(x) for x in vals) != sorted(j for j, _ in spec):
                    fails.append(("indices", "node %d: %s vs %s" % (i, vals, [j for j, _ in spec])))
                seen.setdefault(i, {})["i"] = [int(x) for x in vals]
            elif kind == "d":
                if sorted(bits(unhx(x)) for x in vals) != sorted(bits(d) for _, d in spec):
                    fails.append(("distances", "node %d" % i))
                seen.setdefault(i, {})["d"] = [bits(unhx(x)) for x in vals]
            elif kind in ("s", "so"):
                tr = [(int(vals[k]), bits(unhx(vals[k + 1])), int(vals[k + 2])) for k in range(0, len(vals), 3)]
                if sorted((a, b) for a, b, _ in tr) != key:
                    fails.append(("neighbors", "node %d: %s vs %s" % (i, [(a) for a, _, _ in tr], [j for j, _ in spec])))
                for a, _, s in tr:
                    if 0 <= a < g.n and s != st[a]:
                        fails.append(("neighbor_status", "node %d neighbour %d status %d vs %d" % (i, a, s, st[a])))
                seen.setdefault(i, {})[kind] = tr
        if c.cmd == "qr" and len(c.toks) == 3 and g.kind == "raster":
            kind, i = c.toks[1], int(c.toks[2])
            out = c.O.get("qr")
            if out is None:
                continue
            vals = out[2:]
            spec = g.nbrs(i)
            if kind == "rc":
                pr = [(int(vals[k]), int(vals[k + 1])) for k in range(0, len(vals), 2)]
                if sorted(r * g.cols + cc for r, cc in pr) != sorted(j for j, _ in spec) or any(cc >= g.cols or r >= g.rows for r, cc in pr):
                    fails.append(("rowcol_indices", "node %d: %s" % (i, pr)))
                seen.setdefault(i, {})["rc"] = [r * g.cols + cc for r, cc in pr]
            elif kind in ("rs", "rso"):
                tr = [(int(vals[k]), int(vals[k + 1]), int(vals[k + 2]), bits(unhx(vals[k + 3])), int(vals[k + 4])) for k in range(0, len(vals), 5)]
                if sorted((a, d) for a, _, _, d, _ in tr) != sorted((j, bits(d)) for j, d in spec):
                    fails.append(("raster_neighbors", "node %d" % i))
                for a, r, cc, d, s in tr:
                    if a != r * g.cols + cc or (0 <= a < g.n and s != st[a]):
                        fails.append(("raster_neighbor_fields", "node %d" % i))
                seen.setdefault(i, {})[kind] = [a for a, *_ in tr]
    # accessors are projections of one list
    for i, d in seen.items():
        lists = [d[k] if k in ("i", "rc", "rs", "rso") else ([a for a, _, _ in d[k]] if k in ("s", "so") else None) for k in d]
        lists = [l for l in lists if l is not None]
        if any(l != lists[0] for l in lists):
            fails.append(("accessors_agree", "node %d: %s" % (i, lists)))
        if "s" in d and "d" in d and [b for _, b, _ in d["s"]] != d["d"]:
            fails.append(("accessors_agree_distance", "node %d" % i))
    # symmetry with multiplicity (over the nodes queried through the struct accessor)
    from collections import Counter
    cnt = {i: Counter(a for a, _, _ in d["s"]) for i, d in seen.items() if "s" in d}
    for i in cnt:
        for j, m in cnt[i].items():
            if j in cnt and cnt[j][i] != m:
                fails.append(("symmetric", "%d has %d x%d but %d has %d x%d" % (i, j, m, j, i, cnt[j][i])))
    return fails[:20]


def c17(scn):
    fails = []
    g = GridSpec(scn)
    if g.kind not in ("raster", "profile"):
        return fails
    st = g.status()
    first = scn.calls[0].O.get("grid") if scn.calls else None
    if first is None:
        return [("grid_line", "no answer")]
    if st is None:
        if first[0] != "err":
            fails.append(("construction_rejected", "inadmissible border/override combination was accepted"))
        return fails
    if first != ["ok"]:
        fails.append(("construction_accepted", "admissible grid rejected: %s" % first))
        return fails
    for c in scn.calls:
        if c.cmd == "grid_common":
            got = [int(x) for x in c.O.get("status", [])]
            if got != st:
                bad = [k for k in range(min(len(got), len(st))) if got[k] != st[k]][:3]
                fails.append(("status_composition", "nodes %s: %s vs %s" % (bad, [got[k] for k in bad], [st[k] for k in bad])))
        if c.cmd == "iter":
            which, d = c.toks[1], c.toks[2]
            want = [i for i in range(g.n) if which == "all" or st[i] == STV[which]]
            if d == "rev":
                want = want[::-1]
            got = [int(x) for x in c.O.get("iter", [])[2:]]
            if got != want:
                fails.append(("filtered_iteration", "%s %s: %s vs %s" % (which, d, got[:12], want[:12])))
        if c.cmd == "graph" and c.O.get("graph") == ["ok"]:
            got = [int(x) for x in c.O.get("base", [])]
            want = [i for i in range(g.n) if st[i] == 1]
            if got != want:
                fails.append(("default_base_levels", "%s vs %s" % (got[:12], want[:12])))
    return fails


def c17_mesh(scn):
    """meshes without a status argument: status = fixed value exactly on the nodes of an edge that
    belongs to one triangle; filtered iteration and default base levels follow that array"""
    fails = []
    t = scn.calls[0].toks if scn.calls else []
    if len(t) < 4 or t[1] != "mesh" or scn.calls[0].O.get("grid") != ["ok"]:
        return fails
    npts, nt = int(t[2]), int(t[3])
    o = 4 + 2 * npts
    if t[o + 3 * nt:] not in ([], ["none"]):
        return fails
    from collections import Counter
    ec = Counter()
    for k in range(nt):
        a, b, c = int(t[o + 3 * k]), int(t[o + 3 * k + 1]), int(t[o + 3 * k + 2])
        for e in ((b, c), (c, a), (a, b)):
            ec[(min(e), max(e))] += 1
    st = [0] * npts
    for (a, b), k in ec.items():
        if k == 1 and a != b:
            st[a] = st[b] = 1
    for c in scn.calls:
        if c.cmd == "grid_common" and "status" in c.O:
            got = [int(x) for x in c.O["status"]]
            if got != st:
                bad = [k for k in range(min(len(got), len(st))) if got[k] != st[k]][:4]
                fails.append(("status_composition", "mesh nodes %s: %s, expected %s (fixed value exactly on edges of one triangle)" % (bad, [got[k] for k in bad], [st[k] for k in bad])))
        if c.cmd == "iter" and "iter" in c.O:
            which, d = c.toks[1], c.toks[2]
            want = [i for i in range(npts) if which == "all" or st[i] == STV[which]]
            if d == "rev":
                want = want[::-1]
            got = [int(x) for x in c.O["iter"][2:]]
            if got != want:
                fails.append(("filtered_iteration", "mesh %s %s: %d indices vs %d expected" % (which, d, len(got), len(want))))
        if c.cmd == "graph" and c.O.get("graph") == ["ok"] and "base" in c.O:
            got = [int(x) for x in c.O["base"]]
            want = [i for i in range(npts) if st[i] == 1]
            if got != want:
                fails.append(("default_base_levels", "mesh: %d base levels vs %d fixed-value nodes" % (len(got), len(want))))
    return fails


# --------------------------------------------------------------------------- C09

def c09(scn):
    """history independence: the scenario runs a used object and then a fresh one with the same
    final inputs; everything observable after the final update must be bit-identical; a repeated
    update reproduces the same state; the caller's array is never written."""
    fails = []
    for c in scn.calls:
        if c.cmd == "update" and c.O.get("input_unchanged", ["1"]) != ["1"]:
            fails.append(("input_not_modified", "call %d" % c.li))
    graphs = [k for k, c in enumerate(scn.calls) if c.cmd == "graph"]
    if len(graphs) < 2:
        return fails
    first = scn.calls[graphs[0]:graphs[1]]
    second = scn.calls[graphs[1]:]

    def tail(calls):
        """the last update and what follows it"""
        ups = [k for k, c in enumerate(calls) if c.cmd == "update"]
        if not ups:
            return []
        return calls[ups[-1]:]

    def prev_update(calls):
        ups = [k for k, c in enumerate(calls) if c.cmd == "update"]
        return calls[ups[-2]] if len(ups) >= 2 else None

    ta, tb = tail(first), tail(second)
    if not ta or not tb:
        return fails
    for ca, cb in zip(ta, tb):
        if ca.cmd != cb.cmd:
            break
        for key in ca.O:
            if ca.O[key] != cb.O.get(key):
                a, b = ca.O[key], cb.O.get(key) or []
                k = next((i for i in range(min(len(a), len(b))) if a[i] != b[i]), min(len(a), len(b)))
                fails.append(("same_as_fresh_graph", "%s after history differs from fresh graph at position %d: %s vs %s" % (key, k, a[k:k + 3], b[k:k + 3])))
    # the update before the last one on the used object is a repetition with identical inputs
    # when the generator says so (marker: identical token lists)
    pu = prev_update(first)
    if pu is not None and ta and pu.toks == ta[0].toks and pu.I.get("mask") == ta[0].I.get("mask") and sorted(pu.i("seeds", [])) == sorted(ta[0].i("seeds", [])) and pu.i("ops") == ta[0].i("ops"):
        for key in pu.O:
            if pu.O[key] != ta[0].O.get(key):
                fails.append(("repeat_reproduces", "%s differs between two identical successive updates" % key))
    return fails[:10]


# ----------------------------------------------------------------------------- C20

OPF = {  # (graph_updated, elevation_updated, in_dir, out_dir) as documented for each operator class
    "single": (True, False, None, "single"),
    "multi": (True, False, None, "multi"),
    "pflood": (False, True, None, None),
    "mst": (True, True, "single", "single"),
    "snap": (False, False, None, None),
}


def opseq_spec(ops):
    """-> None if the sequence must be refused, else dict(dir, all_single, elev_edit, gkeys, ekeys)"""
    cur = None
    defines = False
    all_single = True
    elev = False
    gkeys, ekeys = [], []
    for o in ops:
        f = o.split(":")
        gu, eu, ind, outd = OPF[f[0]]
        if f[0] == "snap":
            if "g" in f[2]:
                if cur is None:
                    return None
                gkeys.append(f[1])
            if "e" in f[2]:
                ekeys.append(f[1])
        if ind is not None and ind != cur:
            return None
        if gu and outd is not None:
            cur = outd
            defines = True
            if outd != "single":
                all_single = False
        elev = elev or eu
    if not defines:
        return None
    return dict(dir=cur, all_single=all_single, elev_edit=elev, gkeys=gkeys, ekeys=ekeys)


def c20(scn):
    fails = []
    topo = Topo(scn)
    for c in scn.calls:
        if c.cmd == "graph":
            ops = c.toks[1:]
            spec = opseq_spec(ops)
            got = c.O.get("graph", ["?"])
            if spec is None:
                if got[0] != "err":
                    fails.append(("accepts_iff", "sequence %s must be refused but construction gave %s" % (ops, got)))
                continue
            if got != ["ok"]:
                fails.append(("accepts_iff", "sequence %s must be accepted but construction gave %s" % (ops, got)))
                continue
            if c.O.get("single_flow") != ["1" if spec["dir"] == "single" else "0"]:
                fails.append(("out_dir_is_last_defined", "ops %s: single_flow()=%s, last direction-defining operator is %s" % (ops, c.O.get("single_flow"), spec["dir"])))
            want_w = 1 if spec["all_single"] else topo.nmax
            if c.O.get("rwidth") != [str(want_w)]:
                fails.append(("single_column_iff_all_single", "ops %s: receiver table width %s, expected %d" % (ops, c.O.get("rwidth"), want_w)))
            if c.O.get("gkeys", []) != spec["gkeys"] or c.O.get("ekeys", []) != spec["ekeys"]:
                fails.append(("snapshot_keys_in_order", "ops %s: keys %s / %s, expected %s / %s" % (ops, c.O.get("gkeys"), c.O.get("ekeys"), spec["gkeys"], spec["ekeys"])))
            last = (ops, spec)
        elif c.cmd == "update" and c.O.get("update") == ["ok"]:
            ops = c.i("ops", [])
            spec = opseq_spec(ops)
            if spec is None:
                continue
            want = "0" if spec["elev_edit"] else "1"
            if c.O.get("same_array") != [want]:
                fails.append(("returns_callers_array_iff_no_elevation_edit", "ops %s: same_array=%s expected %s" % (ops, c.O.get("same_array"), want)))
            if c.O.get("input_unchanged") != ["1"]:
                fails.append(("input_unchanged", "ops %s: the caller's elevation array was written" % (ops,)))
    return fails


# ----------------------------------------------------------------------------- C16

GRAPH_SECS = ("rcount", "recv", "rdist", "rweight", "dcount", "donors", "dfs", "bfs", "levels")


def c16(scn):
    """snapshot tables == tables of a separately built graph running only the prefix (printed by
    the harness as pfx:<name>:<section>), elevation snapshot == prefix elevation, accumulate /
    basins on the snapshot == on the prefix graph, mutators refused"""
    fails = []
    for c in scn.calls:
        if c.cmd == "update" and c.O.get("update") == ["ok"]:
            ops = c.i("ops", [])
            for o in ops:
                f = o.split(":")
                if f[0] != "snap":
                    continue
                nm = f[1]
                if "pfx_err:" + nm in c.O:
                    fails.append(("prefix_graph_builds", "prefix of snapshot %s: %s" % (nm, c.O["pfx_err:" + nm])))
                    continue
                if "g" in f[2]:
                    for sec in GRAPH_SECS:
                        a, b = c.O.get("snap:%s:%s" % (nm, sec)), c.O.get("pfx:%s:%s" % (nm, sec))
                        if a is None or b is None:
                            fails.append(("snapshot_present", "snapshot %s section %s missing (snap=%s, prefix=%s)" % (nm, sec, a is not None, b is not None)))
                        elif a != b:
                            fails.append(("snapshot_eq_prefix", "ops %s snapshot %s: %s = %s but the prefix graph has %s" % (" ".join(ops), nm, sec, " ".join(a)[:120], " ".join(b)[:120])))
                            break
                if "e" in f[2]:
                    a, b = c.O.get("esnap:" + nm), c.O.get("pfxe:" + nm)
                    if a is None or b is None or a != b:
                        fails.append(("elevation_snapshot_eq", "ops %s elevation snapshot %s differs from the elevation after the prefix" % (" ".join(ops), nm)))
        elif c.cmd == "snapcall" and len(c.toks) >= 3:
            nm, what = c.toks[1], c.toks[2]
            if what == "acc":
                a, b = c.O.get("snap:%s:acc" % nm), c.O.get("pfx:%s:acc" % nm)
                if a is None or b is None or a != b:
                    fails.append(("snapshot_accumulate", "accumulate on snapshot %s differs from accumulate on the prefix graph" % nm))
                if c.O.get("snap:%s:acc_overloads_agree" % nm) != ["1"]:
                    fails.append(("snapshot_accumulate", "accumulate overloads disagree on snapshot %s" % nm))
            elif what == "basins":
                for sec in ("basins", "outlets", "pits"):
                    a, b = c.O.get("snap:%s:%s" % (nm, sec)), c.O.get("pfx:%s:%s" % (nm, sec))
                    if a is None or b is None or a != b:
                        fails.append(("snapshot_basins", "%s on snapshot %s = %s, on the prefix graph %s" % (sec, nm, a and " ".join(a)[:100], b and " ".join(b)[:100])))
                        break
            elif what in ("set_mask", "set_base", "update"):
                key = "snap_update" if what == "update" else what
                if (c.O.get(key) or ["?"])[0] != "err":
                    fails.append(("snapshot_mutators_refused", "%s on snapshot graph %s was not refused: %s" % (what, nm, c.O.get(key))))
    return fails[:20]


# ----------------------------------------------------------------------------- C15

def c15_raw(scn):
    """`mstraw`: both trees reported for a synthetic basin graph must be spanning forests of it with
    the weights of a minimum one (the sorted list of weights is the same for every minimum spanning
    forest, so the comparison is exact - no floating-point sums)"""
    fails = []
    for call in scn.calls:
        if call.cmd != "mstraw":
            continue
        nb, ne = int(call.toks[1]), int(call.toks[2])
        E = [(int(call.toks[3 + 3 * k]), int(call.toks[4 + 3 * k]), unhx(call.toks[5 + 3 * k])) for k in range(ne)]

        def comps_and_ref():
            par = list(range(nb))

            def find(x):
                while par[x] != x:
                    par[x] = par[par[x]]
                    x = par[x]
                return x
            ws = []
            for k in sorted(range(ne), key=lambda k: E[k][2]):
                a, b = find(E[k][0]), find(E[k][1])
                if a != b:
                    par[a] = b
                    ws.append(E[k][2])
            return sorted(ws)
        ref = comps_and_ref()
        for key in ("raw_k", "raw_b", "raw_b2"):
            if key not in call.O:
                fails.append(("mstraw_output", "line %d: %s missing" % (call.li, key)))
                continue
            t = [int(x) for x in call.O[key]]
            if any(i >= ne for i in t) or len(set(t)) != len(t):
                fails.append(("tree_edges_valid", "line %d: %s lists an invalid or repeated edge index" % (call.li, key)))
                continue
            par = list(range(nb))

            def find(x):
                while par[x] != x:
                    par[x] = par[par[x]]
                    x = par[x]
                return x
            cyc = False
            for i in t:
                a, b = find(E[i][0]), find(E[i][1])
                if a == b:
                    cyc = True
                    break
                par[a] = b
            if cyc:
                fails.append(("tree_acyclic", "line %d: %s contains a cycle" % (call.li, key)))
                continue
            if len(t) != len(ref):
                fails.append(("tree_spans", "line %d: %s has %d edges, a spanning forest has %d" % (call.li, key, len(t), len(ref))))
                continue
            if sorted(E[i][2] for i in t) != ref:
                fails.append(("tree_minimum_weight", "line %d: %s is not a minimum spanning forest (its weights differ from those of Kruskal's)" % (call.li, key)))
    return fails


def c15(scn):
    """basin graph = lowest passes between adjacent basins; tree = minimum spanning tree over
    them (weight compared exactly with an independent Kruskal); orientation away from the root"""
    fails = []
    topo = Topo(scn)
    n = topo.n
    last = None
    weights_seen = {}
    for call in scn.calls:
        if call.cmd == "update" and call.O.get("update") == ["ok"]:
            last = call
            weights_seen = {}
        if call.cmd != "bgraph" or last is None or "bg_edges" not in call.O:
            continue
        mask, seeds, ops, _ = env_of(last, n)
        g = GraphView(last, n)
        if not g.ok or any(c != 1 for c in g.rcount):
            continue
        f = [unhx(x) for x in call.i("bg_elev")]
        outlets = [int(x) for x in call.O["bg_outlets"]]
        base = set(seeds)
        # labels by following receivers
        lab = [None] * n
        oidx = {o: k for k, o in enumerate(outlets)}
        for i in range(n):
            if mask[i]:
                continue
            j, steps = i, 0
            while g.recv[j][0] != j and steps <= n:
                j = g.recv[j][0]
                steps += 1
            lab[i] = oidx.get(j)
        nb = len(outlets)
        inner = [outlets[k] not in base for k in range(nb)]
        outer = [k for k in range(nb) if not inner[k]]
        ev = call.O["bg_edges"]
        edges = []
        for k in range(0, len(ev), 6):
            edges.append((int(ev[k]), int(ev[k + 1]), int(ev[k + 2]), int(ev[k + 3]), unhx(ev[k + 4]), unhx(ev[k + 5])))
        tree = [int(x) for x in call.O["bg_tree"]]
        # expected lowest passes
        want = {}
        for i in range(n):
            if mask[i] or lab[i] is None or not inner[lab[i]]:
                continue
            for j, d in topo.nbrs.get(i, []):
                if mask[j] or lab[j] is None or lab[j] == lab[i]:
                    continue
                key = (min(lab[i], lab[j]), max(lab[i], lab[j]))
                w = max(f[i], f[j])
                if key not in want or w < want[key]:
                    want[key] = w
        root = None
        if outer:
            # the root is the first outer basin in bottom-up order = smallest label among outer ones
            root = min(outer)
        got = {}
        root_edges = set()
        for (a, b, p0, p1, pe, pl) in edges:
            key = (min(a, b), max(a, b))
            if p0 == -1 and p1 == -1:
                root_edges.add(key)
                continue
            if key in got:
                fails.append(("connect_one_edge_per_pair", "basins %s joined by two edges" % (key,)))
            got[key] = pe
            # the pass nodes realise the weight
            if not (0 <= p0 < n and 0 <= p1 < n) or max(f[p0], f[p1]) != pe or {lab[p0], lab[p1]} != {a, b} or \
                    not any(j == p1 and bits(d) == bits(pl) for j, d in topo.nbrs.get(p0, [])):
                fails.append(("connect_pass_nodes", "edge %s: pass (%d,%d) elevation %r length %r is not a neighbour pair of the two basins realising the weight" % (key, p0, p1, pe, pl)))
        if got.keys() != want.keys():
            fails.append(("connect_lowest_pass", "edges between basin pairs %s, adjacency gives %s" % (sorted(set(got) ^ set(want))[:4], len(want))))
        else:
            for k_ in want:
                if want[k_] != got[k_]:
                    fails.append(("connect_lowest_pass", "basins %s: edge weight %r but the lowest pass is %r" % (k_, got[k_], want[k_])))
                    break
        want_root = set((min(root, o), max(root, o)) for o in outer if o != root) if root is not None else set()
        if root_edges != want_root:
            fails.append(("connect_outer_to_root", "root edges %s vs %s" % (sorted(root_edges), sorted(want_root))))
        # tree: spanning the component of the root, acyclic, minimum weight
        if root is None:
            if tree:
                fails.append(("tree_spans_root_component", "no outer basin but the tree has %d edges" % len(tree)))
            continue
        adj = {}
        for (a, b, *_r) in edges:
            adj.setdefault(a, []).append(b)
            adj.setdefault(b, []).append(a)
        comp = {root}
        todo = [root]
        while todo:
            x = todo.pop()
            for y in adj.get(x, []):
                if y not in comp:
                    comp.add(y)
                    todo.append(y)
        if len(set(tree)) != len(tree) or any(t < 0 or t >= len(edges) for t in tree):
            fails.append(("tree_edges_valid", "%s" % tree[:10]))
            continue
        if len(tree) != len(comp) - 1:
            fails.append(("tree_spans_root_component", "%d tree edges for %d basins reachable from the root" % (len(tree), len(comp))))
            continue
        # acyclic + connected: union-find
        par = {}

        def find(x):
            while par.setdefault(x, x) != x:
                par[x] = par[par[x]]
                x = par[x]
            return x
        cyc = False
        for t in tree:
            a, b = find(edges[t][0]), find(edges[t][1])
            if a == b:
                cyc = True
            par[a] = b
        if cyc or any(find(x) != find(root) for x in comp):
            fails.append(("tree_spans_root_component", "tree has a cycle or misses a basin"))
            continue
        # minimum weight (exact): Kruskal over the component's edges
        F = Fraction
        tw = sum(F(edges[t][4]) for t in tree)
        par = {}
        mw = F(0)
        for (a, b, p0, p1, pe, pl) in sorted((e for e in edges if e[0] in comp), key=lambda e: e[4]):
            ra, rb = find(a), find(b)
            if ra != rb:
                par[ra] = rb
                mw += F(pe)
        if tw != mw:
            fails.append(("tree_minimum_weight", "%s tree weight %s, minimum spanning weight %s" % (call.toks[1], ff(tw), ff(mw))))
        weights_seen[call.toks[1]] = tw
        if len(set(weights_seen.values())) > 1:
            fails.append(("kruskal_boruvka_equal_weight", "%s" % {k: ff(v) for k, v in weights_seen.items()}))
        # orientation: every tree edge points away from the root
        depth = {root: 0}
        tadj = {}
        for t in tree:
            tadj.setdefault(edges[t][0], []).append((edges[t][1], t))
            tadj.setdefault(edges[t][1], []).append((edges[t][0], t))
        todo = [root]
        while todo:
            x = todo.pop()
            for y, t in tadj.get(x, []):
                if y not in depth:
                    depth[y] = depth[x] + 1
                    todo.append(y)
                    if edges[t][0] != x or edges[t][1] != y:
                        fails.append(("orient_from_root", "tree edge %d is (%d -> %d) but the root side is %d" % (t, edges[t][0], edges[t][1], x)))
    return fails[:20]


# ----------------------------------------------------------------------------- C18

MESH_NMAX = 20


def c18(scn):
    """mesh connectivity / boundary / areas recomputed from the triangles in exact rationals"""
    fails = []
    t = scn.calls[0].toks if scn.calls else []
    if len(t) < 4 or t[1] != "mesh":
        return fails
    npts, nt = int(t[2]), int(t[3])
    pts = [(unhx(t[4 + 2 * i]), unhx(t[5 + 2 * i])) for i in range(npts)]
    o = 4 + 2 * npts
    tris = [(int(t[o + 3 * k]), int(t[o + 3 * k + 1]), int(t[o + 3 * k + 2])) for k in range(nt)]
    stspec = t[o + 3 * nt:]
    first = scn.calls[0].O.get("grid")
    if any(v >= npts for tr in tris for v in tr):
        return fails
    # expected construction result
    expect_err = None
    # node degree above the mesh type's maximum number of neighbours (20): the fixed-width tables
    # built on the mesh cannot hold the node's rows, the constructor must refuse (D15)
    deg = {}
    for tr in tris:
        for a_, b_ in ((tr[1], tr[2]), (tr[2], tr[0]), (tr[0], tr[1])):
            deg.setdefault(a_, set()).add(b_)
            deg.setdefault(b_, set()).add(a_)
    if any(len(v - {k}) > MESH_NMAX for k, v in deg.items()):
        if first != ["err", "invalid_argument"]:
            fails.append(("mesh_degree_within_table_width", "a node has more than %d neighbours but construction gave %s" % (MESH_NMAX, first)))
        return fails
    if stspec and stspec[0] == "map":
        ents = [(int(stspec[2 + 2 * k]), stspec[3 + 2 * k]) for k in range(int(stspec[1]))]
        for i, s_ in sorted(ents):
            if s_ == "l":
                expect_err = "invalid_argument"
                break
            if i >= npts:
                expect_err = "out_of_range"
                break
    elif stspec and stspec[0] == "arr":
        if int(stspec[1]) != npts:
            expect_err = "invalid_argument"
    if expect_err:
        if first != ["err", expect_err]:
            fails.append(("construction_rejected", "expected %s, got %s" % (expect_err, first)))
        return fails
    if first != ["ok"]:
        fails.append(("construction_accepted", "got %s" % first))
        return fails
    from collections import Counter
    ecount = Counter()
    for (a, b, c) in tris:
        for e in ((b, c), (c, a), (a, b)):
            ecount[frozenset(e)] += 1
    nb = {i: set() for i in range(npts)}
    for e in ecount:
        if len(e) == 2:
            a, b = tuple(e)
            nb[a].add(b)
            nb[b].add(a)
    boundary = set(v for e, k in ecount.items() if k == 1 for v in e)
    F = Fraction
    # exact circumcentric shares
    share = [F(0)] * npts
    total = F(0)
    # rounding allowance: the code takes the area from a square root of a Heron-type expression and
    # divides by it; for a needle triangle (condition kappa = sum of squared edges / (4 area)) the
    # relative error of its shares grows like kappa^2 (measured: error / (value * eps) ~ kappa^2 / 3)
    tol_node = [F(0)] * npts
    tol_total = F(0)
    for tr in tris:
        P = [(F(pts[v][0]), F(pts[v][1])) for v in tr]
        cross = (P[1][0] - P[0][0]) * (P[2][1] - P[0][1]) - (P[1][1] - P[0][1]) * (P[2][0] - P[0][0])
        A = abs(cross) / 2
        total += A
        if A == 0:
            continue
        e2sum = sum((P[(k + 1) % 3][0] - P[(k + 2) % 3][0]) ** 2 + (P[(k + 1) % 3][1] - P[(k + 2) % 3][1]) ** 2 for k in range(3))
        kappa = e2sum / (4 * A)
        allow = F(256 * EPS) * (1 + kappa * kappa)
        wabs = F(0)
        for k in range(3):
            a_, b_ = (k + 1) % 3, (k + 2) % 3
            e2 = (P[a_][0] - P[b_][0]) ** 2 + (P[a_][1] - P[b_][1]) ** 2
            dot = (P[a_][0] - P[k][0]) * (P[b_][0] - P[k][0]) + (P[a_][1] - P[k][1]) * (P[b_][1] - P[k][1])
            wabs += abs(e2 * dot / (2 * A) / 8)
        for v in tr:
            tol_node[v] += (2 * wabs + A) * allow
        tol_total += (2 * wabs + A) * allow
        for k in range(3):
            # edge opposite to vertex k: between the two others; cot(angle at k) = dot/(2A)
            a_, b_ = (k + 1) % 3, (k + 2) % 3
            e2 = (P[a_][0] - P[b_][0]) ** 2 + (P[a_][1] - P[b_][1]) ** 2
            dot = (P[a_][0] - P[k][0]) * (P[b_][0] - P[k][0]) + (P[a_][1] - P[k][1]) * (P[b_][1] - P[k][1])
            cot = dot / (2 * A)
            w = e2 * cot / 8
            share[tr[a_]] += w
            share[tr[b_]] += w
    status = None
    areas = None
    for c in scn.calls:
        if c.cmd == "grid_common":
            status = [int(x) for x in c.O.get("status", [])]
            areas = [unhx(x) for x in c.O.get("area", [])]
            if c.O.get("area_views_agree") != ["1"]:
                fails.append(("area_views_agree", ""))
        if c.cmd == "q" and len(c.toks) == 3 and c.toks[1] in ("m", "c"):
            i = int(c.toks[2])
            vals = (c.O.get("q") or [])[2:]
            if c.toks[1] == "c":
                if [int(x) for x in vals] != [len(nb[i])]:
                    fails.append(("mesh_nbrs_iff_edge", "node %d: count %s, %d distinct triangle edges" % (i, vals, len(nb[i]))))
                continue
            tr3 = [(int(vals[k]), unhx(vals[k + 1]), int(vals[k + 2])) for k in range(0, len(vals), 3)]
            got = [a for a, _, _ in tr3]
            if len(set(got)) != len(got):
                fails.append(("mesh_nbrs_no_duplicates", "node %d: %s" % (i, got)))
            if set(got) != nb[i]:
                fails.append(("mesh_nbrs_iff_edge", "node %d: neighbours %s, triangle edges give %s" % (i, sorted(got), sorted(nb[i]))))
            for a, d, s_ in tr3:
                if 0 <= a < npts:
                    d2 = (F(pts[i][0]) - F(pts[a][0])) ** 2 + (F(pts[i][1]) - F(pts[a][1])) ** 2
                    if abs(F(d) * F(d) - d2) > F(EPS) * 8 * d2 + F(1e-300):
                        fails.append(("mesh_distance", "node %d -> %d: %r" % (i, a, d)))
                    if status is not None and s_ != status[a]:
                        fails.append(("mesh_neighbor_status", "node %d neighbour %d" % (i, a)))
    if status is not None and (not stspec or stspec[0] == "none"):
        want = [1 if i in boundary else 0 for i in range(npts)]
        if status != want:
            bad = [i for i in range(npts) if status[i] != want[i]]
            fails.append(("mesh_boundary_iff_single", "nodes %s: status differs from 'on an edge of exactly one triangle'" % bad[:6]))
    if areas is not None and len(areas) == npts:
        tot = sum(F(a) for i, a in enumerate(areas) if nb[i] or share[i] != 0)
        if abs(tot - total) > tol_total + F(1e-300):
            fails.append(("mesh_areas_sum", "node areas sum to %r, the triangles cover %r" % (float(tot), float(total))))
        for i in range(npts):
            if not nb[i] and share[i] == 0:
                if areas[i] != DBL_MIN:
                    fails.append(("mesh_isolated_area", "isolated node %d has area %r" % (i, areas[i])))
            elif abs(F(areas[i]) - share[i]) > tol_node[i] + F(1e-300):
                fails.append(("mesh_node_share", "node %d: area %r, circumcentric share %r" % (i, areas[i], float(share[i]))))
                break
    return fails[:20]


# ----------------------------------------------------------------------------- C12 / C13

def _spl_calls(scn):
    """-> list of (call, graph view of the last update, mask, seeds, ops, parameters)"""
    topo = Topo(scn)
    n = topo.n
    last = None
    out = []
    for call in scn.calls:
        if call.cmd == "update" and call.O.get("update") == ["ok"]:
            last = call
        if call.cmd == "spl" and last is not None and call.i("spl") is not None:
            row = call.i("spl")
            kind = row[0]
            nk = 1 if kind == "s" else n
            ks = [unhx(x) for x in row[1:1 + nk]]
            K = ks * n if kind == "s" else ks
            r = [unhx(x) for x in row[1 + nk:]]
            par = dict(K=K, m=r[0], n=r[1], tol=r[2], dt=r[3], area=r[4:4 + n], elev=r[4 + n:4 + 2 * n])
            mask, seeds, ops, _ = env_of(last, n)
            # setter calls applied to the fresh eroder before it erodes (set:n:<v>, set:m:<v>): the
            # configuration that counts is the one the setters leave; a refused setter ends the call
            sets = [t for t in call.toks if t.startswith("set:")]
            if call.O.get("spl", [""])[0] == "err":
                sets = []      # the constructor itself refused the parameters: no setter ran
            par["setter_fails"] = []
            for k, t in enumerate(sets):
                what, v = t[4], unhx(t[6:])
                multi_last = any(o.startswith("multi") for o in ops) and last_router(ops).startswith("multi")
                res = call.O.get("splset%d" % k)
                if what == "n":
                    par["n"] = v
                    want_err = multi_last and abs(v - 1) > EPS
                    if want_err and res != ["err", "invalid_argument"]:
                        par["setter_fails"].append(("spl_rejects_multi_nonlinear", "set_slope_exp(%r) on a multiple-direction graph gave %s" % (v, res)))
                    if not want_err and res != ["ok"]:
                        par["setter_fails"].append(("spl_accepts_valid_parameters", "set_slope_exp(%r) gave %s" % (v, res)))
                    if want_err:
                        par["rejected"] = True
                elif what == "k":
                    par["K"] = [v] * n
                    if res != ["ok"]:
                        par["setter_fails"].append(("spl_accepts_valid_parameters", "set_k_coef(%r) gave %s" % (v, res)))
                else:
                    par["m"] = v
                    if res != ["ok"]:
                        par["setter_fails"].append(("spl_accepts_valid_parameters", "set_area_exp(%r) gave %s" % (v, res)))
            if sets and not par.get("rejected"):
                eff = call.O.get("spl_eff")
                if eff is None or [bits(unhx(x)) for x in eff] != [bits(par["m"]), bits(par["n"])]:
                    par["setter_fails"].append(("setter_readback", "area_exp() / slope_exp() report %s after the setters, expected %r %r" % (eff, par["m"], par["n"])))
            out.append((call, GraphView(last, n), mask, seeds, ops, par, n))
    return out


def _flooded(z, e, recv):
    fl = DBL_MAX
    for r in recv:
        nxt = z[r] - e[r]
        if nxt < fl:
            fl = nxt
    return fl


def c12(scn):
    fails = []
    for call, g, mask, seeds, ops, par, n in _spl_calls(scn):
        fails.extend(par.get("setter_fails", []))
        if par.get("rejected"):
            continue
        multi = any(o.startswith("multi") for o in ops) and last_router(ops).startswith("multi")
        nexp = par["n"]
        if multi and abs(nexp - 1) > EPS:
            if call.O.get("spl") != ["err", "invalid_argument"]:
                fails.append(("spl_rejects_multi_nonlinear", "slope exponent %r on a multiple-direction graph was accepted" % nexp))
            continue
        if "erosion" not in call.O or not g.ok:
            if call.O.get("spl", [""])[0] == "err":
                fails.append(("spl_accepts_valid_parameters", "n=%r ops=%s: %s" % (nexp, ops, call.O.get("spl"))))
            continue
        e = [unhx(x) for x in call.O["erosion"]]
        z = par["elev"]
        if any(math.isnan(x) or math.isinf(x) for x in e):
            fails.append(("erosion_finite", "NaN/inf erosion"))
            continue
        for i in range(n):
            recv = g.recv[i]
            if recv == [i]:
                if e[i] != 0.0:
                    fails.append(("spl_zero_at_terminal", "terminal node %d (base level / pit / masked) has erosion %r" % (i, e[i])))
                continue
            fl = _flooded(z, e, recv)
            if z[i] <= fl:
                if e[i] != 0.0:
                    fails.append(("spl_zero_in_lakes", "node %d at %r is not above its lowest receiver's new level %r but erosion is %r" % (i, z[i], fl, e[i])))
                continue
            allow = 4 * EPS * (abs(z[i]) + abs(fl) + abs(e[i])) + 4 * DBL_MIN
            if e[i] < -allow:
                fails.append(("spl_nonneg", "node %d: erosion %r" % (i, e[i])))
            if (z[i] - e[i]) < fl - allow:
                fails.append(("spl_floor", "node %d: new elevation %r below the lowest new receiver elevation %r" % (i, z[i] - e[i], fl)))
    return fails[:20]


def c13(scn):
    fails = []
    for call, g, mask, seeds, ops, par, n in _spl_calls(scn):
        fails.extend(par.get("setter_fails", []))
        if par.get("rejected") or "erosion" not in call.O or not g.ok:
            continue
        e = [unhx(x) for x in call.O["erosion"]]
        z = par["elev"]
        nexp, mexp, dt, tol = par["n"], par["m"], par["dt"], par["tol"]
        if nexp <= 0 or any(math.isnan(x) or math.isinf(x) for x in e):
            continue
        linear = abs(nexp - 1) <= EPS
        for i in range(n):
            recv = g.recv[i]
            if recv == [i]:
                continue
            fl = _flooded(z, e, recv)
            if z[i] <= fl:
                # no receiver ends below the node: the sum over lower receivers is empty and the
                # equation reads new - old = 0
                if e[i] != 0.0:
                    fails.append(("spl_residual", "node %d (n=%r, m=%r, dt=%r): no lower receiver, the equation requires zero change but erosion is %r" % (i, nexp, mexp, dt, e[i])))
                continue
            zi1 = z[i] - e[i]
            allow = 8 * EPS * (abs(z[i]) + abs(fl) + abs(e[i])) + 8 * DBL_MIN
            if zi1 <= fl + allow:
                continue        # erosion was limited (clamped to the floor): excluded by the property
            R = zi1 - z[i]
            scale = abs(z[i]) + abs(e[i])
            ok = True
            for r, w, d in zip(recv, g.rweight[i], g.rdist[i]):
                if z[r] > z[i]:
                    continue
                zr1 = z[r] - e[r]
                delta = zi1 - zr1
                if delta < 0:
                    ok = False      # receiver's new level above the node's: outside the solved branch
                    break
                try:
                    F_ = par["K"][i] * dt * math.pow(par["area"][i] * w, mexp)
                    term = F_ * math.pow(delta / d, nexp) if delta > 0 else 0.0
                    sens = F_ * nexp * (math.pow(delta / d, nexp - 1) / d if delta > 0 else (1.0 / d if nexp == 1 else 0.0))
                except (OverflowError, ValueError, ZeroDivisionError):
                    ok = False
                    break
                R += term
                # the API returns erosion; new elevations are z - e, whose rounding error is eps*(|z|+|e|)
                scale += abs(term) + sens * (abs(z[i]) + abs(e[i]) + abs(z[r]) + abs(e[r]))
            if not ok:
                continue
            bound = (0.0 if linear else tol * (1 + 1e-9)) + 64 * EPS * scale + 1e-300
            if abs(R) > bound:
                fails.append(("spl_residual", "node %d (n=%r, m=%r, dt=%r): residual of the implicit equation %r exceeds %r" % (i, nexp, mexp, dt, R, bound)))
    return fails[:20]


def spl_cause(scn, fail):
    """n < 1 handled as linear / one-sided Newton exit (D7) vs anything else"""
    clause, wit = fail
    calls = _spl_calls(scn)
    if clause in ("erosion_finite", "terminates", "spl_nonneg", "spl_floor", "spl_residual") and \
            any(abs(x) >= 1e150 for _c, _g, _m, _s, _o, par, _n in calls for x in par["elev"]):
        return "overflow"
    if clause == "terminates":
        # a hung call prints nothing: look at the scenario's own spl lines
        for c in scn.calls:
            if c.cmd == "spl" and any(len(t) == 16 and t[0] in "7f" and t[:3] >= "5f3" and t[:3] <= "7fe" for t in c.toks[2:]):
                return "overflow"
    ns = set(par["n"] for _c, _g, _m, _s, _o, par, _n in calls)
    if clause in ("spl_residual", "spl_rejects_multi_nonlinear") and any(x < 1 for x in ns) and "n=" in wit and float(wit.split("n=")[1].split(",")[0].rstrip(")")) < 1:
        return "exponent_below_one"
    if clause == "spl_rejects_multi_nonlinear" and "exponent 0." in wit:
        return "exponent_below_one"
    return "other"


# ----------------------------------------------------------------------------- C14

def _tridiag_exact(lower, diag, upper, vec):
    """Gaussian elimination in exact rationals (no pivoting needed: strictly diagonally dominant)"""
    n = len(vec)
    c = [Fraction(0)] * n
    d = [Fraction(0)] * n
    c[0] = upper[0] / diag[0]
    d[0] = vec[0] / diag[0]
    for i in range(1, n):
        den = diag[i] - lower[i] * c[i - 1]
        c[i] = upper[i] / den
        d[i] = (vec[i] - lower[i] * d[i - 1]) / den
    x = [Fraction(0)] * n
    x[n - 1] = d[n - 1]
    for i in range(n - 2, -1, -1):
        x[i] = d[i] - c[i] * x[i + 1]
    return x


def adi_exact(rows, cols, dy, dx, K, dt, z):
    """two half steps of the Peaceman-Rachford scheme with face-averaged diffusivity and
    fixed-value borders, in exact rationals; K, z: row-major lists"""
    F = Fraction
    k = lambda r, c: F(K[r * cols + c])
    u = [[F(z[r * cols + c]) for c in range(cols)] for r in range(rows)]
    dtq = F(dt)
    ay = lambda r, c, s: (k(r, c) + k(r + s, c)) / 2 / (2 * F(dy) * F(dy))     # face diffusivity / (2 dy^2)
    ax = lambda r, c, s: (k(r, c) + k(r, c + s)) / 2 / (2 * F(dx) * F(dx))
    # half step 1: implicit along columns (x), explicit along rows (y)
    us = [row[:] for row in u]
    for r in range(1, rows - 1):
        lower, diag, upper, vec = [F(0)] * cols, [F(1)] * cols, [F(0)] * cols, [u[r][c] for c in range(cols)]
        for c in range(1, cols - 1):
            lower[c] = -ax(r, c, -1) * dtq
            upper[c] = -ax(r, c, +1) * dtq
            diag[c] = 1 + (ax(r, c, -1) + ax(r, c, +1)) * dtq
            vec[c] = (1 - (ay(r, c, -1) + ay(r, c, +1)) * dtq) * u[r][c] + ay(r, c, -1) * dtq * u[r - 1][c] + ay(r, c, +1) * dtq * u[r + 1][c]
        us[r] = _tridiag_exact(lower, diag, upper, vec)
    # half step 2: implicit along rows (y), explicit along columns (x)
    un = [row[:] for row in us]
    for c in range(1, cols - 1):
        lower, diag, upper, vec = [F(0)] * rows, [F(1)] * rows, [F(0)] * rows, [us[r][c] for r in range(rows)]
        for r in range(1, rows - 1):
            lower[r] = -ay(r, c, -1) * dtq
            upper[r] = -ay(r, c, +1) * dtq
            diag[r] = 1 + (ay(r, c, -1) + ay(r, c, +1)) * dtq
            vec[r] = (1 - (ax(r, c, -1) + ax(r, c, +1)) * dtq) * us[r][c] + ax(r, c, -1) * dtq * us[r][c - 1] + ax(r, c, +1) * dtq * us[r][c + 1]
        col = _tridiag_exact(lower, diag, upper, vec)
        for r in range(rows):
            un[r][c] = col[r]
    return [F(z[r * cols + c]) - un[r][c] for r in range(rows) for c in range(cols)]


def c14(scn):
    fails = []
    t = scn.calls[0].toks if scn.calls else []
    if len(t) < 6 or t[1] != "raster" or scn.calls[0].O.get("grid") != ["ok"]:
        return fails
    rows, cols, dy, dx = int(t[2]), int(t[3]), unhx(t[4]), unhx(t[5])
    n = rows * cols
    F = Fraction
    for c in scn.calls:
        if c.cmd != "adi":
            continue
        tk = c.toks
        kind = tk[1]
        nk = 1 if kind == "s" else n
        ks = [unhx(x) for x in tk[2:2 + nk]]
        K = ks * n if kind == "s" else ks
        dt = unhx(tk[2 + nk])
        z = [unhx(x) for x in tk[3 + nk:3 + nk + n]]
        out = c.O.get("adi")
        if out is None or out[0] == "err":
            fails.append(("adi_never_throws", "K>0, dt>=0 but erode gave %s" % out))
            continue
        e = [unhx(x) for x in out]
        if any(math.isnan(x) or math.isinf(x) for x in e):
            fails.append(("adi_finite", "NaN/inf erosion"))
            continue
        for r in range(rows):
            for cc in range(cols):
                if (r in (0, rows - 1) or cc in (0, cols - 1)) and e[r * cols + cc] != 0.0:
                    fails.append(("adi_border_zero", "border node (%d,%d) erosion %r" % (r, cc, e[r * cols + cc])))
        want = adi_exact(rows, cols, dy, dx, K, dt, z)
        fdt = max(K) * dt * (1 / (dy * dy) + 1 / (dx * dx))
        zmax = max(abs(x) for x in z) or 1.0
        tol = F(64 * EPS) * F(1 + 4 * fdt) * F(zmax) * (rows + cols) + F(1e-300)
        for i in range(n):
            if abs(F(e[i]) - want[i]) > tol:
                fails.append(("adi_is_peaceman_rachford", "node (%d,%d): erosion %r, direct solve of the two half-step systems gives %r (tolerance %r; K dt/d^2 up to %r)" % (i // cols, i % cols, e[i], float(want[i]), float(tol), fdt)))
                break
    return fails[:20]


# ----------------------------------------------------------------------------- C11

def _check_partition(vals, first, last, nmax, where, fails):
    nb = int(vals[0])
    se = [(int(vals[1 + 2 * k]), int(vals[2 + 2 * k])) for k in range((len(vals) - 1) // 2)]
    if last <= first:
        if nb != 0:
            fails.append(("blocks_partition", "%s: empty range but %d blocks" % (where, nb)))
        return
    if nb != len(se) or nb < 1 or nb > nmax:
        fails.append(("blocks_partition", "%s: %d blocks (pool size %d), %d listed" % (where, nb, nmax, len(se))))
        return
    if se[0][0] != first or se[-1][1] != last or any(s >= e for s, e in se) or any(se[k][1] != se[k + 1][0] for k in range(nb - 1)):
        fails.append(("blocks_partition", "%s: blocks %s do not partition [%d,%d) into non-empty contiguous pieces" % (where, se, first, last)))


def c11(scn):
    fails = []
    for c in scn.calls:
        if c.cmd == "blocks" and "blocks" in c.O:
            first, last, n, mn = (int(x) for x in c.toks[1:5])
            _check_partition(c.O["blocks"], first, last, n, "blocks(%d,%d,%d,%d)" % (first, last, n, mn), fails)
        elif c.cmd == "pool":
            size = int(c.toks[1])
            runs = 0
            for op in c.toks[2:]:
                f = op.split(":")
                if f[0] == "run":
                    key = "run%d" % runs
                    if key not in c.O:
                        fails.append(("run_returns", "%s produced no result" % op))
                    else:
                        _check_partition(c.O[key], int(f[1]), int(f[2]), size, "%s on %d workers" % (op, size), fails)
                        if c.O.get(key + "_once") != ["1"]:
                            fails.append(("exactly_once", "%s on %d workers: some index was not executed exactly once (or a callback ran twice)" % (op, size)))
                    runs += 1
                elif f[0] == "resize":
                    size = int(f[1])
                    if c.O.get("resize_size") is None:
                        fails.append(("resize_returns", op))
            if c.O.get("pool_done") != ["1"]:
                fails.append(("program_terminates", "program %s did not run to completion" % " ".join(c.toks[1:])))
    return fails[:20]


def c11_cause(scn, fail):
    clause, wit = fail
    if clause == "terminates":
        if any(c.cmd == "pool" and any(t.startswith("sp:") for t in c.toks) for c in scn.calls):
            return "spurious_wakeup"
        return "lost_wakeup" if any(c.cmd == "pool" and "pause" in c.toks and "resume" in " ".join(c.toks) for c in scn.calls) else "other"
    return "other"


# ----------------------------------------------------------------------------- C10

C10_SECS = ("update", "elev", "rcount", "recv", "rdist", "rweight", "dfs", "bfs", "levels", "acc", "basins", "outlets", "pits")


def c10(scn):
    """a scenario holds two runs of the same calls: first on a graph whose routers are
    sequential, then on one whose routers are multi-threaded (marked by the `graph` calls); every
    observable of the second must equal the first; kernels: every (threads, thresholds) variant
    must equal the sequential application"""
    fails = []
    runs, cur = [], None
    for c in scn.calls:
        if c.cmd == "graph":
            cur = dict(ops=c.toks[1:], calls=[])
            runs.append(cur)
        elif cur is not None and c.cmd in ("update", "acc", "basins", "kernel"):
            cur["calls"].append(c)
    if len(runs) >= 2:
        a, b = runs[0], runs[1]
        if len(a["calls"]) != len(b["calls"]):
            fails.append(("par_router_eq_seq", "different number of completed calls: %d vs %d" % (len(a["calls"]), len(b["calls"]))))
        for ca, cb in zip(a["calls"], b["calls"]):
            if ca.cmd == "kernel":
                continue
            for sec in C10_SECS:
                if ca.O.get(sec) != cb.O.get(sec):
                    fails.append(("par_router_eq_seq", "ops %s vs %s, call %s: %s differs: %s vs %s" % (
                        " ".join(a["ops"]), " ".join(b["ops"]), ca.cmd, sec, " ".join(ca.O.get(sec) or ["<none>"])[:90], " ".join(cb.O.get(sec) or ["<none>"])[:90])))
                    break
    for r in runs:
        ref = {}
        for c in r["calls"]:
            if c.cmd != "kernel":
                if c.cmd == "update":
                    ref = {}
                continue
            d, th = c.toks[1], int(c.toks[2])
            out = c.O.get("kernel")
            if out is None:
                fails.append(("kernel_returns", " ".join(c.toks)))
                continue
            kn = c.O.get("knodes")
            if out[:1] != ["err"] and kn is not None and (kn[0] != kn[1] or int(kn[0]) != (int(c.toks[2]) if int(c.toks[2]) > 1 else 1)):
                fails.append(("kernel_node_data_lifecycle", "line %d: %s node data created, %s freed for %s thread(s)" % (c.li, kn[0], kn[1], c.toks[2])))
            if out[:1] != ["err"] and c.O.get("kvisits") != ["1"]:
                fails.append(("kernel_applied_once_per_node", "%s: some node was visited zero or several times" % " ".join(c.toks)))
            if th <= 1:
                ref[d] = out
            elif d == "dfs":
                if out[:1] != ["err"]:
                    fails.append(("kernel_par_depth_first_refused", "%s gave %s" % (" ".join(c.toks), out[:3])))
            elif d in ref and out != ref[d]:
                fails.append(("kernel_levels_eq_seq", "%s: output differs from the sequential application (first difference at node %s)" % (
                    " ".join(c.toks), next((i for i, (x, y) in enumerate(zip(out, ref[d])) if x != y), "?"))))
    return fails[:20]
