"""Registry: per property the generator, correspondence sections, oracle, theorems."""
import glob
import hashlib
import json
import os

from . import build, gen, oracle, run
from .common import hx

ROOT = build.ROOT
PROPS = {}

GRAPH_SECTIONS = {"rcount", "recv", "rdist", "rweight", "dcount", "donors", "dfs", "bfs", "levels"}


def write_evidence(ev):
    d = os.path.join(ROOT, "evidence")
    os.makedirs(d, exist_ok=True)
    with open(os.path.join(d, ev["property_id"] + ".json"), "w") as f:
        json.dump(ev, f, indent=1, default=str)


def read_blocks(path):
    """scenario blocks from a corpus / replay file -> list of (id, lines)"""
    out, cur = [], None
    for l in open(path):
        l = l.rstrip("\n")
        if l.startswith("#") or not l.strip():
            continue
        if l.startswith("scn "):
            cur = (l.split()[1], [])
        elif l.strip() == "end":
            if cur:
                out.append(cur)
            cur = None
        elif cur is not None:
            cur[1].append(l)
    return out


def corpus(pid):
    out = []
    for p in sorted(glob.glob(os.path.join(ROOT, "corpus", pid, "*.scn"))):
        for sid, lines in read_blocks(p):
            out.append(("corpus_" + os.path.basename(p)[:-4] + "_" + sid, lines))
    return out


def scn_digest(lines):
    return hashlib.sha256("\n".join(lines).encode()).hexdigest()[:12]


def oracle_only(sid):
    """scenario ids of the oracle-only family (`ob_...`, also when another generator re-uses them
    under a prefix, as C08 does)"""
    return sid.startswith("ob_") or "_ob_" in sid


def generic_runner(P, exe, model_ok, rng, tier, replay=None):
    pid = P["id"]
    if replay:
        scns = read_blocks(replay)
    else:
        scns = corpus(pid) + P["gen"](rng, tier)
    text_of = {sid: run.scn_text((sid, lines)) for sid, lines in scns}
    impl, notes, sans = run.run_harness(exe, scns, watchdog=P.get("watchdog", 20))
    mod, mnotes = ({}, [])
    if model_ok and P.get("model", True):
        # scenarios whose id starts with "ob_" are ORACLE-ONLY (grids too large for the model driver):
        # the implementation's outputs are judged by the independent oracle, nothing is replayed
        mod, mnotes = run.run_model(build.model_exe(), {k: v for k, v in impl.items() if not oracle_only(k)})
    fails, corr_broken = [], []
    first_div = None
    nontrivial = set()
    dist = {}
    compared = 0
    certs = {}
    for sid, lines in scns:
        si = impl.get(sid)
        if sid in notes and notes[sid][0] == -99:
            dist["not_run_after_repeated_hangs"] = dist.get("not_run_after_repeated_hangs", 0) + 1
            continue
        if si is None:
            fails.append(dict(clause="harness_no_output", cause="other", witness="scenario %s produced no transcript" % sid, scenario_text=text_of[sid]))
            continue
        if si.hang or (sid in notes and notes[sid][0] in (3, -9)):
            fails.append(dict(clause="terminates", cause=P.get("cause", lambda s, f: "other")(si, ("terminates", "")),
                              witness="scenario %s: call did not return within the watchdog" % sid, scenario_text=text_of[sid]))
            continue
        if si.crashed or sid in notes:
            rc, err = notes.get(sid, (0, ""))
            fails.append(dict(clause="no_crash", cause="other", witness="scenario %s aborted (rc=%s): %s" % (sid, rc, err.strip().split("\n")[-1][:300] if err else ""), scenario_text=text_of[sid]))
            continue
        if si.xlines:
            fails.append(dict(clause="harness_protocol", cause="other", witness="%s" % si.xlines[:2], scenario_text=text_of[sid]))
            continue
        # oracle on the implementation's outputs (the inputs-in-force check applies to every scenario
        # with graph updates, whatever the property)
        for orc in list(P.get("oracles", [])) + [oracle.inputs_in_force]:
            try:
                ofails = orc(si)[:5]
            except Exception as ex:  # an oracle that cannot evaluate an output is itself a finding
                import traceback
                ofails = [("oracle_error", "%s: %s" % (type(ex).__name__, traceback.format_exc().strip().split("\n")[-3:]))]
            for clause, wit in ofails:
                cause = P.get("cause", lambda s, f: "other")(si, (clause, wit))
                fails.append(dict(clause=clause, cause=cause, witness="scenario %s: %s" % (sid, wit), scenario_text=text_of[sid]))
        # correspondence with the model
        if model_ok and P.get("model", True) and not oracle_only(sid):
            sm = mod.get(sid)
            d = run.diff_scn(si, sm, P.get("sections"))
            compared += 1
            if d:
                li, cmd, sec, a, b = d[0]
                corr_broken.append("scenario %s call %d (%s) section %s: impl %s vs model %s" % (
                    sid, li, cmd, sec, " ".join(a or ["<none>"])[:160], " ".join(b or ["<none>"])[:160]))
                if first_div is None:
                    first_div = text_of[sid]
            # the flow model consumes the neighbour lists the REAL grid reported; the grid model (the
            # one the C07 / C18 theorems are about) computes its own: they must agree, else the flow
            # property is judged against a wrong geometry
            for mc in (sm.calls if sm else []):
                if mc.O.get("topo_model_agrees") == ["0"]:
                    fails.append(dict(clause="neighbor_lists_match_grid_geometry", cause="other",
                                      witness="scenario %s: the neighbour indices / distances the grid reports differ from the grid model's (Fs.C07 / Fs.C18 geometry)" % sid,
                                      scenario_text=text_of[sid]))
                    break
            # certificates evaluated by the model driver (each has a Lean soundness theorem):
            # a rejected certificate is a failure of the property clause it certifies
            for key, (want, clause, what) in P.get("model_certs", {}).items():
                for mc in (sm.calls if sm else []):
                    if key in mc.O:
                        certs[key] = certs.get(key, 0) + 1
                        if mc.O[key] != [want]:
                            fails.append(dict(clause=clause, cause=P.get("cause", lambda s_, f_: "other")(si, (clause, what)), witness="scenario %s call %d: %s" % (sid, mc.li, what), scenario_text=text_of[sid]))
        for tag in P.get("tags", lambda s: [])(si):
            dist[tag] = dist.get(tag, 0) + 1
        if P.get("nontrivial", lambda s: True)(si):
            nontrivial.add(scn_digest(lines))
    if certs:
        dist.update({"cert:" + k: v for k, v in certs.items()})
    if not model_ok and P.get("model", True):
        corr_broken.append("model driver not available (Lean build failed)")
    if mnotes:
        corr_broken.append("model driver: %s" % mnotes[:2])
    # sanitizer reports inside /repo: failures of C08 (and shown as distribution elsewhere)
    san_fails = []
    for r in sans:
        if r["where"] != "?" or "AddressSanitizer" in r["kind"] or "runtime error" in r["kind"]:
            san_fails.append(r)
    cov = dict(evaluations=len(scns), distinct_nontrivial=len(nontrivial), rule=P.get("rule", ""),
               samples=[dict(id=s[0], lines=[l[:240] for l in s[1][:8]]) for s in scns[:2]],
               traces_validated_against_impl=compared, disagreements_checked=len(corr_broken),
               programs=len(scns), input_distribution=dist, sanitizer_reports=len(san_fails))
    return dict(coverage=cov, fails=fails, corr_broken=corr_broken, first_diverging_scenario=first_div, san=san_fails,
                impl=impl, text_of=text_of)


def register(pid, **kw):
    kw["id"] = pid
    kw.setdefault("runner", generic_runner)
    kw.setdefault("level", "proof")
    kw.setdefault("harness", "asan")
    kw.setdefault("theorems", [])
    kw.setdefault("lean_modules", [])
    PROPS[pid] = kw


# ----------------------------------------------------------------------------- generators

def _flow_scn(rng, g, ops, n_updates=1, with_mask=None, with_base=None, acc=False, basins=False, families=None):
    lines = [g.line(), "graph " + " ".join(ops)]
    for _ in range(n_updates):
        if (rng.random() < 0.4) if with_mask is None else with_mask:
            lines.append("set_mask " + " ".join(map(str, gen.mask_bits(rng, g))))
        if (rng.random() < 0.3) if with_base is None else with_base:
            b = rng.sample(range(g.n), rng.randint(1, min(3, g.n)))
            lines.append("set_base " + " ".join(map(str, b)))
        z = gen.elevation(rng, g, rng.choice(families) if families else None)
        lines.append("update " + gen.hexes(z))
        if acc:
            # source magnitude: the recurrence and conservation are stated for every finite source, so a
            # third of the calls scale it far away from 1 (a "skip the node when its value is below
            # epsilon" shortcut is right for O(1) sources and exact zeros and wrong for 1e-18; the
            # scales keep every product inside the normal double range)
            sc = rng.choice([1e-18, 1e-30, 1e-200, 1e12, 1e150]) if rng.random() < 0.33 else 1.0
            if rng.random() < 0.5:
                lines.append("acc a " + gen.hexes([sc * rng.choice([0.0, 1.0, rng.random() * 3, rng.uniform(-1, 2)]) for _ in z]))
            else:
                lines.append("acc s " + hx(sc * rng.choice([1.0, 0.0, 2.5, -1.0])))
        if basins:
            lines.append("basins")
            if rng.random() < 0.3:
                # base levels changed after the delineation: pits() must follow them at once
                b = rng.sample(range(g.n), rng.randint(1, min(3, g.n)))
                lines.append("set_base " + " ".join(map(str, b)))
                lines.append("pits")
    return lines


QUICK_SCALE = float(os.environ.get("VERIF_QUICK_SCALE", "2.5"))


def counts(tier, q, t):
    """number of generated scenarios: thorough = t; quick = q scaled (the quick tier ran in 2-5 s per
    property with the original counts, so it affords more scenarios; never more than thorough)"""
    return t if tier == "thorough" else min(t, int(q * QUICK_SCALE))


def counts_fixed(tier, q, t):
    """unscaled (the pool / parallel checks run schedule injection and a thread-sanitizer build)"""
    return t if tier == "thorough" else q


# small-scope grids for the exhaustive generator: every elevation field over {0, 1, 2} on them
_SMALL_GRIDS = [
    lambda: gen.Grid("profile", size=4, dx=1.0, borders=["v", "c"], cache=True, ov=[]),
    lambda: gen.Grid("profile", size=5, dx=1.0, borders=["c", "c"], cache=False, ov=[(2, "v")]),
    lambda: gen.Grid("raster", rows=2, cols=3, dy=1.0, dx=1.0, conn="queen", borders=["v", "c", "c", "c"], cache=True, ov=[]),
    lambda: gen.Grid("raster", rows=2, cols=4, dy=1.0, dx=2.0, conn="rook", borders=["c", "c", "c", "c"], cache=False, ov=[(0, 0, "v")]),
    lambda: gen.Grid("raster", rows=3, cols=3, dy=1.0, dx=1.0, conn="rook", borders=["c", "c", "c", "c"], cache=True, ov=[(0, 0, "v")]),
    lambda: gen.Grid("raster", rows=3, cols=3, dy=1.0, dx=1.0, conn="queen", borders=["v", "c", "l", "l"], cache=False, ov=[]),
    lambda: gen.Grid("raster", rows=3, cols=3, dy=2.0, dx=1.0, conn="bishop", borders=["v", "v", "c", "c"], cache=True, ov=[]),
]


def gen_small_scope(rng, tier, ops_fn, prefix="x", acc=False, basins=False, n_quick=120, n_thorough=6000):
    """small-scope exhaustive part of the flow generators: ALL elevation fields over {0, 1, 2} on a
    few tiny grids (ties, plateaus, flat-floored depressions and equal passes in every arrangement -
    the inputs random floats never produce), each with an operator sequence drawn by `ops_fn`.
    Thorough: the full product for the grids of up to 8 nodes and a large sample of the 3x3 ones;
    quick: a sample."""
    import itertools
    grids = [mk() for mk in _SMALL_GRIDS]
    space = []
    for gi, g in enumerate(grids):
        tot = 3 ** g.n
        if tier == "thorough" and g.n <= 8:
            idxs = range(tot)
        else:
            k = (n_thorough // 3) if tier == "thorough" else max(8, n_quick // len(grids))
            idxs = rng.sample(range(tot), min(tot, k))
        for ix in idxs:
            space.append((gi, ix))
    if tier != "thorough":
        rng.shuffle(space)
        space = space[:n_quick]
    out = []
    for k, (gi, ix) in enumerate(space):
        g = grids[gi]
        z = []
        for _ in range(g.n):
            z.append(float(ix % 3))
            ix //= 3
        lines = [g.line(), "graph " + " ".join(ops_fn(rng)), "update " + gen.hexes(z)]
        if acc:
            lines.append("acc s " + hx(1.0))
        if basins and not any(o.startswith("multi") for o in lines[1].split()[1:]):
            lines.append("basins")
        out.append(("%s%d" % (prefix, k), lines))
    return out


def gen_medium(rng, tier, ops_fn, prefix="md", acc=False, basins=False):
    """a few grids with more than 256 nodes replayed by the model too (quick: two, thorough: twenty):
    long profiles (hundreds of breadth-first levels, flow paths of hundreds of steps) and 17x17 /
    18x16 rasters (hundreds of nodes, dozens of basins) - counters, labels and level arrays must not
    be narrower than the sizes they count"""
    out = []
    for k in range(3 if tier == "quick" else 21):
        if k % 3 == 2:
            # thin raster looped along an axis of more than 128 nodes (wrap-around offsets of +-129 and more)
            if rng.random() < 0.5:
                g = gen.Grid("raster", rows=rng.choice([130, 140]), cols=2, dy=1.0, dx=1.0, conn=rng.choice(gen.CONNS),
                             borders=["v", "c", "l", "l"], cache=bool(k % 2), ov=[])
            else:
                g = gen.Grid("raster", rows=2, cols=rng.choice([131, 150]), dy=1.0, dx=2.0, conn=rng.choice(gen.CONNS),
                             borders=["l", "l", "v", "c"], cache=bool(k % 2), ov=[])
            z = gen.elevation(rng, g, rng.choice(["ints", "random"]))
        elif k % 3 == 0:
            n = rng.choice([260, 300])
            g = gen.Grid("profile", size=n, dx=1.0, borders=[rng.choice("vc"), "v"], cache=bool(k % 4), ov=[])
            # a long monotone ramp with a few pits, or a saw
            if rng.random() < 0.5:
                z = [float(i) + (0.0 if i % 97 else -3.0) for i in range(n)]
            else:
                z = [float((i * 7) % 11) + 0.01 * i for i in range(n)]
        else:
            g = gen.raster(rng, 16, 18, conn=rng.choice(["queen", "rook"]), ov_prob=0.0, allow_loop=False)
            z = gen.elevation(rng, g, rng.choice(["ints", "random", "steps"]))
        lines = [g.line(), "graph " + " ".join(ops_fn(rng)), "update " + gen.hexes(z)]
        if acc:
            lines.append("acc s " + hx(1.0))
        if basins and not any(o.startswith("multi") for o in lines[1].split()[1:]):
            lines.append("basins")
        out.append(("%s%d" % (prefix, k), lines))
    return out


def gen_zigzag_oracle_only(rng, basins=False):
    """one oracle-only profile of 140001 nodes whose every second node is a pit: more than 65536
    outlets / basins / breadth-first entries per level (labels and counters narrowed to 16 bits)"""
    n = 140001
    g = gen.Grid("profile", size=n, dx=1.0, borders=["v", "c"], cache=True, ov=[])
    z = [float(i % 2) for i in range(n)]
    lines = [g.line(), "graph single", "update " + gen.hexes(z)]
    if basins:
        lines.append("basins")
    return [("ob_zigzag", lines)]


def gen_medium_multi(rng):
    """a "roof" profile of 600 nodes under the multiple-direction router: nodes with receivers in
    two different breadth-first levels beyond level 256"""
    n = 600
    g = gen.Grid("profile", size=n, dx=1.0, borders=["v", "v"], cache=True, ov=[])
    z = [float(min(i, n - 1 - i)) + (0.25 if i % 3 == 0 else 0.0) for i in range(n)]
    return [("mdm0", [g.line(), "graph multi:" + hx(1.0), "update " + gen.hexes(z)])]


def gen_big_oracle_only(rng, tier, kind):
    """thorough tier only: rasters of 16x16 to 40x40 nodes (many basins, hubs of large degree, long
    flow paths) judged by the independent oracle alone - the model driver is not run on them"""
    out = []
    if tier != "thorough":
        return out
    for k in range(120):
        side = rng.choice([16, 20, 24, 32])
        g = gen.raster(rng, side, side + 8, conn=rng.choice(["queen", "queen", "rook", "bishop"]), ov_prob=0.0)
        n = g.n
        z = gen.elevation(rng, g, rng.choice(["ints", "ints2", "random", "steps", "plateau_eps", "cones"]))
        ops = ["single"] if kind == "bgraph" else gen.resolver_ops(rng)
        lines = [g.line(), "graph " + " ".join(ops)]
        if rng.random() < 0.6:
            lines.append("set_base " + " ".join(map(str, sorted(rng.sample(range(n), rng.choice([1, 5, 40, n // 8]))))))
        if rng.random() < 0.3:
            lines.append("set_mask " + " ".join(map(str, gen.mask_bits(rng, g))))
        lines.append("update " + gen.hexes(z))
        if kind == "bgraph":
            lines.append("bgraph k " + gen.hexes(z))
            lines.append("bgraph b " + gen.hexes(z))
        out.append(("ob_%s%d" % (kind, k), lines))
    # two rasters of more than 65536 nodes: indices, labels and counters narrowed to 16 bits
    for k in range(2):
        g = gen.Grid("raster", rows=258, cols=260, dy=1.0, dx=1.0, conn=rng.choice(["queen", "rook"]),
                     borders=["v", "c", "c", "v"], cache=bool(k), ov=[])
        z = gen.elevation(rng, g, "random")
        ops = ["single"] if kind == "bgraph" else rng.choice([["single", "mst:k:carve"], ["pflood", "single"], ["single", "mst:b:basic"]])
        lines = [g.line(), "graph " + " ".join(ops), "update " + gen.hexes(z)]
        if kind == "bgraph":
            lines.append("bgraph k " + gen.hexes(z))
            lines.append("bgraph b " + gen.hexes(z))
        else:
            lines.append("basins")
        out.append(("ob_%shuge%d" % (kind, k), lines))
    out += gen_coast_oracle_only(rng, kind)
    return out


def gen_coast_oracle_only(rng, kind):
    """a "coast": more than 65536 base-level nodes handed to set_base_levels (every sea node of a
    coastal raster), so that the root basin of the spanning tree has more than 65536 tree edges"""
    out = []
    rows, cols, sea = 300, 230, 220
    g = gen.Grid("raster", rows=rows, cols=cols, dy=1.0, dx=1.0, conn="queen", borders=["c", "c", "c", "c"], cache=True, ov=[])
    z = [0.0 if (i % cols) < sea else 1.0 + rng.random() for i in range(rows * cols)]
    base = [i for i in range(rows * cols) if (i % cols) < sea]
    ops = ["single"] if kind == "bgraph" else rng.choice([["single", "mst:k:carve"], ["single", "mst:b:basic"]])
    lines = [g.line(), "graph " + " ".join(ops), "set_base " + " ".join(map(str, base)), "update " + gen.hexes(z)]
    if kind == "bgraph":
        lines.append("bgraph k " + gen.hexes(z))
        lines.append("bgraph b " + gen.hexes(z))
    out.append(("ob_%scoast" % kind, lines))
    return out


def gen_resolved(rng, tier):
    out = []
    N = counts(tier, 260, 2500)
    for k in range(N):
        g = gen.any_grid(rng, small=(tier == "quick"))
        ops = gen.resolver_ops(rng)
        out.append(("r%d" % k, _flow_scn(rng, g, ops, n_updates=rng.randint(1, 2))))
    out += gen_small_scope(rng, tier, gen.resolver_ops, "xr")
    out += gen_medium(rng, tier, gen.resolver_ops, "mdr")
    out += gen_big_oracle_only(rng, tier, "res")
    return out


def gen_single(rng, tier):
    out = []
    for k in range(counts(tier, 260, 2500)):
        g = gen.any_grid(rng, small=(tier == "quick"))
        ops = rng.choice([["single"], ["single"], ["pflood", "single"], ["single:%d" % rng.choice([2, 3, 4])]])
        out.append(("s%d" % k, _flow_scn(rng, g, ops, n_updates=rng.randint(1, 2))))
    out += gen_small_scope(rng, tier, lambda r: r.choice([["single"], ["single:%d" % r.choice([2, 3])], ["pflood", "single"]]), "xs", n_quick=80, n_thorough=3000)
    out += gen_medium(rng, tier, lambda r: r.choice([["single"], ["pflood", "single"]]), "mds")
    out += gen_zigzag_oracle_only(rng)
    return out


def gen_multi(rng, tier):
    out = []
    for k in range(counts(tier, 260, 2500)):
        g = gen.any_grid(rng, small=(tier == "quick"))
        p = rng.choice([0.0, 0.5, 1.0, 1.1, 2.0, 8.0])
        ops = rng.choice([["multi:" + hx(p)], ["pflood", "multi:" + hx(p)]])
        lines = _flow_scn(rng, g, ops, n_updates=1)
        # exponent changed between successive updates, epsilon-filled field fed back is the
        # pflood variant's job; second update with another exponent:
        if rng.random() < 0.5:
            lines.append("set_param %d %s" % (len(ops) - 1, hx(rng.choice([0.0, 0.7, 1.0, 3.0]))))
            lines.append("update " + gen.hexes(gen.elevation(rng, g)))
        out.append(("m%d" % k, lines))
    out += gen_small_scope(rng, tier, lambda r: r.choice([["multi:" + hx(r.choice([0.0, 1.0, 1.1, 2.0]))], ["pflood", "multi:" + hx(1.0)]]), "xm", n_quick=80, n_thorough=3000)
    return out


def gen_any_ops(rng, tier, acc=False, basins=False):
    out = []
    for k in range(counts(tier, 260, 2500)):
        g = gen.any_grid(rng, small=(tier == "quick"))
        r = rng.random()
        if r < 0.5:
            ops = gen.resolver_ops(rng)
        elif r < 0.7:
            ops = ["single" if rng.random() < 0.6 else "single:%d" % rng.choice([2, 3, 4])]
        elif r < 0.85:
            ops = ["multi:" + hx(rng.choice([0.0, 1.0, 1.1, 2.0]))]
        else:
            ops = rng.choice([["single", "snap:a:g", "pflood", "multi:" + hx(1.0)], ["single", "snap:a:g", "multi:" + hx(1.1)],
                              ["single", "snap:a:g", "mst:k:carve"]])
        single_final = not any(o.startswith("multi") for o in ops)
        lines = _flow_scn(rng, g, ops, n_updates=rng.randint(1, 3), acc=acc, basins=basins and single_final)
        if acc:
            # the cell areas accumulate integrates over are judged too (C03: "times the cell area")
            lines.insert(1, "grid_common")
        if any(o.startswith("snap:a") for o in ops):
            # the snapshot graph is a flow graph too: accumulate / basins on it after every update
            lines2 = []
            for l in lines:
                lines2.append(l)
                if l.startswith("update"):
                    if acc:
                        lines2.append("snapcall a acc s " + hx(1.0))
                    if basins:
                        lines2.append("snapcall a basins")
            lines = lines2
        out.append(("a%d" % k, lines))
    out += gen_small_scope(rng, tier, lambda r: gen.resolver_ops(r) if r.random() < 0.6 else r.choice([["single"], ["multi:" + hx(1.0)]]),
                           "xa", acc=acc, basins=basins, n_quick=80, n_thorough=3000)
    out += gen_medium(rng, tier, lambda r: gen.resolver_ops(r) if r.random() < 0.6 else r.choice([["single"], ["multi:" + hx(1.0)]]), "mda", acc=acc, basins=basins)
    if not acc:
        out += gen_zigzag_oracle_only(rng, basins=basins)
    out += gen_medium_multi(rng)
    return out


def raised_or_rerouted(si):
    """non-trivial for C01/C02: some node was raised, i.e. a depression was actually resolved"""
    for c in si.calls:
        if c.cmd == "update" and "elev" in c.O:
            n = len(c.O["elev"])
            if any(a != b for a, b in zip(c.O["elev"], c.toks[1:1 + n])):
                return True
    return False


def has_pits_or_multi(si):
    for c in si.calls:
        if c.cmd == "update" and "rcount" in c.O:
            rc = c.O["rcount"]
            if any(x != "1" for x in rc):
                return True
            recv = c.O.get("recv", [])
            if len(set(recv)) < len(recv):
                return True
    return False


def tags_flow(si):
    t = []
    g = si.calls[0].toks if si.calls else []
    if len(g) > 1:
        t.append("grid:" + g[1])
    for c in si.calls:
        if c.cmd == "graph":
            t.append("ops:" + "+".join(x.split(":")[0] + (":" + ":".join(x.split(":")[1:]) if x.startswith("mst") else "") for x in c.toks[1:]))
        if c.cmd == "set_mask":
            t.append("masked")
    return t


FLOW_TB = ["Float execution of the model (Lean runtime + libm) assumed IEEE binary64 like the C++ side",
           "order laws of finite binary64 (strict weak order, x < nextUp x) assumed; proved for no concrete float type",
           "topology handed to the flow model is the real grid's neighbour lists (tied to the grid model in C07/C18)"]

register("C01", lean_modules=["FsProofs.Properties.ClosedPfloodPipeline", "FsProofs.Properties.ClosedC01Pipeline", "FsProofs.Properties.ShapesC01", 'FsModel.PFlood', 'FsModel.Descent', 'FsModel.Tilt', 'FsProofs.Properties.C01', 'FsProofs.Properties.C01Multi', 'FsProofs.Properties.C01MstRouter', 'FsProofs.Properties.C01MstConnected', 'FsProofs.Properties.C01MstExample', 'FsProofs.Properties.ImplCheck', 'FsProofs.Properties.Closed'],
         theorems=["Fs.Closed.grid_pipeline_pflood_single", "Fs.Closed.raster_pipeline_pflood_single", "Fs.Closed.mesh_pipeline_pflood_single", "Fs.Closed.profile_pipeline_pflood_single", "Fs.Closed.grid_reach_iff_connBase", "Fs.Closed.grid_C01_mst_multi", "Fs.Closed.C01_mst_multiRouter", "Fs.Closed.raster_C01_mst_multi", "Fs.Closed.mesh_C01_mst_multi", "Fs.Closed.profile_C01_mst_multi", "Fs.Closed.basic_multi_pit", "Fs.Closed.basic_multi_rows", "Fs.Shapes.source_shape_C01", 'Fs.C01.C01_pflood_singleRouter', 'Fs.C01.C01_pflood_multiRouter', 'Fs.ImplCheck.checkFlow_sound', 'Fs.ImplCheck.checkFlow_paths', 'Fs.Closed.raster_C01_pflood_single', 'Fs.Closed.raster_C01_pflood_multi', 'Fs.Closed.raster_C01_mst', 'Fs.C01Mst.resolve_c01_singleRouter', 'Fs.C01Mst.resolve_c01_kruskal_sorted', 'Fs.C01Mst.resolve_c01_tree', 'Fs.C01Mst.resolve_c01_connected',
                   'Fs.C01Mst.routeCarve_spec', 'Fs.C01Mst.routeBasic_spec', 'Fs.C01Mst.rerouted_forest', 'Fs.C01Mst.rerouted_base', 'Fs.C01Mst.orient_spec', 'Fs.C01Mst.orient_reached_iff', 'Fs.C01Mst.kruskal_keeps_virtual', 'Fs.C01.pflood_terminates', 'Fs.pflood_parent', 'Fs.pflood_complete', 'Fs.step_wf', 'Fs.Tilt.tilt_descends'], gen=gen_resolved, oracles=[oracle.c01], cause=oracle.c01_cause,
         model_certs={"cert_mst": ("1", "spanning_tree_certificate", "the Lean checker certOk (Fs.C15.certOk_sound) rejects the raw spanning tree used by this resolver run as a minimum-weight spanning forest that keeps the virtual root edges (the tree facts assumed by Fs.C01Mst.resolve_c01_tree)"),
                      "cert_c01": ("1", "reaches_base", "the Lean checker checkFlow (soundness: Fs.ImplCheck.checkFlow_sound / checkFlow_paths) rejects the receivers and elevation REPORTED BY THE IMPLEMENTATION: a terminal node drains, a step is not strictly descending to an unmasked (neighbour) node, or a node connected to a base level is a pit")},
         sections={"elev", "update"} | GRAPH_SECTIONS, nontrivial=raised_or_rerouted, tags=tags_flow,
         rule="random grids (raster 3 connectivities/border mixes, profile, mesh) x elevation families (ties, plateaus, zero, subnormal, huge, nested cones) x masks x base-level sets x six resolver variants [+ multi router]; non-trivial = at least one node was raised by the resolver",
         trusted_base=FLOW_TB)
register("C02", lean_modules=["FsModel.SpillCheck", "FsProofs.Properties.SpillCheck", "FsProofs.Properties.C02MstBasicExample", "FsProofs.Properties.ClosedBasic", "FsProofs.Properties.ShapesC02", "FsProofs.Properties.ClosedMore", "FsModel.PFlood", "FsProofs.Properties.C02", "FsProofs.Properties.C02MstRouter", "FsProofs.Properties.C02MstExample", "FsProofs.Properties.C02MstUpperExample", "FsProofs.Properties.Closed"],
         theorems=["Fs.ImplCheck.checkC02_sound", "Fs.ImplCheck.checkC02_sound'", "Fs.ImplCheck.stable_optimal", "Fs.ImplCheck.witnessed_table", "Fs.ImplCheck.nbSymOk_sound", "Fs.C02Mst.resolve_ge_spill_basic", "Fs.C02Mst.resolve_ge_spill", "Fs.C02Mst.resolve_c02_spill_singleRouter", "Fs.C02Mst.resolve_c02_spill_level_singleRouter_any", "Fs.C02Mst.basic_spill_abstract", "Fs.Closed.raster_C02_mst_spill_level_any", "Fs.Closed.mesh_C02_mst_spill_level_any", "Fs.Closed.profile_C02_mst_spill_level_any", "Fs.Shapes.source_shape_C02", "Fs.Closed.raster_C02_pflood", "Fs.Closed.raster_C02_mst_upper", "Fs.Closed.raster_C02_mst_spill_level", "Fs.Closed.mesh_C02_mst_upper", "Fs.Closed.sf_ubLaws", "Fs.C02Mst.resolve_c02_upper_singleRouter", "Fs.C02Mst.resolve_c02_spill_level_singleRouter", "Fs.C02Mst.resolve_le_spill", "Fs.C02Mst.low_of_path", "Fs.C02Mst.resolve_newpath_bounded", "Fs.C02Mst.resolve_c02_singleRouter", "Fs.C02Mst.resolve_ge_input", "Fs.C02Mst.resolve_fixed", "Fs.C02Mst.resolve_fixed_above", "Fs.C02Mst.resolve_exact_shape", "Fs.C02Mst.resolve_chain", "Fs.C02Mst.resolve_ge_spill_carve", "Fs.C02Mst.tilt_shape", "Fs.Closed.raster_C02_mst",
                   "Fs.C02.pflood_ge_input", "Fs.C02.pflood_fixed", "Fs.C02.pflood_ge_spill", "Fs.C02.pflood_le_spill", "Fs.C02.run_erase", "Fs.C02.ubInit_erase", "Fs.C02.ubInit_inv", "Fs.pflood_parent", "Fs.pflood_complete"], gen=gen_resolved, oracles=[oracle.c02], sections={"elev"}, nontrivial=raised_or_rerouted, tags=tags_flow,
         model_certs={"cert_c02": ("1", "spill_level_certificate", "the Lean checker checkC02 (soundness: Fs.ImplCheck.checkC02_sound') rejects the elevation RETURNED BY THE IMPLEMENTATION: below the input somewhere, changed at a base-level or masked node, below the spill level (minimax over unmasked-neighbour paths from unmasked base levels, computed by relaxation and accepted only if stable), or more than k increments above it (k = n + 2 after the flood, n after the spanning-tree resolver)"),
                      "cert_mst": ("1", "spanning_tree_certificate", "the Lean checker certOk (Fs.C15.certOk_sound) rejects the raw spanning tree used by this resolver run as a minimum-weight spanning forest that keeps the virtual root edges (the tree facts assumed by Fs.C02Mst.resolve_le_of_low)")},
         rule="same scenario family as C01; oracle = independent Bellman minimax spill level; non-trivial = some node raised",
         trusted_base=FLOW_TB)
register("C03", lean_modules=["FsProofs.Properties.ClosedC03", "FsProofs.Properties.ShapesC03", "FsProofs.Properties.C03", "FsProofs.Properties.C03Cons", "FsProofs.Properties.C03E2E", "FsProofs.Properties.Closed"], theorems=["Fs.Closed.grid_C03_resolve", "Fs.Closed.resolve_rweight", "Fs.Shapes.source_shape_C03", "Fs.C03.multi_accumulate_recurrence", "Fs.C03.multi_accumulate_conservation", "Fs.C03.multi_accumulate_nonneg", "Fs.C03.single_accumulate_recurrence", "Fs.C03.single_accumulate_conservation", "Fs.C03.single_accumulate_nonneg", "Fs.Closed.raster_C03_multi_conservation", "Fs.Closed.raster_C03_single_conservation", "Fs.C03.accumulate_recurrence", "Fs.C03.sweep_recurrence", "Fs.C03.accStep_get", "Fs.C03.contrib_nonneg", "Fs.C03.sweep_conservation", "Fs.C03.accumulate_conservation"],
         gen=lambda r, t: gen_any_ops(r, t, acc=True), oracles=[oracle.c03, oracle.c03_areas, oracle.c18], sections={"acc", "acc_overloads_agree", "area"},
         nontrivial=has_pits_or_multi, tags=tags_flow,
         rule="routed graphs of all operator families x scalar/array sources (negative values included); exact-rational recurrence and conservation on the implementation's doubles; non-trivial = graph has a confluence or multiple receivers",
         trusted_base=FLOW_TB + ["accumulation theorems are over exact arithmetic (commutative ring); rounding is covered only by the bit-exact correspondence and the rational oracle with an error bound"])
register("C04", lean_modules=["FsProofs.Properties.ShapesC04", 'FsModel.Router', 'FsProofs.Properties.C04', 'FsProofs.Properties.Closed'], theorems=["Fs.Shapes.source_shape_C04", 'Fs.Closed.raster_C04', 'Fs.Closed.raster_hlow', 'Fs.Closed.rasterTopo_ok', 'Fs.Router.route_spec', 'Fs.C04.rows', 'Fs.C04.terminal_row', 'Fs.C04.routed_row', 'Fs.C04.recv_lower'], gen=gen_single, oracles=[oracle.c04], sections={"recv", "rdist", "rweight", "rcount"}, nontrivial=has_pits_or_multi, tags=tags_flow,
         rule="single router (sequential and parallel), raw and flooded fields; non-trivial = at least two nodes share a receiver", trusted_base=FLOW_TB)
register("C05", lean_modules=["FsProofs.Properties.ShapesC05", "FsProofs.Properties.C05", "FsProofs.Properties.C03E2E"], theorems=["Fs.Shapes.source_shape_C05", "Fs.C05.multiRouter_weights", "Fs.C05.multiRouter_weights_terminal", "Fs.C05.multiRouter_row_cases", "Fs.C05.terminal_row", "Fs.C05.pit_row", "Fs.C05.receivers_row", "Fs.C05.weights_spec", "Fs.C05.foldl_max_spec"],
         gen=gen_multi, oracles=[oracle.c05], cause=oracle.c05_cause, sections={"recv", "rdist", "rweight", "rcount"},
         nontrivial=has_pits_or_multi, tags=tags_flow,
         rule="multi router x exponents {0, .5, 1, 1.1, 2, 8}, exponent changed between updates, flooded fields; non-trivial = some node has several receivers",
         trusted_base=FLOW_TB + ["weights theorem is over an ordered field with an abstract pow satisfying pow 1 = 1, 0 <= pow x"])
register("C06", lean_modules=["FsProofs.Properties.ClosedC06", "FsProofs.Properties.ShapesC06", 'FsModel.Donors', 'FsModel.Dfs', 'FsProofs.DfsPerm', 'FsModel.Bfs', 'FsProofs.Properties.C06', 'FsProofs.Properties.C06Bfs', 'FsProofs.Properties.C06Kahn', 'FsProofs.Properties.C06Graphs', 'FsProofs.Properties.ImplCheck', 'FsProofs.Properties.Closed'],
         theorems=["Fs.C06.resolve_C06_singleRouter", "Fs.C06.resolve_bfs_eq", "Fs.Closed.raster_C06_resolve", "Fs.Closed.mesh_C06_resolve", "Fs.Closed.profile_C06_resolve", "Fs.Shapes.source_shape_C06", 'Fs.Closed.raster_C06_single', 'Fs.Closed.raster_C06_multi', 'Fs.ImplCheck.checkC06_sound', 'Fs.ImplCheck.checkDfs_iff', 'Fs.ImplCheck.checkBfs_iff', 'Fs.C06.single_donors_inverse', 'Fs.C06.single_dfs', 'Fs.C06.singleRouter_bfs', 'Fs.C06.multi_donors_inverse', 'Fs.C06.multi_dfs', 'Fs.C06.multi_bfs',
                   'Fs.C06.mem_donors', 'Fs.C06.mem_donors_ne', 'Fs.C06.donors_nodup', 'Fs.C06.dfs_perm', 'Fs.C06.dfs_recv_before', 'Fs.C06.single_bfs', 'Fs.C06.bfs_levels_spec', 'Fs.C06.kahn_spec',
                   'Fs.C06.singleRouter_graph', 'Fs.C06.multi_kdag', 'Fs.C06.multi_dag',
                   'Fs.Donors.mem_donors', 'Fs.Donors.donors_nodup', 'Fs.Dfs.dfs_recv_before', 'Fs.Dfs.dfs_perm', 'Fs.Bfs.next_level_receivers'], gen=lambda r, t: gen_any_ops(r, t), oracles=[oracle.c06], sections={"dcount", "donors", "dfs", "bfs", "levels", "rcount", "recv"},
         model_certs={"cert_c06": ("1", "tables_certificate", "the Lean checker checkC06 (soundness: Fs.ImplCheck.checkC06_sound) rejects the donors / bottom-up order / breadth-first levels REPORTED BY THE IMPLEMENTATION")},
         nontrivial=has_pits_or_multi, tags=tags_flow,
         rule="all operator families incl. spanning-tree re-routing, masks, repeated updates on one object; snapshots' tables checked too", trusted_base=FLOW_TB)
register("C19", lean_modules=["FsProofs.Properties.ClosedPfloodPipeline", "FsProofs.Properties.ClosedC19Resolve", "FsProofs.Properties.ShapesC19", "FsProofs.Properties.ClosedMore", 'FsModel.Basins', 'FsProofs.Properties.C19', 'FsProofs.Properties.ImplCheck'], theorems=["Fs.Closed.grid_C19_pflood", "Fs.Closed.raster_C19_pflood", "Fs.Closed.mesh_C19_pflood", "Fs.Closed.profile_C19_pflood", "Fs.Closed.grid_C19_resolve", "Fs.Closed.grid_resolve_mask_closed", "Fs.Closed.raster_C19_resolve", "Fs.Closed.mesh_C19_resolve", "Fs.Closed.profile_C19_resolve", "Fs.Shapes.source_shape_C19", "Fs.Closed.raster_C19_basins", "Fs.Closed.mesh_C19_basins", "Fs.Closed.profile_C19_basins", 'Fs.C19.basins_spec', 'Fs.ImplCheck.checkBasins_sound', 'Fs.ImplCheck.checkBasins_drain', 'Fs.C19.run_blocks', 'Fs.Basins.run_block', 'Fs.Basins.block_labels_agree'], gen=lambda r, t: gen_any_ops(r, t, basins=True), oracles=[oracle.c19], sections={"basins", "outlets", "pits"},
         model_certs={"cert_c19": ("1", "basins_certificate", "the Lean checker checkBasins (soundness: Fs.ImplCheck.checkBasins_sound) rejects the labels / outlets / pits REPORTED BY THE IMPLEMENTATION")},
         nontrivial=has_pits_or_multi, tags=tags_flow,
         rule="basins/outlets/pits after every single-direction sequence, masks, carve/basic re-routing, repeated calls", trusted_base=FLOW_TB)


# ----------------------------------------------------------------------------- grids

def grid_queries(rng, g, full=True):
    n = g.n
    qs = []
    kinds = ["c", "i", "ib", "d", "s", "so"]
    for i in range(n):
        for k in kinds:
            if full or rng.random() < 0.5:
                qs.append("q %s %d" % (k, i))
        if g.kind == "raster":
            for k in ("rc", "rs", "rso", "code"):
                if full or rng.random() < 0.5:
                    qs.append("qr %s %d" % (k, i))
    rng.shuffle(qs)
    # repeat some queries later (cache hit after other nodes were visited)
    qs += [rng.choice(qs) for _ in range(min(10, len(qs)))]
    return qs


def malformed_grid(rng):
    """inadmissible constructions: asymmetric loops, looped / out-of-range overrides"""
    r = rng.random()
    if r < 0.5:
        g = gen.raster(rng, 2, 5, ov_prob=0.0)
        k = rng.random()
        if k < 0.35:
            side = rng.randrange(4)
            g.borders = [x if x != "l" else "c" for x in g.borders]
            g.borders[side] = "l"
        elif k < 0.6:
            g.ov = [(rng.randrange(g.rows), rng.randrange(g.cols), "l")]
        elif k < 0.8:
            g.ov = [(g.rows + rng.randint(0, 2), rng.randrange(g.cols), "v")] if rng.random() < 0.5 else [(rng.randrange(g.rows), g.cols + rng.randint(0, 2), "g")]
        else:
            g.borders = ["l", "l", rng.choice("cvg"), rng.choice("cvg")]
            g.ov = [(rng.randrange(g.rows), rng.choice([0, g.cols - 1]), "v")]
        return g
    g = gen.profile(rng, 2, 8, ov_prob=0.0)
    k = rng.random()
    if k < 0.35:
        g.borders = ["l", rng.choice("cvg")] if rng.random() < 0.5 else [rng.choice("cvg"), "l"]
        g.ov = []
    elif k < 0.6:
        g.ov = [(rng.randrange(g.size), "l")]
    elif k < 0.8:
        g.ov = [(g.size + rng.randint(0, 3), "v")]
    else:
        g.borders = ["l", "l"]
        g.ov = [(rng.choice([0, g.size - 1]), "v")]
    return g


def gen_grids(rng, tier):
    out = []
    N = counts(tier, 160, 1500)
    for k in range(N):
        r = rng.random()
        if r < 0.15:
            g = malformed_grid(rng)
        elif r < 0.8:
            g = gen.raster(rng, 2, 5 if tier == "quick" else 8)
            if rng.random() < 0.3 and not getattr(g, "length", None):
                # "for every spacing": tiny, huge, strongly anisotropic and nearly-square cells (a
                # diagonal shortcut for `|dx - dy| <= 1e-6` is right for every ordinary spacing)
                g.dy, g.dx = rng.choice([(1e-6, 1.5e-6), (4e-7, 1e-7), (1e7, 2.5e6), (1000.0, 1.0), (1.0, 1.0 + 1e-7),
                                         (3e-9, 3e-9), (1.0, 1e-3), (2.5e5, 2.5e5 + 0.5)])
        else:
            g = gen.profile(rng, 2, 12 if tier == "quick" else 30)
            if rng.random() < 0.2 and not getattr(g, "length", None):
                g.dx = rng.choice([1e-6, 1e7, 3e-9])
        lines = [g.line(), "grid_common"]
        lines += grid_queries(rng, g, full=(g.n <= 30))
        for w in ["all", "c", "v", "g", "l"]:
            for d in ("fwd", "rev"):
                lines.append("iter %s %s" % (w, d))
        lines.append("graph single")
        out.append(("g%d" % k, lines))
    # thin rasters looped along an axis of more than 128 nodes: the wrap-around offsets no longer fit
    # in 8 bits
    for k, (rows, cols, bs) in enumerate([(130, 2, ["v", "c", "l", "l"]), (2, 131, ["l", "l", "v", "c"]), (129, 3, ["l", "l", "l", "l"])]):
        g = gen.Grid("raster", rows=rows, cols=cols, dy=1.0, dx=2.0, conn=gen.CONNS[k % 3], borders=bs, cache=bool(k % 2), ov=[])
        lines = [g.line(), "grid_common"] + grid_queries(rng, g, full=False)[:400] + ["graph single"]
        out.append(("gthin%d" % k, lines))
    return out


def gen_grids_exhaustive(rng, tier):
    """all 4^4 border mixes x shapes for rasters, 4^2 for profiles (thorough tier of C17 and
    the search set of C07)"""
    out = []
    k = 0
    shapes = [(2, 2), (2, 3), (3, 2), (3, 3)] + ([(4, 3), (3, 5), (5, 5), (2, 5)] if tier == "thorough" else [])
    for (rows, cols) in shapes:
        for l in "cvgl":
            for r in "cvgl":
                for t in "cvgl":
                    for b in "cvgl":
                        conn = gen.CONNS[k % 3]
                        g = gen.Grid("raster", rows=rows, cols=cols, dy=1.0, dx=2.0 if k % 2 else 1.0, conn=conn,
                                     borders=[l, r, t, b], cache=bool(k % 2), ov=[])
                        lines = [g.line(), "grid_common"] + grid_queries(rng, g, full=(rows * cols <= 9))
                        for w in ["all", "c", "v", "g", "l"]:
                            lines.append("iter %s %s" % (w, "fwd" if k % 2 else "rev"))
                        out.append(("x%d" % k, lines))
                        k += 1
    for n in range(2, 7):
        for l in "cvgl":
            for r in "cvgl":
                g = gen.Grid("profile", size=n, dx=1.0, borders=[l, r], cache=bool(k % 2), ov=[])
                lines = [g.line(), "grid_common"] + grid_queries(rng, g, full=True)
                for w in ["all", "c", "v", "g", "l"]:
                    lines.append("iter %s fwd" % w)
                    lines.append("iter %s rev" % w)
                out.append(("x%d" % k, lines))
                k += 1
    return out


def grid_nontrivial(si):
    return bool(si.calls) and si.calls[0].O.get("grid") == ["ok"] and any(c.cmd in ("q", "iter") for c in si.calls)


def tags_grid(si):
    t = si.calls[0].toks if si.calls else []
    tags = []
    if len(t) > 1:
        tags.append("grid:" + t[1])
        if t[1] == "raster":
            tags.append("conn:" + t[6])
            if "l" in t[7:11]:
                tags.append("looped")
            tags.append("cache:" + t[11])
        if any(x.startswith("len=") for x in t):
            tags.append("from_length")
    if si.calls and si.calls[0].O.get("grid", [""])[0] == "err":
        tags.append("rejected")
    return tags


GRID_SECTIONS = {"grid", "spacing", "length", "shape", "status_views_agree", "size", "nmax", "status", "area", "area_views_agree", "q", "qr", "iter", "base", "topo_model_agrees"}
GRID_TB = ["tables of the grid model are regenerated from raster_grid.hpp / profile_grid.hpp / base.hpp by translate.py on every run",
           "xtensor view assignment semantics of set_nodes_status modelled by hand (tied by exhaustive border-mix correspondence)"]

register("C07", lean_modules=["FsProofs.Properties.ShapesC07", "FsModel.U64", "FsProofs.Properties.C07", "FsProofs.Properties.C07Sym", "FsProofs.Properties.ClosedMesh"],
         theorems=["Fs.Shapes.source_shape_C07", "Fs.Closed.rasterTopo_ok", "Fs.Closed.rasterTopo_hsym", "Fs.Closed.profile_topoOk", "Fs.Closed.profile_C06_single", "Fs.Closed.profile_C01_pflood_single",
                   "Fs.C07.rasterNbIdx_range", "Fs.C07.rasterNbIdx_length", "Fs.C07.rasterNbIdx_count_symm", "Fs.C07.rasterNbIdx_mem_symm", "Fs.C07.rasterNbIdx_not_self",
                   "Fs.C07.rasterNbDist_length", "Fs.C07.rasterNbDist_eq_geom", "Fs.C07.stepDist_exact", "Fs.C07.stepDist_field", "Fs.C07.rasterNb_dist_symm", "Fs.C07.rasterNb_weighted_symm",
                   "Fs.C07.profileNbIdx_range", "Fs.C07.profileNbIdx_count_symm", "Fs.C07.profileNbIdx_not_self", "Fs.C07.offs_neg_perm",
                   "Fs.C07.rasterNbIdx_eq_geom", "Fs.C07.codeOffsets_eq_geom", "Fs.C07.count_eq_length", "Fs.C07.count_table_spec",
                   "Fs.C07.codedTuples_spec", "Fs.C07.offs_valid", "Fs.C07.axis", "Fs.C07.geomOffsets_in_grid",
                   "Fs.C07.profileNbIdx_eq_geom", "Fs.C07.profileCount_spec", "Fs.nbIndex_toNat"], gen=lambda r, t: gen_grids(r, t) + (gen_grids_exhaustive(r, t) if t == "thorough" else []), oracles=[oracle.c07],
         sections=GRID_SECTIONS, nontrivial=grid_nontrivial, tags=tags_grid,
         rule="random rasters/profiles (3 connectivities, border mixes incl. looped, size-2 looped axes, anisotropic spacing, cache on/off), every accessor for every node in shuffled order with repeats; thorough adds all 4^4 border mixes x shapes; non-trivial = grid accepted and queried",
         trusted_base=GRID_TB)
register("C17", lean_modules=["FsProofs.Properties.C17Mesh", "FsProofs.Properties.ShapesC17", 'FsModel.Iter', 'FsProofs.Properties.C17'], theorems=["Fs.C17Mesh.meshStatusMap_ok_iff", "Fs.C17Mesh.meshStatusMap_error_kind", "Fs.C17Mesh.meshStatusMap_ok", "Fs.C17Mesh.meshStatusMap_ok_distinct", "Fs.C17Mesh.meshStatusArr_spec", "Fs.Shapes.source_shape_C17", 'Fs.C17.prio_order', 'Fs.C17.paint_spec', 'Fs.C17.rasterStatus_ok_iff', 'Fs.C17.rasterStatus_error_iff', 'Fs.C17.rasterStatus_error_kind', 'Fs.C17.rasterStatus_ok', 'Fs.C17.rasterStatus_ok_distinct', 'Fs.C17.profileStatus_ok_iff', 'Fs.C17.profileStatus_error_iff', 'Fs.C17.profileStatus_ok', 'Fs.C17.sortKeys_perm', 'Fs.C17.iterFwd_eq', 'Fs.C17.iterRev_eq', 'Fs.Iter.skipFwd_stop'], gen=lambda r, t: gen_grids(r, t) + gen_grids_exhaustive(r, t) + gen_mesh_strip_oracle_only(r), oracles=[oracle.c17, oracle.c17_mesh],
         sections={"grid", "status", "iter", "base", "size"}, nontrivial=lambda si: True, tags=tags_grid,
         rule="all 4^4 raster / 4^2 profile border mixes on small shapes (exhaustive) + random grids with override maps + malformed stream (asymmetric loops, looped/out-of-range overrides); + an oracle-only strip mesh of 90 000 nodes with exchanged boundary labels (mesh status = fixed value exactly on the edges of one triangle, judged by an integer-only oracle); status array, iteration in both directions for every filter, default base levels",
         trusted_base=GRID_TB)


# ----------------------------------------------------------------------------- C08

def gen_c08(rng, tier):
    out = []
    frac = 0.35 if tier == "quick" else 1.0
    for pid in ("C01", "C03", "C05", "C07", "C19"):
        sc = PROPS[pid]["gen"](rng, tier)
        rng.shuffle(sc)
        # the size-boundary scenarios (thin looped rasters, grids of more than 256 nodes) always run
        special = [s for s in sc if s[0].startswith(("gthin", "md"))]
        rest = [s for s in sc if not s[0].startswith(("gthin", "md"))]
        for sid, lines in special + rest[: max(20, int(len(rest) * frac))]:
            out.append((pid + "_" + sid, lines))
    for extra in EXTRA_C08_GENS:
        out += extra(rng, tier)
    return out


EXTRA_C08_GENS = []


def gen_c08_kernels(rng, tier):
    """kernels applied in parallel on small graphs under ASan: the node-index tables, the level
    offsets and the block partition (many threads, small ranges, minimum block sizes that force the
    block count to be recomputed) must stay inside their tables"""
    out = []
    for k in range(counts_fixed(tier, 40, 300)):
        r = rng.random()
        if r < 0.5:
            g = gen.raster(rng, 2, 6, cache=rng.random() < 0.5)
        elif r < 0.8:
            g = gen.profile(rng, 2, 24, cache=rng.random() < 0.5)
        else:
            g = gen.mesh(rng, 2, 5)
        fam = rng.choice([["single"], ["pflood", "single"], ["single", "mst:k:carve"], ["single", "multi:" + hx(1.0)]])
        body = []
        for u in range(rng.randint(1, 2)):
            body.append("update " + gen.hexes(gen.elevation(rng, g)))
            for d in ("any", "bfs", "dfs"):
                for _ in range(3):
                    body.append("kernel %s %d %d %d" % (d, rng.choice([2, 3, 5, 6, 7, 8, 12, 16]), rng.choice([0, 1, 2, 3, 4, 5, 7]),
                                                        rng.choice([0, 1, 2, 1000])))
        out.append(("k%d" % k, [g.line(), "graph " + " ".join(fam)] + body))
    return out


EXTRA_C08_GENS.append(gen_c08_kernels)


def c08_runner(P, exe, model_ok, rng, tier, replay=None):
    res = generic_runner(P, exe, model_ok, rng, tier, replay)
    seen = {}
    for r in res["san"]:
        key = (r["kind"], r["where"])
        if key in seen:
            continue
        seen[key] = r
        sid = r.get("scn")
        res["fails"].append(dict(clause="sanitizer", cause=r["where"], witness="%s at %s (scenario %s)" % (r["kind"], r["where"], sid),
                                 scenario_text=(res["text_of"].get(sid, "") if sid else "") + "\n# report:\n# " + r["text"][:1500].replace("\n", "\n# ")))
    res["coverage"]["distinct_sanitizer_signatures"] = ["%s @ %s" % k for k in seen]
    return res


register("C08", lean_modules=["FsProofs.Properties.ShapesC08", 'FsModel.Iter', 'FsProofs.Properties.C08', 'FsProofs.Properties.C07Sym', 'FsProofs.Properties.Closed'],
         theorems=["Fs.Shapes.source_shape_C08", 'Fs.Iter.skipFwd_log_in_range', 'Fs.Closed.raster_C08_fits', 'Fs.C08.multi_fits', 'Fs.C08.single_fits', 'Fs.C08.multi_recv_row', 'Fs.C08.multi_donors_row', 'Fs.C08.single_donors_row', 'Fs.C08.multi_orders', 'Fs.C08.single_orders',
                   'Fs.C08.levelOffsets_fit', 'Fs.C08.accumulate_no_write_outside', 'Fs.C08.basins_no_write_outside', 'Fs.C08.accumulate_frame', 'Fs.C08.basins_frame',
                   'Fs.C07.rasterNbIdx_range', 'Fs.C07.rasterNbIdx_length', 'Fs.C07.rasterNbIdx_count_symm'], gen=gen_c08, runner=c08_runner, oracles=[], sections=None, nontrivial=lambda si: True, tags=tags_flow, level="proof",
         rule="scenario sets of the other properties' generators (grids incl. malformed, all operator families, accumulate, basins, eroders) executed under ASan+UBSan with _GLIBCXX_ASSERTIONS and asserts enabled; every distinct (kind, file:line) report is a failure; index-logic theorems cover all sizes",
         trusted_base=["sanitizers see only executed paths; signed overflow / lifetime errors are covered by sampled sanitizer runs only",
                       "the index-safety theorems speak about the model's access logs, tied to the code by the translator (conjunct order, table widths) and correspondence"])


# ----------------------------------------------------------------------------- C09

def gen_histories(rng, tier):
    out = []
    for k in range(counts(tier, 200, 2000)):
        g = gen.any_grid(rng, small=(tier == "quick"))
        r = rng.random()
        if r < 0.55:
            ops = gen.resolver_ops(rng)
        elif r < 0.7:
            ops = ["single"]
        elif r < 0.85:
            ops = ["multi:" + hx(rng.choice([0.0, 1.0, 1.1, 2.0]))]
        else:
            ops = ["pflood", "single", "snap:a:g", "multi:" + hx(1.0)]
        single_final = not any(o.startswith("multi") for o in ops)
        lines = [g.line(), "graph " + " ".join(ops)]
        nhist = rng.randint(1, 4 if tier == "quick" else 8)
        ops_now = list(ops)
        for _ in range(nhist):
            c = rng.random()
            if c < 0.3:
                lines.append("set_mask " + " ".join(map(str, gen.mask_bits(rng, g))))
            elif c < 0.55:
                # small sets, and large ones that make the hash set grow (rehash)
                b = rng.sample(range(g.n), rng.randint(1, min(g.n, rng.choice([1, 2, 3, 9, g.n, g.n]))))
                lines.append("set_base " + " ".join(map(str, b)))
            elif c < 0.65:
                idx = [i for i, o in enumerate(ops_now) if o.startswith("multi")]
                if idx:
                    p = hx(rng.choice([0.0, 0.5, 1.0, 2.0]))
                    lines.append("set_param %d %s" % (idx[0], p))
                    ops_now[idx[0]] = "multi:" + p
                    continue
            elif c < 0.75 and single_final and any(l.startswith("update") for l in lines):
                lines.append("basins")
                continue
            lines.append("update " + gen.hexes(gen.elevation(rng, g)))
            if rng.random() < 0.25:
                # the caller keeps the returned reference and passes it back, possibly after changing
                # an operator parameter: the call must be recomputed with what is in force now
                idx = [i for i, o in enumerate(ops_now) if o.startswith("multi")]
                if idx and rng.random() < 0.6:
                    p = hx(rng.choice([0.0, 0.5, 1.0, 2.0, 4.0]))
                    lines.append("set_param %d %s" % (idx[0], p))
                    ops_now[idx[0]] = "multi:" + p
                lines.append("update_again")
            if rng.random() < 0.3:
                lines.append("acc s " + hx(1.0))
        # final inputs
        fam = rng.choice(["ints", "ints", "zero", "steps", "random", "plateau_eps", "ints2"])
        z = gen.elevation(rng, g, fam)
        mask = gen.mask_bits(rng, g)
        base = None
        st_ = gen.status_of(g)
        restore_default = st_ is not None and rng.random() < 0.4 and "v" in st_
        if restore_default:
            pass
        elif rng.random() < 0.7:
            # base levels changed and then restored (or set explicitly)
            st = [i for i in range(g.n)]
            base = rng.sample(st, min(g.n, rng.choice([2, 4, 8, 14, 20, 30, max(1, g.n // 2), g.n])))
        final = ["set_mask " + " ".join(map(str, mask))]
        if base is not None:
            final.append("set_base " + " ".join(map(str, base)))
        final.append("update " + gen.hexes(z))
        tailc = ["acc a " + gen.hexes([rng.random() for _ in z])]
        if single_final:
            tailc.append("basins")
        if restore_default:
            # the used object gets its default base levels back explicitly; the fresh one
            # simply keeps the defaults it was constructed with
            dflt = [i for i, x in enumerate(st_) if x == "v"]
            if rng.random() < 0.5:
                rng.shuffle(dflt)
            lines.append("set_base " + " ".join(map(str, dflt)))
        elif base is None:
            # default base levels on both objects: only valid if history never changed them
            lines = [l for l in lines if not l.startswith("set_base")]
        lines += final
        lines += ["update " + gen.hexes(z)] + tailc       # repeated, identical inputs
        lines.append("graph " + " ".join(ops_now))
        lines += final + tailc
        out.append(("h%d" % k, lines))
    return out


register("C09", lean_modules=["FsProofs.Properties.ShapesC15", "FsProofs.Properties.C09", "FsProofs.Properties.C09Pure"], theorems=["Fs.Shapes.source_shape_C15", "Fs.C09.callUpdate_history_free", "Fs.C09.update_eq_fresh", "Fs.C09.runOps_history_free", "Fs.C09.mstHook_pure", "Fs.C09.pfInit_perm", "Fs.C09.pflood_perm", "Fs.C09.pfInit_fields", "Fs.UB.seedQueue_perm"],
         gen=gen_histories, oracles=[oracle.c09], sections=None, nontrivial=raised_or_rerouted, tags=tags_flow,
         rule="one graph object driven through a random history (updates with other fields, masks, base-level sets of different sizes - which rehash the hash set -, exponent changes, accumulate, basins), then final inputs applied twice (repeat) and to a fresh graph on the same grid object; all observable tables, elevation, accumulation and basins compared bit for bit; non-trivial = resolver raised some node",
         trusted_base=FLOW_TB + ["the hash-set iteration order of base levels is handed to the model as an input and is universally quantified in the seed-order theorem"])


# ----------------------------------------------------------------------------- manifest texts
NOT_CLAIMED = {}

_CORR = ("Every run re-checks these theorems (lake build + #print axioms), regenerates the data part of the model AND the statement-level shape facts of the transcribed algorithms from /repo (Fs.Shapes.source_shape_*: decide over facts 'this statement of the source is the one the model transcribes'), "
         "runs the compiled Lean model and the real code (ASan/UBSan build of /repo's working tree) on the same generated scenarios "
         "with bit-exact comparison, and evaluates an independent oracle of the property on the implementation's outputs.")


def _lvl(pid, level, text, technique=None, note=None):
    P = PROPS[pid]
    P["level"] = level
    P["level_text"] = text + " " + _CORR
    if technique:
        P["technique"] = technique
    if note:
        P["level_note"] = note


_lvl("C01", "proof",
     "END-TO-END theorem on the executed composition priority flood + single-direction router (Fs.C01.C01_pflood_singleRouter, any grid size / topology handed over by the grid, any elevations, masks and base-level sets, sequential or multi-threaded router variant; assumptions: strict-weak-order laws of the comparison, x < nextUp x, slope towards a lower neighbour above -DBL_MAX, neighbour lists in range and symmetric, base-level list duplicate-free): (1) base-level and masked nodes are their own receiver, (2) every proper step goes to an unmasked neighbour with strictly lower RETURNED elevation, (3) every node connected through unmasked neighbours to an unmasked base level reaches a base-level node after finitely many receiver steps and stops there, (4) no cycle. It rests on pflood_terminates (potential-function proof that the flood empties both queues within its fuel n+1), pflood_parent / pflood_complete (flood invariants), C04.routed_row (router scan) and C06.singleRouter_graph. Also step_wf (descent => well-founded) and tilt_descends (strict descent after the spanning-tree tilt pass). C01_pflood_multiRouter: the same for flood + multiple-direction router (every proper receiver is an unmasked neighbour with strictly lower returned elevation; a node connected to a base level is never a pit and all its receivers stay connected; 'flows to' is well-founded, no cycle, every path has fewer than n steps; every maximal path from a connected node ends at a base level, and one exists). resolve_c01_singleRouter: the same for the executed SPANNING-TREE resolver (Fs.Mst.resolve with Kruskal, carve or basic) after the single router: base-level and masked nodes stay their own receiver; the re-routed receiver table is again a forest (so the rebuilt donors/orders are valid by C06); every proper step strictly decreases the RETURNED (tilted) elevation; carve never hangs; every unmasked node whose basin is reached from the root - in particular every node connected through unmasked neighbours to an unmasked base level (resolve_c01_connected) - ends at a base-level node. Built from routeCarve_spec (path reversal), routeBasic_spec, the fold over tree edges (rerouted_forest / rerouted_base), orient_spec + orient_reached_iff (the executed orientation returns an arborescence from the root: each reached basin is the head of exactly one edge, depths increase, reached = connected to the root in the tree), kruskal_keeps_virtual, connect_basins (C15) and tilt_descends; extra assumptions: elevations above -DBL_MAX (a real pass at -DBL_MAX would tie with the virtual edges - counterexample in C01MstExample), arrays fit in memory, the weight-sorted permutation check the harness performs. For Boruvka the same conclusions hold under the two tree facts (forest, virtual edges kept) that the model driver CERTIFIES on every resolver run of either method (line cert_mst: certOk on the raw tree + all virtual edges present): resolve_c01_tree. Certificate: on every scenario the model driver runs the Lean checker checkFlow on the receivers and elevation REPORTED BY THE C++ (soundness checkFlow_sound / checkFlow_paths: accepted => terminal nodes self, strict descent to unmasked (neighbour) nodes, no pit among nodes connected to a base level, hence every maximal path ends at a base level). raster_C01_pflood_single / _multi / raster_C01_mst: Closed corollaries (Closed.lean): the topology hypotheses (neighbours in range, row width <= n_neighbors_max, symmetry with multiplicity, positive distances, slope-above-lowest on neighbour slots) are DISCHARGED for the topology `rasterTopo` the executed raster model reports, for every raster with >= 2 nodes per axis and positive spacing over any ordered field - so the statements below hold for every such raster, mask, base-level set and elevation with no hypothesis about the grid left; all their hypotheses are shown satisfiable on a concrete 3x3 instance over Q (non-vacuity). THREE-OPERATOR PIPELINE single router -> spanning-tree resolver -> MULTIPLE-direction router (ClosedC01Pipeline.lean): grid_C01_mst_multi (carve, Kruskal, any grid with EnvOk; raster_/mesh_/profile_ instances, non-vacuity examples): the multi router run on the returned elevations leaves no unmasked node connected to a base level as a pit, all its receivers are strictly lower unmasked neighbours, the resolver's own receiver is among them, no flow path has a cycle, and EVERY maximal flow path from such a node ends at an unmasked base level. For basic the statement is FALSE and the negation is proved on a concrete instance (basic_multi_pit, decide +kernel on the executed model: the pit is drained to a non-neighbour pass node, so the neighbour-based router that runs next leaves it its own receiver) - this is the formal counterpart of the known finding D11 (basic_then_multi), which the check replays on the implementation. PIPELINE pflood -> single router (ClosedPfloodPipeline.lean): grid_pipeline_pflood_single states C01, C06, C03 conservation and C10 for the whole operator sequence with the hypotheses stated once; grid_reach_iff_connBase identifies the flood's reachability with 'connected through unmasked neighbours to an unmasked base level'.",
     "Lean 4 end-to-end theorems on the executed flood+router and spanning-tree resolver (loop invariants, potential-function termination, path-reversal / forest / arborescence proofs, composition) + bit-exact differential correspondence + reachability oracle")
_lvl("C02", "proof",
     "Theorems about the executed priority flood Fs.Flow.pflood (any grid size, any elevations over a linear order with strictly increasing monotone nextUp): pflood_ge_input (never below the input), pflood_fixed (bit-identical at base-level and masked nodes), pflood_ge_spill (every closed node is reached from an unmasked base level by an unmasked-neighbour path whose input elevations never exceed its filled elevation: f >= spill level), pflood_le_spill (for every such path and every bound v on the input along it, f <= v raised by n+2 floating-point increments: f <= spill + (n+2) ulps). They are obtained from the invariant proofs on the ghost-instrumented loop (Fs.UB) through an erasure theorem (run_erase, ubInit_erase: forgetting the ghost counters turns each instrumented step into the executed step). 'closed' = reached by the flood; that all unmasked-connected nodes are closed when the loop exits by itself is pflood_complete. The spanning-tree variants (Kruskal/Boruvka x basic/carve) are modelled statement by statement, compared bit for bit and checked by the independent Bellman minimax oracle (two-sided bound, agreement of all variants); for Kruskal they are also proved: Spanning-tree variants (C02Mst*.lean, Kruskal, carve and basic): resolve_ge_input (never below the input), resolve_fixed / _self / _above (bit-identical at base-level and masked nodes, at every self-receiver, and wherever the node was already above its new receiver's final level: terrain that already drains keeps its elevation), resolve_exact_shape / resolve_chain (every raised node is exactly t floating-point increments above the INPUT elevation of the node t links down its new flow path, t + 1 <= n: 'at most one increment per grid node'), resolve_ge_spill_carve (carve: the new flow path is an unmasked-neighbour path to a base level along which the input never exceeds the node's returned elevation: >= spill level); raster_C02_mst closes them over rasters. UPPER BOUND (C02MstUpper*.lean, Kruskal, carve AND basic): resolve_c02_upper_singleRouter - for every unmasked node y, every unmasked-neighbour path from a base level to y and every bound v on the input elevations along it, the returned elevation is at most v raised by n floating-point increments, i.e. <= (spill level)+n ulps; proof: the new flow path only visits nodes whose input is <= max(f y, passes of the tree edges above y's basin) (newpath_bounded), any neighbour path crosses basin borders at pairs at least as high as the stored lowest passes (connect_basins theorems), hence the basins are joined within weight v in the basin graph and, by the bottleneck property of the Kruskal tree (C15Bottleneck) transported along the proved orientation, every tree edge above y's basin has pass <= v (low_of_path). resolve_c02_spill_level_singleRouter states lower and upper bound together for carve. LOWER BOUND FOR BASIC (C02MstBasic*.lean): resolve_ge_spill_basic - for basic the new receiver path leaves the neighbour relation (the pit jumps to the pass node), so the witness is a different path: [witness of the outflow pass node] ++ inflow pass node ++ [old receiver path down to the pit] ++ [old path from the pit up to y, reversed], all of whose INPUT elevations are <= the returned elevation of y (induction over the depth of the basin in the oriented tree; fold_basic2 records which branch routeBasic took); resolve_ge_spill (both methods), resolve_c02_spill_level_singleRouter_any (lower and upper bound together, carve AND basic) and its closed forms raster_/mesh_/profile_C02_mst_spill_level_any (ClosedBasic.lean) with non-vacuity instances. Left to per-run certificate + oracle + agreement of all variants: Boruvka. VERIFIED CHECKER ON THE IMPLEMENTATION'S OUTPUT (FsModel/SpillCheck.lean, FsProofs/Properties/SpillCheck.lean): at every update with a resolver the compiled model evaluates checkC02 on the elevation the C++ returned (cert_c02): the spill-level table is computed by minimax relaxation and accepted only if it passes a stability test; checkC02_sound' proves that acceptance implies the four clauses in the words of the theorems above (Fs.UB.Path / Bounded / pw) - never below the input, bit-identical at base-level and masked nodes, a witness path with inputs <= z'(y), and z'(y) <= v raised k times for EVERY path with bound v (witnessed_table, stable_optimal); the symmetry of the neighbour lists it needs is decided at run time by nbSymOk.",
     "Lean 4 loop-invariant proofs (ghost-instrumented flood + erasure to the executed definitions) + bit-exact correspondence + independent minimax-spill oracle")
_lvl("C03", "proof",
     "Theorems about the executed definitions Fs.Flow.accStep/accumulate instantiated over an arbitrary field: accStep_get, sweep_recurrence / accumulate_recurrence (for every graph and every sweep order - no node after one of its proper receivers, which C06 proves for the executed orders - every entry equals source*area plus the accumulated values of its donors weighted by their partition fractions; any size, single or multiple receivers), sweep_conservation / accumulate_conservation (if every non-terminal node's weights sum to one and it is not its own receiver - C05 - the sum over terminal nodes equals the source integrated over the grid), contrib_nonneg (non-negative source and weights => value >= local contribution). The Float instance of the same definitions is compared bit for bit with all four C++ overloads (which must agree with each other); rounding is covered by the exact-rational oracle with an error bound. multi_/single_accumulate_recurrence, _conservation, _nonneg (C03E2E.lean): the recurrence, conservation over terminal nodes and the lower bound for non-negative sources hold for the graphs the executed routers build, with only topology hypotheses left; raster_C03_*_conservation: Closed corollaries (Closed.lean): the topology hypotheses (neighbours in range, row width <= n_neighbors_max, symmetry with multiplicity, positive distances, slope-above-lowest on neighbour slots) are DISCHARGED for the topology `rasterTopo` the executed raster model reports, for every raster with >= 2 nodes per axis and positive spacing over any ordered field - so the statements below hold for every such raster, mask, base-level set and elevation with no hypothesis about the grid left; all their hypotheses are shown satisfiable on a concrete 3x3 instance over Q (non-vacuity). AFTER THE SINK RESOLVER (ClosedC03.lean): grid_C03_resolve - recurrence, conservation over the terminal nodes and the lower bound also hold for accumulate on the graph the spanning-tree resolver returns (single router, Kruskal, carve or basic), on every grid with EnvOk (raster, mesh, profile instances via raster_envOk / mesh_envOk / profile_envOk), non-vacuity instances over Q.",
     "Lean 4 induction over the sweep + sum-exchange conservation proof (Mathlib List.sum) on the executed definitions + bit-exact correspondence of the four overloads + exact-rational oracle")
_lvl("C04", "proof",
     "END-TO-END theorems on the executed Fs.Flow.singleRouter (sequential and multi-threaded variant, any topology): rows (each node has exactly one receiver, weight one), terminal_row (base-level and masked nodes are their own receiver at distance zero), routed_row (every other node satisfies RoutedSpec: own receiver exactly when no unmasked neighbour is strictly lower, otherwise an unmasked strictly lower neighbour with its grid distance whose slope no other lower unmasked neighbour exceeds), recv_lower; built on route_spec (fold invariant of the neighbour scan over any strict weak order). Oracle recomputes slopes on the implementation's output. raster_C04: Closed corollaries (Closed.lean): the topology hypotheses (neighbours in range, row width <= n_neighbors_max, symmetry with multiplicity, positive distances, slope-above-lowest on neighbour slots) are DISCHARGED for the topology `rasterTopo` the executed raster model reports, for every raster with >= 2 nodes per axis and positive spacing over any ordered field - so the statements below hold for every such raster, mask, base-level set and elevation with no hypothesis about the grid left; all their hypotheses are shown satisfiable on a concrete 3x3 instance over Q (non-vacuity). The earlier form of the slope hypothesis (quantified over arbitrary distances) was unsatisfiable over a field and has been replaced by HLow / HSlope (neighbour slots only), which raster_hlow proves for every raster.",
     "Lean 4 fold-invariant proof of the router scan lifted to the executed router + bit-exact correspondence + slope oracle")
_lvl("C05", "proof",
     "Theorems about the executed definitions Fs.Flow.multiRow / multiWeights: terminal_row, pit_row, receivers_row (for ANY scalar instance: base-level/masked nodes and nodes without a strictly lower unmasked neighbour are their own single receiver; otherwise the receivers are exactly the unmasked strictly lower neighbours, once per neighbour slot, in neighbour order, with the grid distances), weights_spec (over any linearly ordered field and an abstract pow with pow 1 p = 1 and 0 <= pow x p: for positive slopes the weights are non-negative, sum to one and equal pow(slope/max slope, p) / c for one positive c, i.e. are proportional to slope^p for a multiplicative pow). Positivity of pow for tiny arguments is deliberately not assumed (D3). The Float instance is compared bit for bit; exponent changes between updates and flooded fields are in the generator. multiRouter_weights / multiRouter_row_cases (C03E2E.lean): END-TO-END on the executed multiRouter over an ordered field with positive neighbour distances: a routed node's weights have the length of its receiver row, are non-negative, sum to one and are pow(slope/max slope, p)/c; terminal rows carry weight [0].",
     "Lean 4 proofs on the executed definitions (list lemmas; ordered-field arithmetic with abstract pow) + bit-exact correspondence + exact-rational weight oracle")
_lvl("C06", "proof",
     "END-TO-END theorems on the graphs the executed routers build (any topology in range, any elevations over a strict weak order): single router (both variants): single_donors_inverse (for distinct nodes the donor table is exactly the inverse of the receiver table; donors_nodup), single_dfs (bottom-up order is a permutation of all nodes, every node after its receiver), singleRouter_bfs (breadth-first order is a permutation in non-empty levels, every receiver in a strictly earlier level); the same for ANY graph assembled from a receiver forest (SingleGraph: mem_donors, dfs_perm, dfs_recv_before, single_bfs) - which is how the spanning-tree resolver rebuilds its tables; multi router: multi_donors_inverse (inverse with multiplicity: d is listed among the donors of r once per slot of d's row equal to r), multi_dfs (Kahn-style top-down order reversed: permutation, every node after each of its receivers; kahn_spec), multi_bfs (bfs_levels_spec). Snapshot copies are C16. That the spanning-tree resolver's receiver table is a forest is tied by correspondence + oracle (not proved). Certificate: the model driver runs checkC06 on the donors / dfs / bfs tables REPORTED BY THE C++ at every update (soundness checkC06_sound; checkDfs_iff / checkBfs_iff: the checkers are exact). raster_C06_single / raster_C06_multi: Closed corollaries (Closed.lean): the topology hypotheses (neighbours in range, row width <= n_neighbors_max, symmetry with multiplicity, positive distances, slope-above-lowest on neighbour slots) are DISCHARGED for the topology `rasterTopo` the executed raster model reports, for every raster with >= 2 nodes per axis and positive spacing over any ordered field - so the statements below hold for every such raster, mask, base-level set and elevation with no hypothesis about the grid left; all their hypotheses are shown satisfiable on a concrete 3x3 instance over Q (non-vacuity). AFTER THE SINK RESOLVER (C06Resolve.lean, ClosedC06.lean): the spanning-tree resolver rewrites the receiver table and rebuilds donors and both orders; resolve_C06_singleRouter proves the same three clauses for the graph it returns (Kruskal, carve or basic) - that the rewritten table is still a forest is clause (b) of resolve_c01_singleRouter - and raster_/mesh_/profile_C06_resolve close it over the executed grid topologies with non-vacuity instances.",
     "Lean 4 stack/queue/Kahn-counter invariant proofs, composed with the router theorems, on the executed definitions + bit-exact correspondence + table-consistency oracle")
_lvl("C07", "proof",
     "Theorems about the executed grid model with the tables regenerated from raster_grid.hpp / profile_grid.hpp on every run, for EVERY raster with >= 2 nodes per axis and < 2^63 nodes, every connectivity, loop flags and node: rasterNbIdx_eq_geom (the neighbour indices computed through node code, count table, offset/argument tables and size_t wrap-around arithmetic are exactly the row-major indices of the geometric one-step neighbours - stay inside, wrap only across looped borders, drop otherwise - in the same order), rasterNbIdx_range / rasterNbIdx_length (every neighbour is a node; count accessor = list length <= n_neighbors_max), rasterNbIdx_count_symm / _mem_symm (the relation is symmetric WITH multiplicity - a neighbour met twice across a looped axis of length 2 is met twice from the other side), rasterNbIdx_not_self, rasterNbDist_eq_geom + stepDist_exact / stepDist_field (reported distances are the step length sqrt(dy^2), sqrt(dx^2) or sqrt(dy^2+dx^2) of the geometric offset, in exact arithmetic) and rasterNb_dist_symm (the reverse step has the same distance); the same for the profile grid (profileNbIdx_*); table obligations by decide over the regenerated constants (count_table_spec, codedTuples_spec, offs_valid, offs_neg_perm). Statuses of neighbours, the struct/(row,col) views and cache transparency (cache on/off, shuffled and repeated queries, out-parameter overloads with reused buffers) are tied by the every-accessor correspondence + geometric oracle; rounding of the distances by the bit-exact comparison.",
     "Lean 4 proof over all shapes (axis lemma + omega, negation bijection on offset symbols; decide only over regenerated tables) + translator + every-accessor correspondence + geometric oracle")
_lvl("C08", "proof",
     "The LOGIC part of memory safety is proved on the executed model, the rest is sanitizer execution. Theorems: skipFwd_log_in_range (every status read of the filtered iterator's skip loop is at an index < size when the bounds test precedes the filter; conjunct order regenerated from iterators.hpp each run); multi_fits / single_fits (TablesFit: for every topology whose rows are <= n_neighbors_max wide, in range and symmetric with multiplicity - proved for rasters in C07 - every receiver row of the multi router has 1..nmax entries and every donor row <= nmax; single router: exactly 1 receiver and <= nmax+1 donors (the +1 of the donors table is needed: a pit is its own donor); all indices < n; dfs and bfs have exactly n entries < n, <= n non-empty levels, level offsets are nmax-many+1, start at 0, end at n); accumulate_no_write_outside / basins_no_write_outside / *_frame (the sweeps neither read nor write entries >= n). Everything else (use-after-free, lifetime, signed overflow, scratch vectors of the basin graph, eroders) is the sanitizer build: every scenario family of the other properties runs under ASan+UBSan+_GLIBCXX_ASSERTIONS with asserts enabled; each distinct report is a violation. Partial by nature: Lean proves index logic of the model, not absence of UB in C++. raster_C08_fits: TablesFit for both routers on every raster (the TopoOk hypotheses discharged from C07).",
     "Lean 4 index-range / row-width theorems on the executed model + translator (conjunct order) + ASan/UBSan/libstdc++-assertion execution of all scenario families")
_lvl("C09", "proof",
     "callUpdate_history_free / update_eq_fresh / runOps_history_free (C09Pure.lean): the model's update_routes threads the previous call's graph tables and snapshots into the next call (as the C++ object does), and for every operator sequence the constructor accepts the new graph, elevation, elevation snapshots, every graph snapshot the sequence saves and every printed line are PROVED independent of what the previous calls left - whatever history, same result as on a fresh graph (an unaccepted sequence such as a lone sink resolver would return the left-over graph: example in the file). Beyond that the model's update_routes is a function of (operators with their parameters, topology, mask, base levels, elevation); the only input through which the history of the C++ object can reach it is the iteration order of the hash set of base levels, handed over by the harness as a list. Theorems on the executed definitions: pfInit_perm / pflood_perm - for any two base-level lists that are permutations of each other the flood starts from the same state (queue order included, thanks to the (elevation, index) ordering of the queue) and returns the same elevations, for every grid and elevation field over a linear order; all other operators use the base levels only through membership. Correspondence: random histories on one object vs a fresh object vs the model, every observable bit for bit, input array never written.",
     "Lean 4 permutation-invariance proof on the executed flood initialisation + history-vs-fresh differential testing against the pure model")
_lvl("C17", "proof",
     "Theorems on the executed grid model (constants regenerated from the source): prio_order (fixed value > fixed gradient > looped > core, decide over the regenerated precedences), paint_spec (for every raster with >= 2 nodes per axis: core strictly inside, the border's status on each non-corner border node, at each corner the one of the two meeting statuses with the larger precedence), rasterStatus_ok_iff / _error_iff / _error_kind / rasterStatus_ok / rasterStatus_ok_distinct (construction succeeds iff looped borders are symmetric and no override is out of range, looped, or on a looped node; which error kind the first offending entry yields; otherwise the array is the painted array with the overrides applied and looped appears exactly on the looped borders), the same for the profile grid (profileStatus_*), sortKeys_perm / sorted (std::map order), iterFwd_eq / iterRev_eq (iteration filtered by any predicate yields exactly (range size).filter p, resp. its reverse, for every size and predicate; built on skipFwd_stop). Triangular mesh (C17Mesh.lean, on the executed Fs.MeshGrid.statusMap / statusArr): meshStatusMap_ok_iff (accepted iff no entry is looped or out of range), meshStatusMap_error_kind (the first offending entry decides; looped is tested before the range), meshStatusMap_ok / _ok_distinct (empty map: boundary nodes fixed value, others core; otherwise every node core except the given entries, last entry wins; a mesh never has a looped node), meshStatusArr_spec (array accepted iff its length is the number of nodes, then copied). Default base levels = fixed-value nodes is a definition of the driver. Compared exhaustively over all 4^4 / 4^2 border mixes on small shapes, plus malformed override maps with error kinds, iteration in both directions for every filter.",
     "Lean 4 proofs on the executed status/iteration model (omega, decide over regenerated constants, list induction) + exhaustive border-mix correspondence")
_lvl("C19", "proof",
     "END-TO-END theorem on the executed Fs.Flow.basins over any single-direction graph assembled from a receiver forest (C06.SingleGraph: router output or spanning-tree resolver output) whose unmasked nodes never drain into masked ones (basins_spec): masked nodes get the reserved label; every unmasked node has the label of its receiver; the outlets are exactly the unmasked self-receivers, without duplicates, numbered consecutively from zero in bottom-up order; every unmasked node's label is the index of the outlet it drains to (two unmasked nodes share a label iff they drain to the same outlet; number of distinct labels = number of unmasked outlets); pits = outlets that are not base levels. Built on run_block / block_labels_agree and the block structure of the bottom-up order (dfs_blocks). Certificate: the model driver runs checkBasins on the labels / outlets / pits REPORTED BY THE C++ against the tables it reported at the last update (soundness checkBasins_sound, checkBasins_outlets, checkBasins_drain). AFTER THE SINK RESOLVER (ClosedC19Resolve.lean): grid_resolve_mask_closed (fold invariant over routeBasic / carveLoop: an unmasked node's rewritten receiver is unmasked) and grid_C19_resolve - all clauses of basins_spec for the graph the spanning-tree resolver returns (Kruskal, carve and basic), plus the pay-off of the resolver: (8) no remaining pit is connected through unmasked neighbours to an unmasked base level, (9) if every unmasked node is so connected there is no pit at all; raster_/mesh_/profile_ instances, computed examples (pits [8] before, [] after, both methods; a masked-off region keeps its pit). AFTER THE PRIORITY FLOOD (ClosedPfloodPipeline.lean): grid_C19_pflood - all clauses for the single router's graph on the filled elevation, no remaining pit is reached by the flood / connected to a base level, none at all if every unmasked node is reached, and every reached node carries the label of a base-level outlet; computed examples (pits [8] -> [] on the raster instance, a masked-off region keeps its pit).",
     "Lean 4 fold proofs of the labelling sweep composed with the block structure of the bottom-up order + bit-exact correspondence + partition oracle")


# ----------------------------------------------------------------------------- C20

C20_KINDS = ["single", "single:2", "multi:3ff0000000000000", "pflood", "mst:k:basic", "snap:a:g", "snap:b:e"]


def gen_c20(rng, tier):
    import itertools
    out = []
    grids = [gen.Grid("raster", rows=3, cols=3, dy=1.0, dx=1.0, conn="queen", borders=["v", "v", "v", "v"], cache=True, ov=[]),
             gen.Grid("profile", size=5, dx=1.0, borders=["v", "v"], cache=True, ov=[]),
             gen.Grid("raster", rows=2, cols=4, dy=1.0, dx=2.0, conn="rook", borders=["l", "l", "v", "c"], cache=False, ov=[])]
    gm = gen.mesh(random_mod.Random(5), 3, 3, holes=False)
    k = 0
    for L in range(1, 5):
        for seq in itertools.product(C20_KINDS, repeat=L):
            if tier == "thorough":
                gs = grids + [gm]
            else:
                gs = [grids[k % 3]] if k % 7 else [gm]
            for g in gs:
                z = gen.elevation(rng, g, "ints")
                ops = [("snap:%s%d:%s" % (o[5], j, o[-1])) if o.startswith("snap") else o for j, o in enumerate(seq)]
                lines = [g.line(), "graph " + " ".join(ops), "update " + gen.hexes(z)]
                if rng.random() < 0.2:
                    lines.append("update " + gen.hexes(gen.elevation(rng, g)))
                out.append(("q%d" % k, lines))
                k += 1
    # beyond the exhaustive part: random sequences of 5-8 operators, with several snapshots whose
    # names are drawn from a pool of two (a graph snapshot and an elevation snapshot may share a
    # name: they live in different tables and both are listed as given)
    for j in range(counts(tier, 60, 1500)):
        g = grids[j % 3] if j % 5 else gm
        L = rng.randint(5, 8)
        seq = [rng.choice(C20_KINDS + ["snap:a:g", "snap:b:e"]) for _ in range(L)]
        if rng.random() < 0.7:
            seq[0] = rng.choice(["single", "multi:3ff0000000000000", "snap:b:e", "pflood"])
        ops = []
        for o in seq:
            if o.startswith("snap"):
                ops.append("snap:%s:%s" % (rng.choice(["s0", "s1"]) if rng.random() < 0.6 else "%s%d" % (o[5], len(ops)), o[-1]))
            else:
                ops.append(o)
        lines = [g.line(), "graph " + " ".join(ops), "update " + gen.hexes(gen.elevation(rng, g, "ints"))]
        if rng.random() < 0.3:
            lines.append("update " + gen.hexes(gen.elevation(rng, g)))
        out.append(("ql%d" % j, lines))
    return out


def c20_runner(P, exe, model_ok, rng, tier, replay=None):
    res = generic_runner(P, exe, model_ok, rng, tier, replay)
    res["coverage"]["exhaustive"] = replay is None
    return res


def c20_nontrivial(si):
    return any(c.cmd == "graph" and c.O.get("graph") == ["ok"] for c in si.calls)


import random as random_mod  # noqa: E402

register("C20", gen=gen_c20, runner=c20_runner, oracles=[oracle.c20], nontrivial=c20_nontrivial,
         sections={"graph", "single_flow", "rwidth", "dwidth", "gkeys", "ekeys", "snapmeta", "same_array", "update", "input_unchanged"},
         lean_modules=["FsProofs.Properties.ShapesC20", "FsProofs.Properties.C20"],
         theorems=["Fs.Shapes.source_shape_C20", "Fs.OpSeq.accepts_iff", "Fs.OpSeq.effects", "Fs.OpSeq.fold_accepts_iff", "Fs.Driver.flagsOf_generated", "Fs.Driver.generated_table_examples"],
         tags=lambda si: ["accepted" if c20_nontrivial(si) else "refused"] + tags_flow(si)[:1],
         rule="ALL sequences of length 1..4 over {single, single(2 threads), multi, pflood, mst, graph snapshot, elevation snapshot} (2800), each on a grid (quick: rotating over raster-queen / profile / looped cache-less rook raster / mesh; thorough: on all four), construction + update; plus random sequences of 5-8 operators with several snapshots sharing two names; non-trivial = accepted sequence",
         trusted_base=["operator flag table regenerated from the static constexpr members of the operator classes by translate.py", "acceptance logic (add_operator/update_snapshots/constructor checks) modelled by hand as Fs.OpSeq.add/build and pattern-checked by translate.py; tied by exhaustive correspondence over all sequences <= 4"])
_lvl("C20", "proof",
     "Theorems for operator lists of ANY length and ANY flag table about the function the model executes: accepts_iff (constructible iff every required input direction matches the direction produced before it, every graph snapshot follows a router, and some operator updates the graph and defines a direction), effects (reported direction = last defining operator; single-column iff every defining operator is single; caller's array returned iff no operator edits elevation). Flag table regenerated from the source each run. Correspondence is exhaustive over all 2800 sequences of length <= 4.",
     "Lean 4 induction over operator lists + translator-regenerated flag table + exhaustive correspondence over all sequences <= 4")


# ----------------------------------------------------------------------------- C16

def snap_calls(rng, g, name, single):
    out = []
    if rng.random() < 0.7:
        if rng.random() < 0.5:
            out.append("snapcall %s acc a %s" % (name, gen.hexes([rng.choice([1.0, 0.0, rng.random() * 3]) for _ in range(g.n)])))
        else:
            out.append("snapcall %s acc s %s" % (name, hx(rng.choice([1.0, 2.5]))))
    if single and rng.random() < 0.7:
        out.append("snapcall %s basins" % name)
    return out


def gen_snapshots(rng, tier):
    out = []
    for k in range(counts(tier, 260, 2500)):
        g = gen.any_grid(rng, small=(tier == "quick"))
        # operator sequence with snapshots at random positions
        base_seq = rng.choice([
            ["single"], ["single", "mst"], ["pflood", "single"], ["multi"], ["pflood", "multi"], ["single", "multi"],
            ["single", "mst", "multi"], ["multi", "single"], ["single:2"], ["pflood", "single", "mst"]])
        ops, snaps = [], []
        dirn = None
        for o in base_seq:
            if rng.random() < 0.25:
                # graph snapshots and elevation snapshots have separate key lists: sharing a name is legal
                nm = rng.choice(["s0", "s1"]) if rng.random() < 0.4 else "e%d" % len(ops)
                ops.append("snap:%s:e" % nm)
            if o == "mst":
                o = "mst:%s:%s" % (rng.choice("kb"), rng.choice(["basic", "carve"]))
            elif o == "multi":
                o = "multi:" + hx(rng.choice([0.0, 1.0, 1.1, 2.0]))
            ops.append(o)
            dirn = "single" if (o.startswith("single") or o.startswith("mst")) else ("multi" if o.startswith("multi") else dirn)
            if dirn and rng.random() < 0.7:
                nm = rng.choice(["s0", "s1"]) if rng.random() < 0.4 else "g%d" % len(ops)
                if any(nm == x for x, _ in snaps):
                    nm = "g%d" % len(ops)
                fl = rng.choice(["g", "g", "ge"])
                ops.append("snap:%s:%s" % (nm, fl))
                snaps.append((nm, dirn == "single"))
        if not snaps:
            nm = "g%d" % len(ops)
            ops.append("snap:%s:g" % nm)
            snaps.append((nm, dirn == "single"))
        lines = [g.line(), "graph " + " ".join(ops)]
        for u in range(rng.randint(1, 3)):
            if rng.random() < 0.4:
                lines.append("set_mask " + " ".join(map(str, gen.mask_bits(rng, g))))
            if rng.random() < 0.3:
                lines.append("set_base " + " ".join(map(str, rng.sample(range(g.n), rng.randint(1, min(3, g.n))))))
            lines.append("update " + gen.hexes(gen.elevation(rng, g)))
            for nm, single in snaps:
                lines += snap_calls(rng, g, nm, single)
            if rng.random() < 0.5:
                nm = rng.choice(snaps)[0]
                what = rng.choice(["set_mask", "set_base", "update"])
                if what == "set_mask":
                    lines.append("snapcall %s set_mask %s" % (nm, " ".join(map(str, gen.mask_bits(rng, g)))))
                elif what == "set_base":
                    lines.append("snapcall %s set_base %d" % (nm, rng.randrange(g.n)))
                else:
                    lines.append("snapcall %s update %s" % (nm, gen.hexes(gen.elevation(rng, g))))
                # reading the snapshot again after the refused call
                lines += snap_calls(rng, g, nm, dict(snaps)[nm])
        out.append(("n%d" % k, lines))
    return out


def has_snapshot_tables(si):
    return any(c.cmd == "update" and any(k.startswith("snap:") for k in c.O) for c in si.calls)


register("C16", gen=gen_snapshots, oracles=[oracle.c16], nontrivial=has_snapshot_tables, tags=tags_flow,
         sections={"update", "elev", "acc", "acc_overloads_agree", "basins", "outlets", "pits", "set_mask", "set_base", "snap_update", "snapmeta", "gkeys", "ekeys"} | GRAPH_SECTIONS | {"esnap"},
         lean_modules=["FsProofs.Properties.ShapesC16", "FsProofs.Properties.C16"],
         theorems=["Fs.Shapes.source_shape_C16", "Fs.Driver.snapshot_eq_prefix", "Fs.Driver.snapshot_eq_prefix_multi", "Fs.Driver.snapCopy_single", "Fs.Driver.snapCopy_multi",
                   "Fs.Driver.cover_single", "Fs.Driver.cover_multi", "Fs.Driver.snapMask_faithful", "Fs.Driver.snapBase_faithful",
                   "Fs.Driver.snapshot_transparent", "Fs.Driver.snapshot_mutators_refused", "Fs.Driver.mstHook_frame"],
         rule="operator sequences (10 base families x resolver variants) with graph/elevation snapshots at random positions, 1-3 updates with changing mask/base levels/elevation, accumulate and basins on every snapshot after every update, mutators on snapshot graphs; oracle = separately constructed prefix graph in the real code; non-trivial = snapshot tables were produced",
         trusted_base=FLOW_TB + ["member list copied by flow_snapshot::_save and the read-only guards are regenerated from the source by translate.py"])
_lvl("C16", "proof",
     "Theorems about the update function the model executes, for operator lists of any length: snapshot_eq_prefix (after pre ++ [snapshot nm] ++ post the snapshot holds exactly the _save copy of the graph a run of only pre ends with, plus mask/base levels in force; later operators do not leak), snapCopy_single/multi (with the member list regenerated from flow_snapshot.hpp the copy loses nothing: decide over the generated list + one-receiver-per-node for single direction), snapshot_transparent, snapshot_mutators_refused (guards regenerated). Accumulate/basins on a snapshot are the same model functions applied to that state.",
     "Lean 4 fold lemmas over the operator list + decide over the translator-regenerated copied-member list + correspondence + prefix-graph oracle")


# ----------------------------------------------------------------------------- C15

def channel_grid(rng):
    """a channel basin bordered by many single-node pit basins: basins of degree > 16 (Boruvka's
    large-degree path) and heavy ties"""
    cols = rng.randint(12, 22)
    conn = rng.choice(["queen", "queen", "rook"])
    g = gen.Grid("raster", rows=7, cols=cols, dy=1.0, dx=1.0, conn=conn,
                 borders=[rng.choice("vc"), rng.choice("cv"), "c", "c"], cache=rng.random() < 0.7, ov=[])
    z = []
    for r in range(7):
        for c in range(cols):
            if r == 3:
                z.append(10.0 + 0.25 * c if rng.random() < 0.8 else 10.0)
            elif r in (1, 5):
                z.append(float(rng.choice([0, 0, 0, 1])))
            elif r in (2, 4):
                z.append(float(rng.choice([20, 20, 21])))
            else:
                z.append(float(rng.choice([3, 4])))
    return g, z


def gen_bgraph(rng, tier):
    out = []
    for k in range(counts(tier, 260, 2500)):
        if k % 8 == 0:
            g, z0 = channel_grid(rng)
        else:
            g = gen.any_grid(rng, small=(tier == "quick"))
            z0 = None
        lines = [g.line(), "graph single"]
        for u in range(rng.randint(1, 2)):
            if rng.random() < 0.35:
                lines.append("set_mask " + " ".join(map(str, gen.mask_bits(rng, g))))
            if rng.random() < 0.35:
                lines.append("set_base " + " ".join(map(str, rng.sample(range(g.n), rng.randint(1, min(4, g.n))))))
            z = z0 if (z0 is not None and u == 0) else gen.elevation(rng, g, rng.choice(["ints", "ints", "ints2", "steps", "random", "zero", None]))
            lines.append("update " + gen.hexes(z))
            reps = rng.choice([1, 1, 2, 3])
            first = rng.choice("kb")
            lines.append("bgraph %s %s %d" % (first, gen.hexes(z), reps))
            lines.append("bgraph %s %s %d" % ("b" if first == "k" else "k", gen.hexes(z), reps))
        out.append(("b%d" % k, lines))
    out += gen_mstraw(rng, tier)
    out += gen_big_oracle_only(rng, tier, "bgraph")
    if tier != "thorough":
        out += gen_coast_oracle_only(rng, "bgraph")     # (the thorough tier has it among the big ones)
    return out


def _raw_graph(rng):
    """synthetic basin graphs for `mstraw`.  The Boruvka variant of the library is the one for
    PLANAR-like graphs (it only contracts nodes of degree <= 16 and relies on such nodes existing at
    every round, which planarity guarantees), so the families are planar or lattice graphs as basin
    graphs are - but with hubs far above the low-degree threshold, middle layers that are large
    themselves (so that several large nodes survive a round), disconnected parts, and weights with
    many ties: the regime small grids never reach."""
    fam = rng.choice(["lattice", "lattice_hub", "double_hub", "star_of_stars", "wheel", "fan", "tree"])
    pairs = set()
    if fam in ("lattice", "lattice_hub"):
        r, c = rng.randint(2, 7), rng.randint(2, 7)
        diag = rng.random() < 0.5          # the 8-neighbour lattice of a queen raster
        nb = r * c
        keep = rng.choice([1.0, 0.9, 0.7])
        for i in range(r):
            for j in range(c):
                for di, dj in [(0, 1), (1, 0)] + ([(1, 1), (1, -1)] if diag else []):
                    a, b = i + di, j + dj
                    if 0 <= a < r and 0 <= b < c and rng.random() < keep:
                        pairs.add((i * c + j, a * c + b))
        if fam == "lattice_hub":
            # a root-like hub joined to every border node (the virtual root of outer basins)
            hub = nb
            nb += 1
            for i in range(r):
                for j in range(c):
                    if i in (0, r - 1) or j in (0, c - 1):
                        pairs.add((i * c + j, hub))
    elif fam == "double_hub":
        # K_{2,m} plus private leaves on some middle nodes: both hubs and the leafy middle nodes are
        # of degree > 16; after the leaves are contracted the hubs still have m > 16 live neighbours
        m = rng.randint(17, 20)
        nb = 2 + m
        for k in range(m):
            pairs.add((0, 2 + k))
            if rng.random() < 0.9:
                pairs.add((1, 2 + k))
        leafy = rng.choice([0.5, 1.0, 1.0])
        for k in range(m):
            if rng.random() < leafy:
                for _ in range(rng.randint(15, 17)):
                    pairs.add((2 + k, nb))
                    nb += 1
    elif fam == "star_of_stars":
        m = rng.randint(17, 21)
        nb = 1 + m
        for k in range(m):
            pairs.add((0, 1 + k))
            for _ in range(rng.choice([0, 2, 17, 18])):
                pairs.add((1 + k, nb))
                nb += 1
    elif fam == "wheel":
        nb = rng.randint(19, 40)
        pairs = {(0, i) for i in range(1, nb)} | {(i, i + 1) for i in range(1, nb - 1)} | {(1, nb - 1)}
    elif fam == "fan":
        nb = rng.randint(19, 40)
        pairs = {(0, i) for i in range(1, nb) if rng.random() < 0.95} | {(i, i + 1) for i in range(1, nb - 1) if rng.random() < 0.8}
    else:
        nb = rng.randint(2, 60)
        for i in range(1, nb):
            if rng.random() < 0.95:
                pairs.add((rng.randrange(i) if rng.random() < 0.7 else 0, i))
    pairs = sorted({(min(a, b), max(a, b)) for a, b in pairs if a != b})
    rng.shuffle(pairs)
    # which end of a stored pair comes first is arbitrary in the code (inner basin first): shuffle it
    pairs = [(a, b) if rng.random() < 0.5 else (b, a) for a, b in pairs]
    wf = rng.choice(["ints", "ints", "equal", "random", "few"])
    if wf == "ints":
        w = [float(rng.randint(0, 9)) for _ in pairs]
    elif wf == "equal":
        w = [1.0 for _ in pairs]
    elif wf == "few":
        w = [rng.choice([0.0, 0.5, 2.0]) for _ in pairs]
    else:
        w = [rng.random() for _ in pairs]
    return nb, pairs, w, fam


def gen_mstraw(rng, tier):
    out = []
    for k in range(counts(tier, 60, 800)):
        graphs = [_raw_graph(rng) for _ in range(rng.randint(1, 3))]
        nb = max(g_[0] for g_ in graphs)
        # a flat profile of nb nodes: every node is its own outlet, so the basin graph object sees
        # nb basins (basins_count() reads the outlets of the flow graph)
        g = gen.Grid("profile", size=nb, dx=1.0, borders=["c", "c"], cache=True, ov=[])
        lines = [g.line(), "graph single", "update " + gen.hexes([0.0] * nb)]
        for (_, pairs, w, fam) in graphs:
            lines.append("mstraw %d %d %s" % (nb, len(pairs), " ".join("%d %d %s" % (a, b, hx(x)) for (a, b), x in zip(pairs, w))))
        out.append(("w%d" % k, lines))
    return out


def bg_tags(si):
    t = tags_flow(si)[:1]
    for c in si.calls:
        if c.cmd == "bgraph" and "bg_edges" in c.O:
            ev = c.O["bg_edges"]
            deg = {}
            for k in range(0, len(ev), 6):
                for x in (ev[k], ev[k + 1]):
                    deg[x] = deg.get(x, 0) + 1
            if deg and max(deg.values()) > 16:
                t.append("basin_degree>16")
            if len(c.O.get("bg_tree", [])) >= 3:
                t.append("tree>=3")
            ws = [ev[k + 4] for k in range(0, len(ev), 6)]
            if len(set(ws)) < len(ws):
                t.append("tied_edge_weights")
            break
    return t


def bg_nontrivial(si):
    return any((c.cmd == "bgraph" and len(c.O.get("bg_tree", [])) >= 1) or (c.cmd == "mstraw" and len(c.O.get("raw_b", [])) >= 1) for c in si.calls)


register("C15", lean_modules=["FsModel.PassCheck", "FsProofs.Properties.PassCheck", "FsProofs.Properties.ClosedC15", "FsProofs.Properties.ShapesC15", "FsProofs.Properties.C15UnionFind", "FsProofs.Properties.C15", "FsProofs.Properties.C15Min", "FsProofs.Properties.C15Cert", "FsProofs.Properties.C15Connect", "FsProofs.Properties.C15Bottleneck", "FsProofs.Properties.C01MstOrientComplete"],
         theorems=["Fs.ImplCheck.checkPasses_sound", "Fs.ImplCheck.checkPasses_lowest", "Fs.Closed.validPerm_kruskal_msf", "Fs.Closed.grid_C15_passes", "Fs.Closed.grid_C15_kruskal", "Fs.Closed.grid_C15_kruskal_virtual", "Fs.Closed.grid_C15_kruskal_connects", "Fs.Closed.grid_C15_orient", "Fs.Closed.grid_C15_orient_tree", "Fs.Closed.grid_C15_reached", "Fs.Closed.raster_C15_passes", "Fs.Closed.raster_C15_kruskal", "Fs.Closed.raster_C15_orient", "Fs.Closed.mesh_C15_passes", "Fs.Closed.mesh_C15_kruskal", "Fs.Closed.mesh_C15_orient", "Fs.Closed.profile_C15_passes", "Fs.Closed.profile_C15_kruskal", "Fs.Closed.profile_C15_orient", "Fs.Shapes.source_shape_C15", "Fs.C15.kruskalUF_eq", "Fs.C15.find_spec", "Fs.C15.find_compresses", "Fs.C15.merge_spec", "Fs.C15.kruskalUF_min_weight", "Fs.C15.kruskal_exec_bottleneck", "Fs.C15.kruskal_minimax_iff", "Fs.C15Connect.c15_edge_sound", "Fs.C15Connect.c15_edge_unique", "Fs.C15Connect.c15_lowest_pass", "Fs.C15Connect.c15_lowest_pass_exists", "Fs.C15Connect.c15_virtual",
                   "Fs.C01Mst.orient_spec", "Fs.C01Mst.orient_reached_iff", "Fs.C15.certImpl_sound", "Fs.C15.certOk_sound", "Fs.C15.certOk_kruskal", "Fs.C15.kruskal_exec_min_weight", "Fs.C15.kruskal_exec_is_spanning_forest", "Fs.C15.kruskal_min_weight", "Fs.C15.kruskal_minimum_spanning_forest", "Fs.C15.validPerm_sorted", "Fs.C15.exchange",
                   "Fs.C15.kruskal_sim", "Fs.C15.kruskal_spanning", "Fs.C15.kruskal_forest", "Fs.Kruskal.kruskal_agree", "Fs.Kruskal.kruskal_forest"],
         gen=gen_bgraph, oracles=[oracle.c15, oracle.c15_raw], nontrivial=bg_nontrivial, tags=bg_tags,
         sections={"bg_outlets", "bg_edges", "bg_tree", "raw_k", "raw_b", "raw_b2"},
         model_certs={"bg_cert_passes": ("1", "connect_lowest_pass", "the Lean checker checkPasses (soundness: Fs.ImplCheck.checkPasses_sound) rejects the edge array REPORTED BY THE IMPLEMENTATION: a real edge is not a neighbouring unmasked pair with its labels and pass elevation max(f p0, f p1), two edges join the same pair of basins, some neighbouring pair of two basins is lower than the stored pass (or has no edge), or the virtual edges do not tie every further outer basin to one root exactly once - each clause up to the swap of ends orient_edges may have made"),
                      "cert_raw_impl_k": ("1", "tree_minimum_weight_certificate", "the Lean certificate checker certOk (Fs.C15.certOk_sound) rejects the Kruskal tree REPORTED BY THE IMPLEMENTATION for a synthetic basin graph"),
                      "cert_raw_impl_b": ("1", "tree_minimum_weight_certificate", "the Lean certificate checker certOk (Fs.C15.certOk_sound) rejects the Boruvka tree REPORTED BY THE IMPLEMENTATION for a synthetic basin graph"),
                      "cert_raw_perm": ("1", "kruskal_sorted_permutation", "the order std::sort gave the edges of a synthetic basin graph is not a weight-sorted permutation (validPerm)"),
                      "cert_raw_k": ("1", "tree_minimum_weight_certificate", "certOk rejects the model's own union-find Kruskal tree on a synthetic basin graph"),
                      "cert_raw_b": ("1", "tree_minimum_weight_certificate", "certOk rejects the model's own Boruvka tree on a synthetic basin graph"),
                      "bg_cert_impl": ("1", "tree_minimum_weight_certificate", "the Lean certificate checker (certImpl, soundness theorem Fs.C15.certImpl_sound) rejects the tree REPORTED BY THE IMPLEMENTATION as a minimum-weight spanning forest of the root component of the reported edge set"),
                      "bg_cert": ("1", "tree_minimum_weight_certificate", "the Lean certificate checker (certOk, soundness theorem Fs.C15.certOk_sound) rejects the raw tree of this method as a minimum-weight spanning forest of the lowest-pass edges")},
         rule="SYNTHETIC basin graphs (`mstraw`: planar / lattice families with hubs far above the low-degree threshold of Boruvka, leafy middle layers so that several large nodes survive a round, disconnected parts, tied weights - run through compute_tree_kruskal and compute_tree_boruvka of a persistent basin-graph object via the friend class the library declares for its own test, compared bit for bit with kruskalUF / Fs.Mst.boruvka, certified by certOk on the implementation's trees, and judged by an independent Kruskal) + single-direction graphs on random grids (+ a channel family giving basins of degree > 16), heavy ties, masks, arbitrary base levels; basin graph built with Kruskal and Boruvka, repeated updates on the same basin-graph object; edges, passes, tree compared exactly with the Lean model; oracle: independent adjacency scan + exact Kruskal weight; non-trivial = tree has at least one edge",
         trusted_base=FLOW_TB + ["std::sort tie order of Kruskal is recomputed by the harness with the same comparator and handed to the model, which validates it is a weight-sorted permutation",
                                 "m_max_low_degree regenerated from basin_graph.hpp"])
_lvl("C15", "proof",
     "Theorems about the executed basin-graph model: UNION-FIND (FsModel/UnionFind.lean transcribes utils/union_find.hpp: two-pass find with path compression, union by rank; the model driver builds the Kruskal tree it prints with it): find_spec / find_compresses / merge_spec (find returns the root, compresses exactly the path, changes no class; merge unites exactly the two classes and keeps the rank invariant) and kruskalUF_eq (Kruskal over this union-find accepts exactly the edges of the class-map Kruskal, so every theorem below transfers); connect_basins (c15_edge_sound, c15_edge_unique, c15_lowest_pass_exists, c15_lowest_pass, c15_virtual: every real edge joins a node of an inner basin to a neighbouring node of another basin with pass height max of the two elevations; one edge per basin pair; no joining pair is strictly lower than the stored pass; outer basins are linked to the first outer basin = root by virtual edges - for any topology, mask, base levels, under the block structure of the bottom-up order proved in C19); Kruskal: kruskal_sim (the executed array Kruskal accepts exactly what the abstract class-map Kruskal accepts), kruskal_exec_is_spanning_forest, kruskal_exec_min_weight (exchange argument: for a weight-sorted order the tree has minimum total pass elevation among ALL spanning forests of the edge set; validPerm_sorted ties the order the harness hands over), so #tree = #basins - #components; Boruvka (imperative, not reasoned about directly) and the implementation's own output are covered by a CERTIFICATE CHECKER evaluated by the model driver on every basin-graph scenario - certOk on the model's raw tree and certImpl on the edge array and tree REPORTED BY THE C++ - with soundness theorems certOk_sound / certImpl_sound (accepted => spanning forest of minimum total weight among all spanning forests; equal weight multiset as a Kruskal tree) and certOk_kruskal (Kruskal's own tree is always accepted). kruskal_exec_bottleneck / kruskal_minimax_iff (C15Bottleneck.lean): two basins joined by passes of height <= b in the basin graph are joined by TREE passes of height <= b (the tree is a minimax / bottleneck tree - what makes the filled level the spill level). Orientation: orient_spec (the executed depth-first orientation returns, for a forest, an arborescence from the root: every returned edge is the original or its flip, each reached basin is the head of exactly one edge, depth(head) = depth(tail) + 1, the root is never a head) and orient_reached_iff (reached = connected to the root in the tree). CLOSED OVER THE EXECUTED GRIDS (ClosedC15.lean): every hypothesis of the theorems above is discharged for the graph of the executed single router on any grid with EnvOk (raster, mesh, profile), leaving only run-time facts (work arrays fit; the permutation handed over passes validPerm; elevations above -DBL_MAX): grid_C15_passes (stored pass of two adjacent basins = max(f p0, f p1) of a neighbouring unmasked pair, unique per basin pair, and <= max(f i, f j) for EVERY neighbouring unmasked pair joining the two basins, in either orientation; virtual edges exactly one per further outer basin), validPerm_kruskal_msf / grid_C15_kruskal (the tree executed by union-find = Kruskal's, a spanning forest of the WHOLE stored basin graph, of minimum total weight among all spanning forests, and bottleneck-equivalent to the basin graph), grid_C15_kruskal_connects (node-level: unmasked-neighbour-connected nodes lie in tree-connected basins), grid_C15_orient / _orient_tree / _reached (rooted orientation: in-degree one, depth function, parent chain to the root, reached basins = tree component of the root), with raster_/mesh_/profile_ instances and computed non-vacuity examples (on the fan mesh the tree [5,6,7,8,0] has weight -3997 against -3996 for another forest). VERIFIED CHECKER ON THE IMPLEMENTATION'S EDGE ARRAY (FsModel/PassCheck.lean): bg_cert_passes = checkPasses on the edges the C++ reported (checkPasses_sound, no order law needed: the stored pass of two basins is a minimum of max(f i, f j) over EVERY neighbouring unmasked pair joining them; at most one edge per pair; virtual edges exactly as specified; all up to the swap orient_edges makes).",
     "Lean 4 fold-invariant proof (connect_basins) + simulation + exchange-argument minimality proof + proved-sound certificate checker run on model and implementation outputs + exact correspondence of connect/Kruskal/Boruvka/orient + independent MST-weight oracle")


# ----------------------------------------------------------------------------- C18

def gen_mesh_strip_oracle_only(rng):
    """oracle-only: a strip mesh of 3 x 30000 nodes (more than 65536 node labels) whose numbering is
    not local - a few pairs of boundary labels far apart are exchanged, so that boundary edges join
    labels below and above 65536 (an edge key or hash that packs two labels into fewer bits than
    they need merges two such edges: a boundary node is then taken for an interior one)"""
    nx, ny = 30000, 3
    pts = [(float(i), float(j)) for j in range(ny) for i in range(nx)]
    tris = []
    for j in range(ny - 1):
        for i in range(nx - 1):
            a, b, c, d = j * nx + i, j * nx + i + 1, (j + 1) * nx + i, (j + 1) * nx + i + 1
            tris += [(a, b, d), (a, d, c)]
    n = nx * ny
    perm = list(range(n))
    pairs = [(6, 65536 + 4465), (7, 65536 + 5)]          # bottom row <-> top row
    for _ in range(40):
        a = rng.randrange(1, nx - 1)
        b = 2 * nx + rng.randrange(max(1, 65536 - 2 * nx), nx - 1)
        pairs.append((a, b))
    used = set()
    for a, b in pairs:
        if a in used or b in used:
            continue
        used.update((a, b))
        perm[a], perm[b] = perm[b], perm[a]
    inv = [0] * n
    for a, b in enumerate(perm):
        inv[b] = a
    g = gen.Grid("mesh", pts=[pts[inv[i]] for i in range(n)], tris=[tuple(perm[v] for v in t) for t in tris], status=None)
    lines = [g.line(), "grid_common"]
    for a, b in pairs[:6]:
        lines += ["q m %d" % a, "q m %d" % b]
    lines += ["iter v fwd", "iter c rev", "graph single"]
    return [("ob_strip", lines)]


def gen_meshes(rng, tier):
    out = []
    for k in range(counts(tier, 200, 2000)):
        r = rng.random()
        g = gen.mesh(rng, 2, 5 if tier == "quick" else 9, holes=True,
                     status=("none" if r < 0.6 else ("map" if r < 0.8 else "arr")))
        # malformed status inputs
        if g.status is not None and rng.random() < 0.3:
            if isinstance(g.status, dict):
                r2 = rng.random()
                if r2 < 0.6:
                    g.status[rng.randrange(len(g.pts))] = "l"
                if r2 > 0.4:
                    # (both at once for 0.4 < r2 < 0.6: the first offending entry in key order decides)
                    g.status[len(g.pts) + rng.randint(0, 3)] = rng.choice("cvgl")
            else:
                g.status = g.status[:-1] if rng.random() < 0.5 else g.status + ["c"]
        # random relabelling of the nodes (hash order / vertex numbering independence)
        if rng.random() < 0.5 and g.status is None:
            perm = list(range(len(g.pts)))
            rng.shuffle(perm)
            inv = [0] * len(perm)
            for a, b in enumerate(perm):
                inv[b] = a
            g.pts = [g.pts[inv[i]] for i in range(len(perm))]
            g.tris = [tuple(perm[v] for v in t) for t in g.tris]
        if rng.random() < 0.25:
            # cell size: the statements hold for every coordinate scale (an absolute "degenerate
            # triangle" tolerance of 1e-12 is invisible for unit cells and wrong for cells of 1e-7)
            sc = rng.choice([1e-7, 1e-4, 1e5])
            g.pts = [(x * sc, y * sc) for (x, y) in g.pts]
        lines = [g.line(), "grid_common"]
        qs = []
        for i in range(len(g.pts)):
            qs.append("q m %d" % i)
            qs.append("q c %d" % i)
        rng.shuffle(qs)
        lines += qs
        for w in ["all", "c", "v", "g"]:
            lines.append("iter %s fwd" % w)
        lines.append("graph single")
        out.append(("t%d" % k, lines))
    if tier == "thorough":
        # (quick tier: the strip runs under C17 with the integer-only status oracle; the exact-rational
        # area oracle needs two minutes for its 120 000 triangles)
        out += gen_mesh_strip_oracle_only(rng)
    return out


def mesh_tags(si):
    t = []
    g = si.calls[0].toks if si.calls else []
    if si.calls and si.calls[0].O.get("grid", ["?"])[0] == "err":
        t.append("rejected:" + si.calls[0].O["grid"][1])
    if "map" in g:
        t.append("status:map")
    elif "arr" in g:
        t.append("status:arr")
    else:
        t.append("status:default")
    return t


register("C18", gen=gen_meshes, oracles=[oracle.c18], nontrivial=grid_nontrivial, tags=mesh_tags,
         sections={"grid", "size", "status", "area", "area_views_agree", "q", "iter", "base"},
         lean_modules=["FsProofs.Properties.ShapesC18", "FsModel.Mesh", "FsProofs.Area", "FsProofs.Properties.C18", "FsProofs.Properties.ClosedMesh"],
         theorems=["Fs.Shapes.source_shape_C18", "Fs.Closed.meshTopo_ok", "Fs.Closed.meshTopo_hsym", "Fs.Closed.meshTopo_dist_pos", "Fs.Closed.mesh_C06_single", "Fs.Closed.mesh_C08_fits", "Fs.Closed.mesh_C01_pflood_single", "Fs.Closed.mesh_C01_mst", "Fs.C18.mem_nbrs", "Fs.C18.nbrs_symm", "Fs.C18.nbrs_nodup", "Fs.C18.count_spec", "Fs.C18.isBoundary_iff", "Fs.C18.isBoundary_iff_tri", "Fs.C18.statusDefault_spec",
                   "Fs.C18.binAreas_sum", "Fs.C18.areas_sum", "Fs.C18.areas_sum_geom", "Fs.C18.areas_sum_exactSqrt", "Fs.C18.dist_symm", "Fs.C18.dist_withSqrt",
                   "Fs.Mesh.edgeMap_spec", "Fs.Mesh.insertEdge_unique", "tri_area_partition"],
         rule="jittered / flipped lattices with holes, isolated nodes, random vertex order inside triangles and random node relabelling; default, map and array status incl. malformed ones (looped entry, out-of-range index, wrong length); neighbours compared as index-sorted lists, status and areas bit for bit; oracle recomputes edges, boundary and exact circumcentric shares in rationals; non-trivial = mesh accepted and queried",
         trusted_base=["neighbour storage order of the mesh (unordered_map iteration) is implementation-defined: lists are compared sorted by index",
                       "area theorem is over an arbitrary field (exact arithmetic); the Float instance of the same definitions is compared bit for bit with the C++"])
_lvl("C18", "proof",
     "Theorems about the executed mesh model (Fs.Mesh / Fs.MeshGrid): mem_nbrs, nbrs_symm, nbrs_nodup (two nodes are neighbours exactly when they share a triangle edge; symmetric; no duplicates for non-degenerate triangles), count_spec / isBoundary_iff / isBoundary_iff_tri / statusDefault_spec (the stored count of an edge is the number of triangles it belongs to; a node gets fixed-value by default exactly when it lies on an edge belonging to a single triangle), binAreas_sum / areas_sum / areas_sum_geom / areas_sum_exactSqrt (exact field arithmetic: the bincount of the circumcentric shares sums to the total triangle area; areaSq_eq_cross: the model's areaSquare is the squared shoelace area), dist_symm / dist_withSqrt (distance = sqrt of the squared coordinate differences, symmetric), edgeMap_spec, tri_area_partition. Outside the theorems: rounding of sqrt and of the sums, the max(.., DBL_MIN) clamp and the isolated-node replacement, and the unordered_map iteration order (lists compared sorted). The Float instance is compared bit for bit; oracle recomputes everything in exact rationals.",
     "Lean 4 proofs on the executed mesh model (list induction; field_simp + linear_combination) + bit-exact correspondence + exact-rational oracle")


# ----------------------------------------------------------------------------- C12 / C13

# elevation magnitudes whose products with K*dt*A^m overflow binary64 are left to the corpus
# scenario of finding D13 (the eroder has no overflow handling)
SPL_FAMILIES = ["random", "random", "ints", "ints2", "steps", "plateau_eps", "negative", "plane", "cones", "zero", "gentle", "gentle"]


def gen_spl(rng, tier):
    out = []
    for k in range(counts(tier, 220, 2200)):
        g = gen.any_grid(rng, small=(tier == "quick"))
        ops = rng.choice([["single"], ["pflood", "single"], ["single", "mst:%s:%s" % (rng.choice("kb"), rng.choice(["basic", "carve"]))],
                          ["multi:" + hx(rng.choice([1.0, 1.1, 0.0]))], ["pflood", "multi:" + hx(1.0)], ["single:2"]])
        multi = ops[-1].startswith("multi")
        lines = [g.line(), "graph " + " ".join(ops)]
        kind = rng.choice(["s", "s", "a"])
        m = rng.choice([0.3, 0.5, 1.0])
        nn = rng.choice([1.0, 1.0, 1.0, 0.5, 0.8, 1.5, 2.0, 4.0]) if not multi else rng.choice([1.0, 1.0, 1.0, 1.0, 2.0, 0.8, 1.5])
        # the tolerance is the caller's: tight ones (far below sqrt(eps) x drop) show an exit test that
        # is relative where the statement is absolute
        tol = rng.choice([1e-3, 1e-6, 1e-6, 1e-9, 1e-10])
        ks = rng.choice([1e-5, 1e-3, 2e-2, 1.0, 0.0])
        kv = [ks * rng.choice([0.1, 1.0, 1.0, 3.0]) for _ in range(g.n)]
        for u in range(rng.randint(1, 3)):
            if rng.random() < 0.3:
                lines.append("set_mask " + " ".join(map(str, gen.mask_bits(rng, g))))
            if rng.random() < 0.25:
                lines.append("set_base " + " ".join(map(str, rng.sample(range(g.n), rng.randint(1, min(3, g.n))))))
            z = gen.elevation(rng, g, rng.choice(SPL_FAMILIES))
            lines.append("update " + gen.hexes(z))
            for rep in range(rng.randint(1, 2)):
                dt = rng.choice([0.0, 1.0, 10.0, 100.0, 1e4, 1e8])
                area = [rng.choice([1.0, 4.0, 100.0, 2.5e3, 1e6]) * (0.5 + rng.random()) for _ in range(g.n)]
                ze = z if rng.random() < 0.7 else gen.elevation(rng, g, rng.choice(SPL_FAMILIES))
                kpart = ("s " + hx(ks)) if kind == "s" else ("a " + gen.hexes(kv))
                sets = ""
                if rng.random() < 0.2:
                    # setter calls on a fresh eroder before it erodes (the configuration that counts is
                    # the one they leave; a non-linear exponent on a multiple-direction graph is refused)
                    toks = []
                    for _ in range(rng.randint(1, 2)):
                        r3 = rng.random()
                        if r3 < 0.55:
                            toks.append("set:n:" + hx(rng.choice([1.0, 1.0, 2.0, 1.5, 0.8])))
                        elif r3 < 0.8:
                            toks.append("set:k:" + hx(rng.choice([0.0, 1e-5, 1e-3, 2e-2])))
                        else:
                            toks.append("set:m:" + hx(rng.choice([0.3, 0.5, 1.0])))
                    sets = " 1 " + " ".join(toks)
                if rng.random() < 0.2:
                    # elevation and drainage area handed over as non-contiguous views
                    sets = (sets or " 1") + " view"
                lines.append("spl %s %s %s %s %s %s %s%s" % (kpart, hx(m), hx(nn), hx(tol), hx(dt), gen.hexes(area), gen.hexes(ze), sets))
                z = ze
        out.append(("e%d" % k, lines))
    return out


def spl_tags(si):
    t = tags_flow(si)[:2]
    for c in si.calls:
        if c.cmd == "spl":
            r = c.i("spl")
            if c.O.get("spl", [""])[0] == "err":
                t.append("rejected")
            if "ncorr" in c.O and c.O["ncorr"] != ["0"]:
                t.append("limited>0")
            if c.O.get("spl_new") == ["0"]:
                t.append("eroder_reused")
    return sorted(set(t))


def spl_nontrivial(si):
    return any(c.cmd == "spl" and "erosion" in c.O and any(x not in ("0000000000000000", "8000000000000000") for x in c.O["erosion"]) for c in si.calls)


SPL_TB = FLOW_TB + ["std::pow of the C++ side and Float.pow of the Lean runtime are the same libm function (bit-identical results observed on every compared scenario)",
                    "SPL theorems are over an ordered field (exact arithmetic); rounding is covered by the bit-exact correspondence and the oracle's documented allowance",
                    "the m_linear classification expression and the Newton exit test are regenerated from spl.hpp by translate.py"]
register("C12", lean_modules=["FsProofs.Properties.ClosedC12Resolve", "FsProofs.Properties.ShapesC12", "FsProofs.Properties.ClosedMore", "FsProofs.Properties.C12", "FsProofs.Properties.C13"], theorems=["Fs.Closed.grid_C12_spl_resolve", "Fs.Closed.grid_resolve_dist_pos", "Fs.Closed.raster_C12_spl_resolve", "Fs.Closed.mesh_C12_spl_resolve", "Fs.Closed.profile_C12_spl_resolve", "Fs.Shapes.source_shape_C12", "Fs.Closed.raster_C12_spl_single", "Fs.Closed.raster_C12_spl_multi", "Fs.Closed.erode_nonneg_routed", "Fs.C13.erode_zero", "Fs.C13.erode_floor", "Fs.C13.sweep_final", "Fs.C13.erode_look", "Fs.C12.nodeStep_skip", "Fs.C12.nodeStep_linear", "Fs.C12.spl_floor", "Fs.C12.spl_nonneg", "Fs.C12.fold_linear", "Fs.C12.contribs_nonneg"],
         gen=gen_spl, oracles=[oracle.c12], cause=oracle.spl_cause, nontrivial=spl_nontrivial, tags=spl_tags,
         sections={"erosion", "ncorr", "spl", "spl_eff", "splset0", "splset1"},
         rule="routed graphs (single / parallel single / multi, pflood or spanning-tree resolved or unresolved, masks, interior base levels) x K scalar/array (0 .. 1, x0.1..3 variation) x m in {.3,.5,1} x n in {.5,.8,1,1.5,2,4} x tol x dt in {0,1,10,100,1e4,1e8} x random areas up to 1e6; 1-2 erode() calls per update on one eroder object, elevation = routed field or another field; non-trivial = some erosion is non-zero")
register("C13", lean_modules=["FsProofs.Properties.ClosedC12Resolve", "FsProofs.Properties.ShapesC13", "FsProofs.Properties.ClosedMore", "FsProofs.Properties.C12", "FsProofs.Properties.C13"], theorems=["Fs.Closed.grid_C12_spl_resolve", "Fs.Closed.raster_C12_spl_resolve", "Fs.Closed.mesh_C12_spl_resolve", "Fs.Closed.profile_C12_spl_resolve", "Fs.Shapes.source_shape_C13", "Fs.Closed.raster_C12_spl_single", "Fs.Closed.raster_C12_spl_multi", "Fs.C13.erode_residual", "Fs.C13.erode_newton_residual", "Fs.C13.spl_newton_residual", "Fs.C13.newton_exit", "Fs.C13.newton_none_iff", "Fs.C13.nodeStep_newton_single", "Fs.C13.sweep_final", "Fs.C12.spl_residual", "Fs.C12.nodeStep_linear", "Fs.C12.fold_linear", "Fs.Spl.solve_residual"],
         gen=gen_spl, oracles=[oracle.c13], cause=oracle.spl_cause, nontrivial=spl_nontrivial, tags=spl_tags,
         sections={"erosion", "ncorr", "spl", "spl_eff", "splset0", "splset1"},
         rule="same scenario family as C12; oracle evaluates the residual of the backward-Euler equation at every non-limited node (double arithmetic with a stated bound: tolerance + 64 eps x sensitivity-weighted magnitudes); non-trivial = some erosion is non-zero")
for _p in ("C12", "C13"):
    PROPS[_p]["trusted_base"] = SPL_TB
_lvl("C12", "proof",
     "Theorems about the executed Fs.Spl.nodeStep / erode over an arbitrary linearly ordered field with abstract pow >= 0, lifted to the WHOLE sweep (sweep_final: along a duplicate-free bottom-up order every node's final erosion is the one its own step wrote, computed from receivers that were already final): erode_zero (base levels, pits, masked nodes and nodes at or below their lowest receiver's new level get zero erosion), erode_floor (the new elevation is never below the lowest new elevation among the receivers: no slope reversal, no new depression), erode_nonneg_routed (every erosion >= -tiny for K, dt >= 0 and positive distances on the routed rows - the first version, erode_nonneg, asked for positive distances on every row, which terminal rows (distance 0) never satisfy; kept only as a lemma), erode_look (the returned array is that table), for any number of receivers on the closed-form path; per-node: nodeStep_skip, nodeStep_linear, spl_floor, spl_nonneg. Non-negativity on the Newton path, the rejection of non-linear exponents on multiple-direction graphs and overflow (D13) are tied by the bit-exact correspondence and the oracle only. AFTER THE SINK RESOLVER (ClosedC12Resolve.lean): the eroder normally runs on the graph the spanning-tree resolver returns, whose receivers AND distances were rewritten (basic: the pit drains over distance DBL_MAX to the pass node; carve: distances are shifted along the reversed path); grid_resolve_dist_pos proves every routed row of that graph stores a positive distance (fold invariant over routeBasic / carveLoop: the pit's own old distance 0 is read but never written), and grid_C12_spl_resolve (+ raster_/mesh_/profile_ instances, non-vacuity examples) gives the same five facts - returned array = final table, zero erosion at base levels / pits / masked / lake nodes, no slope reversal, lower bound -mn, exact backward-Euler residual when not limited - for that graph.",
     "Lean 4 ordered-field proofs on the executed sweep (per-node step lifted along the bottom-up order) + translator-regenerated classification/exit test + bit-exact correspondence + sign/lake/floor oracle")
_lvl("C13", "proof",
     "Theorems about the executed Fs.Spl.nodeStep / erode (exact arithmetic): erode_residual (closed-form path, any number of receivers: whenever the step is not limited, new - old + sum over the contributing receivers of K dt (A w)^m / distance * (new - receiver's FINAL new elevation) = 0), newton_exit / newton_none_iff (the Newton loop returns either an iterate that passes the exit test regenerated from the source - two-sided |func| <= tol - or a non-positive next iterate; none only when the fuel is exhausted), nodeStep_newton_single + spl_newton_residual + erode_newton_residual (slope exponent != 1, single receiver: the new elevation is receiver's new elevation + accepted iterate, clamped as on the linear path, and when not limited with a positive accepted iterate the backward-Euler residual new - old + K dt (A w)^m / d^n * pow(new - receiver's new, n) is within the Newton tolerance), for every positive exponent (pow abstract). Convergence of Newton (that an accepted iterate exists within the fuel) is not proved: tied by bit-exact correspondence and the residual oracle. AFTER THE SINK RESOLVER (ClosedC12Resolve.lean): the eroder normally runs on the graph the spanning-tree resolver returns, whose receivers AND distances were rewritten (basic: the pit drains over distance DBL_MAX to the pass node; carve: distances are shifted along the reversed path); grid_resolve_dist_pos proves every routed row of that graph stores a positive distance (fold invariant over routeBasic / carveLoop: the pit's own old distance 0 is read but never written), and grid_C12_spl_resolve (+ raster_/mesh_/profile_ instances, non-vacuity examples) gives the same five facts - returned array = final table, zero erosion at base levels / pits / masked / lake nodes, no slope reversal, lower bound -mn, exact backward-Euler residual when not limited - for that graph.",
     "Lean 4 field proofs of the implicit equation on the executed sweep (closed form and Newton exit) + bit-exact correspondence of the Newton path + residual oracle")



# ----------------------------------------------------------------------------- C14

def gen_adi(rng, tier):
    out = []
    hi = 7 if tier == "quick" else 12
    for k in range(counts(tier, 200, 2000)):
        g = gen.raster(rng, 3, hi, ov_prob=0.4, want_base=False)
        lines = [g.line()]
        n = g.n
        for rep in range(rng.randint(1, 3)):
            kind = rng.choice(["s", "a", "a"])
            k0 = rng.choice([1e-3, 0.1, 1.0, 30.0, 1e3])
            si_units = rng.random() < 0.15
            if si_units:
                # diffusivity in m^2/s with the time step in seconds: tiny K values (all within 1e-8 of
                # each other in absolute terms although they differ by factors) and a huge dt
                k0 = rng.choice([1e-10, 3e-10, 1e-9])
            if kind == "s":
                kpart = "s " + hx(k0)
            else:
                fam = rng.choice(["uniform", "random", "curved", "steps"])
                if fam == "uniform":
                    kv = [k0] * n
                elif fam == "random":
                    kv = [k0 * (0.1 + rng.random() * 3) for _ in range(n)]
                elif fam == "curved":
                    kv = [k0 * (1 + ((i // g.cols) - g.rows / 2.0) ** 2 + 0.5 * ((i % g.cols) - 1) ** 2) for i in range(n)]
                else:
                    kv = [k0 * rng.choice([1.0, 10.0, 0.01]) for _ in range(n)]
                kpart = "a " + gen.hexes(kv)
            # later steps of a scenario mostly go on with the same eroder object (set_k_coef), often
            # with the same time step and the same surface, so that anything the object keeps between
            # steps (factor tables, scaled copies, buffers) is exercised against the stateless model
            same = rep > 0 and rng.random() < 0.6
            dt = dt_prev if same else (rng.choice([1e9, 3e10, 1e11]) if si_units else rng.choice([0.0, 1e-3, 1.0, 100.0, 1e6]))
            if not (same and rng.random() < 0.5):
                z = gen.elevation(rng, g, rng.choice(["random", "ints", "ints2", "steps", "plane", "cones", "negative", "zero"]))
            dt_prev = dt
            lines.append("adi %s %s %s %d%s" % (kpart, hx(dt), gen.hexes(z), rng.choice([1, 1, 2]), " keep" if (rep > 0 and rng.random() < 0.75) else ""))
        out.append(("d%d" % k, lines))
    return out


def adi_nontrivial(si):
    return any(c.cmd == "adi" and any(x not in ("0000000000000000", "8000000000000000") for x in c.O.get("adi", [])) for c in si.calls)


def adi_tags(si):
    t = []
    for c in si.calls:
        if c.cmd == "adi":
            t.append("K:" + ("scalar" if c.toks[1] == "s" else "array"))
    g = si.calls[0].toks if si.calls else []
    if len(g) > 11:
        if "l" in g[7:11]:
            t.append("looped_border")
        if g[12:13] == ["ov"] and g[13:14] != ["0"]:
            t.append("status_overrides")
    return sorted(set(t))


register("C14", lean_modules=["FsProofs.Properties.ShapesC14", "FsProofs.Properties.C14", "FsProofs.Properties.C14E2E", "FsProofs.Properties.C14Unique"],
         theorems=["Fs.Shapes.source_shape_C14", "Fs.C14.erode_exists_unique", "Fs.C14.erode_determined", "Fs.C14.erode_determined_array", "Fs.C14.erode_determined_scalar", "Fs.C14.tridiag_unique", "Fs.C14.halfStepSpec_unique", "Fs.C14.secondHalfStepSpec_unique", "Fs.C14.erode_spec", "Fs.C14.erode_border_zero", "Fs.C14.halfStep_spec", "Fs.C14.halfStep_ne_none", "Fs.C14.erode_isSome_array", "Fs.C14.scalar_eq_uniform", "Fs.C14.erode_linear", "Fs.C14.thomas_linear",
                   "Fs.C14.thomas_solves", "Fs.C14.thomas_some", "Fs.C14.solveRow_eq", "Fs.C14.solveRow_isSome", "Fs.C14.solveRow_equations",
                   "Fs.C14.adi_pivots_ne_zero", "Fs.C14.factorsScalar_mid", "Fs.C14.factorsCol_mid", "Fs.C14.factorsRow_mid", "Fs.C14.factorsCol_nonneg"],
         gen=gen_adi, oracles=[oracle.c14], nontrivial=adi_nontrivial, tags=adi_tags,
         sections={"adi", "grid"},
         rule="rasters 3..7 (thorough ..12) per axis, anisotropic spacings, arbitrary border statuses incl. looped and interior status overrides, K scalar or array (uniform, random, curved, stepped; 1e-3..1e3), dt in {0,1e-3,1,100,1e6}, elevation families; 1-3 eroders per grid, 1-2 erode() calls each; oracle = exact-rational direct solve of the two half-step systems; non-trivial = some erosion non-zero",
         trusted_base=["ADI theorems are over a field (exact arithmetic); rounding is covered by the bit-exact correspondence and the oracle's condition-number-scaled tolerance",
                       "xtensor expression evaluation order mirrored by hand in Fs.Adi (tied by bit-exact comparison)"])
_lvl("C14", "proof",
     "END-TO-END theorems about the executed Fs.Adi.erode over an arbitrary ordered field: erode_spec (the returned erosion is elevation minus the result of two half steps, each satisfying HalfStepSpec: border rows/columns copied and at every interior node the Peaceman-Rachford equation -(f0 dt) x(c-1) + (1 + 2 f1 dt) x(c) - (f2 dt) x(c+1) = (1 - 2 g1 dt) e + g0 dt e(r-1) + g2 dt e(r+1), implicit along columns then - on transposed data - along rows: SecondHalfStepSpec), erode_border_zero (zero erosion on the four borders), halfStep_ne_none / erode_isSome_array (for K >= 0, dt >= 0 every pivot is >= 1: erode never throws), scalar_eq_uniform (scalar diffusivity = uniform array, as functions), erode_linear (the map from elevation to erosion is linear), thomas_solves / thomas_linear, factors*_mid / *_nonneg (face-averaged factor tables: centre = mean of the faces, non-negative). erode_determined / erode_exists_unique (C14Unique.lean, discrete maximum principle: tridiag_unique, halfStepSpec_unique, secondHalfStepSpec_unique): for K >= 0 and dt >= 0 the executed result is THE solution of the two half-step systems - any fields solving them directly give the same erosion on the grid (shapes with at least 3 nodes per axis). The eroder object is kept across steps with set_k_coef in between (state must not leak).",
     "Lean 4 field proofs (Thomas elimination, diagonal dominance, linearity) composed to the executed two-half-step erode + bit-exact correspondence + exact-rational direct-solve oracle")


# ----------------------------------------------------------------------------- C11

def gen_pool(rng, tier):
    out = []
    # (a) block arithmetic: exhaustive over small parameters in the thorough tier, sampled otherwise
    combos = [(first, first + length, n, mn) for first in (0, 3) for length in range(0, 41) for n in range(1, 13) for mn in range(0, 13)]
    if tier != "thorough":
        combos = rng.sample(combos, 2400)
    for k in range(0, len(combos), 300):
        lines = ["grid pool"] + ["blocks %d %d %d %d" % c for c in combos[k:k + 300]]
        out.append(("k%d" % (k // 300), lines))
    # (b) API programs under injected schedules
    nprog = counts_fixed(tier, 70, 600)
    windows = [1, 2, 3, 4, 5, 6, 7, 8]
    for k in range(nprog):
        n = rng.choice([1, 1, 2, 2, 3, 4] if tier == "quick" else [1, 2, 3, 4, 6, 8, 12, 16])
        prog = []
        size = n
        paused = False
        for _ in range(rng.randint(2, 6)):
            r = rng.random()
            if r < 0.45:
                # the router's own call pattern
                m = rng.choice([size, size, rng.randint(1, 4 if tier == "quick" else 16)])
                prog += ["resume", "resize:%d" % m]
                size = m
                first = rng.choice([0, 0, 5])
                prog += ["run:%d:%d:%d" % (first, first + rng.choice([0, 1, 2, size, 17, 100, 1000]), rng.choice([0, 0, 1, 4, 64])), "pause"]
                paused = True
            elif r < 0.6:
                prog.append("pause")
                if rng.random() < 0.15:
                    prog.append("pause")       # pausing a paused pool is a no-op
                paused = True
            elif r < 0.75:
                prog.append("resume")
                if rng.random() < 0.15:
                    prog.append("resume")      # resuming a running pool is a no-op
                paused = False
            elif r < 0.9:
                first = rng.choice([0, 2])
                prog.append("run:%d:%d:%d" % (first, first + rng.choice([1, 3, 10, 64, 500]), rng.choice([0, 0, 2, 16])))
                paused = False     # run_tasks resumes a paused pool itself
            else:
                # resize is only ever issued on a pool that is not paused (the router resumes first)
                m = rng.randint(1, 4 if tier == "quick" else 16)
                prog += ["resume", "resize:%d" % m]
                size = m
                paused = False
        if rng.random() < 0.3:
            prog.append("stop")
            if rng.random() < 0.3:
                prog.append("stop")            # stopping twice (the destructor stops once more anyway)
        r = rng.random()
        if r < 0.2:
            sched = []
        elif r < 0.6:
            # model-derived windows: hold a thread at one schedule point while the others go on
            sched = ["d:%d:%s:%d" % (rng.choice(windows), rng.choice(["*", "0", str(rng.randrange(max(1, n)))]), rng.choice([2000, 20000]))]
            if rng.random() < 0.3:
                sched.append("d:%d:*:%d" % (rng.choice(windows), rng.choice([500, 5000])))
        else:
            sched = ["rand:%d:%d:%d" % (rng.randrange(1 << 30), rng.choice([50, 200, 500]), rng.choice([200, 2000]))]
        if rng.random() < 0.3:
            # spurious wake-ups: the next waits of one (or any) worker return without a notification,
            # as std::condition_variable::wait is allowed to
            sched.append("sp:%s:%d" % (rng.choice(["*", "0", str(rng.randrange(max(1, n)))]), rng.randint(1, 3)))
        out.append(("w%d" % k, ["grid pool", "pool %d %s %s" % (n, " ".join(sched), " ".join(prog))]))
    return out


def pool_tags(si):
    t = []
    for c in si.calls:
        if c.cmd == "blocks":
            t.append("blocks")
            break
        if c.cmd == "pool":
            t.append("workers:" + c.toks[1])
            if any(x.startswith("d:1:") for x in c.toks):
                t.append("window:counted_not_yet_waiting")
            if any(x.startswith("rand:") for x in c.toks):
                t.append("random_delays")
            if int((c.i("delays_fired") or ["0"])[0]) > 0:
                t.append("delay_fired")
            if any(x.startswith("sp:") for x in c.toks):
                t.append("spurious_wakeups_armed")
            if int((c.i("spurious_fired") or ["0"])[0]) > 0:
                t.append("spurious_wakeup_fired")
    return sorted(set(t))


def c11_runner(P, exe, model_ok, rng, tier, replay=None):
    """the generic run (ASan build) + the same pool programs under the thread sanitizer"""
    res = generic_runner(P, exe, model_ok, rng, tier, replay)
    texe, tmsg = build.build_harness("tsan")
    res["coverage"]["harness_tsan"] = tmsg.split("\n")[0]
    if texe is None:
        res["corr_broken"].append("thread-sanitizer harness does not build: " + tmsg[:300])
        return res
    if replay:
        scns = read_blocks(replay)
    else:
        rng2 = random_mod.Random(rng.random())
        scns = [s for s in corpus(P["id"]) + P["gen"](rng2, tier) if any(l.startswith("pool ") for l in s[1])]
        scns = scns[: counts_fixed(tier, 40, 300)]
    impl, notes, sans = run.run_harness(texe, scns, watchdog=P.get("watchdog", 20))
    seen = set()
    for r in sans:
        if "ThreadSanitizer" not in r["kind"]:
            continue
        key = (r["kind"], r["where"])
        if key in seen:
            continue
        seen.add(key)
        sid = r.get("scn")
        txt = run.scn_text((sid, dict(scns)[sid])) if sid in dict(scns) else ""
        res["fails"].append(dict(clause="data_race", cause="pool_flag_publication" if "thread_pool" in r["text"] else "other",
                                 witness="%s at %s (scenario %s)" % (r["kind"], r["where"], sid),
                                 scenario_text=txt + "\n# report:\n# " + r["text"][:1800].replace("\n", "\n# ")))
    for sid, lines in scns:
        si = impl.get(sid)
        if si is not None and (si.hang or (sid in notes and notes[sid][0] in (3, -9))):
            res["fails"].append(dict(clause="terminates", cause=P["cause"](si, ("terminates", "")), witness="scenario %s under the thread sanitizer: call did not return" % sid,
                                     scenario_text=run.scn_text((sid, lines))))
    res["coverage"]["tsan_programs"] = len(scns)
    res["coverage"]["tsan_reports"] = len(seen)
    return res


register("C11", gen=gen_pool, runner=c11_runner, oracles=[oracle.c11], cause=oracle.c11_cause, watchdog=8,
         nontrivial=lambda si: any(c.cmd == "pool" and int(c.toks[1]) >= 2 for c in si.calls) or any(c.cmd == "blocks" for c in si.calls),
         tags=pool_tags, sections={"blocks", "pool_done", "pause_paused", "resume_paused", "resize_size", "stop_stopped", "grid"} | {"run%d" % i for i in range(12)} | {"run%d_once" % i for i in range(12)},
         lean_modules=["FsProofs.Properties.C11PerIndex", "FsModel.Pool5", "FsProofs.Properties.C11Spurious", "FsProofs.Properties.ShapesC11", "FsProofs.Properties.C11"],
         theorems=["Fs.C11.run_blocks_per_index", "Fs.C11.run_blocks_total", "Fs.C11.run_blocks_call_returns", "Fs.C11.execs_over_call", "Fs.C11.want_over_call", "Fs.C11.invariant5", "Fs.C11.exactly_once5", "Fs.C11.at_most_once_in_flight5", "Fs.C11.no_exec_outside_run5", "Fs.C11.no_stuck_state5", "Fs.C11.terminates5", "Fs.C11.no_infinite_run5", "Fs.C11.reaches_finished5", "Fs.C11.between_calls5", "Fs.C11.no_stranded_flag5", "Fs.C11.exit_only_when_flag_clear5", "Fs.C11.pause_returns_all_parked", "Fs.C11.pause_ends_only_by_resume", "Fs.C11.parked_stays5", "Fs.C11.leaves_only_when_cleared5", "Fs.C11.pauseReq_cleared_by_resume5", "Fs.C11.old_pause_hangs", "Fs.Shapes.source_shape_C11", "Fs.C11.blocks_exact", "Fs.C11.blocks_empty", "Fs.C11.index_in_unique_block", "Fs.C11.source_notifies_under_mutex",
                   "Fs.C11.source_publication", "Fs.C11.source_rejects_lost_wakeup_schedule", "Fs.C11.no_stuck_state", "Fs.Hb.publication_iff",
                   "Fs.C11.source_protocol_shape", "Fs.C11.exactly_once", "Fs.C11.no_stuck_state4", "Fs.C11.no_infinite_run",
                   "Fs.Pool4.inv_step", "Fs.Pool4.at_most_once_in_flight", "Fs.Pool4.no_stranded_flag", "Fs.Pool4.between_calls", "Fs.Pool4.terminates"],
         rule="(a) blocks(first,last,N,min): quick = 2400 sampled, thorough = all with last-first <= 40, N <= 12, min <= 12 (exhaustive); (b) API programs (the router's resume/resize/run_blocks/pause pattern, plus free mixes of run/pause/resume/resize/stop) on 1..4 (thorough ..16) workers under injected schedules: none, a thread held at one of the eight guarded schedule points (the windows the protocol model distinguishes), or seeded random delays; every program runs under ASan/UBSan and again under the thread sanitizer; non-trivial = block arithmetic, or a program on >= 2 workers",
         trusted_base=["C++ memory model reduced to a view-based release/acquire fragment (Fs.Hb); mutex/condition-variable semantics modelled at contract level (notify_all wakes exactly the threads inside wait; no spurious wake-ups)",
                       "delay injection explores interleavings by timing, it cannot force every schedule; resize/stop/destruction are exercised but not part of the protocol model",
                       "memory orders and 'notify under the mutex' are regenerated from thread_pool_inl.hpp by translate.py"])
_lvl("C11", "proof",
     "Theorems: blocks_exact / index_in_unique_block (for every range, pool size and minimum size the blocks of the executed function mkBlocks are at most pool-size many, non-empty, contiguous, and every index lies in exactly one); protocol model Fs.Pool4 (N workers, per-worker job flags, mutex, condition variable, stopped flag, caller programs of run_blocks / pause / resume / stop / resize as the library issues them, every interleaving): exactly_once (between API calls every worker has run its block exactly once per run_blocks call that gave it one; at_most_once_in_flight inside a call), no_stuck_state4 (a state whose caller has not finished always has an enabled thread: no lost wake-up, no deadlock, also through stop / join / resize / destruction while paused), no_infinite_run / terminates (a lexicographic measure decreases at every step: every fair execution terminates), no_stranded_flag, between_calls; the model transcribes the source's steps, which are re-checked on every run (source_protocol_shape: pause waits, publishes, then spins until all workers are counted; resume notifies under the mutex then waits; run_tasks resumes when paused; run_blocks waits; stop sets the flag, resumes if paused, joins; the worker tests stopped, then the flag, runs, clears; resize stops then resets - decide over facts regenerated from thread_pool_inl.hpp; source_notifies_under_mutex); source_publication (release/acquire orders regenerated from the source give happens-before for job data and results). The earlier 3-op model (no_stuck_state) is kept. Real C++ data races and spurious wake-ups are outside the model: covered by the TSan / schedule-injection runs only (partial). PER INDEX (C11PerIndex.lean): run_blocks_per_index / run_blocks_total compose the two halves - for one run_blocks(first, last, min_size) call on a pool between calls (any accepted history before it, any spurious-wake-up budgets): the call returns, and when it has returned every index of the range lies in the block of exactly one worker k < nb <= N whose execution count grew by exactly one, workers without a block executed nothing, the blocks are contiguous and stay inside the range (the protocol model counts executions per worker; 'worker k runs the callback once over its block' is the reading of the block job). SPURIOUS WAKE-UPS (FsModel/Pool5.lean, C11Spurious.lean): Fs.Pool5 is the protocol model of the repaired code WITH spurious wake-ups - a waiting worker may leave the wait without notification (ghost budget spur i, the fairness assumption 'finitely many per run', used only for termination), re-acquires the mutex and re-tests m_pause_requested; pause() sets the request and resume() clears it in the critical section of notify_all. Re-proved for every program, pool size and budget: the invariant, exactly_once5, at_most_once_in_flight5, no_exec_outside_run5, no_stuck_state5 (progress never relies on a spurious wake-up), terminates5 / no_infinite_run5 (measure includes the budgets), reaches_finished5, between_calls5, no_stranded_flag5; pause_returns_all_parked / pause_ends_only_by_resume / leaves_only_when_cleared5 (pause() returns only with every worker parked and counted, and a worker leaves the pause job only after resume() cleared the request). old_pause_hangs: for the OLD protocol (wait without predicate) plus the spurious rule a 14-step schedule with ONE spurious wake-up reaches a state where pause() spins with no thread able to step and no finished state reachable (decide) - the formal counterpart of finding D16. Asking what the earlier model (Fs.Pool4: a condition wait returns only when notified) hid led to finding D16 (the pause job waited without a predicate: a spurious wake-up made pause() spin forever), reproduced on the real code through a guarded injection point and repaired in /repo (the pause job now waits while m_pause_requested); the generators arm spurious returns in 30% of the pool programs and the translator requires the predicate loop.",
     "Lean 4 inductive invariant + progress + well-founded termination over all interleavings (any N) + Nat arithmetic proofs + decide over translator-regenerated protocol shape and memory orders; correspondence: schedule-injection harness (guarded hooks) under ASan and TSan")


# ----------------------------------------------------------------------------- C10

def gen_parallel(rng, tier):
    out = []
    for k in range(counts_fixed(tier, 90, 800)):
        r = rng.random()
        hi = 9 if tier == "quick" else 16
        if r < 0.3:
            g = gen.raster(rng, 3, hi, cache=True)
        elif r < 0.6:
            g = gen.raster(rng, 3, hi, cache=False)
        elif r < 0.75:
            g = gen.profile(rng, 4, 40, cache=rng.random() < 0.5)
        else:
            g = gen.mesh(rng, 4, 7 if tier == "quick" else 10)
        T = rng.choice([2, 3, 4, 8, 16])
        fam = rng.choice([["single"], ["pflood", "single"], ["single", "mst:%s:%s" % (rng.choice("kb"), rng.choice(["basic", "carve"]))],
                          ["single", "snap:a:g", "multi:" + hx(1.0)]])
        seq_ops = list(fam)
        par_ops = [("single:%d" % T if o == "single" else o) for o in fam]
        single_final = not any(o.startswith("multi") for o in fam)
        body = []
        for u in range(rng.randint(1, 3)):
            if rng.random() < 0.4:
                body.append("set_mask " + " ".join(map(str, gen.mask_bits(rng, g))))
            if rng.random() < 0.3:
                body.append("set_base " + " ".join(map(str, rng.sample(range(g.n), rng.randint(1, min(3, g.n))))))
            body.append("update " + gen.hexes(gen.elevation(rng, g)))
            body.append("acc s " + hx(1.0))
            if single_final:
                body.append("basins")
            # kernels: sequential reference first, then thread counts / thresholds
            for d in ("bfs", "any", "dfs"):
                body.append("kernel %s 1 0 0" % d)
                for _ in range(2):
                    body.append("kernel %s %d %d %d" % (d, rng.choice([2, 3, 4, 8, 16]), rng.choice([0, 1, 4, 64]), rng.choice([0, 1, 3, 16, 1000])))
        lines = [g.line(), "graph " + " ".join(seq_ops)] + body + ["graph " + " ".join(par_ops)] + body
        out.append(("p%d" % k, lines))
    return out


def par_tags(si):
    t = tags_grid(si)[:1] if si.calls else []
    g = si.calls[0].toks if si.calls else []
    if len(g) > 11 and g[1] == "raster":
        t.append("raster_cache:" + g[11])
    for c in si.calls:
        if c.cmd == "graph":
            for o in c.toks[1:]:
                if o.startswith("single:"):
                    t.append("threads:" + o.split(":")[1])
    return sorted(set(t))


def c10_runner(P, exe, model_ok, rng, tier, replay=None):
    """ASan run with model correspondence + the same scenarios repeated under the thread sanitizer"""
    res = generic_runner(P, exe, model_ok, rng, tier, replay)
    texe, tmsg = build.build_harness("tsan")
    res["coverage"]["harness_tsan"] = tmsg.split("\n")[0]
    if texe is None:
        res["corr_broken"].append("thread-sanitizer harness does not build: " + tmsg[:300])
        return res
    if replay:
        scns = read_blocks(replay)
    else:
        rng2 = random_mod.Random(rng.random())
        scns = (corpus(P["id"]) + P["gen"](rng2, tier))[: counts_fixed(tier, 40, 300)]
    impl, notes, sans = run.run_harness(texe, scns, watchdog=P.get("watchdog", 30))
    seen = set()
    tmap = dict(scns)
    for r in sans:
        if "ThreadSanitizer" not in r["kind"]:
            continue
        key = (r["kind"], r["where"])
        if key in seen:
            continue
        seen.add(key)
        sid = r.get("scn")
        res["fails"].append(dict(clause="data_race", cause=r["where"], witness="%s at %s (scenario %s)" % (r["kind"], r["where"], sid),
                                 scenario_text=(run.scn_text((sid, tmap[sid])) if sid in tmap else "") + "\n# report:\n# " + r["text"][:1800].replace("\n", "\n# ")))
    for sid, lines in scns:
        si = impl.get(sid)
        if si is None:
            continue
        if si.hang or (sid in notes and notes[sid][0] in (3, -9)):
            res["fails"].append(dict(clause="terminates", cause="other", witness="scenario %s under the thread sanitizer: call did not return" % sid, scenario_text=run.scn_text((sid, lines))))
            continue
        for clause, wit in oracle.c10(si)[:3]:
            res["fails"].append(dict(clause=clause, cause="other", witness="scenario %s (thread-sanitizer build): %s" % (sid, wit), scenario_text=run.scn_text((sid, lines))))
    res["coverage"]["tsan_scenarios"] = len(scns)
    res["coverage"]["tsan_reports"] = len(seen)
    return res


register("C10", gen=gen_parallel, runner=c10_runner, oracles=[oracle.c10], watchdog=30,
         nontrivial=lambda si: sum(1 for c in si.calls if c.cmd == "graph") >= 2 and any(c.cmd == "kernel" and int(c.toks[2]) > 1 and "kernel" in c.O for c in si.calls),
         tags=par_tags, sections={"update", "elev", "acc", "acc_overloads_agree", "basins", "outlets", "pits", "kernel", "kvisits", "knodes", "graph"} | GRAPH_SECTIONS,
         rule="cached raster, cache-less raster, profile and mesh grids; operator families with a single router (plain, flooded, spanning-tree resolved, followed by a multi router); every scenario runs the same 1-3 updates (+ accumulate, basins, kernels) first with sequential routers, then with 2..16 threads; kernels applied sequentially and with thread counts 2..16 x minimum block sizes x minimum level sizes in breadth-first / any / depth-first order; everything under ASan and again under the thread sanitizer; non-trivial = both graphs ran and a multi-threaded kernel returned",
         lean_modules=["FsProofs.Properties.ClosedC10", "FsProofs.Properties.ShapesC10", "FsProofs.Properties.ClosedMore", "FsProofs.Properties.C10", "FsProofs.Properties.C10Kernel"],
         theorems=["Fs.Closed.grid_C10_kernel_resolve", "Fs.Shapes.source_shape_C10", "Fs.Closed.raster_C10_kernel_single", "Fs.Closed.raster_C10_kernel_multi", "Fs.Closed.mesh_C10_kernel_single", "Fs.C10.kernel_par_eq_seq", "Fs.C10.multi_kernel_par_eq_seq", "Fs.C10.single_kernel_par_eq_seq", "Fs.C10.level_nonInterfering", "Fs.C10.level_par_eq_seq", "Fs.C10.kernel_par_exists", "Fs.C10.blockSlices_global",
                   "Fs.C10.par_rows_eq_seq", "Fs.C10.par_tables_eq_seq", "Fs.C10.source_nocache_per_thread", "Fs.Commute.schedules_agree", "Fs.C11.index_in_unique_block", "Fs.C11.no_stuck_state", "Fs.C11.exactly_once"],
         trusted_base=FLOW_TB + ["footprints of the per-node router task (own receiver row, own neighbour buffer) are read off the source by hand; the storage class of the pass-through neighbour buffer is regenerated by translate.py",
                                 "thread interleavings are explored by the OS scheduler under TSan/ASan and by repeated runs, not enumerated"])
_lvl("C10", "proof",
     "Theorems: kernel_par_eq_seq (model of apply_kernel_par: levels in turn with a barrier, each level split by the executed block arithmetic mkBlocks into one task per worker or run by the caller below min_level_size; a node step reads the node and its receivers and writes the node: whenever the levels are duplicate-free and every receiver lies in a strictly earlier level, EVERY complete interleaving of every level, for every thread count, minimum block size and minimum level size, ends in the memory of the sequential breadth-first sweep), instantiated for the graphs the executed routers build (multi_kernel_par_eq_seq, single_kernel_par_eq_seq, using the BFS theorem of C06), kernel_par_exists (non-vacuity), blockSlices_global (per-level slices = the global-index blocks run_blocks computes); schedules_agree (non-interfering tasks end in the same memory under every interleaving); par_rows_eq_seq / par_tables_eq_seq (the model's multi-threaded router is the sequential per-node function: receivers, distances, weights, donor lists without self entries and hence the traversal orders coincide); source_nocache_per_thread (the pass-through neighbour buffer is per thread in the source, re-decided each run); with the pool theorems of C11 (each index in exactly one block, each block run exactly once, no hang). A node step is one atomic action in the model; races inside getter/func/setter and in the C++ memory model are covered by the TSan runs only. AFTER THE SINK RESOLVER (ClosedC10.lean): grid_C10_kernel_resolve - the same statement for the graph the spanning-tree resolver returns (its rebuilt breadth-first levels are valid by Fs.C06.single_bfs on the SingleGraph of resolve_c01_singleRouter), on every grid with EnvOk, with non-vacuity instances.",
     "Lean 4 non-interference induction over interleavings composed with the BFS-level theorem and the block arithmetic + model equality seq/par + translator flag; correspondence under ASan and TSan with sequential-vs-parallel oracle")
