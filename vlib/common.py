"""Shared helpers: bit-exact doubles, transcript parsing."""
import struct
import math
from fractions import Fraction

SIZE_MAX = 18446744073709551615


def hx(d):
    return "%016x" % struct.unpack("<Q", struct.pack("<d", float(d)))[0]


def unhx(s):
    return struct.unpack("<d", struct.pack("<Q", int(s, 16)))[0]


def bits(d):
    return struct.unpack("<Q", struct.pack("<d", float(d)))[0]


def frombits(b):
    return struct.unpack("<d", struct.pack("<Q", b))[0]


def next_up(x):
    """std::nextafter(x, +inf) for finite x"""
    if x == 0.0:
        return frombits(1)
    b = bits(x)
    return frombits(b + 1) if x > 0 else frombits(b - 1)


def ulps_between(a, b):
    """number of representable steps from a up to b (a <= b), on the ordered-bits line"""

    def key(x):
        u = bits(x)
        return u if u < (1 << 63) else (1 << 63) - u

    if a == 0.0:
        a = 0.0
    if b == 0.0:
        b = 0.0
    return key(b) - key(a)


def frac(x):
    return Fraction(x)


class Call:
    __slots__ = ("li", "toks", "I", "O", "olines")

    def __init__(self, li, toks):
        self.li = li
        self.toks = toks
        self.I = {}  # section -> list of token lists
        self.O = {}  # section -> token list (last) ; olines keeps all in order
        self.olines = []

    @property
    def cmd(self):
        return self.toks[0] if self.toks else ""

    def i(self, key, default=None):
        v = self.I.get(key)
        return v[0] if v else default

    def o(self, key, default=None):
        return self.O.get(key, default)


class Scn:
    __slots__ = ("id", "calls", "san", "crashed", "hang", "xlines", "complete")

    def __init__(self, sid):
        self.id = sid
        self.calls = []
        self.san = []  # sanitizer / stray lines
        self.crashed = False
        self.hang = False
        self.xlines = []
        self.complete = False


def parse_transcript(text):
    """-> list of Scn (in order).  Lines that are not protocol lines are sanitizer output."""
    scns = []
    cur = None
    call = None
    for raw in text.split("\n"):
        if not raw:
            continue
        tag = raw[:2]
        if tag == "S ":
            cur = Scn(raw[2:].strip())
            scns.append(cur)
            call = None
        elif cur is None:
            continue
        elif tag == "E ":
            cur.complete = True
            cur = None
            call = None
        elif tag == "C ":
            t = raw.split()
            call = Call(int(t[1]), t[2:])
            cur.calls.append(call)
        elif tag == "I " and call is not None:
            t = raw.split()
            call.I.setdefault(t[1], []).append(t[2:])
        elif tag == "O ":
            t = raw.split()
            if call is None:
                call = Call(0, ["<pre>"])
                cur.calls.append(call)
            if t[1] == "hang":
                cur.hang = True
            call.O[t[1]] = t[2:]
            call.olines.append(raw)
        elif tag == "X ":
            cur.xlines.append(raw)
            if "hang" in raw:
                cur.hang = True
        else:
            cur.san.append(raw)
    return scns
