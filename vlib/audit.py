"""Audit of the Lean development: forbidden constructs, axioms per property theorem,
optional independent re-check with leanchecker."""
import os
import re
import subprocess
import tempfile

from . import build

ALLOWED = {"propext", "Classical.choice", "Quot.sound"}
FORBIDDEN = re.compile(r"\bsorry\b|\badmit\b|^\s*axiom\s|native_decide|bv_decide|implemented_by|\bunsafe\s|maxHeartbeats\s+0|@\[extern", re.M)


def strip_comments(s):
    out = []
    i, depth = 0, 0
    n = len(s)
    while i < n:
        if s.startswith("/-", i):
            depth += 1
            i += 2
        elif depth and s.startswith("-/", i):
            depth -= 1
            i += 2
        elif depth:
            if s[i] == "\n":
                out.append("\n")
            i += 1
        elif s.startswith("--", i):
            while i < n and s[i] != "\n":
                i += 1
        else:
            out.append(s[i])
            i += 1
    return "".join(out)


def grep_forbidden():
    bad = []
    for base in ("FsModel", "FsProofs"):
        d = os.path.join(build.LEAN, base)
        for dirpath, _, files in os.walk(d):
            for fn in files:
                if fn.endswith(".lean"):
                    p = os.path.join(dirpath, fn)
                    txt = strip_comments(open(p).read())
                    for m in FORBIDDEN.finditer(txt):
                        line = txt.count("\n", 0, m.start()) + 1
                        bad.append("%s:%d: forbidden construct %r" % (os.path.relpath(p, build.LEAN), line, m.group(0).strip()))
    return bad


def run_audit(P, lake_ok):
    theorems = P.get("theorems", [])
    res = dict(obligations=len(theorems), discharged=0, theorems={}, bad=[],
               checker_cmd="cd lean && lake build fsmodel %s && lake env lean <Audit: #print axioms ...>" % " ".join(P.get("lean_modules", [])),
               trusted_base=["Lean 4.33.0 kernel", "axioms allowed: propext, Classical.choice, Quot.sound",
                             "translate.py (regex extraction of tables/flags from /repo)",
                             "differential correspondence harness<->fsmodel (sampled)"])
    res["bad"] += grep_forbidden()
    if not theorems:
        return res
    if not lake_ok:
        res["bad"].append("theorems not re-checked: lake build failed")
        return res
    mods = P.get("lean_modules", [])
    src = "".join("import %s\n" % m for m in mods) + "".join("#print axioms %s\n" % t for t in theorems)
    with tempfile.NamedTemporaryFile("w", suffix=".lean", delete=False, dir=build.LEAN) as f:
        f.write(src)
        path = f.name
    try:
        r = subprocess.run(["lake", "env", "lean", path], cwd=build.LEAN, capture_output=True, text=True, timeout=1200)
    finally:
        os.unlink(path)
    out = r.stdout + r.stderr
    out = out.replace("\n  ", " ")
    for t in theorems:
        short = t
        m = re.search(r"'%s' depends on axioms: \[([^\]]*)\]" % re.escape(short), out)
        m0 = re.search(r"'%s' does not depend on any axioms" % re.escape(short), out)
        if m0:
            res["theorems"][t] = []
            res["discharged"] += 1
        elif m:
            ax = [a.strip() for a in m.group(1).replace("\n", " ").split(",") if a.strip()]
            res["theorems"][t] = ax
            extra = [a for a in ax if a not in ALLOWED]
            if extra:
                res["bad"].append("theorem %s depends on non-standard axioms %s" % (t, extra))
            else:
                res["discharged"] += 1
        else:
            res["theorems"][t] = None
            res["bad"].append("theorem %s not found / does not elaborate" % t)
    return res


def run_leanchecker(P):
    bad = []
    done = []
    for m in P.get("lean_modules", []):
        try:
            r = subprocess.run(["lake", "env", "leanchecker", m], cwd=build.LEAN, capture_output=True, text=True, timeout=1800)
            if r.returncode != 0:
                bad.append("%s: %s" % (m, (r.stdout + r.stderr)[-400:]))
            else:
                done.append(m)
        except subprocess.TimeoutExpired:
            bad.append("%s: leanchecker timeout" % m)
    return dict(bad=bad, summary="leanchecker ok on %s" % done)
