"""Scenario generators.  Every random choice derives from one random.Random(seed)."""
import math
import random

from .common import hx, next_up

ST = "cvgl"  # core, fixed_value, fixed_gradient, looped
CONNS = ["rook", "queen", "bishop"]
SPACINGS = [(1.0, 1.0), (0.5, 0.5), (2.0, 1.0), (3.7, 1.3), (1.0, 2.0)]


class Grid:
    """description of a grid + the `grid` scenario line"""

    def __init__(self, kind, **kw):
        self.kind = kind
        self.__dict__.update(kw)

    @property
    def n(self):
        if self.kind == "raster":
            return self.rows * self.cols
        if self.kind == "profile":
            return self.size
        return len(self.pts)

    def line(self):
        if self.kind == "raster":
            ov = "ov %d %s" % (len(self.ov), " ".join("%d %d %s" % (r, c, s) for (r, c, s) in self.ov))
            ln = (" len=%s,%s" % (hx(self.length[0]), hx(self.length[1]))) if getattr(self, "length", None) else ""
            return "grid raster %d %d %s %s %s %s %d %s%s" % (
                self.rows, self.cols, hx(self.dy), hx(self.dx), self.conn, " ".join(self.borders), int(self.cache), ov, ln)
        if self.kind == "profile":
            ov = "ov %d %s" % (len(self.ov), " ".join("%d %s" % (i, s) for (i, s) in self.ov))
            ln = (" len=%s" % hx(self.length)) if getattr(self, "length", None) else ""
            return "grid profile %d %s %s %d %s%s" % (self.size, hx(self.dx), " ".join(self.borders), int(self.cache), ov, ln)
        pts = " ".join(hx(x) + " " + hx(y) for (x, y) in self.pts)
        tri = " ".join("%d %d %d" % t for t in self.tris)
        if self.status is None:
            st = "none"
        elif isinstance(self.status, dict):
            st = "map %d %s" % (len(self.status), " ".join("%d %s" % (i, s) for i, s in sorted(self.status.items())))
        else:
            st = "arr %d %s" % (len(self.status), " ".join(self.status))
        return "grid mesh %d %d %s %s %s" % (len(self.pts), len(self.tris), pts, tri, st)


def admissible_borders(rng, allow_loop=True, want_base=True):
    """left right top bottom; looped only symmetric"""
    while True:
        lr_loop = allow_loop and rng.random() < 0.25
        tb_loop = allow_loop and rng.random() < 0.25
        pick = lambda: rng.choice("cvvg")
        l, r = ("l", "l") if lr_loop else (pick(), pick())
        t, b = ("l", "l") if tb_loop else (pick(), pick())
        bs = [l, r, t, b]
        if not want_base or "v" in bs:
            return bs


def raster(rng, lo=2, hi=7, conn=None, cache=None, borders=None, ov_prob=0.3, allow_loop=True, want_base=True):
    rows = rng.randint(lo, hi)
    cols = rng.randint(lo, hi)
    dy, dx = rng.choice(SPACINGS)
    bs = borders or admissible_borders(rng, allow_loop, want_base)
    ov = []
    if rng.random() < ov_prob:
        # valid overrides: not looped, not on a looped border node
        for _ in range(rng.randint(1, 3)):
            r, c = rng.randrange(rows), rng.randrange(cols)
            on_loop = (bs[0] == "l" and c in (0, cols - 1)) or (bs[2] == "l" and r in (0, rows - 1))
            if not on_loop and not any((r, c) == (a, b) for a, b, _ in ov):
                ov.append((r, c, rng.choice("cvg")))
    length = None
    if rng.random() < 0.15:
        # built with from_length: the spacing the library derives is length / (nodes - 1), the same
        # IEEE division as here
        length = (rng.choice([1.0, 10.0, 12.0, 7.3]), rng.choice([1.0, 10.0, 12.0, 0.9]))
        dy, dx = length[0] / (float(rows) - 1), length[1] / (float(cols) - 1)
    return Grid("raster", rows=rows, cols=cols, dy=dy, dx=dx, conn=conn or rng.choice(CONNS), borders=bs,
                cache=rng.random() < 0.5 if cache is None else cache, ov=ov, length=length)


def profile(rng, lo=2, hi=24, cache=None, ov_prob=0.3):
    n = rng.randint(lo, hi)
    if rng.random() < 0.2:
        bs = ["l", "l"]
    else:
        bs = [rng.choice("cvvg"), rng.choice("cvvg")]
    ov = []
    if rng.random() < ov_prob or (bs[0] != "v" and bs[1] != "v"):
        for _ in range(rng.randint(1, 2)):
            i = rng.randrange(n)
            if not (bs[0] == "l" and i in (0, n - 1)) and not any(i == a for a, _ in ov):
                ov.append((i, rng.choice("vvg")))
    dx = rng.choice([1.0, 0.5, 2.0, 3.7])
    length = None
    if rng.random() < 0.2:
        length = rng.choice([1.0, 10.0, 12.0, 7.3])
        dx = length / float(n - 1)
    return Grid("profile", size=n, dx=dx, borders=bs,
                cache=rng.random() < 0.5 if cache is None else cache, ov=ov, length=length)


def mesh(rng, lo=3, hi=6, holes=True, status="none"):
    """jittered lattice, each cell split along a random diagonal; optional holes / isolated
    nodes / random vertex order inside triangles"""
    if rng.random() < 0.15:
        # fan: one hub joined to K rim nodes - node degrees around and above the mesh type's
        # compile-time maximum number of neighbours (20 by default)
        import math
        K = rng.choice([8, 17, 19, 20, 21, 22, 26])
        pts = [(0.0, 0.0)] + [(math.cos(2 * math.pi * k / K) * (1 + 0.1 * (k % 3)), math.sin(2 * math.pi * k / K) * (1 + 0.1 * (k % 3))) for k in range(K)]
        tris = [(0, k + 1, (k + 1) % K + 1) for k in range(K)]
        if rng.random() < 0.5:
            tris = [(t[0], t[2], t[1]) for t in tris]
        st = None
        if status == "map":
            st = {1: "v"}
        elif status == "arr":
            st = ["c"] + ["v"] * K
        return Grid("mesh", pts=pts, tris=tris, status=st, fan=True)
    nx, ny = rng.randint(lo, hi), rng.randint(lo, hi)
    jit = rng.choice([0.0, 0.2, 0.35])
    sy = rng.choice([1.0, 1.0, 0.5, 1.7])
    pts = []
    for j in range(ny):
        for i in range(nx):
            pts.append((i * 1.0 + rng.uniform(-jit, jit), j * sy + rng.uniform(-jit, jit) * min(1.0, sy)))
    tris = []
    for j in range(ny - 1):
        for i in range(nx - 1):
            if holes and rng.random() < 0.12:
                continue
            a, b, c, d = j * nx + i, j * nx + i + 1, (j + 1) * nx + i, (j + 1) * nx + i + 1
            two = [(a, b, d), (a, d, c)] if rng.random() < 0.5 else [(a, b, c), (b, d, c)]
            for t in two:
                t = list(t)
                k = rng.randrange(3)
                t = t[k:] + t[:k]
                if rng.random() < 0.5:
                    t = [t[0], t[2], t[1]]
                tris.append(tuple(t))
    if rng.random() < 0.2:
        pts.append((nx + 1.0, ny + 1.0))  # isolated node
    if not tris:
        tris = [(0, 1, nx)]
    st = None
    if status == "map":
        st = {rng.randrange(len(pts)): rng.choice("cvg") for _ in range(rng.randint(1, 4))}
        st[0] = "v"
    elif status == "arr":
        st = [rng.choice("ccvg") for _ in pts]
        st[0] = "v"
    return Grid("mesh", pts=pts, tris=tris, status=st)


def any_grid(rng, small=True, mesh_ok=True):
    r = rng.random()
    hi = 6 if small else 10
    if r < 0.62:
        return raster(rng, 2, hi)
    if r < 0.8 or not mesh_ok:
        return profile(rng, 2, 16 if small else 40)
    return mesh(rng, 3, 5 if small else 8)


# ---------------------------------------------------------------- elevation families

ELEV_FAMILIES = ["random", "ints", "ints2", "zero", "negative", "plane", "cones", "tiny", "huge", "plateau_eps", "steps"]


def elevation(rng, g, family=None):
    n = g.n
    fam = family or rng.choice(ELEV_FAMILIES)
    if getattr(g, "fan", False) and rng.random() < 0.6:
        # hub of a fan mesh lowest (every rim node is its donor) or highest (every rim node a receiver)
        hub = rng.choice([0.0, 10.0])
        return [hub] + [1.0 + 0.01 * k for k in range(n - 1)]
    if fam == "random":
        z = [rng.random() for _ in range(n)]
    elif fam == "ints":
        z = [float(rng.randint(0, 3)) for _ in range(n)]
    elif fam == "ints2":
        z = [float(rng.randint(-2, 6)) for _ in range(n)]
    elif fam == "zero":
        z = [0.0] * n
    elif fam == "negative":
        z = [-rng.random() * 10 for _ in range(n)]
    elif fam == "plane":
        a, b = rng.uniform(-1, 1), rng.uniform(-1, 1)
        cols = getattr(g, "cols", n)
        z = [a * (i // cols) + b * (i % cols) + rng.choice([0, 0, rng.random() * 0.3]) for i in range(n)]
    elif fam == "cones":
        cols = getattr(g, "cols", n)
        cs = [(rng.randrange(n), rng.uniform(0.5, 3)) for _ in range(rng.randint(1, 3))]
        z = []
        for i in range(n):
            r, c = i // cols, i % cols
            z.append(min(math.hypot(r - k // cols, c - k % cols) * s for k, s in cs) + rng.choice([0, 0, 1]))
    elif fam == "gentle":
        # almost flat ramp: neighbouring nodes differ by far less than typical solver tolerances
        # (drops of 1e-5 .. 3e-4), optionally below a steep "mountain front"
        cols = getattr(g, "cols", n)
        s = rng.choice([1e-5, 1e-4, 3e-4])
        front = rng.randrange(n) if rng.random() < 0.5 else n
        z = [s * ((i // cols) + 0.37 * (i % cols)) + (5.0 + 0.1 * i if i >= front else 0.0) for i in range(n)]
    elif fam == "tiny":
        z = [rng.randint(0, 4) * 1e-310 for _ in range(n)]
    elif fam == "huge":
        z = [rng.randint(0, 4) * 1e300 * rng.choice([1, 1, 0.5]) for _ in range(n)]
    elif fam == "plateau_eps":
        base = rng.choice([0.0, 1.0, 1000.0, -5.0])
        z = []
        for i in range(n):
            x = base
            for _ in range(rng.randint(0, 3)):
                x = next_up(x)
            z.append(x)
    else:  # steps
        z = [float(rng.randint(0, 2)) + rng.choice([0.0, 0.0, 0.5]) for _ in range(n)]
    return z


def mask_bits(rng, g, prob=None):
    p = rng.choice([0.0, 0.1, 0.25, 0.4]) if prob is None else prob
    m = [1 if rng.random() < p else 0 for _ in range(g.n)]
    # component-cutting masks: a whole interior row / column of a raster, an interior node of a
    # profile (regions without any base level appear on one side)
    if prob is None and rng.random() < 0.25:
        if g.kind == "raster" and g.rows >= 3 and g.cols >= 3:
            m = [1 if rng.random() < 0.05 else 0 for _ in range(g.n)]
            if rng.random() < 0.5:
                c = rng.randrange(1, g.cols - 1)
                for r in range(g.rows):
                    m[r * g.cols + c] = 1
            else:
                r = rng.randrange(1, g.rows - 1)
                for c in range(g.cols):
                    m[r * g.cols + c] = 1
        elif g.kind == "profile" and g.size >= 5:
            m = [0] * g.n
            m[rng.randrange(1, g.size - 1)] = 1
    if all(m):
        # a grid without any unmasked node has no graph at all (no outlet, no basin): not an input
        # of any property; a basin_graph built directly on it throws length_error from
        # reserve(basins_count() - 1) - unreachable through update_routes(), which returns early
        m[rng.randrange(g.n)] = 0
    return m


def hexes(v):
    return " ".join(hx(x) for x in v)


ROUTERS_SINGLE = ["single", "single:0"]


def resolver_ops(rng, which=None, multi_after=None):
    """one of the sink-resolved operator sequences of C01/C02"""
    w = which or rng.choice(["pflood_single", "pflood_multi", "mst_kc", "mst_kb", "mst_bc", "mst_bb"])
    # now and then the multi-threaded variant of the single router (same observable result)
    single = "single" if rng.random() < 0.8 else "single:%d" % rng.choice([2, 3, 4])
    if w == "pflood_single":
        return ["pflood", single]
    if w == "pflood_multi":
        return ["pflood", "multi:" + hx(rng.choice([0.0, 0.5, 1.0, 1.1, 2.0, 8.0]))]
    m = {"mst_kc": "mst:k:carve", "mst_kb": "mst:k:basic", "mst_bc": "mst:b:carve", "mst_bb": "mst:b:basic"}[w]
    ops = [single, m]
    ma = rng.random() < 0.3 if multi_after is None else multi_after
    if ma:
        ops.append("multi:" + hx(rng.choice([0.0, 1.0, 1.1, 2.0])))
    return ops


PRIO = {"c": 0, "l": 1, "g": 2, "v": 3}


def status_of(g):
    """documented status composition for generated (admissible) raster / profile grids"""
    if g.kind == "profile":
        st = ["c"] * g.size
        st[0] = g.borders[0]
        st[-1] = g.borders[1]
        for i, s_ in g.ov:
            st[i] = s_
        return st
    if g.kind != "raster":
        return None
    l, r, t, b = g.borders
    st = []
    for rr in range(g.rows):
        for cc in range(g.cols):
            rowb = t if rr == 0 else (b if rr == g.rows - 1 else None)
            colb = l if cc == 0 else (r if cc == g.cols - 1 else None)
            if rowb and colb:
                st.append(rowb if PRIO[rowb] >= PRIO[colb] else colb)
            else:
                st.append(rowb or colb or "c")
    for rr, cc, s_ in g.ov:
        st[rr * g.cols + cc] = s_
    return st
