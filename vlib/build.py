"""Build steps shared by all checks: translator, Lean model/proofs, C++ harness."""
import contextlib
import fcntl
import hashlib
import os
import shutil
import subprocess
import sys
import time

ROOT = os.path.dirname(os.path.dirname(os.path.abspath(__file__)))
REPO = os.environ.get("FS_REPO", "/repo")
LEAN = os.path.join(ROOT, "lean")
BUILD = os.path.join(ROOT, "build")
HARNESS_SRC = os.path.join(ROOT, "harness")
GUARD = "FASTSCAPELIB_VERIF_HOOKS"

TUS = ["main", "tu_raster_rook", "tu_raster_queen", "tu_raster_bishop", "tu_profile", "tu_mesh", "tu_pool"]
CXXFLAGS = [
    "-std=c++17", "-O1", "-g1", "-ffp-contract=off", "-fsanitize=address,undefined",
    "-fsanitize-recover=address", "-fno-sanitize-recover=undefined", "-D_GLIBCXX_ASSERTIONS",
    "-UNDEBUG", "-D" + GUARD, "-pthread",
]
TSAN_FLAGS = ["-std=c++17", "-O1", "-g1", "-ffp-contract=off", "-fsanitize=thread", "-UNDEBUG", "-D" + GUARD, "-pthread"]


_HELD = {}


@contextlib.contextmanager
def build_lock(name):
    """Serialise build steps between check processes that run at the same time (they share
    lean/.lake, Generated.lean and the harness cache).  Re-entrant within one process, so that
    translate -> lake build -> axiom audit can be held as ONE critical section (another check
    working on a different source tree must not regenerate the model in between)."""
    os.makedirs(BUILD, exist_ok=True)
    if name in _HELD:
        _HELD[name][1] += 1
        try:
            yield
        finally:
            _HELD[name][1] -= 1
        return
    with open(os.path.join(BUILD, ".lock_" + name), "w") as lf:
        fcntl.flock(lf, fcntl.LOCK_EX)
        _HELD[name] = [lf, 1]
        try:
            yield
        finally:
            del _HELD[name]
            fcntl.flock(lf, fcntl.LOCK_UN)


def log(msg):
    print("[build] " + msg, file=sys.stderr, flush=True)


def tree_hash(paths, extra=""):
    h = hashlib.sha256()
    h.update(extra.encode())
    for base in paths:
        for dirpath, dirnames, filenames in sorted(os.walk(base)):
            dirnames.sort()
            for fn in sorted(filenames):
                p = os.path.join(dirpath, fn)
                h.update(p.encode())
                with open(p, "rb") as f:
                    h.update(f.read())
    return h.hexdigest()[:16]


def run_translate():
    """-> (ok, message)"""
    with build_lock("lean"):
        return _run_translate()


def _run_translate():
    r = subprocess.run([sys.executable, os.path.join(ROOT, "translate.py")], capture_output=True, text=True,
                       env=dict(os.environ, FS_REPO=REPO))
    out = (r.stdout + r.stderr).strip()
    return r.returncode == 0, out


def lake_build(targets, timeout=3000):
    """-> (ok, output)"""
    t0 = time.time()
    with build_lock("lean"):
        r = subprocess.run(["lake", "build"] + targets, cwd=LEAN, capture_output=True, text=True, timeout=timeout)
    out = "\n".join(l for l in (r.stdout + r.stderr).split("\n") if "WARNING" not in l)
    log("lake build %s: rc=%d in %.1fs" % (" ".join(targets), r.returncode, time.time() - t0))
    return r.returncode == 0, out


_PRIVATE_MODEL = [None]


def model_exe():
    """the compiled model driver; after `snapshot_model_exe` the private copy taken inside the
    build critical section (a concurrent check on another source tree may rebuild the shared one)"""
    return _PRIVATE_MODEL[0] or os.path.join(LEAN, ".lake", "build", "bin", "fsmodel")


def snapshot_model_exe():
    import atexit, shutil
    src = os.path.join(LEAN, ".lake", "build", "bin", "fsmodel")
    if not os.path.exists(src):
        return
    # private copies left behind by killed runs
    for fn in os.listdir(BUILD):
        if fn.startswith("fsmodel_run_"):
            try:
                os.kill(int(fn.rsplit("_", 1)[1]), 0)
            except (ProcessLookupError, ValueError):
                try:
                    os.unlink(os.path.join(BUILD, fn))
                except OSError:
                    pass
            except PermissionError:
                pass
    dst = os.path.join(BUILD, "fsmodel_run_%d" % os.getpid())
    shutil.copy2(src, dst)
    _PRIVATE_MODEL[0] = dst
    atexit.register(lambda: os.path.exists(dst) and os.unlink(dst))


def _compile_many(jobs):
    """jobs: list of (cmd, logpath) run in parallel -> list of (rc, logpath)"""
    procs = []
    for cmd, logp in jobs:
        lf = open(logp, "w")
        procs.append((subprocess.Popen(cmd, stdout=lf, stderr=subprocess.STDOUT), lf, logp))
    res = []
    for p, lf, logp in procs:
        rc = p.wait()
        lf.close()
        res.append((rc, logp))
    return res


def build_harness(kind="asan"):
    with build_lock("harness_" + kind):
        return _build_harness(kind)


def _build_harness(kind="asan"):
    """Compile the harness against /repo's current working tree.  Cached by content hash of
    /repo/include + harness sources + flags; a changed tree always recompiles.
    -> (path or None, message)"""
    flags = CXXFLAGS if kind == "asan" else TSAN_FLAGS
    srcs = TUS
    inc = os.path.join(REPO, "include")
    key = tree_hash([inc, HARNESS_SRC], extra=" ".join(flags) + kind)
    base = os.path.join(BUILD, "harness_" + kind)
    out_dir = os.path.join(base, key)
    exe = os.path.join(out_dir, "fsharness")
    if os.path.exists(exe):
        os.utime(out_dir, None)
        return exe, "cached " + key
    os.makedirs(out_dir, exist_ok=True)
    # keep disk use bounded: drop other cached variants of this kind
    others = sorted((d for d in os.listdir(base) if d != key), key=lambda d: os.path.getmtime(os.path.join(base, d)), reverse=True)
    for d in others[2:]:
        shutil.rmtree(os.path.join(base, d), ignore_errors=True)
    t0 = time.time()
    jobs = []
    for tu in srcs:
        cmd = ["g++"] + flags + ["-I" + inc, "-I" + HARNESS_SRC, "-c", os.path.join(HARNESS_SRC, tu + ".cpp"),
                                 "-o", os.path.join(out_dir, tu + ".o")]
        jobs.append((cmd, os.path.join(out_dir, tu + ".log")))
    res = _compile_many(jobs)
    bad = [lp for rc, lp in res if rc != 0]
    if bad:
        msg = open(bad[0]).read()[-3000:]
        return None, "harness does not compile against the current tree:\n" + msg
    link = ["g++"] + [f for f in flags if f.startswith("-fsanitize") or f == "-pthread"] + \
           [os.path.join(out_dir, tu + ".o") for tu in srcs] + ["-o", exe]
    r = subprocess.run(link, capture_output=True, text=True)
    if r.returncode != 0:
        return None, "harness link failed:\n" + r.stderr[-3000:]
    for tu in srcs:
        try:
            os.remove(os.path.join(out_dir, tu + ".o"))
        except OSError:
            pass
    log("harness(%s) built in %.1fs (%s)" % (kind, time.time() - t0, key))
    return exe, "built " + key
