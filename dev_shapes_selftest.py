#!/usr/bin/env python3
"""dev_shapes_selftest.py: sensitivity self-test of the translator sections `flow_shapes` and `grid_shapes`.

For each realistic small edit of the C++ source listed in EDITS: copy <repo>/include to a temporary
directory, apply the edit (plain string replacement; the original text must be present), run
translate.py against the copy (FS_REPO=<copy>, FS_GENERATED_OUT=<temporary Generated.lean>) and
check that at least one fact of the expected group(s) `shapesCxx` comes out `false`, while on the
unedited copy every fact is `true`.  The model's own Generated.lean is never touched.

usage: FS_REPO=/tmp/repo_pristine_head python3 dev_shapes_selftest.py
exit status 0 iff every edit is detected (and the unedited copy is all-true).
"""
import os
import re
import shutil
import subprocess
import sys
import tempfile

HERE = os.path.dirname(os.path.abspath(__file__))
REPO = os.environ.get("FS_REPO", "/tmp/repo_clean")
GROUPS = sorted(["C01", "C02", "C03", "C04", "C05", "C06", "C12", "C13", "C14", "C15", "C19",   # flow_shapes
                 "C07", "C08", "C10", "C11", "C16", "C17", "C18", "C20"])                        # grid_shapes

ROUTER = "flow/flow_router.hpp"
PFLOOD = "algo/pflood.hpp"
GRAPH = "flow/flow_graph_impl.hpp"
BASIN = "flow/basin_graph.hpp"
UF = "utils/union_find.hpp"
RESOLVER = "flow/sink_resolver.hpp"
SPL = "eroders/spl.hpp"
ADI = "eroders/diffusion_adi.hpp"
RASTER = "grid/raster_grid.hpp"
BASE = "grid/base.hpp"
PROFILE = "grid/profile_grid.hpp"
XCONT = "utils/xtensor_containers.hpp"
ITER = "utils/iterators.hpp"
INL = "flow/impl/flow_graph_inl.hpp"
POOL = "utils/impl/thread_pool_inl.hpp"
SNAP = "flow/flow_snapshot.hpp"
OPS = "flow/flow_operator.hpp"
MESH = "grid/trimesh.hpp"

# (label, file, original text, replacement, which occurrence (0-based), groups in which a fact must flip)
EDITS = [
    # ---- single flow router
    ("single seq: neighbour test `<` -> `<=`", ROUTER,
     "&& elevation.flat(n.idx) < elevation.flat(i))", "&& elevation.flat(n.idx) <= elevation.flat(i))", 0, ["C04", "C01"]),
    ("single par: neighbour test `<` -> `<=`", ROUTER,
     "&& elevation.flat(n.idx) < elevation.flat(i))", "&& elevation.flat(n.idx) <= elevation.flat(i))", 1, ["C04", "C01"]),
    ("single seq: mask test of the neighbour removed", ROUTER,
     "if (!graph_impl.is_masked(n.idx)\n                            && elevation.flat(n.idx) < elevation.flat(i))",
     "if (elevation.flat(n.idx) < elevation.flat(i))", 0, ["C04", "C01"]),
    ("single par: `slope > slope_max` -> `>=`", ROUTER, "if (slope > slope_max)", "if (slope >= slope_max)", 1, ["C04"]),
    ("single seq: slope no longer divided by the distance", ROUTER,
     "slope = (elevation.flat(i) - elevation.flat(n.idx)) / n.distance;", "slope = (elevation.flat(i) - elevation.flat(n.idx));", 0, ["C04"]),
    ("single seq: base-level skip `continue` -> `break`", ROUTER, "continue;", "break;", 0, ["C04", "C01"]),
    ("single par: base-level test dropped from the skip", ROUTER,
     "if (graph_impl.is_masked(i) || graph_impl.is_base_level(i))", "if (graph_impl.is_masked(i))", 1, ["C04", "C01"]),
    ("single seq: slope_max initialised with min() instead of lowest()", ROUTER,
     "slope_max = std::numeric_limits<double>::lowest();", "slope_max = std::numeric_limits<double>::min();", 0, ["C04"]),
    ("single: weights.fill(1.) dropped", ROUTER, "weights.fill(1.);", "", 0, ["C04"]),
    ("single seq: receiver distance not stored", ROUTER, "dist2receivers(i, 0) = n.distance;", "", 0, ["C04"]),
    # ---- multi flow router
    ("multi: mask test of the neighbour removed", ROUTER,
     "if (!graph_impl.is_masked(n.idx)\n                            && elevation.flat(i) > elevation.flat(n.idx))",
     "if (elevation.flat(i) > elevation.flat(n.idx))", 0, ["C05"]),
    ("multi: receivers `>` -> `>=`", ROUTER,
     "&& elevation.flat(i) > elevation.flat(n.idx))", "&& elevation.flat(i) >= elevation.flat(n.idx))", 0, ["C05"]),
    ("multi: exponent read from a cached member", ROUTER,
     "std::pow(rel_slope, this->m_op_ptr->m_slope_exp)", "std::pow(rel_slope, m_cached_slope_exp)", 0, ["C05"]),
    ("multi: pow of the raw slope (repair D3 reverted)", ROUTER,
     "weight = std::pow(rel_slope,", "weight = std::pow(receivers_weight(i, j),", 0, ["C05"]),
    ("multi: weights divided by the receivers count instead of their sum", ROUTER,
     "receivers_weight(i, j) /= weights_sum;", "receivers_weight(i, j) /= nrec;", 0, ["C05"]),
    ("multi: pit row count set to 0", ROUTER, "receivers_count(i) = 1;", "receivers_count(i) = 0;", 1, ["C05"]),
    # ---- priority flood
    ("pflood: pit / open queue condition swapped (`<=` -> `>`)", PFLOOD,
     "if (elevation.flat(n_idx) <= elev_tiny_step)", "if (elevation.flat(n_idx) > elev_tiny_step)", 0, ["C02"]),
    ("pflood: pit condition `<=` -> `<`", PFLOOD,
     "if (elevation.flat(n_idx) <= elev_tiny_step)", "if (elevation.flat(n_idx) < elev_tiny_step)", 0, ["C02"]),
    ("pflood: heap tie-break on the index removed (repair D4 reverted)", PFLOOD,
     "return m_elevation > other.m_elevation\n                       || (m_elevation == other.m_elevation && m_idx > other.m_idx);",
     "return m_elevation > other.m_elevation;", 0, ["C02"]),
    ("pflood: pit queue no longer served first", PFLOOD, "else if (!pit.empty())", "else if (open.empty())", 0, ["C02"]),
    ("pflood: skip of masked / closed neighbours `continue` -> `break`", PFLOOD, "continue;", "break;", 1, ["C02"]),
    ("pflood: masked base levels seed the queue (skip removed)", PFLOOD, "if (graph_impl.is_masked(idx))", "if (false)", 0, ["C02"]),
    ("pflood: nextafter towards lowest()", PFLOOD,
     "std::numeric_limits<elev_t>::infinity()", "std::numeric_limits<elev_t>::lowest()", 0, ["C02"]),
    # ---- accumulate
    ("accumulate: `if (ireceiver != inode)` removed", GRAPH, "if (ireceiver != inode)", "if (true)", 0, ["C03"]),
    ("accumulate: forward instead of reverse sweep", GRAPH, "nodes_indices.rbegin()", "nodes_indices.begin()", 0, ["C03"]),
    ("accumulate: receiver share assigned instead of added", GRAPH,
     "acc.flat(ireceiver) += acc.flat(inode)", "acc.flat(ireceiver) = acc.flat(inode)", 0, ["C03"]),
    ("accumulate: acc.fill(0) dropped", GRAPH, "acc.fill(0);", "", 0, ["C03"]),
    ("accumulate: receiver slots `r <` -> `r <=`", GRAPH, "r < m_receivers_count[inode]", "r <= m_receivers_count[inode]", 0, ["C03"]),
    # ---- donors / orders
    ("compute_donors: counts not reset", GRAPH, "m_donors_count.fill(0);", "", 0, ["C06"]),
    ("dfs topdown: visited counter `==` -> `>=`", GRAPH,
     "visited_count[irec] == m_donors_count(irec)", "visited_count[irec] >= m_donors_count(irec)", 0, ["C06"]),
    ("dfs bottomup: roots test on column 1", GRAPH, "if (m_receivers(i, 0) == i)\n                {\n                    tmp.push(i);",
     "if (m_receivers(i, 1) == i)\n                {\n                    tmp.push(i);", 0, ["C06"]),
    ("bfs: receiver-visited test `!= 1` -> `== 0`", GRAPH,
     "if (visited[m_receivers(donor_idx, rcv_idx)] != 1)", "if (visited[m_receivers(donor_idx, rcv_idx)] == 0)", 0, ["C06"]),
    ("bfs: `break` -> `continue` in the receivers scan", GRAPH, "skip = true;\n                                break;",
     "skip = true;\n                                continue;", 0, ["C06"]),
    # ---- basins
    ("compute_basins: label counter not incremented at outlets", GRAPH,
     "m_outlets.push_back(inode);\n                    current_basin++;", "m_outlets.push_back(inode);", 0, ["C19"]),
    ("compute_basins: masked nodes keep the current label", GRAPH, "m_basins(inode) = no_basin;", "m_basins(inode) = current_basin;", 0, ["C19"]),
    ("pits: base-level test inverted", GRAPH, "if (!is_base_level(outlet))", "if (is_base_level(outlet))", 0, ["C19"]),
    # ---- basin graph / union-find
    ("connect_basins: std::fill of m_edge_positions removed", BASIN,
     "std::fill(m_edge_positions.begin(), m_edge_positions.end(), init_idx);", "", 0, ["C15"]),
    ("connect_basins: m_edges.clear() removed", BASIN, "m_edges.clear();", "", 0, ["C15"]),
    ("connect_basins: replacement `<` -> `<=`", BASIN,
     "else if (pass_elevation < m_edges[edge_idx].pass_elevation)", "else if (pass_elevation <= m_edges[edge_idx].pass_elevation)", 0, ["C15"]),
    ("connect_basins: pass elevation std::max -> std::min", BASIN,
     "std::max(ielev, elevation.flat(n.idx))", "std::min(ielev, elevation.flat(n.idx))", 0, ["C15"]),
    ("connect_basins: lazy reset condition never true", BASIN, "if (current_basin != ibasin)", "if (false)", 0, ["C15"]),
    ("connect_basins: skip of inner neighbours `continue` -> `break`", BASIN,
     "if (skip && is_inner_nbasin)\n                    {\n                        continue;", "if (skip && is_inner_nbasin)\n                    {\n                        break;", 0, ["C15"]),
    ("kruskal: sort comparator `<` -> `>`", BASIN,
     "return m_edges[i0].pass_elevation < m_edges[i1].pass_elevation;", "return m_edges[i0].pass_elevation > m_edges[i1].pass_elevation;", 0, ["C15"]),
    ("kruskal: merge dropped", BASIN, "m_basins_uf.merge(link[0], link[1]);", "", 0, ["C15"]),
    ("union-find: compression assigns `t` instead of the root", UF, "parent[x] = c;", "parent[x] = t;", 0, ["C15"]),
    ("union-find: rank comparison `<` -> `<=`", UF, "if (rank[x] < rank[y])", "if (rank[x] <= rank[y])", 0, ["C15"]),
    ("orient_edges: `node != parent` dropped from the skip", BASIN,
     "if (edg.link[0] == parent && node != parent)", "if (edg.link[0] == parent)", 0, ["C15"]),
    ("orient_edges: pass nodes not swapped", BASIN, "std::swap(edg.pass[0], edg.pass[1]);", "", 0, ["C15"]),
    # ---- mst sink resolver
    ("resolver: early return on no pit removed", RESOLVER, "if (graph_impl.pits().empty())", "if (false)", 0, ["C01"]),
    ("resolver carve: loop until next_node is the pit", RESOLVER,
     "while (current_node != pit_inflow)", "while (next_node != pit_inflow)", 0, ["C01"]),
    ("resolver carve: receivers not reversed", RESOLVER, "receivers(next_node, 0) = current_node;", "", 0, ["C01"]),
    ("resolver basic: pass comparison `<` -> `<=`", RESOLVER,
     "if (elevation.flat(edge.pass[inflow]) < elevation.flat(edge.pass[outflow]))",
     "if (elevation.flat(edge.pass[inflow]) <= elevation.flat(edge.pass[outflow]))", 0, ["C01"]),
    ("resolver tilt: `<=` -> `<`", RESOLVER,
     "if (elevation.flat(idfs) <= elevation.flat(irec))", "if (elevation.flat(idfs) < elevation.flat(irec))", 0, ["C01", "C02"]),
    ("resolver: outer-basin edges `continue` -> `break` (carve)", RESOLVER, "continue;", "break;", 1, ["C01"]),
    # ---- stream power
    ("spl: m_erosion.fill(0) dropped", SPL, "m_erosion.fill(0);", "", 0, ["C12", "C13"]),
    ("spl: lake test `<=` -> `<`", SPL, "if (inode_elevation <= elevation_flooded)", "if (inode_elevation < elevation_flooded)", 0, ["C12", "C13"]),
    ("spl: outlet skip `continue` -> `break`", SPL, "continue;", "break;", 0, ["C12"]),
    ("spl: linear path not divided by the distance", SPL, "factor /= irec_distance;", "", 0, ["C12"]),
    ("spl: weight dropped from the factor", SPL, "drainage_area.flat(inode) * irec_weight, m_area_exp", "drainage_area.flat(inode), m_area_exp", 0, ["C12", "C13"]),
    ("spl: clamp to flooded + epsilon()", SPL,
     "elevation_flooded + std::numeric_limits<data_type>::min();", "elevation_flooded + std::numeric_limits<data_type>::epsilon();", 0, ["C12", "C13"]),
    ("spl: Newton loop `while (true)` -> `while (delta_0 > m_tolerance)`", SPL, "while (true)", "while (delta_0 > m_tolerance)", 0, ["C13"]),
    ("spl: Newton one-sided exit test", SPL, "if (std::fabs(func) <= m_tolerance)", "if (func <= m_tolerance)", 0, ["C13"]),
    ("spl: Newton residual sign", SPL, "auto func = delta_k + factor_delta_exp - delta_0;", "auto func = delta_k - factor_delta_exp - delta_0;", 0, ["C13"]),
    # ---- ADI diffusion
    ("adi: array factors 0.25 -> 0.5", ADI, "fr = 0.25 / (dy * dy);", "fr = 0.5 / (dy * dy);", 0, ["C14"]),
    ("adi: scalar factor uses dx for rows", ADI, "fr = m_k_coef_scalar * 0.5 / (dy * dy);", "fr = m_k_coef_scalar * 0.5 / (dx * dx);", 0, ["C14"]),
    ("adi: diagonal `1 + 2 * f` -> `1 + f`", ADI, "m_diag = 1 + 2 * xt::view", "m_diag = 1 + xt::view", 0, ["C14"]),
    ("adi: boundary diagonal 1 -> 0", ADI, "m_diag(0) = 1;", "m_diag(0) = 0;", 0, ["C14"]),
    ("adi: back substitution stops at 1 (`i > -1` -> `i > 0`)", ADI, "i > -1;", "i > 0;", 0, ["C14"]),
    ("adi: second half step without transposing the factors", ADI,
     "xt::transpose(m_factors_col, tranposed_dims),", "m_factors_col,", 0, ["C14"]),
    ("adi: erosion sign flipped", ADI, "erosion_v = elevation - xt::transpose(elevation_next);",
     "erosion_v = xt::transpose(elevation_next) - elevation;", 0, ["C14"]),
    # ================= grid_shapes =================
    # ---- neighbours (C07)
    ("raster: neighbour index uses nrows instead of ncols", RASTER,
     "static_cast<size_type>((offset)[0]) * m_shape[1]", "static_cast<size_type>((offset)[0]) * m_shape[0]", 0, ["C07"]),
    ("raster: unravel divides by nrows", RASTER, "size_type row = idx / ncols;", "size_type row = idx / m_shape[0];", 0, ["C07"]),
    ("raster: count looked up by index instead of node code", RASTER,
     "return m_neighbors_count[m_nodes_codes[idx]];", "return m_neighbors_count[idx];", 0, ["C07"]),
    ("distance: sum without squares", XCONT, "xt::sum(xt::square(drc))", "xt::sum(drc)", 0, ["C07"]),
    ("distance: zero offsets also count", XCONT, "xt::equal(xt::adapt(offset), 0), 0., 1.)", "xt::equal(xt::adapt(offset), 0), 1., 1.)", 0, ["C07"]),
    ("cache: row returned without testing `has`", BASE, "if (m_neighbors_indices_cache.has(idx))", "if (true)", 0, ["C07"]),
    ("cache: `has` inverted", BASE, "std::numeric_limits<std::size_t>::max() ? false : true;", "std::numeric_limits<std::size_t>::max() ? true : false;", 0, ["C07"]),
    ("pass-through buffer no longer thread_local", BASE,
     "static thread_local neighbors_indices_type node_neighbors;", "static neighbors_indices_type node_neighbors;", 0, ["C07"]),
    ("neighbors(idx, out): status of the node instead of the neighbour", BASE,
     "neighbor({ n_idx, n_distances[i], nodes_status()(n_idx) });", "neighbor({ n_idx, n_distances[i], nodes_status()(idx) });", 0, ["C07"]),
    ("neighbors(idx, out): output not resized", BASE, "neighbors.resize({ n_count });", "", 0, ["C07"]),
    ("profile: looped left end wraps to size - 2", PROFILE, "neighbors[0] = m_size - 1;", "neighbors[0] = m_size - 2;", 0, ["C07"]),
    # ---- table sizes, iterator (C08)
    ("graph impl: single-flow receivers width 2", GRAPH, "n_receivers_max = 1;", "n_receivers_max = 2;", 0, ["C08"]),
    ("graph impl: donors width without the + 1", GRAPH,
     "{ grid.size(), grid_type::n_neighbors_max() + 1 };", "{ grid.size(), grid_type::n_neighbors_max() };", 0, ["C08"]),
    ("graph impl: bfs levels sized to grid size", GRAPH,
     "m_bfs_levels = xt::ones<size_type>({ grid.size() + 1 }) * -1;", "m_bfs_levels = xt::ones<size_type>({ grid.size() }) * -1;", 0, ["C08"]),
    ("iterator ctor: filter called before the bounds test", ITER,
     "while ((m_idx < m_grid.size()) && (!m_filter_func(m_grid, m_idx)))", "while ((!m_filter_func(m_grid, m_idx)) && (m_idx < m_grid.size()))", 0, ["C08"]),
    ("iterator ++: bounds test `<` -> `<=`", ITER,
     "} while ((m_idx < m_grid.size()) && (!m_filter_func(m_grid, m_idx)));", "} while ((m_idx <= m_grid.size()) && (!m_filter_func(m_grid, m_idx)));", 0, ["C08"]),
    ("iterator --: `m_idx > 0` -> `m_idx >= 0`", ITER, "(m_idx > 0)", "(m_idx >= 0)", 0, ["C08"]),
    # ---- kernel application (C10)
    ("kernel seq: breadth_upstream uses the dfs indices", INL, "indices = &impl().bfs_indices();", "indices = &impl().dfs_indices();", 0, ["C10"]),
    ("kernel par: breadth_upstream uses the any-order levels", INL, "levels = &impl().bfs_levels();", "levels = &impl().any_order_levels();", 0, ["C10"]),
    ("kernel par: pool not resized to n_threads", INL, "m_thread_pool.resize(n_threads);", "", 0, ["C10"]),
    ("kernel par: levels loop from 0", INL, "for (std::size_t i = 1; i < levels->size(); ++i)", "for (std::size_t i = 0; i < levels->size(); ++i)", 0, ["C10"]),
    ("kernel par: `level_size <` -> `<=` min_level_size", INL, "if (level_size < kernel.min_level_size)", "if (level_size <= kernel.min_level_size)", 0, ["C10"]),
    ("kernel par: every runner uses node data 0", INL, "auto n_data = node_data[runner];", "auto n_data = node_data[0];", 0, ["C10"]),
    ("kernel par: setter dropped", INL, "kernel.node_data_setter(node_idx, n_data, data.data);", "", 0, ["C10"]),
    ("kernel par: run_blocks without min_block_size", INL, "run, kernel.min_block_size);", "run);", 0, ["C10"]),
    ("kernel seq: failure of the getter ignored", INL,
     "if (kernel.node_data_getter(i, data.data, new_node_data))", "if (kernel.node_data_getter(i, data.data, new_node_data) && false)", 0, ["C10"]),
    # ---- block partition (C11)
    ("blocks: cap `>` -> `>=`", POOL, "if (m_num_blocks > total_size)", "if (m_num_blocks >= total_size)", 0, ["C11"]),
    ("blocks: min-size test `<` -> `<=`", POOL, "if (total_size / m_num_blocks < min_size_)", "if (total_size / m_num_blocks <= min_size_)", 0, ["C11"]),
    ("blocks: recomputation without max(1, .)", POOL,
     "m_num_blocks = std::max(std::size_t{ 1 }, total_size / min_size_);", "m_num_blocks = total_size / min_size_;", 0, ["C11"]),
    ("blocks: remainder dropped", POOL, "m_remainder = total_size % m_num_blocks;", "m_remainder = 0;", 0, ["C11"]),
    ("blocks start: `block < m_remainder` -> `<=`", POOL, "block < m_remainder ? block : m_remainder", "block <= m_remainder ? block : m_remainder", 0, ["C11"]),
    ("blocks end: last block test off by one", POOL, "(block == m_num_blocks - 1)", "(block == m_num_blocks)", 0, ["C11"]),
    ("run_blocks: partition over a fixed number of blocks", POOL,
     "const blocks blks(first_index, index_after_last, m_size, min_size);", "const blocks blks(first_index, index_after_last, 1, min_size);", 0, ["C11"]),
    # ---- snapshots, read-only graphs (C16)
    ("snapshot: elevation not copied", SNAP, "elevation_snapshot = elevation;", "", 0, ["C16"]),
    ("snapshot: bfs levels not copied", SNAP, "graph_impl_snapshot.m_bfs_levels = graph_impl.m_bfs_levels;", "", 0, ["C16"]),
    ("snapshot: elevation saved unconditionally", SNAP, "if (this->m_op_ptr->save_elevation())", "if (true)", 0, ["C16"]),
    ("snapshot: single-flow copies column 1", SNAP, "receivers_col = xt::col(graph_impl.m_receivers, 0);", "receivers_col = xt::col(graph_impl.m_receivers, 1);", 0, ["C16"]),
    ("update_routes: read-only guard removed", INL, "if (!m_writeable)", "if (false)", 0, ["C16"]),
    ("set_base_levels: read-only guard removed", INL, "if (!m_writeable)", "if (false)", 1, ["C16"]),
    ("set_mask: read-only guard removed", INL, "if (!m_writeable)", "if (false)", 2, ["C16"]),
    ("snapshot graphs constructed writeable", INL, ": m_writeable(false)", ": m_writeable(true)", 0, ["C16"]),
    ("update_routes: snapshots see the input elevation, not the corrected one", INL,
     "op->save(*m_impl_ptr, m_graph_impl_snapshots, *elevation_ptr, m_elevation_snapshots);",
     "op->save(*m_impl_ptr, m_graph_impl_snapshots, elevation, m_elevation_snapshots);", 0, ["C16"]),
    # ---- node status (C17)
    ("raster status: top border gets the bottom status", RASTER,
     "get_top_view(temp_nodes_status) = m_bounds_status.top;", "get_top_view(temp_nodes_status) = m_bounds_status.bottom;", 0, ["C17"]),
    ("raster status: corner takes the min of its borders", RASTER,
     "std::max(c.row_border, c.col_border, detail::node_status_cmp)", "std::min(c.row_border, c.col_border, detail::node_status_cmp)", 0, ["C17"]),
    ("raster status: second corner uses the left border", RASTER,
     "{ 0, ncols - 1, m_bounds_status.top, m_bounds_status.right },", "{ 0, ncols - 1, m_bounds_status.top, m_bounds_status.left },", 0, ["C17"]),
    ("raster status: range check of overrides dropped", RASTER,
     "container_impl<container_type>::check_size(temp_nodes_status, idx.first, idx.second);", "", 0, ["C17"]),
    ("raster status: looped overrides accepted", RASTER, "if (status == node_status::looped)", "if (false)", 0, ["C17"]),
    ("raster bounds: symmetry check `||` -> `&&`", RASTER,
     "is_looped(left) ^ is_looped(right) || is_looped(top) ^ is_looped(bottom)", "is_looped(left) ^ is_looped(right) && is_looped(top) ^ is_looped(bottom)", 0, ["C17"]),
    ("border view: right border is column 0", XCONT, "return xt::view(data, xt::all(), xt::keep(-1));", "return xt::view(data, xt::all(), 0);", 0, ["C17"]),
    ("profile status: last node gets the left status", PROFILE,
     "temp_nodes_status(m_size - 1) = m_bounds_status.right;", "temp_nodes_status(m_size - 1) = m_bounds_status.left;", 0, ["C17"]),
    ("nodes_indices(status): `==` -> `!=`", BASE, "grid.nodes_status().flat(idx) == status;", "grid.nodes_status().flat(idx) != status;", 0, ["C17"]),
    ("default base levels at fixed_gradient nodes", INL,
     "m_grid.nodes_indices(node_status::fixed_value)", "m_grid.nodes_indices(node_status::fixed_gradient)", 0, ["C17"]),
    # ---- triangular mesh (C18)
    ("trimesh: edge count incremented on first insertion", MESH, "if (!result.second)", "if (result.second)", 0, ["C18"]),
    ("trimesh: boundary edges `count == 1` -> `count >= 1`", MESH, "if (count == 1)", "if (count >= 1)", 0, ["C18"]),
    ("trimesh: neighbour added one way only", MESH, "m_neighbors_indices[edge_points.second].push_back(edge_points.first);", "", 0, ["C18"]),
    ("trimesh: distance without the y square", MESH, "(y1 - y2) * (y1 - y2)", "(y1 - y2)", 0, ["C18"]),
    ("trimesh: degree check `>` -> `>=`", MESH,
     "node_neighbors.size() > static_cast<size_type>(N)", "node_neighbors.size() >= static_cast<size_type>(N)", 0, ["C18"]),
    ("trimesh: default boundary status fixed_gradient", MESH,
     "temp_nodes_status[idx] = node_status::fixed_value;", "temp_nodes_status[idx] = node_status::fixed_gradient;", 0, ["C18"]),
    ("trimesh: looped accepted in the status map", MESH, "if (status == node_status::looped)", "if (false)", 0, ["C18"]),
    ("trimesh areas: 0.25 -> 0.5 in the squared area", MESH, "= 0.25\n", "= 0.5\n", 0, ["C18"]),
    ("trimesh areas: no floor at min()", MESH, "std::sqrt(std::max(area_square, just_above_zero))", "std::sqrt(area_square)", 0, ["C18"]),
    ("trimesh areas: share divided by 3", MESH, "ce_ratios / (3 - 1);", "ce_ratios / 3;", 0, ["C18"]),
    ("trimesh areas: isolated-node test `&&` -> `||`", MESH,
     "m_nodes_areas(i) == 0 && neighbors_count_impl(i) == 0", "m_nodes_areas(i) == 0 || neighbors_count_impl(i) == 0", 0, ["C18"]),
    # ---- operator sequence (C20)
    ("add_operator: direction check inverted", OPS, "ptr->in_flowdir != m_out_flowdir)", "ptr->in_flowdir == m_out_flowdir)", 0, ["C20"]),
    ("add_operator: non-single output keeps all_single_flow", OPS, "m_all_single_flow = false;", "m_all_single_flow = true;", 0, ["C20"]),
    ("add_operator: output direction not updated", OPS, "m_out_flowdir = ptr->out_flowdir;", "", 0, ["C20"]),
    ("add_operator: elevation_updated set from graph_updated", OPS, "if (ptr->elevation_updated)", "if (ptr->graph_updated)", 0, ["C20"]),
    ("sequence: all_single_flow starts false", OPS, "bool m_all_single_flow = true;", "bool m_all_single_flow = false;", 0, ["C20"]),
    ("update_snapshots: graph snapshot accepted with undefined direction", SNAP,
     "if (m_out_flowdir == flow_direction::undefined)", "if (false)", 0, ["C20"]),
    ("graph ctor: graph_updated check removed", INL, "if (!m_operators.graph_updated())", "if (false)", 0, ["C20"]),
    ("graph ctor: direction check `==` -> `!=`", INL,
     "if (m_operators.out_flowdir() == flow_direction::undefined)", "if (m_operators.out_flowdir() != flow_direction::undefined)", 0, ["C20"]),
    ("update_routes: elevation always copied", INL, "if (m_operators.elevation_updated())", "if (true)", 1, ["C20"]),
    ("update_routes: copy not refreshed from the argument", INL, "m_elevation_copy = elevation;", "", 0, ["C20"]),
]


def replace_nth(text, old, new, n):
    pos = -1
    for _ in range(n + 1):
        pos = text.find(old, pos + 1)
        assert pos >= 0, "original text not present (occurrence %d): %r" % (n, old)
    return text[:pos] + new + text[pos + len(old):]


def translate(root, out):
    env = dict(os.environ, FS_REPO=root, FS_GENERATED_OUT=out)
    try:
        r = subprocess.run([sys.executable, os.path.join(HERE, "translate.py")], env=env, capture_output=True, text=True, timeout=60)
    except subprocess.TimeoutExpired:
        return 124, "translate TIMEOUT (a pattern backtracks too much)", ""
    text = open(out).read() if os.path.exists(out) else ""
    return r.returncode, r.stdout.strip(), text


def shapes(text):
    """{group: {fact: bool}} parsed from a generated file"""
    res = {}
    for m in re.finditer(r"def shapes(C\d\d) : List \(String × Bool\) :=\s*\[(.*?)\]\n", text, flags=re.S):
        res[m.group(1)] = {k: v == "true" for k, v in re.findall(r'\("(\w+)", (true|false)\)', m.group(2))}
    return res


def main():
    tmp = tempfile.mkdtemp(prefix="shapes_selftest_")
    try:
        clean = os.path.join(tmp, "clean")
        shutil.copytree(os.path.join(REPO, "include"), os.path.join(clean, "include"))
        rc, msg, text = translate(clean, os.path.join(tmp, "Generated_clean.lean"))
        base = shapes(text)
        ok0 = rc == 0 and msg.startswith("translate ok") and sorted(base) == GROUPS and all(all(f.values()) for f in base.values())
        print("unedited copy: %s; %d facts in %d groups, all true: %s" % (msg, sum(len(f) for f in base.values()), len(base), ok0))
        if not ok0:
            for g, f in base.items():
                for k, v in f.items():
                    if not v:
                        print("  false on the unedited copy: %s.%s" % (g, k))
            return 1
        rows, bad = [], 0
        for i, (label, rel, old, new, nth, expect) in enumerate(EDITS):
            root = os.path.join(tmp, "edit%02d" % i)
            shutil.copytree(os.path.join(clean, "include"), os.path.join(root, "include"))
            path = os.path.join(root, "include", "fastscapelib", rel)
            src = open(path).read()
            open(path, "w").write(replace_nth(src, old, new, nth))
            rc, msg, text = translate(root, os.path.join(tmp, "Generated_%02d.lean" % i))
            got = shapes(text)
            fell_back = any("SECTION %s: PATTERN NOT FOUND" % sec in text for sec in ("flow_shapes", "grid_shapes"))
            flipped = {g: [k for k, v in f.items() if not v] for g, f in got.items()}
            flipped = {g: ks for g, ks in flipped.items() if ks}
            detected = (not fell_back) and all(flipped.get(g) for g in expect)
            # a fall back is also reported by the check (failed_sections), but the facts are then not informative
            status = "DETECTED" if detected else ("FELL-BACK" if fell_back else ("TIMEOUT" if rc == 124 else "MISSED"))
            bad += not detected
            rows.append((i + 1, label, rel, ",".join(expect), status, flipped))
            shutil.rmtree(root)
        w = max(len(r[1]) for r in rows)
        print("%3s  %-*s  %-9s %-9s  %s" % ("#", w, "edit", "expected", "result", "facts that became false"))
        for n, label, rel, exp, status, flipped in rows:
            fl = "; ".join("%s: %s" % (g, ", ".join(ks)) for g, ks in sorted(flipped.items()))
            print("%3d  %-*s  %-9s %-9s  %s" % (n, w, label, exp, status, fl))
        print("per group (facts; edits expected to flip a fact of the group: detected / total):")
        for g in GROUPS:
            mine = [r for r in rows if g in r[3].split(",")]
            hit = [r for r in mine if r[5].get(g)]
            print("  %s: %2d facts; edits %2d / %2d%s" % (g, len(base[g]), len(hit), len(mine), "" if len(hit) == len(mine) and len(mine) >= 3 else "   <-- CHECK"))
        print("%d edits, %d detected, %d not detected" % (len(rows), len(rows) - bad, bad))
        return 1 if bad else 0
    finally:
        shutil.rmtree(tmp, ignore_errors=True)


if __name__ == "__main__":
    sys.exit(main())
