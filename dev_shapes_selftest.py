#!/usr/bin/env python3
"""shapes_selftest.py: sensitivity self-test of the translator section `flow_shapes`.

For each realistic small edit of the C++ source listed in EDITS: copy <repo>/include to a temporary
directory, apply the edit (plain string replacement; the original text must be present), run
translate.py against the copy (FS_REPO=<copy>, FS_GENERATED_OUT=<temporary Generated.lean>) and
check that at least one fact of the expected group(s) `shapesCxx` comes out `false`, while on the
unedited copy every fact is `true`.  The model's own Generated.lean is never touched.

usage: FS_REPO=/tmp/repo_clean python3 shapes_selftest.py
exit status 0 iff every edit is detected (and the unedited copy is all-true).
"""
import os
import re
import shutil
import subprocess
import sys
import tempfile

HERE = os.path.dirname(os.path.abspath(__file__))
REPO = os.environ.get("FS_REPO", "/tmp/repo_clean")
GROUPS = ["C01", "C02", "C03", "C04", "C05", "C06", "C12", "C13", "C14", "C15", "C19"]

ROUTER = "flow/flow_router.hpp"
PFLOOD = "algo/pflood.hpp"
GRAPH = "flow/flow_graph_impl.hpp"
BASIN = "flow/basin_graph.hpp"
UF = "utils/union_find.hpp"
RESOLVER = "flow/sink_resolver.hpp"
SPL = "eroders/spl.hpp"
ADI = "eroders/diffusion_adi.hpp"

# (label, file, original text, replacement, which occurrence (0-based), groups in which a fact must flip)
EDITS = [
    # ---- single flow router
    ("single seq: neighbour test `<` -> `<=`", ROUTER,
     "&& elevation.flat(n.idx) < elevation.flat(i))", "&& elevation.flat(n.idx) <= elevation.flat(i))", 0, ["C04", "C01"]),
    ("single par: neighbour test `<` -> `<=`", ROUTER,
     "&& elevation.flat(n.idx) < elevation.flat(i))", "&& elevation.flat(n.idx) <= elevation.flat(i))", 1, ["C04", "C01"]),
    ("single seq: mask test of the neighbour removed", ROUTER,
     "if (!graph_impl.is_masked(n.idx)\n                            && elevation.flat(n.idx) < elevation.flat(i))",
     "if (elevation.flat(n.idx) < elevation.flat(i))", 0, ["C04", "C01"]),
    ("single par: `slope > slope_max` -> `>=`", ROUTER, "if (slope > slope_max)", "if (slope >= slope_max)", 1, ["C04"]),
    ("single seq: slope no longer divided by the distance", ROUTER,
     "slope = (elevation.flat(i) - elevation.flat(n.idx)) / n.distance;", "slope = (elevation.flat(i) - elevation.flat(n.idx));", 0, ["C04"]),
    ("single seq: base-level skip `continue` -> `break`", ROUTER, "continue;", "break;", 0, ["C04", "C01"]),
    ("single par: base-level test dropped from the skip", ROUTER,
     "if (graph_impl.is_masked(i) || graph_impl.is_base_level(i))", "if (graph_impl.is_masked(i))", 1, ["C04", "C01"]),
    ("single seq: slope_max initialised with min() instead of lowest()", ROUTER,
     "slope_max = std::numeric_limits<double>::lowest();", "slope_max = std::numeric_limits<double>::min();", 0, ["C04"]),
    ("single: weights.fill(1.) dropped", ROUTER, "weights.fill(1.);", "", 0, ["C04"]),
    ("single seq: receiver distance not stored", ROUTER, "dist2receivers(i, 0) = n.distance;", "", 0, ["C04"]),
    # ---- multi flow router
    ("multi: mask test of the neighbour removed", ROUTER,
     "if (!graph_impl.is_masked(n.idx)\n                            && elevation.flat(i) > elevation.flat(n.idx))",
     "if (elevation.flat(i) > elevation.flat(n.idx))", 0, ["C05"]),
    ("multi: receivers `>` -> `>=`", ROUTER,
     "&& elevation.flat(i) > elevation.flat(n.idx))", "&& elevation.flat(i) >= elevation.flat(n.idx))", 0, ["C05"]),
    ("multi: exponent read from a cached member", ROUTER,
     "std::pow(rel_slope, this->m_op_ptr->m_slope_exp)", "std::pow(rel_slope, m_cached_slope_exp)", 0, ["C05"]),
    ("multi: pow of the raw slope (repair D3 reverted)", ROUTER,
     "weight = std::pow(rel_slope,", "weight = std::pow(receivers_weight(i, j),", 0, ["C05"]),
    ("multi: weights divided by the receivers count instead of their sum", ROUTER,
     "receivers_weight(i, j) /= weights_sum;", "receivers_weight(i, j) /= nrec;", 0, ["C05"]),
    ("multi: pit row count set to 0", ROUTER, "receivers_count(i) = 1;", "receivers_count(i) = 0;", 1, ["C05"]),
    # ---- priority flood
    ("pflood: pit / open queue condition swapped (`<=` -> `>`)", PFLOOD,
     "if (elevation.flat(n_idx) <= elev_tiny_step)", "if (elevation.flat(n_idx) > elev_tiny_step)", 0, ["C02"]),
    ("pflood: pit condition `<=` -> `<`", PFLOOD,
     "if (elevation.flat(n_idx) <= elev_tiny_step)", "if (elevation.flat(n_idx) < elev_tiny_step)", 0, ["C02"]),
    ("pflood: heap tie-break on the index removed (repair D4 reverted)", PFLOOD,
     "return m_elevation > other.m_elevation\n                       || (m_elevation == other.m_elevation && m_idx > other.m_idx);",
     "return m_elevation > other.m_elevation;", 0, ["C02"]),
    ("pflood: pit queue no longer served first", PFLOOD, "else if (!pit.empty())", "else if (open.empty())", 0, ["C02"]),
    ("pflood: skip of masked / closed neighbours `continue` -> `break`", PFLOOD, "continue;", "break;", 1, ["C02"]),
    ("pflood: masked base levels seed the queue (skip removed)", PFLOOD, "if (graph_impl.is_masked(idx))", "if (false)", 0, ["C02"]),
    ("pflood: nextafter towards lowest()", PFLOOD,
     "std::numeric_limits<elev_t>::infinity()", "std::numeric_limits<elev_t>::lowest()", 0, ["C02"]),
    # ---- accumulate
    ("accumulate: `if (ireceiver != inode)` removed", GRAPH, "if (ireceiver != inode)", "if (true)", 0, ["C03"]),
    ("accumulate: forward instead of reverse sweep", GRAPH, "nodes_indices.rbegin()", "nodes_indices.begin()", 0, ["C03"]),
    ("accumulate: receiver share assigned instead of added", GRAPH,
     "acc.flat(ireceiver) += acc.flat(inode)", "acc.flat(ireceiver) = acc.flat(inode)", 0, ["C03"]),
    ("accumulate: acc.fill(0) dropped", GRAPH, "acc.fill(0);", "", 0, ["C03"]),
    ("accumulate: receiver slots `r <` -> `r <=`", GRAPH, "r < m_receivers_count[inode]", "r <= m_receivers_count[inode]", 0, ["C03"]),
    # ---- donors / orders
    ("compute_donors: counts not reset", GRAPH, "m_donors_count.fill(0);", "", 0, ["C06"]),
    ("dfs topdown: visited counter `==` -> `>=`", GRAPH,
     "visited_count[irec] == m_donors_count(irec)", "visited_count[irec] >= m_donors_count(irec)", 0, ["C06"]),
    ("dfs bottomup: roots test on column 1", GRAPH, "if (m_receivers(i, 0) == i)\n                {\n                    tmp.push(i);",
     "if (m_receivers(i, 1) == i)\n                {\n                    tmp.push(i);", 0, ["C06"]),
    ("bfs: receiver-visited test `!= 1` -> `== 0`", GRAPH,
     "if (visited[m_receivers(donor_idx, rcv_idx)] != 1)", "if (visited[m_receivers(donor_idx, rcv_idx)] == 0)", 0, ["C06"]),
    ("bfs: `break` -> `continue` in the receivers scan", GRAPH, "skip = true;\n                                break;",
     "skip = true;\n                                continue;", 0, ["C06"]),
    # ---- basins
    ("compute_basins: label counter not incremented at outlets", GRAPH,
     "m_outlets.push_back(inode);\n                    current_basin++;", "m_outlets.push_back(inode);", 0, ["C19"]),
    ("compute_basins: masked nodes keep the current label", GRAPH, "m_basins(inode) = no_basin;", "m_basins(inode) = current_basin;", 0, ["C19"]),
    ("pits: base-level test inverted", GRAPH, "if (!is_base_level(outlet))", "if (is_base_level(outlet))", 0, ["C19"]),
    # ---- basin graph / union-find
    ("connect_basins: std::fill of m_edge_positions removed", BASIN,
     "std::fill(m_edge_positions.begin(), m_edge_positions.end(), init_idx);", "", 0, ["C15"]),
    ("connect_basins: m_edges.clear() removed", BASIN, "m_edges.clear();", "", 0, ["C15"]),
    ("connect_basins: replacement `<` -> `<=`", BASIN,
     "else if (pass_elevation < m_edges[edge_idx].pass_elevation)", "else if (pass_elevation <= m_edges[edge_idx].pass_elevation)", 0, ["C15"]),
    ("connect_basins: pass elevation std::max -> std::min", BASIN,
     "std::max(ielev, elevation.flat(n.idx))", "std::min(ielev, elevation.flat(n.idx))", 0, ["C15"]),
    ("connect_basins: lazy reset condition never true", BASIN, "if (current_basin != ibasin)", "if (false)", 0, ["C15"]),
    ("connect_basins: skip of inner neighbours `continue` -> `break`", BASIN,
     "if (skip && is_inner_nbasin)\n                    {\n                        continue;", "if (skip && is_inner_nbasin)\n                    {\n                        break;", 0, ["C15"]),
    ("kruskal: sort comparator `<` -> `>`", BASIN,
     "return m_edges[i0].pass_elevation < m_edges[i1].pass_elevation;", "return m_edges[i0].pass_elevation > m_edges[i1].pass_elevation;", 0, ["C15"]),
    ("kruskal: merge dropped", BASIN, "m_basins_uf.merge(link[0], link[1]);", "", 0, ["C15"]),
    ("union-find: compression assigns `t` instead of the root", UF, "parent[x] = c;", "parent[x] = t;", 0, ["C15"]),
    ("union-find: rank comparison `<` -> `<=`", UF, "if (rank[x] < rank[y])", "if (rank[x] <= rank[y])", 0, ["C15"]),
    ("orient_edges: `node != parent` dropped from the skip", BASIN,
     "if (edg.link[0] == parent && node != parent)", "if (edg.link[0] == parent)", 0, ["C15"]),
    ("orient_edges: pass nodes not swapped", BASIN, "std::swap(edg.pass[0], edg.pass[1]);", "", 0, ["C15"]),
    # ---- mst sink resolver
    ("resolver: early return on no pit removed", RESOLVER, "if (graph_impl.pits().empty())", "if (false)", 0, ["C01"]),
    ("resolver carve: loop until next_node is the pit", RESOLVER,
     "while (current_node != pit_inflow)", "while (next_node != pit_inflow)", 0, ["C01"]),
    ("resolver carve: receivers not reversed", RESOLVER, "receivers(next_node, 0) = current_node;", "", 0, ["C01"]),
    ("resolver basic: pass comparison `<` -> `<=`", RESOLVER,
     "if (elevation.flat(edge.pass[inflow]) < elevation.flat(edge.pass[outflow]))",
     "if (elevation.flat(edge.pass[inflow]) <= elevation.flat(edge.pass[outflow]))", 0, ["C01"]),
    ("resolver tilt: `<=` -> `<`", RESOLVER,
     "if (elevation.flat(idfs) <= elevation.flat(irec))", "if (elevation.flat(idfs) < elevation.flat(irec))", 0, ["C01", "C02"]),
    ("resolver: outer-basin edges `continue` -> `break` (carve)", RESOLVER, "continue;", "break;", 1, ["C01"]),
    # ---- stream power
    ("spl: m_erosion.fill(0) dropped", SPL, "m_erosion.fill(0);", "", 0, ["C12", "C13"]),
    ("spl: lake test `<=` -> `<`", SPL, "if (inode_elevation <= elevation_flooded)", "if (inode_elevation < elevation_flooded)", 0, ["C12", "C13"]),
    ("spl: outlet skip `continue` -> `break`", SPL, "continue;", "break;", 0, ["C12"]),
    ("spl: linear path not divided by the distance", SPL, "factor /= irec_distance;", "", 0, ["C12"]),
    ("spl: weight dropped from the factor", SPL, "drainage_area.flat(inode) * irec_weight, m_area_exp", "drainage_area.flat(inode), m_area_exp", 0, ["C12", "C13"]),
    ("spl: clamp to flooded + epsilon()", SPL,
     "elevation_flooded + std::numeric_limits<data_type>::min();", "elevation_flooded + std::numeric_limits<data_type>::epsilon();", 0, ["C12", "C13"]),
    ("spl: Newton loop `while (true)` -> `while (delta_0 > m_tolerance)`", SPL, "while (true)", "while (delta_0 > m_tolerance)", 0, ["C13"]),
    ("spl: Newton one-sided exit test", SPL, "if (std::fabs(func) <= m_tolerance)", "if (func <= m_tolerance)", 0, ["C13"]),
    ("spl: Newton residual sign", SPL, "auto func = delta_k + factor_delta_exp - delta_0;", "auto func = delta_k - factor_delta_exp - delta_0;", 0, ["C13"]),
    # ---- ADI diffusion
    ("adi: array factors 0.25 -> 0.5", ADI, "fr = 0.25 / (dy * dy);", "fr = 0.5 / (dy * dy);", 0, ["C14"]),
    ("adi: scalar factor uses dx for rows", ADI, "fr = m_k_coef_scalar * 0.5 / (dy * dy);", "fr = m_k_coef_scalar * 0.5 / (dx * dx);", 0, ["C14"]),
    ("adi: diagonal `1 + 2 * f` -> `1 + f`", ADI, "m_diag = 1 + 2 * xt::view", "m_diag = 1 + xt::view", 0, ["C14"]),
    ("adi: boundary diagonal 1 -> 0", ADI, "m_diag(0) = 1;", "m_diag(0) = 0;", 0, ["C14"]),
    ("adi: back substitution stops at 1 (`i > -1` -> `i > 0`)", ADI, "i > -1;", "i > 0;", 0, ["C14"]),
    ("adi: second half step without transposing the factors", ADI,
     "xt::transpose(m_factors_col, tranposed_dims),", "m_factors_col,", 0, ["C14"]),
    ("adi: erosion sign flipped", ADI, "erosion_v = elevation - xt::transpose(elevation_next);",
     "erosion_v = xt::transpose(elevation_next) - elevation;", 0, ["C14"]),
]


def replace_nth(text, old, new, n):
    pos = -1
    for _ in range(n + 1):
        pos = text.find(old, pos + 1)
        assert pos >= 0, "original text not present (occurrence %d): %r" % (n, old)
    return text[:pos] + new + text[pos + len(old):]


def translate(root, out):
    env = dict(os.environ, FS_REPO=root, FS_GENERATED_OUT=out)
    try:
        r = subprocess.run([sys.executable, os.path.join(HERE, "translate.py")], env=env, capture_output=True, text=True, timeout=60)
    except subprocess.TimeoutExpired:
        return 124, "translate TIMEOUT (a pattern backtracks too much)", ""
    text = open(out).read() if os.path.exists(out) else ""
    return r.returncode, r.stdout.strip(), text


def shapes(text):
    """{group: {fact: bool}} parsed from a generated file"""
    res = {}
    for m in re.finditer(r"def shapes(C\d\d) : List \(String × Bool\) :=\s*\[(.*?)\]\n", text, flags=re.S):
        res[m.group(1)] = {k: v == "true" for k, v in re.findall(r'\("(\w+)", (true|false)\)', m.group(2))}
    return res


def main():
    tmp = tempfile.mkdtemp(prefix="shapes_selftest_")
    try:
        clean = os.path.join(tmp, "clean")
        shutil.copytree(os.path.join(REPO, "include"), os.path.join(clean, "include"))
        rc, msg, text = translate(clean, os.path.join(tmp, "Generated_clean.lean"))
        base = shapes(text)
        ok0 = rc == 0 and msg.startswith("translate ok") and sorted(base) == GROUPS and all(all(f.values()) for f in base.values())
        print("unedited copy: %s; %d facts in %d groups, all true: %s" % (msg, sum(len(f) for f in base.values()), len(base), ok0))
        if not ok0:
            for g, f in base.items():
                for k, v in f.items():
                    if not v:
                        print("  false on the unedited copy: %s.%s" % (g, k))
            return 1
        rows, bad = [], 0
        for i, (label, rel, old, new, nth, expect) in enumerate(EDITS):
            root = os.path.join(tmp, "edit%02d" % i)
            shutil.copytree(os.path.join(clean, "include"), os.path.join(root, "include"))
            path = os.path.join(root, "include", "fastscapelib", rel)
            src = open(path).read()
            open(path, "w").write(replace_nth(src, old, new, nth))
            rc, msg, text = translate(root, os.path.join(tmp, "Generated_%02d.lean" % i))
            got = shapes(text)
            fell_back = "SECTION flow_shapes: PATTERN NOT FOUND" in text
            flipped = {g: [k for k, v in f.items() if not v] for g, f in got.items()}
            flipped = {g: ks for g, ks in flipped.items() if ks}
            detected = (not fell_back) and all(flipped.get(g) for g in expect)
            # a fall back is also reported by the check (failed_sections), but the facts are then not informative
            status = "DETECTED" if detected else ("FELL-BACK" if fell_back else ("TIMEOUT" if rc == 124 else "MISSED"))
            bad += not detected
            rows.append((i + 1, label, rel, ",".join(expect), status, flipped))
            shutil.rmtree(root)
        w = max(len(r[1]) for r in rows)
        print("%3s  %-*s  %-9s %-9s  %s" % ("#", w, "edit", "expected", "result", "facts that became false"))
        for n, label, rel, exp, status, flipped in rows:
            fl = "; ".join("%s: %s" % (g, ", ".join(ks)) for g, ks in sorted(flipped.items()))
            print("%3d  %-*s  %-9s %-9s  %s" % (n, w, label, exp, status, fl))
        print("%d edits, %d detected, %d not detected" % (len(rows), len(rows) - bad, bad))
        return 1 if bad else 0
    finally:
        shutil.rmtree(tmp, ignore_errors=True)


if __name__ == "__main__":
    sys.exit(main())
