// Worker-pool part of the harness: thread_pool<size_t>::blocks arithmetic and whole API programs
// (run_blocks / pause / resume / resize / stop) driven under an injected schedule.  The guarded
// schedule points of thread_pool_inl.hpp (FS_VERIF_POINT) call `pool_hook`, which delays the
// calling thread at chosen points (explicit list or seeded random choice).
#include <atomic>
#include <chrono>
#include <mutex>
#include <thread>
#include "fsh.hpp"
#include "fastscapelib/utils/thread_pool.hpp"

namespace fsh
{
    namespace
    {
        struct Sched
        {
            std::map<std::pair<int, std::size_t>, unsigned> delays;  // (point, who) -> microseconds
            unsigned long long seed = 0;
            unsigned permille = 0;
            unsigned maxus = 0;
            std::atomic<unsigned long long> counter{ 0 };
            std::atomic<unsigned long long> fired{ 0 };
            // spurious wake-ups: worker -> number of its next waits that return without notification
            // (std::condition_variable::wait is allowed to do that); size_t(-1) = every worker
            std::map<std::size_t, std::atomic<int>> spurious;
            std::atomic<unsigned long long> spurious_fired{ 0 };
        };
        Sched* g_sched = nullptr;

        bool pool_spurious(std::size_t who)
        {
            Sched* s = g_sched;
            if (!s)
                return false;
            for (std::size_t key : { who, std::size_t(-1) })
            {
                auto it = s->spurious.find(key);
                if (it != s->spurious.end() && it->second.load() > 0 && it->second.fetch_sub(1) > 0)
                {
                    s->spurious_fired.fetch_add(1);
                    return true;
                }
            }
            return false;
        }

        void pool_hook(int point, std::size_t who)
        {
            Sched* s = g_sched;
            if (!s)
                return;
            unsigned us = 0;
            auto it = s->delays.find({ point, who });
            if (it == s->delays.end())
                it = s->delays.find({ point, std::size_t(-1) });
            if (it != s->delays.end())
                us = it->second;
            else if (s->permille)
            {
                unsigned long long k = s->counter.fetch_add(1);
                unsigned long long x = s->seed * 6364136223846793005ULL + k * 1442695040888963407ULL
                                       + static_cast<unsigned long long>(point) * 0x9E3779B97F4A7C15ULL + who;
                x ^= x >> 29;
                x *= 0xBF58476D1CE4E5B9ULL;
                x ^= x >> 32;
                if (x % 1000 < s->permille)
                    us = static_cast<unsigned>((x >> 12) % (s->maxus + 1));
            }
            if (us)
            {
                s->fired.fetch_add(1);
                std::this_thread::sleep_for(std::chrono::microseconds(us));
            }
        }

        std::vector<std::string> split(const std::string& tok, char sep)
        {
            std::vector<std::string> f;
            std::stringstream ss(tok);
            std::string x;
            while (std::getline(ss, x, sep))
                f.push_back(x);
            return f;
        }
    }

    void run_pool(Scenario& scn, std::ostream& os)
    {
        using pool_type = fs::thread_pool<std::size_t>;
        os << "O grid ok\n";
        for (std::size_t li = 2; li < scn.size(); ++li)
        {
            Line& l = scn[li];
            std::string cmd = l.next();
            os << "C " << li;
            for (auto& tk : l.t)
                os << ' ' << tk;
            os << "\n";
            if (cmd == "blocks")
            {
                std::size_t first = l.nsz(), last = l.nsz(), nb = l.nsz(), mn = l.nsz();
                pool_type::blocks b(first, last, nb, mn);
                os << "O blocks " << b.num_blocks();
                for (std::size_t k = 0; k < b.num_blocks(); ++k)
                    os << ' ' << b.start(k) << ' ' << b.end(k);
                os << "\n";
            }
            else if (cmd == "pool")
            {
                std::size_t N = l.nsz();
                Sched sched;
                std::vector<std::string> prog;
                while (l.more())
                {
                    std::string tk = l.next();
                    auto f = split(tk, ':');
                    if (f[0] == "d")
                        sched.delays[{ std::stoi(f.at(1)),
                                       f.at(2) == "*" ? std::size_t(-1) : static_cast<std::size_t>(std::stoull(f.at(2))) }]
                            = static_cast<unsigned>(std::stoul(f.at(3)));
                    else if (f[0] == "sp")
                        sched.spurious[f.at(1) == "*" ? std::size_t(-1) : static_cast<std::size_t>(std::stoull(f.at(1)))]
                            .store(std::stoi(f.at(2)));
                    else if (f[0] == "rand")
                    {
                        sched.seed = std::stoull(f.at(1));
                        sched.permille = static_cast<unsigned>(std::stoul(f.at(2)));
                        sched.maxus = static_cast<unsigned>(std::stoul(f.at(3)));
                    }
                    else
                        prog.push_back(tk);
                }
                g_sched = &sched;
                fs::verif::hook().store(&pool_hook);
                fs::verif::spurious_hook().store(&pool_spurious);
                {
                    pool_type pool(N);
                    int runs = 0;
                    for (auto& op : prog)
                    {
                        auto f = split(op, ':');
                        if (f[0] == "run")
                        {
                            std::size_t first = std::stoull(f.at(1)), last = std::stoull(f.at(2)),
                                        mn = std::stoull(f.at(3));
                            // plain (non-atomic) per-index counters written by the workers and read by
                            // the caller after run_blocks returns: any missing happens-before is a
                            // data race the thread sanitizer reports
                            std::vector<int> hits(last > first ? last - first : 0, 0);
                            std::vector<std::array<std::size_t, 3>> blocks(pool.size(), { { 0, 0, 0 } });
                            std::vector<int> called(pool.size(), 0);
                            pool.run_blocks(
                                first,
                                last,
                                [&](std::size_t i, std::size_t s, std::size_t e)
                                {
                                    blocks[i] = { { i, s, e } };
                                    called[i] += 1;
                                    for (std::size_t k = s; k < e; ++k)
                                        hits[k - first] += 1;
                                },
                                mn);
                            bool once = true;
                            for (auto h : hits)
                                once = once && h == 1;
                            std::size_t nb = 0;
                            bool call_once = true;
                            for (std::size_t i = 0; i < called.size(); ++i)
                            {
                                if (called[i])
                                    ++nb;
                                call_once = call_once && called[i] <= 1;
                            }
                            os << "O run" << runs << ' ' << nb;
                            for (std::size_t i = 0; i < called.size(); ++i)
                                if (called[i])
                                    os << ' ' << blocks[i][1] << ' ' << blocks[i][2];
                            os << "\nO run" << runs << "_once " << (once && call_once ? 1 : 0) << "\n";
                            ++runs;
                        }
                        else if (f[0] == "pause")
                        {
                            pool.pause();
                            os << "O pause_paused " << (pool.paused() ? 1 : 0) << "\n";
                        }
                        else if (f[0] == "resume")
                        {
                            pool.resume();
                            os << "O resume_paused " << (pool.paused() ? 1 : 0) << "\n";
                        }
                        else if (f[0] == "resize")
                        {
                            pool.resize(std::stoull(f.at(1)));
                            os << "O resize_size " << pool.size() << "\n";
                        }
                        else if (f[0] == "stop")
                        {
                            pool.stop();
                            os << "O stop_stopped " << (pool.stopped() ? 1 : 0) << "\n";
                        }
                        else
                            throw std::logic_error("harness: bad pool op " + op);
                    }
                }  // destructor: stop() joins the workers
                fs::verif::hook().store(nullptr);
                fs::verif::spurious_hook().store(nullptr);
                g_sched = nullptr;
                os << "O pool_done 1\n";
                os << "I delays_fired " << sched.fired.load() << "\n";
                os << "I spurious_fired " << sched.spurious_fired.load() << "\n";
            }
            else
                throw std::logic_error("harness: unknown pool call " + cmd);
        }
    }
}
