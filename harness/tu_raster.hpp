#pragma once
#include "fsh_flow.hpp"

namespace fsh
{
    template <class G>
    bool raster_extra(G& grid, const std::string& cmd, Line& l, std::ostream& os)
    {
        if (cmd == "qr")
        {
            std::string kind = l.next();
            std::size_t i = l.nsz();
            auto ncols = grid.shape()[1];
            std::size_t r = i / ncols, c = i % ncols;
            if (kind == "rc")
            {
                os << "O qr rc " << i;
                for (auto& p : grid.neighbors_indices(r, c))
                    os << ' ' << p.first << ' ' << p.second;
                os << "\n";
            }
            else if (kind == "rs")
            {
                os << "O qr rs " << i;
                for (auto& nb : grid.neighbors(r, c))
                    os << ' ' << nb.flatten_idx << ' ' << nb.row << ' ' << nb.col << ' '
                       << hexd(nb.distance) << ' ' << st_int(nb.status);
                os << "\n";
            }
            else if (kind == "rso")
            {
                static typename G::neighbors_raster_type reused;
                grid.neighbors(r, c, reused);
                os << "O qr rso " << i;
                for (auto& nb : reused)
                    os << ' ' << nb.flatten_idx << ' ' << nb.row << ' ' << nb.col << ' '
                       << hexd(nb.distance) << ' ' << st_int(nb.status);
                os << "\n";
            }
            else if (kind == "code")
            {
                os << "O qr code " << i << ' ' << static_cast<int>(grid.nodes_codes(i)) << ' '
                   << static_cast<int>(grid.nodes_codes(r, c)) << "\n";
            }
            return true;
        }
        if (cmd == "adi")
        {
            using eroder_t = fs::diffusion_adi_eroder<G>;
            std::size_t n = grid.size();
            std::string kk = l.next();
            std::vector<double> kv;
            double ks = 0;
            if (kk == "s")
                ks = l.ndbl();
            else
                kv = l.ndbls(n);
            double dt = l.ndbl();
            auto ev = l.ndbls(n);
            int reps = l.more() ? static_cast<int>(l.nint()) : 1;
            // "keep": go on with the eroder object of the previous adi call of this scenario and
            // hand it the diffusivity through set_k_coef (state kept between steps must not leak)
            bool keep = l.more() && l.next() == "keep";
            static std::unique_ptr<eroder_t> kept;
            auto shape = grid.shape();
            std::vector<std::size_t> sh(shape.begin(), shape.end());
            xt::xarray<double> elev = xt::xarray<double>::from_shape(sh);
            std::copy(ev.begin(), ev.end(), elev.begin());
            try
            {
                std::unique_ptr<eroder_t>& er = kept;
                xt::xtensor<double, 2> ka = xt::zeros<double>({ sh[0], sh[1] });
                if (kk != "s")
                    std::copy(kv.begin(), kv.end(), ka.begin());
                if (keep && er)
                {
                    if (kk == "s")
                        er->set_k_coef(ks);
                    else
                        er->set_k_coef(ka);
                }
                else if (kk == "s")
                    er = (n % 2 == 1) ? std::make_unique<eroder_t>(fs::make_diffusion_adi_eroder(grid, ks))
                                      : std::make_unique<eroder_t>(grid, ks);
                else
                    er = (n % 2 == 1) ? std::make_unique<eroder_t>(fs::make_diffusion_adi_eroder(grid, ka))
                                      : std::make_unique<eroder_t>(grid, ka);
                for (int rep = 0; rep < reps; ++rep)
                {
                    const auto& ero = er->erode(elev, dt);
                    os << "O adi";
                    for (auto x : ero)
                        os << ' ' << hexd(x);
                    os << "\n";
                }
            }
            catch (const std::exception& ex)
            {
                os << "O adi err " << errkind(ex) << "\n";
            }
            return true;
        }
        return false;
    }

    template <fs::raster_connect RC>
    void run_raster_conn(Scenario& scn, std::ostream& os)
    {
        Line& g = scn.at(1);
        g.p = 2;
        std::size_t rows = g.nsz(), cols = g.nsz();
        double dy = g.ndbl(), dx = g.ndbl();
        g.next();  // connectivity (already dispatched on)
        std::array<fs::node_status, 4> b{ to_status(g.next()),
                                          to_status(g.next()),
                                          to_status(g.next()),
                                          to_status(g.next()) };
        bool cache = g.nint() != 0;
        std::map<std::pair<std::size_t, std::size_t>, fs::node_status> ov;
        if (g.more() && g.next() == "ov")
        {
            std::size_t k = g.nsz();
            for (std::size_t j = 0; j < k; ++j)
            {
                std::size_t r = g.nsz(), c = g.nsz();
                ov[{ r, c }] = to_status(g.next());
            }
        }
        // optional trailing token `len=<Ly>,<Lx>`: build the grid with from_length (the spacing tokens
        // then hold Ly / (rows - 1), Lx / (cols - 1) as computed by the generator)
        bool from_len = false;
        double ly = 0, lx = 0;
        if (g.more())
        {
            std::string t = g.next();
            if (t.rfind("len=", 0) == 0)
            {
                auto comma = t.find(',');
                ly = unhex(t.substr(4, comma - 4));
                lx = unhex(t.substr(comma + 1));
                from_len = true;
            }
        }
        auto go = [&](auto tag)
        {
            using C = typename decltype(tag)::type;
            using G = fs::raster_grid<fs::xt_selector, RC, C>;
            std::unique_ptr<G> grid;
            try
            {
                // four equal borders on a grid with an even number of nodes: the one-status constructor
                // (same object by definition); otherwise the array constructor
                fs::raster_boundary_status bs = (b[0] == b[1] && b[1] == b[2] && b[2] == b[3] && (rows * cols) % 2 == 0)
                                                    ? fs::raster_boundary_status(b[0])
                                                    : fs::raster_boundary_status(b);
                if (from_len)
                    grid = std::make_unique<G>(G::from_length(typename G::shape_type{ rows, cols },
                                                              typename G::length_type{ ly, lx }, bs, ov));
                else
                    grid = std::make_unique<G>(typename G::shape_type{ rows, cols },
                                               typename G::spacing_type{ dy, dx },
                                               bs,
                                               ov);
            }
            catch (const std::exception& e)
            {
                os << "O grid err " << errkind(e) << "\n";
                return;
            }
            os << "O grid ok\n";
            run_calls(*grid,
                      scn,
                      2,
                      os,
                      [&](const std::string& cmd, Line& l)
                      { return raster_extra(*grid, cmd, l, os); });
        };
        constexpr std::uint8_t W = fs::raster_neighbors<RC>::_n_neighbors_max;
        if (cache)
            go(std::common_type<fs::neighbors_cache<W>>{});
        else
            go(std::common_type<fs::neighbors_no_cache<W>>{});
    }
}
