// fsharness main: reads scenario blocks from stdin (or a file), runs each against the real
// code, prints the transcript.  A failed scenario never stops the run.
#include <csignal>
#include <fstream>
#include <unistd.h>
#include "fsh.hpp"

static std::string g_cur;
static void on_alarm(int)
{
    // a hang is a result: report it and leave (the runner restarts after this scenario)
    std::string msg = "O hang\nE " + g_cur + "\nX hang\n";
    (void) !write(1, msg.c_str(), msg.size());
    _exit(3);
}

int main(int argc, char** argv)
{
    std::istream* in = &std::cin;
    std::ifstream f;
    if (argc > 1)
    {
        f.open(argv[1]);
        in = &f;
    }
    int watchdog = argc > 2 ? std::atoi(argv[2]) : 20;
    std::signal(SIGALRM, on_alarm);
    std::string line;
    fsh::Scenario scn;
    while (std::getline(*in, line))
    {
        fsh::Line l;
        std::stringstream ss(line);
        std::string tok;
        while (ss >> tok)
            l.t.push_back(tok);
        if (l.t.empty())
            continue;
        if (l.t[0] != "end")
        {
            scn.push_back(std::move(l));
            continue;
        }
        const std::string id = scn.at(0).t.at(1);
        g_cur = id;
        std::cout << "S " << id << "\n";
        std::cout.flush();
        // the scenario's transcript is buffered and written in one piece at the end, so that
        // sanitizer reports (written straight to the descriptor) never land inside a line
        std::ostringstream out;
        out << "C 1";
        for (auto& tk : scn.at(1).t)
            out << ' ' << tk;
        out << "\n";
        alarm(watchdog);
        try
        {
            const auto& g = scn.at(1).t;
            if (g.at(1) == "raster")
            {
                const std::string& c = g.at(6);
                if (c == "rook")
                    fsh::run_raster_rook(scn, out);
                else if (c == "queen")
                    fsh::run_raster_queen(scn, out);
                else
                    fsh::run_raster_bishop(scn, out);
            }
            else if (g.at(1) == "profile")
                fsh::run_profile(scn, out);
            else if (g.at(1) == "mesh")
                fsh::run_mesh(scn, out);
            else if (g.at(1) == "pool")
                fsh::run_pool(scn, out);
            else
                throw std::logic_error("harness: bad grid kind");
        }
        catch (const std::logic_error& e)
        {
            out << "X " << e.what() << "\n";
        }
        catch (const std::exception& e)
        {
            out << "X uncaught " << fsh::errkind(e) << ' ' << e.what() << "\n";
        }
        alarm(0);
        std::cout << out.str();
        std::cout << "E " << id << "\n";
        std::cout.flush();
        scn.clear();
    }
    return 0;
}
