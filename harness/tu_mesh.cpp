#include "fsh_flow.hpp"
namespace fsh
{
    void run_mesh(Scenario& scn, std::ostream& os)
    {
        using G = fs::trimesh;
        Line& g = scn.at(1);
        g.p = 2;
        std::size_t np = g.nsz(), nt = g.nsz();
        xt::xtensor<double, 2> pts = xt::zeros<double>({ np, std::size_t(2) });
        for (std::size_t i = 0; i < np; ++i)
        {
            pts(i, 0) = g.ndbl();
            pts(i, 1) = g.ndbl();
        }
        xt::xtensor<std::size_t, 2> tri = xt::zeros<std::size_t>({ nt, std::size_t(3) });
        for (std::size_t t = 0; t < nt; ++t)
            for (std::size_t k = 0; k < 3; ++k)
                tri(t, k) = g.nsz();
        std::string st = g.more() ? g.next() : "none";
        std::unique_ptr<G> grid;
        try
        {
            if (st == "arr")
            {
                std::size_t k = g.nsz();
                xt::xtensor<fs::node_status, 1> sa = xt::zeros<fs::node_status>({ k });
                for (std::size_t i = 0; i < k; ++i)
                    sa(i) = to_status(g.next());
                grid = std::make_unique<G>(pts, tri, sa);
            }
            else
            {
                std::map<std::size_t, fs::node_status> ov;
                if (st == "map")
                {
                    std::size_t k = g.nsz();
                    for (std::size_t j = 0; j < k; ++j)
                    {
                        std::size_t i = g.nsz();
                        ov[i] = to_status(g.next());
                    }
                }
                grid = std::make_unique<G>(pts, tri, ov);
            }
        }
        catch (const std::exception& e)
        {
            os << "O grid err " << errkind(e) << "\n";
            return;
        }
        os << "O grid ok\n";
        run_calls(*grid, scn, 2, os, [](const std::string&, Line&) { return false; });
    }
}
