#include "tu_raster.hpp"
namespace fsh
{
    void run_raster_rook(Scenario& scn, std::ostream& os)
    {
        run_raster_conn<fs::raster_connect::rook>(scn, os);
    }
}
