// fsharness: drives the real fastscapelib code (headers of /repo's working tree) from a
// line protocol.  One scenario = block of lines ended by "end".  The harness prints
//   I <section> ...   inputs the Lean model consumes (echo of what the real code was given /
//                     implementation-defined choices such as hash-set iteration order)
//   O <section> ...   observations compared bit-for-bit with the model's output
// Doubles cross the boundary as 16-hex-digit IEEE-754 bit patterns.
#pragma once
#include <algorithm>
#include <array>
#include <cstdint>
#include <cstring>
#include <iostream>
#include <map>
#include <memory>
#include <numeric>
#include <sstream>
#include <stdexcept>
#include <string>
#include <variant>
#include <vector>

#include "xtensor/xarray.hpp"
#include "xtensor/xtensor.hpp"
#include "xtensor/xadapt.hpp"
#include "xtensor/xview.hpp"

#include "fastscapelib/grid/base.hpp"
#include "fastscapelib/grid/profile_grid.hpp"
#include "fastscapelib/grid/raster_grid.hpp"
#include "fastscapelib/grid/trimesh.hpp"
#include "fastscapelib/flow/flow_graph.hpp"
#include "fastscapelib/flow/flow_router.hpp"
#include "fastscapelib/flow/flow_snapshot.hpp"
#include "fastscapelib/flow/sink_resolver.hpp"
#include "fastscapelib/flow/basin_graph.hpp"
#include "fastscapelib/flow/flow_kernel.hpp"
#include "fastscapelib/eroders/spl.hpp"
#include "fastscapelib/eroders/diffusion_adi.hpp"

namespace fs = fastscapelib;

namespace fsh
{
    using opvar = std::variant<std::shared_ptr<fs::single_flow_router>,
                               std::shared_ptr<fs::multi_flow_router>,
                               std::shared_ptr<fs::pflood_sink_resolver>,
                               std::shared_ptr<fs::mst_sink_resolver>,
                               std::shared_ptr<fs::flow_snapshot>>;
}

// The library's own extension point for bindings: flow_operator_sequence befriends this
// template, which adds operators one by one through shared pointers.
namespace fastscapelib
{
    template <class FG, class OPs>
    flow_operator_sequence<FG> make_flow_operator_sequence(OPs&& ops)
    {
        flow_operator_sequence<FG> seq;
        for (auto& op : ops)
        {
            std::visit([&seq](auto& p) { seq.add_operator(p); }, op);
        }
        return seq;
    }
}

namespace fsh
{
    inline std::string hexd(double d)
    {
        std::uint64_t u;
        std::memcpy(&u, &d, 8);
        char buf[20];
        std::snprintf(buf, sizeof buf, "%016llx", (unsigned long long) u);
        return buf;
    }
    inline double unhex(const std::string& s)
    {
        std::uint64_t u = std::stoull(s, nullptr, 16);
        double d;
        std::memcpy(&d, &u, 8);
        return d;
    }

    struct Line
    {
        std::vector<std::string> t;
        std::size_t p = 0;
        bool more() const
        {
            return p < t.size();
        }
        const std::string& next()
        {
            if (p >= t.size())
                throw std::logic_error("harness: missing token");
            return t[p++];
        }
        long long nint()
        {
            return std::stoll(next());
        }
        std::size_t nsz()
        {
            return static_cast<std::size_t>(std::stoull(next()));
        }
        double ndbl()
        {
            return unhex(next());
        }
        std::vector<double> ndbls(std::size_t n)
        {
            std::vector<double> v(n);
            for (auto& x : v)
                x = ndbl();
            return v;
        }
    };

    using Scenario = std::vector<Line>;

    inline const char* errkind(const std::exception& e)
    {
        if (dynamic_cast<const std::invalid_argument*>(&e))
            return "invalid_argument";
        if (dynamic_cast<const std::out_of_range*>(&e))
            return "out_of_range";
        if (dynamic_cast<const std::runtime_error*>(&e))
            return "runtime_error";
        return "other";
    }

    inline fs::node_status to_status(const std::string& s)
    {
        // c core, v fixed_value, g fixed_gradient, l looped
        switch (s[0])
        {
            case 'c':
                return fs::node_status::core;
            case 'v':
                return fs::node_status::fixed_value;
            case 'g':
                return fs::node_status::fixed_gradient;
            case 'l':
                return fs::node_status::looped;
        }
        throw std::logic_error("harness: bad status token");
    }

    inline int st_int(fs::node_status s)
    {
        return static_cast<int>(s);
    }

    // entry points, one translation unit per grid family (parallel compilation)
    void run_raster_rook(Scenario& scn, std::ostream& os);
    void run_raster_queen(Scenario& scn, std::ostream& os);
    void run_raster_bishop(Scenario& scn, std::ostream& os);
    void run_profile(Scenario& scn, std::ostream& os);
    void run_mesh(Scenario& scn, std::ostream& os);
    void run_pool(Scenario& scn, std::ostream& os);
}
