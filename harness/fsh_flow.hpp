// Flow-graph part of the harness, templated on the grid type.
#pragma once
#include "fsh.hpp"
#include "xtensor/xstrided_view.hpp"

namespace fastscapelib
{
    namespace testing
    {
        // The library declares this class a friend of basin_graph (for its own orient_edges test).
        // The harness uses the same door to run the two spanning-tree algorithms on a SYNTHETIC basin
        // graph (`mstraw`): dense graphs, hubs of degree far above m_max_low_degree and tied weights
        // that small grids never produce.  Nothing in /repo is changed for this.
        class basin_graph_orient_edges_Test
        {
        public:
            template <class BG>
            static void load(BG& bg, std::size_t nb, const std::vector<std::array<std::size_t, 2>>& links,
                             const std::vector<double>& w)
            {
                using size_type = typename BG::size_type;
                bg.m_outlets.assign(nb, size_type(0));
                bg.m_edges.clear();
                for (std::size_t k = 0; k < links.size(); ++k)
                {
                    auto e = BG::edge::make_edge(static_cast<size_type>(links[k][0]), static_cast<size_type>(links[k][1]));
                    e.pass[0] = 0;
                    e.pass[1] = 0;
                    e.pass_elevation = w[k];
                    e.pass_length = 1.0;
                    bg.m_edges.push_back(e);
                }
            }
            template <class BG>
            static void kruskal(BG& bg)
            {
                bg.compute_tree_kruskal();
            }
            template <class BG>
            static void boruvka(BG& bg)
            {
                bg.compute_tree_boruvka();
            }
        };
    }
}

namespace fsh
{
    template <class V>
    void put_sizes(std::ostream& os, const V& v)
    {
        for (auto x : v)
            os << ' ' << static_cast<unsigned long long>(x);
    }

    template <class G>
    struct Session
    {
        using FG = fs::flow_graph<G>;
        using impl_type = typename FG::impl_type;
        using size_type = typename G::size_type;
        using arr = typename FG::data_array_type;
        using bgraph_type = fs::basin_graph<impl_type>;

        G& grid;
        std::ostream& os;
        const void* last_out = nullptr;   // the array update_routes returned last (for `update_again`)
        std::vector<opvar> ops;
        std::unique_ptr<FG> graph;
        // what set_mask / set_base_levels were last given (to replicate on prefix graphs)
        bool mask_set = false;
        std::vector<char> mask;
        bool base_set = false;
        std::vector<size_type> base;
        // graphs that run only the operators before a snapshot (C16 oracle side)
        std::map<std::string, std::unique_ptr<FG>> prefix_graphs;
        // basin-graph objects kept from one bgraph call to the next (per method), so that scratch
        // state surviving between updates is exercised
        std::map<std::string, std::unique_ptr<bgraph_type>> bgraphs;
        // the eroder object is kept as long as successive spl calls use the same constructor
        // arguments, so that state surviving between erode() calls is exercised
        std::unique_ptr<fs::spl_eroder<FG>> spl_obj;
        std::string spl_sig;

        Session(G& g, std::ostream& o)
            : grid(g)
            , os(o)
        {
        }

        arr make_arr(const std::vector<double>& v)
        {
            auto shape = grid.shape();
            std::vector<std::size_t> sh(shape.begin(), shape.end());
            arr a = arr::from_shape(sh);
            if (v.size() != a.size())
                throw std::logic_error("harness: array size mismatch");
            std::copy(v.begin(), v.end(), a.begin());
            return a;
        }

        static opvar parse_op(const std::string& tok)
        {
            std::vector<std::string> f;
            std::stringstream ss(tok);
            std::string x;
            while (std::getline(ss, x, ':'))
                f.push_back(x);
            if (f[0] == "single")
            {
                int th = f.size() > 1 ? std::stoi(f[1]) : 0;
                return std::make_shared<fs::single_flow_router>(th);
            }
            if (f[0] == "multi")
                return std::make_shared<fs::multi_flow_router>(unhex(f.at(1)));
            if (f[0] == "pflood")
                return std::make_shared<fs::pflood_sink_resolver>();
            if (f[0] == "mst")
            {
                auto m = f.at(1) == "k" ? fs::mst_method::kruskal : fs::mst_method::boruvka;
                auto r = f.at(2) == "basic" ? fs::mst_route_method::basic
                                            : fs::mst_route_method::carve;
                return std::make_shared<fs::mst_sink_resolver>(m, r);
            }
            if (f[0] == "snap")
            {
                bool g = f.at(2).find('g') != std::string::npos;
                bool e = f.at(2).find('e') != std::string::npos;
                return std::make_shared<fs::flow_snapshot>(f.at(1), g, e);
            }
            throw std::logic_error("harness: bad op token " + tok);
        }

        static std::string render_op(const opvar& op)
        {
            std::ostringstream s;
            if (auto p = std::get_if<std::shared_ptr<fs::single_flow_router>>(&op))
                s << "single:" << (*p)->threads_count();
            else if (auto p = std::get_if<std::shared_ptr<fs::multi_flow_router>>(&op))
                s << "multi:" << hexd((*p)->m_slope_exp);
            else if (std::get_if<std::shared_ptr<fs::pflood_sink_resolver>>(&op))
                s << "pflood";
            else if (auto p = std::get_if<std::shared_ptr<fs::mst_sink_resolver>>(&op))
                s << "mst:" << ((*p)->m_basin_method == fs::mst_method::kruskal ? "k" : "b") << ":"
                  << ((*p)->m_route_method == fs::mst_route_method::basic ? "basic" : "carve");
            else if (auto p = std::get_if<std::shared_ptr<fs::flow_snapshot>>(&op))
                s << "snap:" << (*p)->snapshot_name() << ":" << ((*p)->save_graph() ? "g" : "")
                  << ((*p)->save_elevation() ? "e" : "");
            return s.str();
        }

        std::unique_ptr<FG> build_graph(std::vector<opvar>& the_ops)
        {
            auto seq = fs::make_flow_operator_sequence<impl_type>(the_ops);
            // the sequence reaches the graph along one of three construction paths, chosen by a fixed
            // hash of the operator list (so that a replay takes the same path): moved straight in,
            // move-ASSIGNED into a default-constructed sequence, or move-assigned over a sequence that
            // held other operators before (all paths must give the same graph)
            std::size_t h = 1469598103u;
            for (auto& op : the_ops)
                for (char c : render_op(op))
                    h = (h ^ static_cast<unsigned char>(c)) * 16777619u;
            h %= 3;
            if (h == 1)
            {
                fs::flow_operator_sequence<impl_type> s2;
                s2 = std::move(seq);
                return std::make_unique<FG>(grid, std::move(s2));
            }
            if (h == 2)
            {
                std::vector<opvar> other;
                if (render_op(the_ops.front()).rfind("multi", 0) == 0)
                    other.push_back(std::make_shared<fs::single_flow_router>());
                else
                    other.push_back(std::make_shared<fs::multi_flow_router>(1.0));
                auto s2 = fs::make_flow_operator_sequence<impl_type>(other);
                s2 = std::move(seq);
                return std::make_unique<FG>(grid, std::move(s2));
            }
            return std::make_unique<FG>(grid, std::move(seq));
        }

        void dump_impl(const std::string& pre, const impl_type& im)
        {
            const size_type n = im.size();
            const auto& rc = im.receivers_count();
            const auto& dc = im.donors_count();
            const size_type rw = im.receivers().shape(1);
            const size_type dw = im.donors().shape(1);
            os << "O " << pre << "rcount";
            put_sizes(os, rc);
            os << "\nO " << pre << "recv";
            for (size_type i = 0; i < n; ++i)
                for (size_type k = 0; k < std::min<size_type>(rc(i), rw); ++k)
                    os << ' ' << im.receivers()(i, k);
            os << "\nO " << pre << "rdist";
            for (size_type i = 0; i < n; ++i)
                for (size_type k = 0; k < std::min<size_type>(rc(i), rw); ++k)
                    os << ' ' << hexd(im.receivers_distance()(i, k));
            os << "\nO " << pre << "rweight";
            for (size_type i = 0; i < n; ++i)
                for (size_type k = 0; k < std::min<size_type>(rc(i), rw); ++k)
                    os << ' ' << hexd(im.receivers_weight()(i, k));
            os << "\nO " << pre << "dcount";
            put_sizes(os, dc);
            os << "\nO " << pre << "donors";
            for (size_type i = 0; i < n; ++i)
                for (size_type k = 0; k < std::min<size_type>(dc(i), dw); ++k)
                    os << ' ' << im.donors()(i, k);
            os << "\nO " << pre << "dfs";
            put_sizes(os, im.dfs_indices());
            os << "\nO " << pre << "bfs";
            put_sizes(os, im.bfs_indices());
            os << "\nO " << pre << "levels";
            put_sizes(os, im.bfs_levels());
            os << "\n";
        }

        void echo_state()
        {
            // what the model needs: mask and base levels in force, in the iteration order of
            // the hash set (implementation-defined choice handed to the model)
            const auto& im = graph->impl();
            const size_type n = im.size();
            os << "I mask";
            for (size_type i = 0; i < n; ++i)
                os << ' ' << (im.is_masked(i) ? 1 : 0);
            os << "\nI seeds";
            for (auto b : im.base_levels())
                os << ' ' << b;
            os << "\nI ops";
            for (auto& o : ops)
                os << ' ' << render_op(o);
            os << "\n";
        }

        // Kruskal's std::sort tie order is implementation-defined: recompute it on a graph that
        // ran only the operators before the resolver (same comparator, same data).
        void echo_perms(const arr& elev)
        {
            for (std::size_t k = 0; k < ops.size(); ++k)
            {
                auto p = std::get_if<std::shared_ptr<fs::mst_sink_resolver>>(&ops[k]);
                if (!p)
                    continue;
                std::vector<opvar> prefix;
                for (std::size_t j = 0; j < k; ++j)
                    if (!std::get_if<std::shared_ptr<fs::flow_snapshot>>(&ops[j]))
                        prefix.push_back(ops[j]);
                try
                {
                    auto pg = build_graph(prefix);
                    replicate_inputs(*pg);
                    const arr& e = pg->update_routes(elev);
                    auto ip = pg->impl_ptr();
                    ip->compute_basins();
                    if (ip->pits().empty())
                    {
                        os << "I perm " << k << "\n";
                        continue;
                    }
                    bgraph_type bg(*ip, fs::mst_method::kruskal);
                    bg.update_routes(e);
                    echo_perm(k, bg);
                }
                catch (const std::exception& ex)
                {
                    os << "I perm_err " << k << ' ' << errkind(ex) << "\n";
                }
            }
        }

        void echo_perm(std::size_t k, const bgraph_type& bg)
        {
            const auto& edges = bg.edges();
            std::vector<size_type> idx(edges.size());
            std::iota(idx.begin(), idx.end(), 0);
            std::sort(idx.begin(),
                      idx.end(),
                      [&edges](const size_type& i0, const size_type& i1)
                      { return edges[i0].pass_elevation < edges[i1].pass_elevation; });
            os << "I perm " << k;
            put_sizes(os, idx);
            os << "\n";
        }

        void replicate_inputs(FG& g)
        {
            if (mask_set)
            {
                auto shape = grid.shape();
                std::vector<std::size_t> sh(shape.begin(), shape.end());
                xt::xarray<bool> m = xt::xarray<bool>::from_shape(sh);
                std::copy(mask.begin(), mask.end(), m.begin());
                g.set_mask(m);
            }
            if (base_set)
                g.set_base_levels(base);
        }

        void dump_graph_meta()
        {
            os << "O single_flow " << (graph->single_flow() ? 1 : 0) << "\n";
            os << "O rwidth " << graph->impl().receivers().shape(1) << "\n";
            os << "O dwidth " << graph->impl().donors().shape(1) << "\n";
            os << "O gkeys";
            for (auto& k : graph->graph_snapshot_keys())
                os << ' ' << k;
            os << "\nO ekeys";
            for (auto& k : graph->elevation_snapshot_keys())
                os << ' ' << k;
            os << "\n";
            for (auto& k : graph->graph_snapshot_keys())
            {
                auto& sg = graph->graph_snapshot(k);
                os << "O snapmeta " << k << ' ' << (sg.impl().single_flow() ? 1 : 0) << ' '
                   << sg.impl().receivers().shape(1) << "\n";
            }
            auto bl = graph->base_levels();
            std::sort(bl.begin(), bl.end());
            os << "O base";
            put_sizes(os, bl);
            os << "\n";
        }

        void call_graph(Line& l)
        {
            ops.clear();
            bgraphs.clear();
            prefix_graphs.clear();
            spl_obj.reset();
            spl_sig.clear();
            graph.reset();
            last_out = nullptr;
            mask_set = base_set = false;
            while (l.more())
                ops.push_back(parse_op(l.next()));
            try
            {
                graph = build_graph(ops);
                os << "O graph ok\n";
                dump_graph_meta();
            }
            catch (const std::exception& e)
            {
                os << "O graph err " << errkind(e) << "\n";
            }
        }

        template <class F>
        void guarded(const char* what, F&& f)
        {
            try
            {
                f();
                os << "O " << what << " ok\n";
            }
            catch (const std::exception& e)
            {
                os << "O " << what << " err " << errkind(e) << "\n";
            }
        }

        void call_set_mask(Line& l, FG& g, bool record)
        {
            const size_type n = grid.size();
            std::vector<char> m(n);
            for (auto& b : m)
                b = static_cast<char>(l.nint());
            auto shape = grid.shape();
            std::vector<std::size_t> sh(shape.begin(), shape.end());
            xt::xarray<bool> xm = xt::xarray<bool>::from_shape(sh);
            std::copy(m.begin(), m.end(), xm.begin());
            guarded("set_mask",
                    [&]
                    {
                        g.set_mask(xm);
                        if (record)
                        {
                            mask = m;
                            mask_set = true;
                        }
                    });
        }

        void call_set_base(Line& l, FG& g, bool record)
        {
            std::vector<size_type> b;
            while (l.more())
                b.push_back(l.nsz());
            guarded("set_base",
                    [&]
                    {
                        g.set_base_levels(b);
                        if (record)
                        {
                            base = b;
                            base_set = true;
                        }
                    });
        }

        void call_set_param(Line& l)
        {
            std::size_t k = l.nsz();
            auto& op = ops.at(k);
            if (auto p = std::get_if<std::shared_ptr<fs::multi_flow_router>>(&op))
                (*p)->m_slope_exp = l.ndbl();
            else if (auto p = std::get_if<std::shared_ptr<fs::mst_sink_resolver>>(&op))
            {
                auto m = l.next();
                auto r = l.next();
                (*p)->m_basin_method = m == "k" ? fs::mst_method::kruskal : fs::mst_method::boruvka;
                (*p)->m_route_method
                    = r == "basic" ? fs::mst_route_method::basic : fs::mst_route_method::carve;
            }
            else
                throw std::logic_error("harness: set_param on op without parameter");
            os << "O set_param ok\n";
        }

        // `update_again`: update_routes is handed THE ARRAY IT RETURNED LAST TIME (the caller keeps the
        // reference and passes it back, typically after changing an operator parameter); the result
        // must be what a call with a copy of those values gives
        void call_update_again()
        {
            const size_type n = grid.size();
            if (!last_out)
            {
                os << "O update_again none\n";
                return;
            }
            const arr& in = *static_cast<const arr*>(last_out);
            std::vector<double> v(in.begin(), in.end());
            arr copy = make_arr(v);
            echo_state();
            os << "I elev";
            for (auto x : v)
                os << ' ' << hexd(x);
            os << "\n";
            echo_perms(copy);
            const arr* out = nullptr;
            try
            {
                out = &graph->update_routes(in);
            }
            catch (const std::exception& e)
            {
                os << "O update err " << errkind(e) << "\n";
                return;
            }
            last_out = out;
            os << "O update ok\n";
            os << "O elev";
            for (auto x : *out)
                os << ' ' << hexd(x);
            os << "\n";
            dump_impl("", graph->impl());
            for (auto& k : graph->graph_snapshot_keys())
                dump_impl("snap:" + k + ":", graph->graph_snapshot(k).impl());
            for (auto& k : graph->elevation_snapshot_keys())
            {
                os << "O esnap:" << k;
                for (auto x : graph->elevation_snapshot(k))
                    os << ' ' << hexd(x);
                os << "\n";
            }
            (void) n;
        }

        void call_update(Line& l)
        {
            const size_type n = grid.size();
            auto v = l.ndbls(n);
            arr elev = make_arr(v);
            echo_state();
            os << "I elev";
            for (auto x : v)
                os << ' ' << hexd(x);
            os << "\n";
            echo_perms(elev);
            const arr* out = nullptr;
            try
            {
                out = &graph->update_routes(elev);
            }
            catch (const std::exception& e)
            {
                os << "O update err " << errkind(e) << "\n";
                return;
            }
            last_out = (out == &elev) ? nullptr : static_cast<const void*>(out);
            os << "O update ok\n";
            // the caller's array must never be written
            bool unchanged = true;
            {
                auto it = elev.begin();
                for (size_type i = 0; i < n; ++i, ++it)
                    if (hexd(*it) != hexd(v[i]))
                        unchanged = false;
            }
            os << "O input_unchanged " << (unchanged ? 1 : 0) << "\n";
            os << "O same_array " << (out == &elev ? 1 : 0) << "\n";
            os << "O elev";
            for (auto x : *out)
                os << ' ' << hexd(x);
            os << "\n";
            dump_impl("", graph->impl());
            for (auto& k : graph->graph_snapshot_keys())
                dump_impl("snap:" + k + ":", graph->graph_snapshot(k).impl());
            for (auto& k : graph->elevation_snapshot_keys())
            {
                os << "O esnap:" << k;
                for (auto x : graph->elevation_snapshot(k))
                    os << ' ' << hexd(x);
                os << "\n";
            }
            dump_prefixes(elev);
        }

        // For every snapshot operator: a separate graph that runs only the operators before it
        // (earlier snapshots dropped; a single router appended when the prefix has no router, which
        // does not edit elevation) on the same inputs.  Printed as pfx:<name>:<section> /
        // pfxe:<name>; the oracle compares them with the snapshot's own tables.
        void dump_prefixes(const arr& elev)
        {
            prefix_graphs.clear();
            for (std::size_t k = 0; k < ops.size(); ++k)
            {
                auto sp = std::get_if<std::shared_ptr<fs::flow_snapshot>>(&ops[k]);
                if (!sp)
                    continue;
                std::vector<opvar> prefix;
                bool has_router = false;
                for (std::size_t j = 0; j < k; ++j)
                {
                    if (std::get_if<std::shared_ptr<fs::flow_snapshot>>(&ops[j]))
                        continue;
                    if (auto q = std::get_if<std::shared_ptr<fs::single_flow_router>>(&ops[j]))
                    {
                        // same kind of router, never the shared object's thread pool
                        prefix.push_back(std::make_shared<fs::single_flow_router>((*q)->threads_count()));
                        has_router = true;
                        continue;
                    }
                    if (std::get_if<std::shared_ptr<fs::multi_flow_router>>(&ops[j]))
                        has_router = true;
                    prefix.push_back(ops[j]);
                }
                if (!has_router)
                    prefix.push_back(std::make_shared<fs::single_flow_router>());
                const std::string name = (*sp)->snapshot_name();
                try
                {
                    auto pg = build_graph(prefix);
                    replicate_inputs(*pg);
                    const arr& e = pg->update_routes(elev);
                    if ((*sp)->save_graph())
                        dump_impl("pfx:" + name + ":", pg->impl());
                    if ((*sp)->save_elevation())
                    {
                        os << "O pfxe:" << name;
                        for (auto x : e)
                            os << ' ' << hexd(x);
                        os << "\n";
                    }
                    if ((*sp)->save_graph())
                        prefix_graphs[name] = std::move(pg);
                }
                catch (const std::exception& ex)
                {
                    os << "O pfx_err:" << name << ' ' << errkind(ex) << "\n";
                }
            }
        }

        void call_acc(Line& l, FG& g, const std::string& pre, bool echo = true)
        {
            // acc <variant> <s hex | a n hex> ; variant: 0 returning/array, 1 in-place/array,
            // 2 returning/scalar, 3 in-place/scalar.  All four overloads are always run and
            // must agree bitwise; the one named by the variant is printed.
            const size_type n = grid.size();
            std::string kind = l.next();
            std::vector<double> src(n);
            double sc = 0;
            bool scalar = kind == "s";
            if (scalar)
            {
                sc = l.ndbl();
                std::fill(src.begin(), src.end(), sc);
            }
            else
                src = l.ndbls(n);
            arr s = make_arr(src);
            if (echo)
            {
                os << "I " << pre << "src";
                for (auto x : src)
                    os << ' ' << hexd(x);
            os << "\nI " << pre << "area";
            for (size_type i = 0; i < n; ++i)
                os << ' ' << hexd(grid.nodes_areas(i));
            os << "\n";
            }
            arr a0 = g.accumulate(s);
            arr a1 = make_arr(std::vector<double>(n, -7.0));
            g.accumulate(a1, s);
            bool agree = true;
            auto same = [&](const arr& x, const arr& y)
            {
                auto ix = x.begin();
                auto iy = y.begin();
                for (; ix != x.end(); ++ix, ++iy)
                    if (hexd(*ix) != hexd(*iy))
                        return false;
                return true;
            };
            agree = agree && same(a0, a1);
            if (scalar)
            {
                arr a2 = g.accumulate(sc);
                arr a3 = make_arr(std::vector<double>(n, 3.5));
                g.accumulate(a3, sc);
                agree = agree && same(a0, a2) && same(a0, a3);
            }
            os << "O " << pre << "acc_overloads_agree " << (agree ? 1 : 0) << "\n";
            os << "O " << pre << "acc";
            for (auto x : a0)
                os << ' ' << hexd(x);
            os << "\n";
        }

        void call_basins(FG& g, const std::string& pre)
        {
            auto b = g.basins();
            os << "O " << pre << "basins";
            for (auto x : b)
                os << ' ' << static_cast<unsigned long long>(x);
            os << "\nO " << pre << "outlets";
            put_sizes(os, g.impl().outlets());
            os << "\nO " << pre << "pits";
            put_sizes(os, g.impl_ptr()->pits());
            os << "\n";
        }

        // outlets / pits as the graph reports them now, WITHOUT calling basins() again (the base
        // levels may have been changed since the last basins() call)
        void call_pits(FG& g)
        {
            os << "I seeds";
            for (auto b : g.impl().base_levels())
                os << ' ' << b;
            os << "\nO outlets";
            put_sizes(os, g.impl().outlets());
            os << "\nO pits";
            put_sizes(os, g.impl_ptr()->pits());
            os << "\n";
        }

        // basin graph built directly on the current (single-direction) graph state
        void call_bgraph(Line& l)
        {
            const size_type n = grid.size();
            std::string m = l.next();
            auto v = l.ndbls(n);
            arr elev = make_arr(v);
            auto ip = graph->impl_ptr();
            ip->compute_basins();
            os << "I bg_elev";
            for (auto x : v)
                os << ' ' << hexd(x);
            os << "\n";
            os << "O bg_outlets";
            put_sizes(os, ip->outlets());
            os << "\n";
            if (ip->pits().empty() && false)
                return;
            int reps = l.more() ? static_cast<int>(l.nint()) : 1;
            auto& slot = bgraphs[m];
            if (!slot)
                slot = std::make_unique<bgraph_type>(*ip, m == "k" ? fs::mst_method::kruskal : fs::mst_method::boruvka);
            bgraph_type& bg = *slot;
            for (int r = 0; r < reps; ++r)
            {
                bg.update_routes(elev);
                if (r == 0)
                {
                    bgraph_type bk(*ip, fs::mst_method::kruskal);
                    bk.update_routes(elev);
                    echo_perm(0, bk);
                }
                os << "O bg_edges";
                for (auto& e : bg.edges())
                    os << ' ' << e.link[0] << ' ' << e.link[1] << ' '
                       << static_cast<long long>(e.pass[0]) << ' '
                       << static_cast<long long>(e.pass[1]) << ' ' << hexd(e.pass_elevation) << ' '
                       << hexd(e.pass_length);
                os << "\nO bg_tree";
                put_sizes(os, bg.tree());
                os << "\n";
            }
        }

        // Kruskal and Boruvka on a synthetic basin graph: `mstraw nb ne (l0 l1 w)*`.  The basin-graph
        // object is kept from one call to the next (scratch arrays of Boruvka must not leak).
        void call_mstraw(Line& l)
        {
            using T = fs::testing::basin_graph_orient_edges_Test;
            std::size_t nb = l.nsz(), ne = l.nsz();
            std::vector<std::array<std::size_t, 2>> links(ne);
            std::vector<double> w(ne);
            for (std::size_t k = 0; k < ne; ++k)
            {
                links[k][0] = l.nsz();
                links[k][1] = l.nsz();
                w[k] = l.ndbl();
            }
            auto ip = graph->impl_ptr();
            // the number of basins is read from the flow graph: the scenario provides a graph with
            // exactly nb outlets (a flat profile of nb nodes)
            ip->compute_basins();
            if (ip->outlets().size() != nb)
            {
                os << "O mstraw bad_nb " << ip->outlets().size() << "\n";
                return;
            }
            auto& slot = bgraphs["raw"];
            if (!slot)
                slot = std::make_unique<bgraph_type>(*ip, fs::mst_method::boruvka);
            bgraph_type& bg = *slot;
            // the order std::sort gives the edge indices (ties are implementation defined)
            {
                std::vector<size_type> idx(ne);
                std::iota(idx.begin(), idx.end(), 0);
                std::sort(idx.begin(), idx.end(), [&w](const size_type& i0, const size_type& i1) { return w[i0] < w[i1]; });
                os << "I rawperm";
                put_sizes(os, idx);
                os << "\n";
            }
            T::load(bg, nb, links, w);
            T::kruskal(bg);
            os << "O raw_k";
            put_sizes(os, bg.tree());
            os << "\n";
            T::boruvka(bg);
            os << "O raw_b";
            put_sizes(os, bg.tree());
            os << "\n";
            T::boruvka(bg);
            os << "O raw_b2";
            put_sizes(os, bg.tree());
            os << "\n";
        }

        void call_spl(Line& l)
        {
            const size_type n = grid.size();
            std::string kk = l.next();
            std::vector<double> kv;
            double ks = 0;
            if (kk == "s")
                ks = l.ndbl();
            else
                kv = l.ndbls(n);
            double m = l.ndbl(), nn = l.ndbl(), tol = l.ndbl(), dt = l.ndbl();
            auto area = l.ndbls(n);
            auto elevv = l.ndbls(n);
            int reps = l.more() ? static_cast<int>(l.nint()) : 1;
            // optional setter calls applied to a FRESH eroder before it erodes: set:n:<v> (slope
            // exponent), set:m:<v> (area exponent)
            std::vector<std::pair<char, double>> setters;
            bool as_views = false;   // pass elevation and drainage area as NON-CONTIGUOUS views
            while (l.more())
            {
                std::string t = l.next();
                if (t.rfind("set:", 0) == 0 && t.size() > 6)
                    setters.push_back({ t[4], unhex(t.substr(6)) });
                else if (t == "view")
                    as_views = true;
            }
            os << "I spl " << kk;
            if (kk == "s")
                os << ' ' << hexd(ks);
            else
                for (auto x : kv)
                    os << ' ' << hexd(x);
            os << ' ' << hexd(m) << ' ' << hexd(nn) << ' ' << hexd(tol) << ' ' << hexd(dt);
            for (auto x : area)
                os << ' ' << hexd(x);
            for (auto x : elevv)
                os << ' ' << hexd(x);
            os << "\n";
            try
            {
                using eroder_t = fs::spl_eroder<FG>;
                std::ostringstream sig;
                sig << kk << ' ' << hexd(ks);
                for (auto x : kv)
                    sig << ' ' << hexd(x);
                sig << ' ' << hexd(m) << ' ' << hexd(nn) << ' ' << hexd(tol);
                if (!spl_obj || sig.str() != spl_sig || !setters.empty())
                {
                    spl_obj.reset();
                    spl_sig.clear();
                    // constructor or the factory function, by the parity of the grid size
                    const bool factory = grid.size() % 2 == 1;
                    if (kk == "s")
                        spl_obj = factory ? std::make_unique<eroder_t>(fs::make_spl_eroder(*graph, ks, m, nn, tol))
                                          : std::make_unique<eroder_t>(*graph, ks, m, nn, tol);
                    else
                    {
                        arr ka = make_arr(kv);
                        spl_obj = factory ? std::make_unique<eroder_t>(fs::make_spl_eroder(*graph, ka, m, nn, tol))
                                          : std::make_unique<eroder_t>(*graph, ka, m, nn, tol);
                    }
                    spl_sig = sig.str();
                    os << "O spl_new 1\n";
                }
                else
                    os << "O spl_new 0\n";
                auto& er = spl_obj;
                bool rejected = false;
                for (std::size_t si = 0; si < setters.size(); ++si)
                {
                    try
                    {
                        if (setters[si].first == 'n')
                            er->set_slope_exp(setters[si].second);
                        else if (setters[si].first == 'k')
                            er->set_k_coef(setters[si].second);   // scalar erodibility for every node
                        else
                            er->set_area_exp(setters[si].second);
                        os << "O splset" << si << " ok\n";
                    }
                    catch (const std::exception& ex)
                    {
                        os << "O splset" << si << " err " << errkind(ex) << "\n";
                        rejected = true;
                    }
                }
                if (!setters.empty())
                {
                    // what the object now reports; after a refused setter nothing is eroded (the
                    // object is in no configuration the library supports)
                    os << "O spl_eff " << hexd(er->area_exp()) << ' ' << hexd(er->slope_exp()) << "\n";
                    spl_sig.clear();
                    if (rejected)
                    {
                        spl_obj.reset();
                        return;
                    }
                }
                arr a = make_arr(area);
                arr e = make_arr(elevv);
                // the same fields as every second column of arrays twice as wide: strided views of them
                // are legal arguments (anything convertible to the array type) and must give the same result
                auto gshape = grid.shape();
                auto sh2 = std::vector<std::size_t>(gshape.begin(), gshape.end());
                sh2.back() *= 2;
                arr big_e = arr::from_shape(sh2), big_a = arr::from_shape(sh2);
                big_e.fill(-12345.0);
                big_a.fill(-1.0);
                xt::xstrided_slice_vector sv;
                for (std::size_t d = 0; d + 1 < sh2.size(); ++d)
                    sv.push_back(xt::all());
                sv.push_back(xt::range(0, static_cast<std::ptrdiff_t>(sh2.back()), 2));
                auto ve = xt::strided_view(big_e, sv);
                auto va = xt::strided_view(big_a, sv);
                ve = e;
                va = a;
                for (int r = 0; r < reps; ++r)
                {
                    const arr& ero = as_views ? er->erode(ve, va, dt) : er->erode(e, a, dt);
                    os << "O erosion";
                    for (auto x : ero)
                        os << ' ' << hexd(x);
                    os << "\nO ncorr " << er->n_corr() << "\n";
                }
            }
            catch (const std::exception& ex)
            {
                os << "O spl err " << errkind(ex) << "\n";
            }
        }

        // Level-synchronous kernel used for C10: longest downstream path length, which is only
        // right if every receiver was finished in an earlier level / earlier in the order.
        struct KData
        {
            std::vector<double> val;
            const impl_type* im;
            bool local = false;
            std::vector<int> visits;   // how often the kernel was applied to each node
        };
        struct KNode
        {
            std::size_t idx;
            double best;
            double out;
            double bias = 1e9;   // set to 0 by node_data_init (when the kernel has one) or at creation
        };
        static std::atomic<long>& knode_created()
        {
            static std::atomic<long> c{ 0 };
            return c;
        }
        static std::atomic<long>& knode_freed()
        {
            static std::atomic<long> c{ 0 };
            return c;
        }

        void call_kernel(Line& l)
        {
            std::string dir = l.next();
            int threads = static_cast<int>(l.nint());
            int min_block = static_cast<int>(l.nint());
            int min_level = static_cast<int>(l.nint());
            const size_type n = grid.size();
            KData data{ std::vector<double>(n, -1.0), &graph->impl(), dir == "any", std::vector<int>(n, 0) };
            fs::detail::flow_kernel k;
            k.func = [](void* p)
            {
                auto* nd = static_cast<KNode*>(p);
                nd->out = nd->best + 1.0 + nd->bias;
                return 0;
            };
            k.node_data_getter = [](std::size_t i, void* d, void* p)
            {
                auto* kd = static_cast<KData*>(d);
                auto* nd = static_cast<KNode*>(p);
                nd->idx = i;
                nd->best = -1.0;
                if (kd->local)
                {
                    // order-independent kernel for the `any` traversal: own index only
                    nd->best = static_cast<double>(i);
                    return 0;
                }
                const auto& im = *kd->im;
                for (size_type r = 0; r < im.receivers_count()(i); ++r)
                {
                    auto rr = im.receivers()(i, r);
                    if (rr != i)
                        nd->best = std::max(nd->best, kd->val[rr] < 0 ? 1e9 : kd->val[rr]);
                }
                return 0;
            };
            k.node_data_setter = [](std::size_t i, void* p, void* d)
            {
                static_cast<KData*>(d)->val[i] = static_cast<KNode*>(p)->out;
                static_cast<KData*>(d)->visits[i] += 1;
                return 0;
            };
            // with an init function the node data is created "dirty" and cleaned by init; without one it
            // is created clean: either way every node data must be created once, initialised when an
            // init function is given, and freed once
            const bool with_init = (min_block + min_level) % 2 == 0;
            knode_created() = 0;
            knode_freed() = 0;
            if (with_init)
            {
                k.node_data_create = []() -> void*
                {
                    ++knode_created();
                    return new KNode();
                };
                k.node_data_init = [](void* p, void*) { static_cast<KNode*>(p)->bias = 0.0; };
            }
            else
            {
                k.node_data_create = []() -> void*
                {
                    ++knode_created();
                    auto* nd = new KNode();
                    nd->bias = 0.0;
                    return nd;
                };
                k.node_data_init = nullptr;
            }
            k.node_data_free = [](void* p)
            {
                ++knode_freed();
                delete static_cast<KNode*>(p);
            };
            k.n_threads = threads;
            k.min_block_size = min_block;
            k.min_level_size = min_level;
            k.apply_dir = dir == "bfs"   ? fs::flow_graph_traversal_dir::breadth_upstream
                          : dir == "dfs" ? fs::flow_graph_traversal_dir::depth_upstream
                                         : fs::flow_graph_traversal_dir::any;
            fs::detail::flow_kernel_data kd{ &data };
            try
            {
                graph->apply_kernel(k, kd);
                os << "O kernel";
                for (auto x : data.val)
                    os << ' ' << hexd(x);
                os << "\n";
                bool once = true;
                for (auto v : data.visits)
                    once = once && v == 1;
                os << "O kvisits " << (once ? 1 : 0) << "\n";
                os << "O knodes " << knode_created().load() << ' ' << knode_freed().load() << "\n";
            }
            catch (const std::exception& ex)
            {
                os << "O kernel err " << errkind(ex) << "\n";
            }
        }

        bool dispatch(const std::string& cmd, Line& l)
        {
            static const char* flow_cmds[] = { "set_mask", "set_base", "set_param", "update", "update_again", "acc",
                                               "basins", "pits", "bgraph", "mstraw", "spl", "kernel", "snapcall", "adi" };
            if (cmd != "graph" && !graph)
            {
                for (auto fc : flow_cmds)
                    if (cmd == fc)
                    {
                        os << "O " << cmd << " nograph\n";
                        return true;
                    }
            }
            if (cmd == "graph")
                call_graph(l);
            else if (cmd == "set_mask")
                call_set_mask(l, *graph, true);
            else if (cmd == "set_base")
                call_set_base(l, *graph, true);
            else if (cmd == "set_param")
                call_set_param(l);
            else if (cmd == "update")
                call_update(l);
            else if (cmd == "update_again")
                call_update_again();
            else if (cmd == "acc")
                call_acc(l, *graph, "");
            else if (cmd == "basins")
                call_basins(*graph, "");
            else if (cmd == "pits")
                call_pits(*graph);
            else if (cmd == "bgraph")
                call_bgraph(l);
            else if (cmd == "mstraw")
                call_mstraw(l);
            else if (cmd == "spl")
                call_spl(l);
            else if (cmd == "kernel")
                call_kernel(l);
            else if (cmd == "snapcall")
            {
                std::string name = l.next();
                std::string what = l.next();
                auto& sg = graph->graph_snapshot(name);
                std::string pre = "snap:" + name + ":";
                auto pit = prefix_graphs.find(name);
                if (what == "acc")
                {
                    Line l2 = l;
                    call_acc(l, sg, pre);
                    if (pit != prefix_graphs.end())
                        call_acc(l2, *pit->second, "pfx:" + name + ":", false);
                }
                else if (what == "basins")
                {
                    call_basins(sg, pre);
                    if (pit != prefix_graphs.end())
                        call_basins(*pit->second, "pfx:" + name + ":");
                }
                else if (what == "set_mask")
                    call_set_mask(l, sg, false);
                else if (what == "set_base")
                    call_set_base(l, sg, false);
                else if (what == "update")
                {
                    auto v = l.ndbls(grid.size());
                    arr e = make_arr(v);
                    guarded("snap_update", [&] { sg.update_routes(e); });
                }
            }
            else
                return false;
            return true;
        }
    };

    // generic grid dump: every accessor for the queried node
    template <class G>
    void grid_query(G& grid, const std::string& kind, std::size_t i, std::ostream& os)
    {
        if (kind == "c")
            os << "O q c " << i << ' ' << grid.neighbors_count(i) << "\n";
        else if (kind == "i")
        {
            os << "O q i " << i;
            for (auto x : grid.neighbors_indices(i))
                os << ' ' << x;
            os << "\n";
        }
        else if (kind == "m")
        {
            // neighbours sorted by index (the storage order of a mesh is that of a hash map)
            std::vector<std::tuple<std::size_t, double, int>> v;
            for (auto& nb : grid.neighbors(i))
                v.emplace_back(nb.idx, nb.distance, st_int(nb.status));
            std::stable_sort(v.begin(), v.end(), [](auto& a, auto& b) { return std::get<0>(a) < std::get<0>(b); });
            os << "O q m " << i;
            for (auto& t : v)
                os << ' ' << std::get<0>(t) << ' ' << hexd(std::get<1>(t)) << ' ' << std::get<2>(t);
            os << "\n";
        }
        else if (kind == "so")
        {
            // out-parameter overload with a vector that is reused from query to query
            static typename G::neighbors_type reused;
            grid.neighbors(i, reused);
            os << "O q so " << i;
            for (auto& nb : reused)
                os << ' ' << nb.idx << ' ' << hexd(nb.distance) << ' ' << st_int(nb.status);
            os << "\n";
        }
        else if (kind == "ib")
        {
            static typename G::neighbors_indices_type buf;
            os << "O q ib " << i;
            for (auto x : grid.neighbors_indices(i, buf))
                os << ' ' << x;
            os << "\n";
        }
        else if (kind == "d")
        {
            os << "O q d " << i;
            for (auto x : grid.neighbors_distances(i))
                os << ' ' << hexd(x);
            os << "\n";
        }
        else if (kind == "s")
        {
            os << "O q s " << i;
            for (auto& nb : grid.neighbors(i))
                os << ' ' << nb.idx << ' ' << hexd(nb.distance) << ' ' << st_int(nb.status);
            os << "\n";
        }
    }

    inline void put_sp(std::ostream& os, double v)
    {
        os << ' ' << hexd(v);
    }
    template <class A>
    auto put_sp(std::ostream& os, const A& a) -> decltype(a.begin(), void())
    {
        for (auto v : a)
            os << ' ' << hexd(v);
    }
    // the spacing accessor of structured grids (the distances reported for neighbours must be the
    // step lengths derived from it); meshes have none
    template <class G>
    auto put_spacing(G& grid, std::ostream& os, int) -> decltype(grid.spacing(), void())
    {
        os << "O spacing";
        put_sp(os, grid.spacing());
        os << "\n";
    }
    template <class G>
    void put_spacing(G&, std::ostream&, long)
    {
    }
    // length() and shape() of structured grids
    template <class G>
    auto put_length_shape(G& grid, std::ostream& os, int) -> decltype(grid.length(), void())
    {
        os << "O length";
        put_sp(os, grid.length());
        os << "\nO shape";
        for (auto v : grid.shape())
            os << ' ' << static_cast<unsigned long long>(v);
        os << "\n";
    }
    template <class G>
    void put_length_shape(G&, std::ostream&, long)
    {
    }

    template <class G>
    void grid_common(G& grid, std::ostream& os)
    {
        put_spacing(grid, os, 0);
        put_length_shape(grid, os, 0);
        {
            // the one-node status accessor against the status array
            bool same = true;
            std::size_t k = 0;
            for (auto st : grid.nodes_status())
                same = same && st == grid.nodes_status(k++);
            os << "O status_views_agree " << (same && k == grid.size() ? 1 : 0) << "\n";
        }
        os << "O size " << grid.size() << "\n";
        os << "O nmax " << static_cast<int>(G::n_neighbors_max()) << "\n";
        os << "O status";
        for (auto s : grid.nodes_status())
            os << ' ' << st_int(s);
        os << "\n";
        os << "O area";
        for (std::size_t i = 0; i < grid.size(); ++i)
            os << ' ' << hexd(grid.nodes_areas(i));
        os << "\n";
        auto areas = grid.nodes_areas();
        bool agree = true;
        std::size_t k = 0;
        for (auto a : areas)
            agree = agree && hexd(a) == hexd(grid.nodes_areas(k++));
        os << "O area_views_agree " << (agree && k == grid.size() ? 1 : 0) << "\n";
    }

    template <class G>
    void grid_iter(G& grid, Line& l, std::ostream& os)
    {
        std::string which = l.next();
        std::string dir = l.next();
        os << "O iter " << which << ' ' << dir;
        auto emit = [&](auto&& range)
        {
            if (dir == "fwd")
                for (auto it = range.begin(); !(it == range.end()); ++it)
                    os << ' ' << *it;
            else
                for (auto it = range.rbegin(); !(it == range.rend()); ++it)
                    os << ' ' << *it;
        };
        if (which == "all")
            emit(grid.nodes_indices());
        else
            emit(grid.nodes_indices(to_status(which)));
        os << "\n";
    }

    // echo the topology the flow model consumes (neighbour lists with distances as the real
    // grid reports them); the grid model is tied to these separately (C07/C18)
    template <class G>
    void echo_topo(G& grid, std::ostream& os)
    {
        os << "I topo " << grid.size() << ' ' << static_cast<int>(G::n_neighbors_max()) << "\n";
        for (std::size_t i = 0; i < grid.size(); ++i)
        {
            os << "I nb " << i;
            for (auto& nb : grid.neighbors(i))
                os << ' ' << nb.idx << ' ' << hexd(nb.distance);
            os << "\n";
        }
        os << "I gstatus";
        for (auto s : grid.nodes_status())
            os << ' ' << st_int(s);
        os << "\n";
    }

    template <class G, class X>
    void run_calls(G& grid, Scenario& scn, std::size_t from, std::ostream& os, X&& extra)
    {
        Session<G> ses(grid, os);
        bool topo_done = false;
        for (std::size_t li = from; li < scn.size(); ++li)
        {
            Line& l = scn[li];
            std::string cmd = l.next();
            os << "C " << li;
            for (auto& tk : l.t)
                os << ' ' << tk;
            os << "\n";
            if (cmd == "grid_common")
                grid_common(grid, os);
            else if (cmd == "q")
            {
                std::string kind = l.next();
                grid_query(grid, kind, l.nsz(), os);
            }
            else if (cmd == "iter")
                grid_iter(grid, l, os);
            else if (extra(cmd, l))
            {
            }
            else
            {
                if (!topo_done && cmd == "graph")
                {
                    echo_topo(grid, os);
                    topo_done = true;
                }
                if (cmd == "graph")
                    os << "O topo_model_agrees 1\n";
                if (!ses.dispatch(cmd, l))
                    throw std::logic_error("harness: unknown call " + cmd);
            }
        }
    }
}
