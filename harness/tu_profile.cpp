#include "fsh_flow.hpp"
namespace fsh
{
    void run_profile(Scenario& scn, std::ostream& os)
    {
        Line& g = scn.at(1);
        g.p = 2;
        std::size_t n = g.nsz();
        double dx = g.ndbl();
        fs::node_status L = to_status(g.next()), R = to_status(g.next());
        bool cache = g.nint() != 0;
        std::map<std::size_t, fs::node_status> ov;
        if (g.more() && g.next() == "ov")
        {
            std::size_t k = g.nsz();
            for (std::size_t j = 0; j < k; ++j)
            {
                std::size_t i = g.nsz();
                ov[i] = to_status(g.next());
            }
        }
        // optional trailing token `len=<L>`: build the grid with from_length (the spacing token then
        // holds L / (n - 1) as computed by the generator)
        bool from_len = false;
        double len = 0;
        if (g.more())
        {
            std::string t = g.next();
            if (t.rfind("len=", 0) == 0)
            {
                len = unhex(t.substr(4));
                from_len = true;
            }
        }
        auto go = [&](auto tag)
        {
            using C = typename decltype(tag)::type;
            using G = fs::profile_grid<fs::xt_selector, C>;
            std::unique_ptr<G> grid;
            try
            {
                // the three constructors of the boundary status: one status, two statuses, an array
                fs::profile_boundary_status bs = (L == R && n % 2 == 0)
                                                     ? fs::profile_boundary_status(L)
                                                     : (n % 3 == 0 ? fs::profile_boundary_status(std::array<fs::node_status, 2>{ L, R })
                                                                   : fs::profile_boundary_status(L, R));
                if (from_len)
                    grid = std::make_unique<G>(G::from_length(n, len, bs, ov));
                else
                    grid = std::make_unique<G>(n, dx, bs, ov);
            }
            catch (const std::exception& e)
            {
                os << "O grid err " << errkind(e) << "\n";
                return;
            }
            os << "O grid ok\n";
            run_calls(*grid, scn, 2, os, [](const std::string&, Line&) { return false; });
        };
        if (cache)
            go(std::common_type<fs::neighbors_cache<2>>{});
        else
            go(std::common_type<fs::neighbors_no_cache<2>>{});
    }
}
