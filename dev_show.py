import sys,random
sys.path.insert(0,'/verif')
from vlib import props, run, oracle, build
pid=sys.argv[1]; ids=sys.argv[2:]
P=props.PROPS[pid]
rng=random.Random(1*1000003)
scns=P['gen'](rng,'quick')
sel=[x for x in scns if x[0] in ids]
exe=build.build_harness()[0]
impl,notes,sans=run.run_harness(exe,sel)
mod,mn=run.run_model(build.model_exe(),impl)
for s in sel:
    print("=====",s[0]); 
    for l in s[1]: print("   ",l[:160])
    for d in run.diff_scn(impl[s[0]],mod.get(s[0]),None)[:6]:
        print("  DIFF call",d[0],d[1],d[2]); print("     impl ",' '.join(d[3] or [])[:300]); print("     model",' '.join(d[4] or ['<none>'])[:300])
    for o in P.get('oracles',[]): print("  ORACLE",o(impl[s[0]])[:4])
