import sys, random, os
sys.path.insert(0,'/verif')
from vlib import gen, run, build
from vlib.common import hx
seed=int(sys.argv[1]); N=int(sys.argv[2]); exe=sys.argv[3]
rng=random.Random(seed)
scns=[]
for k in range(N):
    g=gen.any_grid(rng, small=True, mesh_ok=False)
    lines=[g.line()]
    ops=gen.resolver_ops(rng) if rng.random()<0.7 else rng.choice([["single"],["multi:"+hx(1.0)],["single","snap:a:g","pflood","multi:"+hx(2.0)],["single:3"]])
    lines.append("graph "+" ".join(ops))
    for rep in range(rng.randint(1,2)):
        if rng.random()<0.4: lines.append("set_mask "+" ".join(map(str,gen.mask_bits(rng,g))))
        if rng.random()<0.3:
            b=rng.sample(range(g.n),rng.randint(1,min(3,g.n)))
            lines.append("set_base "+" ".join(map(str,b)))
        z=gen.elevation(rng,g)
        lines.append("update "+gen.hexes(z))
        lines.append("acc a "+gen.hexes([rng.random() for _ in z]))
        if not any(o.startswith("multi") for o in ops): lines.append("basins")
    scns.append(("s%d_%d"%(seed,k),lines))
impl,notes,sans=run.run_harness(exe,scns,watchdog=10)
print("scenarios",len(impl),"crash notes",len(notes),"san",len(sans))
for sid,(rc,err) in list(notes.items())[:3]: print("NOTE",sid,rc,err[-300:])
kinds={}
for r in sans: kinds[(r['kind'],r['where'])]=kinds.get((r['kind'],r['where']),0)+1
print(kinds)
mod,mn=run.run_model(build.model_exe(),impl)
print("model notes",mn[:2])
nd=0
for sid in impl:
    if impl[sid].crashed: continue
    d=run.diff_scn(impl[sid],mod.get(sid))
    if d:
        nd+=1
        if nd<=4:
            print("DIFF",sid,[l for l in dict(scns)[sid] if l.startswith('graph') or l.startswith('grid')])
            for x in d[:3]: print("   ",x[0],x[1],x[2],"\n      impl ",' '.join(x[3] or [])[:200],"\n      model",' '.join(x[4] or ['<none>'])[:200])
print("scenarios with diffs:",nd,"of",len(impl))
import json
bad=[s for s in scns if s[0] in notes]
open('/tmp/bad.scn','w').write(''.join(run.scn_text(s) for s in bad[:1]))
print([l[:150] for l in bad[0][1]])
