#!/usr/bin/env python3
"""seedcheck.py <src_dir> <seed_id> <prop> [<more props to run>...]

Development tool (not a registered check): confirm a seeded property-breaking change and run the
checks against it.
  1. scratch worktree of /repo HEAD under /tmp: apply patch, build + run the unedited test suite (must pass),
     compile the demonstration against the mutated tree (must fail) and against /repo (must pass);
  2. apply the patch to /repo, run `check.py <prop>` (quick) for each listed property, undo the patch;
  3. store patch.diff, demo.cpp, notes.md and meta.json under seeded/<seed_id>/.
Evidence files and replays written while the patch was applied are discarded.
"""
import json
import os
import shutil
import subprocess
import sys
import time

ROOT = os.path.dirname(os.path.abspath(__file__))
REPO = "/repo"


def sh(cmd, cwd=None, timeout=3600):
    r = subprocess.run(cmd, shell=True, cwd=cwd, capture_output=True, text=True, timeout=timeout)
    out = "\n".join(l for l in (r.stdout + r.stderr).split("\n") if "WARNING" not in l)
    return r.returncode, out


def main():
    src, sid, props = sys.argv[1], sys.argv[2], sys.argv[3:]
    skip_confirm = "--skip-confirm" in props
    props = [p for p in props if not p.startswith("--")]
    patch = os.path.join(src, "patch.diff")
    demo = os.path.join(src, "demo.cpp")
    meta = dict(id=sid, property=props[0], checks_run=props, ran=[])
    wt = "/tmp/seedwt_%s" % sid
    if not skip_confirm:
        sh("git -C %s worktree remove --force %s" % (REPO, wt))
        rc, out = sh("git -C %s worktree add --detach %s HEAD" % (REPO, wt))
        assert rc == 0, out
        try:
            rc, out = sh("git apply %s" % patch, cwd=wt)
            assert rc == 0, "patch does not apply: " + out
            t0 = time.time()
            rc, out = sh("cmake -G Ninja -S . -B _build -DFS_BUILD_TESTS=ON -DCMAKE_BUILD_TYPE=RelWithDebInfo -DCMAKE_CXX_FLAGS=-Wno-error "
                         "-DGTest_DIR=/root/miniconda/lib/cmake/GTest >/dev/null && cmake --build _build -j12 2>&1 | tail -3 && "
                         "ctest --test-dir _build -j8 --timeout 900 2>&1 | tail -4", cwd=wt)
            suite_ok = "100% tests passed" in out
            meta["suite_with_patch"] = out.strip().split("\n")[-3:]
            meta["ran"].append("unedited test suite on patched scratch worktree: %s (%.0fs)" % ("all passed" if suite_ok else "FAILED", time.time() - t0))
            print("suite with patch:", "ok" if suite_ok else "FAIL\n" + out[-800:])
            if os.path.exists(demo):
                rc1, o1 = sh("g++ -std=c++17 -O1 -I%s/include %s -o /tmp/seed_demo_mut -pthread && /tmp/seed_demo_mut" % (wt, demo))
                rc2, o2 = sh("g++ -std=c++17 -O1 -I%s/include %s -o /tmp/seed_demo_ok -pthread && /tmp/seed_demo_ok" % (REPO, demo))
                meta["demo_with_patch"] = dict(rc=rc1, tail=o1.strip().split("\n")[-2:])
                meta["demo_without_patch"] = dict(rc=rc2, tail=o2.strip().split("\n")[-2:])
                meta["ran"].append("demo compiled against patched tree: rc=%d; against /repo: rc=%d" % (rc1, rc2))
                print("demo with patch rc=%d (%s) / without rc=%d (%s)" % (rc1, o1.strip().split("\n")[-1][:100], rc2, o2.strip().split("\n")[-1][:100]))
                meta["confirmed"] = bool(suite_ok and rc1 != 0 and rc2 == 0)
            else:
                meta["confirmed"] = False
        finally:
            sh("git -C %s worktree remove --force %s" % (REPO, wt))
            shutil.rmtree(wt, ignore_errors=True)
        if not meta["confirmed"]:
            print("NOT CONFIRMED - not kept")
            print(json.dumps(meta, indent=1))
            sys.exit(3)
    # ---- run the checks against the change
    rc, out = sh("git -C %s status --porcelain --untracked-files=no" % REPO)
    assert out.strip() == "", "/repo has local modifications: " + out
    rc, out = sh("git -C %s apply %s" % (REPO, patch))
    assert rc == 0, out
    results = {}
    try:
        for p in props:
            t0 = time.time()
            rc, out = sh("python3 check.py %s --tier quick" % p, cwd=ROOT, timeout=3600)
            v = [l for l in out.split("\n") if l.startswith("VIOLATION")]
            results[p] = dict(rc=rc, violation=v[:1], wall_s=round(time.time() - t0, 1))
            print("check %s: rc=%d %s (%.0fs)" % (p, rc, v[:1], time.time() - t0))
            # keep the replay the check wrote, next to the seed
            if v:
                rp = v[0].split("replay=")[1].split()[0]
                if os.path.exists(rp):
                    os.makedirs(os.path.join(ROOT, "seeded", sid), exist_ok=True)
                    shutil.copy(rp, os.path.join(ROOT, "seeded", sid, "replay_%s.txt" % p))
                    os.remove(rp)
    finally:
        sh("git -C %s checkout -- ." % REPO)
        sh("git checkout -- evidence", cwd=ROOT)
    meta["check_results"] = results
    meta["detected_by"] = [p for p, r in results.items() if r["rc"] == 1 and r["violation"]]
    d = os.path.join(ROOT, "seeded", sid)
    os.makedirs(d, exist_ok=True)
    shutil.copy(patch, os.path.join(d, "patch.diff"))
    for f in ("demo.cpp", "notes.md"):
        if os.path.exists(os.path.join(src, f)):
            shutil.copy(os.path.join(src, f), os.path.join(d, f))
    old = {}
    mp = os.path.join(d, "meta.json")
    if os.path.exists(mp):
        old = json.load(open(mp))
    old.update(meta)
    json.dump(old, open(mp, "w"), indent=1)
    print("detected by:", meta["detected_by"])


if __name__ == "__main__":
    main()
