#!/usr/bin/env python3
"""development aid (not a registered check): every theorem module named in the registry must be
importable TOGETHER (no duplicate declaration names across files).  usage: FS_REPO=<tree> dev_import_all.py"""
import os, subprocess, sys, tempfile
sys.path.insert(0, os.path.dirname(os.path.abspath(__file__)))
from vlib import build, props  # noqa: E402
mods = sorted({m for P in props.PROPS.values() for m in P.get("lean_modules", [])})
with tempfile.NamedTemporaryFile("w", suffix=".lean", delete=False) as f:
    f.write("".join("import %s\n" % m for m in mods))
with build.build_lock("lean"):
    print(build.run_translate())
    ok, out = build.lake_build(["fsmodel"] + mods)
    print("build", ok, out[-800:] if not ok else "")
    r = subprocess.run(["lake", "env", "lean", f.name], cwd=build.LEAN, capture_output=True, text=True)
    print("import-all rc", r.returncode, (r.stdout + r.stderr)[-800:])
os.unlink(f.name)
sys.exit(0 if ok and r.returncode == 0 else 1)
