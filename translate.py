#!/usr/bin/env python3
"""translate.py: regenerate the data part of the Lean model from /repo's current sources.

Reads headers under <repo>/include/fastscapelib as they are now and writes
lean/FsModel/Generated.lean.  Everything extracted is *data* (tables, flags, memory orders,
copied-member lists); `lake build` then re-elaborates every theorem that mentions a generated
constant.  When a pattern is no longer found the translator fails loudly (exit 2 and a line
"TRANSLATE-FAIL <what>"): the tie to the source no longer checks.
"""
import os
import re
import sys
import json

REPO = os.environ.get("FS_REPO", "/repo")
INC = os.path.join(REPO, "include", "fastscapelib")
HERE = os.path.dirname(os.path.abspath(__file__))
OUT = os.path.join(HERE, "lean", "FsModel", "Generated.lean")


class Fail(Exception):
    pass


def src(rel):
    with open(os.path.join(INC, rel)) as f:
        s = f.read()
    # strip comments
    s = re.sub(r"/\*.*?\*/", " ", s, flags=re.S)
    s = re.sub(r"//[^\n]*", " ", s)
    # the guarded verification hooks are not part of the library's behaviour
    s = re.sub(r"FS_VERIF_POINT\([^;]*\);", " ", s)
    return s


def need(m, what):
    if not m:
        raise Fail(what)
    return m


def balanced(s, start, open_c="{", close_c="}"):
    """return the text between the bracket at s[start] and its match"""
    assert s[start] == open_c
    depth = 0
    for i in range(start, len(s)):
        if s[i] == open_c:
            depth += 1
        elif s[i] == close_c:
            depth -= 1
            if depth == 0:
                return s[start + 1 : i], i
    raise Fail("unbalanced bracket")


def func_body(s, header_re, what):
    m = need(re.search(header_re, s, flags=re.S), what)
    i = s.index("{", m.end() - 1) if s[m.end() - 1] != "{" else m.end() - 1
    body, _ = balanced(s, i)
    return body


SYM = {"0": 0, "up": 1, "down": 2, "left": 1, "right": 2}


def raster_tables(out, info):
    s = src("grid/raster_grid.hpp")
    for conn in ("queen", "rook", "bishop"):
        body = func_body(
            s,
            r"raster_neighbors<raster_connect::%s>::node_neighbors_offsets\s*\([^)]*\)\s*const\s*->\s*neighbors_offsets_type\s*\{" % conn,
            "node_neighbors_offsets<%s>" % conn,
        )
        m = need(re.search(r"std::array<bool,\s*(\d+)>\s*mask\s*\{", body), "mask array " + conn)
        k = int(m.group(1))
        mtxt, _ = balanced(body, m.end() - 1)
        # split mask entries at top-level commas
        entries, depth, cur = [], 0, ""
        for ch in mtxt:
            if ch == "(":
                depth += 1
            if ch == ")":
                depth -= 1
            if ch == "," and depth == 0:
                entries.append(cur.strip())
                cur = ""
            else:
                cur += ch
        if cur.strip():
            entries.append(cur.strip())
        if len(entries) != k:
            raise Fail("mask length %s" % conn)
        masks = []
        for e in entries:
            e = e.strip("() ")
            parts = [p.strip() for p in e.split("&&")]
            syms = []
            for p in parts:
                mm = need(re.fullmatch(r"(up|down|left|right)\s*!=\s*0", p), "mask conjunct %r (%s)" % (p, conn))
                syms.append(mm.group(1))
            masks.append(syms)
        m = need(re.search(r"offsets\s*\{", body), "offsets array " + conn)
        otxt, _ = balanced(body, m.end() - 1)
        pairs = re.findall(r"\{\s*(up|down|0)\s*,\s*(left|right|0)\s*\}", otxt)
        if len(pairs) != k:
            raise Fail("offsets length %s" % conn)
        # the mask of entry i must test exactly the non-zero symbols of offset i
        for (a, b), ms in zip(pairs, masks):
            want = sorted(x for x in (a, b) if x != "0")
            if sorted(ms) != want:
                raise Fail("mask/offset mismatch %s: %s vs %s" % (conn, ms, (a, b)))
        m = need(re.search(r"for\s*\(std::size_t i = 0; i < (\d+); \+\+i\)\s*if\s*\(mask\[i\]\)\s*selected_offsets\.push_back\(offsets\[i\]\)", body), "selection loop " + conn)
        if int(m.group(1)) != k:
            raise Fail("selection loop bound %s" % conn)
        offs = [(SYM[a], SYM[b]) for a, b in pairs]
        out.append("def offs%s : List (Nat × Nat) := [%s]" % (conn.capitalize(), ", ".join("(%d, %d)" % p for p in offs)))
        info["offs_" + conn] = offs
        m = need(re.search(r"raster_neighbors<raster_connect::%s>\s*:\s*public raster_neighbors_base\s*\{\s*static constexpr std::uint8_t _n_neighbors_max = (\d+)u;" % conn, s), "_n_neighbors_max " + conn)
        out.append("def nmax%s : Nat := %s" % (conn.capitalize(), m.group(1)))
        # count tables
        body = func_body(
            s,
            r"raster_neighbors<raster_connect::%s>::build_neighbors_count\s*\([^)]*\)\s*const\s*->\s*std::array<size_type, 9>\s*\{" % conn,
            "build_neighbors_count<%s>" % conn,
        )
        m = need(
            re.search(
                r"if\s*\(bounds_status\.is_vertical_looped\(\)\s*&&\s*bounds_status\.is_horizontal_looped\(\)\)\s*\{\s*neighbors_count\.fill\((\d+)\);\s*\}"
                r"\s*else if\s*\(bounds_status\.is_vertical_looped\(\)\)\s*\{\s*neighbors_count = std::array<size_type, 9>\(\{([^}]*)\}\);\s*\}"
                r"\s*else if\s*\(bounds_status\.is_horizontal_looped\(\)\)\s*\{\s*neighbors_count = std::array<size_type, 9>\(\{([^}]*)\}\);\s*\}"
                r"\s*else\s*\{\s*neighbors_count = std::array<size_type, 9>\(\{([^}]*)\}\);\s*\}",
                body,
            ),
            "count tables " + conn,
        )
        both = [int(m.group(1))] * 9
        vert = [int(x) for x in m.group(2).split(",")]
        horiz = [int(x) for x in m.group(3).split(",")]
        none = [int(x) for x in m.group(4).split(",")]
        for t in (vert, horiz, none):
            if len(t) != 9:
                raise Fail("count table length " + conn)
        out.append(
            "def count%s (lv lh : Bool) : List Nat :=\n  if lv && lh then %s else if lv then %s else if lh then %s else %s"
            % (conn.capitalize(), both, vert, horiz, none)
        )
        info["count_" + conn] = dict(both=both, vert=vert, horiz=horiz, none=none)
    # coded offsets
    body = func_body(s, r"raster_grid<S, RC, C>::build_coded_neighbors_offsets\(\)\s*->\s*coded_noffsets_type\s*\{", "build_coded_neighbors_offsets")
    need(re.search(r"auto dr = static_cast<std::ptrdiff_t>\(m_shape\[0\] - 1\);\s*auto dc = static_cast<std::ptrdiff_t>\(m_shape\[1\] - 1\);", body), "dr/dc definitions")
    need(re.search(r"if\s*\(!m_bounds_status\.is_vertical_looped\(\)\)\s*\{\s*dr = 0;\s*\}\s*if\s*\(!m_bounds_status\.is_horizontal_looped\(\)\)\s*\{\s*dc = 0;\s*\}", body), "dr/dc reset")
    tuples = re.findall(r"this->node_neighbors_offsets\(\s*(-?\w+)\s*,\s*(-?\w+)\s*,\s*(-?\w+)\s*,\s*(-?\w+)\s*\)", body)
    if len(tuples) != 9:
        raise Fail("coded tuples")
    symmap = {"1": ".one", "-1": ".mone", "dr": ".dr", "-dr": ".mdr", "dc": ".dc", "-dc": ".mdc"}
    rows = []
    for t in tuples:
        for x in t:
            if x not in symmap:
                raise Fail("coded tuple symbol %r" % x)
        rows.append("(%s)" % ", ".join(symmap[x] for x in t))
    out.append("def codedTuples : List (Sym × Sym × Sym × Sym) :=\n  [%s]" % ",\n   ".join(rows))
    info["coded"] = tuples
    # node codes
    body = func_body(s, r"raster_grid<S, RC, C>::build_nodes_codes\(\)\s*\{", "build_nodes_codes")
    m = need(re.search(r"fill_value = static_cast<std::uint8_t>\((\d+) - dim \* (\d+)\)", body), "code fill value")
    a, b = int(m.group(1)), int(m.group(2))
    need(re.search(r"gcode_component\[0\] = 0;", body), "code first")
    m = need(re.search(r"gcode_component\[m_shape\[dim\] - 1\] = static_cast<std::uint8_t>\(fill_value \* (\d+)\)", body), "code last")
    c = int(m.group(1))
    need(re.search(r"static_cast<std::uint8_t>\(gcode_rc\[0\]\[r\] \+ gcode_rc\[1\]\[c\]\)", body), "code sum")
    out.append("def codeRowMid : Nat := %d\ndef codeColMid : Nat := %d\ndef codeLastMul : Nat := %d" % (a, a - b, c))
    # index arithmetic
    body = func_body(s, r"raster_grid<S, RC, C>::neighbors_indices_impl\(\s*neighbors_indices_impl_type& neighbors, const size_type& idx\) const\s*->\s*void\s*\{", "raster neighbors_indices_impl")
    need(re.search(r"neighbors\.at\(i\) = static_cast<size_type>\(\(offset\)\[0\]\) \* m_shape\[1\]\s*\+ static_cast<size_type>\(\(offset\)\[1\]\) \+ idx;", body), "raster index arithmetic")
    # status precedence
    b = src("grid/base.hpp")
    m = need(re.search(r"enum class node_status : std::uint8_t\s*\{\s*core = (\d+),\s*fixed_value = (\d+),\s*fixed_gradient = (\d+),\s*looped = (\d+)\s*\}", b), "node_status enum")
    enum = [int(x) for x in m.groups()]
    out.append("def nsCore : Nat := %d\ndef nsFixedValue : Nat := %d\ndef nsFixedGradient : Nat := %d\ndef nsLooped : Nat := %d" % tuple(enum))
    m = need(re.search(r"priority\{\s*\{ node_status::core, (\d+) \},\s*\{ node_status::looped, (\d+) \},\s*\{ node_status::fixed_gradient, (\d+) \},\s*\{ node_status::fixed_value, (\d+) \}\s*\}", b), "status priority map")
    pr = [int(x) for x in m.groups()]
    need(re.search(r"return priority\[a\] < priority\[b\];", b), "status cmp")
    out.append("def prioCore : Nat := %d\ndef prioLooped : Nat := %d\ndef prioFixedGradient : Nat := %d\ndef prioFixedValue : Nat := %d" % tuple(pr))
    info["prio"] = dict(core=pr[0], looped=pr[1], fixed_gradient=pr[2], fixed_value=pr[3])
    need(re.search(r"node_status cs = std::max\(c\.row_border, c\.col_border, detail::node_status_cmp\);", s), "corner max")
    # profile
    p = src("grid/profile_grid.hpp")
    body = func_body(p, r"profile_grid<S, C>::build_neighbors_count\(\)\s*\{", "profile build_neighbors_count")
    m = need(re.search(r"if\s*\(m_bounds_status\.is_horizontal_looped\(\)\)\s*\{\s*m_neighbors_count = std::array<size_type, 3>\(\{([^}]*)\}\);\s*\}\s*else\s*\{\s*m_neighbors_count = std::array<size_type, 3>\(\{([^}]*)\}\);", body), "profile counts")
    out.append("def profileCount (looped : Bool) : List Nat := if looped then %s else %s" % ([int(x) for x in m.group(1).split(",")], [int(x) for x in m.group(2).split(",")]))


def iterator_order(out, info):
    s = src("utils/iterators.hpp")
    loops = re.findall(r"while\s*\((.*?)\)\s*(?:\{|;)", s, flags=re.S)
    conds = [re.sub(r"\s+", " ", c) for c in loops if "m_filter_func" in c]
    if len(conds) != 3:
        raise Fail("iterator loops (found %d)" % len(conds))
    res = []
    for c in conds:
        a = c.index("m_filter_func")
        bnd = re.search(r"m_idx\s*(<|>)\s*(m_grid\.size\(\)|0)", c)
        need(bnd, "iterator bound test")
        res.append(a < bnd.start())
    out.append("/-- per loop (constructor, ++, --): is the filter evaluated before the bounds test? -/")
    out.append("def iterFilterFirst : List Bool := [%s]" % ", ".join("true" if x else "false" for x in res))
    info["iter_filter_first"] = res
    m = re.search(r"xbidirectional_iterator_base<\s*grid_node_index_iterator<G>\s*,\s*typename G::size_type\s*(,[^>]*)?>", s)
    need(m, "iterator base")
    # does operator* hand out a reference to the iterator's own member (stashing iterator)?
    stashing = m.group(1) is None
    out.append("def iterStashing : Bool := %s" % ("true" if stashing else "false"))
    info["iter_stashing"] = stashing


OPS = [
    ("single_flow_router", "flow/flow_router.hpp", r"class single_flow_router\s*:\s*public flow_operator\s*\{"),
    ("multi_flow_router", "flow/flow_router.hpp", r"class multi_flow_router\s*:\s*public flow_operator\s*\{"),
    ("pflood_sink_resolver", "flow/sink_resolver.hpp", r"struct pflood_sink_resolver\s*:\s*public flow_operator\s*\{"),
    ("mst_sink_resolver", "flow/sink_resolver.hpp", r"class mst_sink_resolver\s*:\s*public flow_operator\s*\{"),
    ("flow_snapshot", "flow/flow_snapshot.hpp", r"class flow_snapshot\s*:\s*public flow_operator\s*\{"),
]


def op_flags(out, info):
    base = src("flow/flow_operator.hpp")
    body = func_body(base, r"class flow_operator\s*\{", "flow_operator")
    defaults = {}
    for name, ty in (("elevation_updated", "bool"), ("graph_updated", "bool"), ("in_flowdir", "flow_direction"), ("out_flowdir", "flow_direction")):
        m = need(re.search(r"static constexpr %s %s = ([\w:]+);" % (ty, name), body), "flow_operator default " + name)
        defaults[name] = m.group(1)
    dirs = {"flow_direction::undefined": ".undefined", "flow_direction::single": ".single", "flow_direction::multi": ".multi"}
    flags = {}
    for cls, f, hdr in OPS:
        s = src(f)
        b = func_body(s, hdr, "class " + cls)
        d = dict(defaults)
        for name in d:
            m = re.search(r"static constexpr \w+ %s = ([\w:]+);" % name, b)
            if m:
                d[name] = m.group(1)
        flags[cls] = d
        out.append(
            "def flags_%s : OpFlags := { graphUpdated := %s, elevUpdated := %s, inDir := %s, outDir := %s }"
            % (cls, d["graph_updated"], d["elevation_updated"], dirs[d["in_flowdir"]], dirs[d["out_flowdir"]])
        )
    info["op_flags"] = flags
    # the acceptance logic itself (add_operator / update_snapshots / constructor checks)
    b = func_body(base, r"void flow_operator_sequence<FG>::add_operator\(std::shared_ptr<OP> ptr\)\s*\{", "add_operator")
    need(re.search(r"if\s*\(ptr->in_flowdir != flow_direction::undefined && ptr->in_flowdir != m_out_flowdir\)\s*\{\s*throw std::invalid_argument", b), "add_operator direction check")
    need(re.search(r"if constexpr \(std::is_same_v<OP, flow_snapshot>\)\s*\{\s*update_snapshots\(\*ptr\);\s*\}", b), "add_operator snapshot registration")
    sn = src("flow/flow_snapshot.hpp")
    b = func_body(sn, r"void flow_operator_sequence<FG>::update_snapshots\(const flow_snapshot& snapshot\)\s*\{", "update_snapshots")
    need(re.search(r"if\s*\(m_out_flowdir == flow_direction::undefined\)\s*\{\s*throw std::invalid_argument", b), "snapshot-after-router check")
    gi = src("flow/impl/flow_graph_inl.hpp")
    need(re.search(r"if\s*\(!m_operators\.graph_updated\(\)\)\s*\{\s*throw std::invalid_argument", gi), "ctor graph_updated check")
    need(re.search(r"if\s*\(m_operators\.out_flowdir\(\) == flow_direction::undefined\)\s*\{\s*throw std::invalid_argument", gi), "ctor out_flowdir check")
    # read-only guards
    guards = []
    for fn, pat in (
        ("update_routes", r"flow_graph<G, S, Tag>::update_routes\(const data_array_type& elevation\)\s*->\s*const data_array_type&\s*\{"),
        ("set_base_levels", r"void flow_graph<G, S, Tag>::set_base_levels\(C&& levels\)\s*\{"),
        ("set_mask", r"void flow_graph<G, S, Tag>::set_mask\(C&& mask\)\s*\{"),
    ):
        b = func_body(gi, pat, fn)
        guards.append(bool(re.match(r"\s*if\s*\(!m_writeable\)\s*\{\s*throw std::runtime_error", b)))
    out.append("def writeGuards : List Bool := [%s]   -- update_routes, set_base_levels, set_mask" % ", ".join("true" if g else "false" for g in guards))
    info["write_guards"] = guards
    m = need(re.search(r"flow_graph<G, S, Tag>::flow_graph\(grid_type& grid, bool single_flow\)\s*:\s*m_writeable\((\w+)\)", gi), "snapshot graph ctor")
    out.append("def snapshotWriteable : Bool := %s" % m.group(1))
    need(re.search(r"m_impl_ptr->set_base_levels\(m_grid\.nodes_indices\(node_status::fixed_value\)\);", gi), "default base levels")
    m = need(re.search(r"const shape_type donors_shape = \{ grid\.size\(\), grid_type::n_neighbors_max\(\) \+ (\d+) \};", src("flow/flow_graph_impl.hpp")), "donors width")
    out.append("def donorsExtraWidth : Nat := %s" % m.group(1))


MEMBERS = ["m_receivers", "m_receivers_count", "m_receivers_distance", "m_receivers_weight", "m_donors", "m_donors_count", "m_dfs_indices", "m_bfs_indices", "m_bfs_levels", "m_base_levels", "m_mask", "m_mask_initialized"]


def snapshot_members(out, info):
    s = src("flow/flow_snapshot.hpp")
    b = func_body(s, r"void _save\(const FG& graph_impl, FG& graph_impl_snapshot\) const\s*\{", "snapshot _save")
    # statements before the single_flow branch: whole-member copies
    m = need(re.search(r"if\s*\(graph_impl_snapshot\.single_flow\(\)\)", b), "snapshot single_flow branch")
    pre = b[: m.start()]
    i = b.index("{", m.end())
    single, j = balanced(b, i)
    rest = b[j + 1 :]
    m2 = need(re.match(r"\s*else\s*\{", rest), "snapshot else branch")
    multi, _ = balanced(rest, m2.end() - 1)

    def whole(txt):
        return set(re.findall(r"graph_impl_snapshot\.(m_\w+) = graph_impl\.\1;", txt))

    def col0(txt):
        cols = set()
        for mm in re.finditer(r"auto (\w+)\s*=\s*xt::col\(graph_impl_snapshot\.(m_\w+), 0\);\s*\1 = xt::col\(graph_impl\.(m_\w+), 0\);", txt):
            if mm.group(2) == mm.group(3):
                cols.add(mm.group(2))
        return cols

    common = whole(pre)
    res = {}
    for mem in MEMBERS:
        s_cov = "whole" if mem in common or mem in whole(single) else ("col0" if mem in col0(single) else "none")
        m_cov = "whole" if mem in common or mem in whole(multi) else ("col0" if mem in col0(multi) else "none")
        res[mem] = (s_cov, m_cov)
    cov = {"whole": ".whole", "col0": ".col0", "none": ".none"}
    out.append("def snapshotCopy : List (String × Cover × Cover) :=\n  [%s]" % ",\n   ".join('("%s", %s, %s)' % (k, cov[v[0]], cov[v[1]]) for k, v in res.items()))
    info["snapshot_copy"] = res


def pool_orders(out, info):
    s = src("utils/impl/thread_pool_inl.hpp")
    orders = {}
    b = func_body(s, r"void thread_pool<T>::run_tasks\(\)\s*\{", "run_tasks")
    m = need(re.search(r"m_has_job\[i\]\.store\(1, std::memory_order_(\w+)\)", b), "run_tasks store")
    orders["publish_store"] = m.group(1)
    b = func_body(s, r"bool thread_pool<T>::was_empty\(\) const\s*\{", "was_empty")
    m = need(re.search(r"m_has_job\[i\]\.load\(std::memory_order_(\w+)\)", b), "was_empty load")
    orders["wait_load"] = m.group(1)
    b = func_body(s, r"void thread_pool<T>::start\(\)\s*\{", "start")
    m = need(re.search(r"if\s*\(m_has_job\[i\]\.load\(std::memory_order_(\w+)\)\)\s*\{\s*\(\*p_jobs\)\[i\]\(\);\s*m_has_job\[i\]\.store\(0, std::memory_order_(\w+)\);", b), "worker loop")
    orders["worker_load"] = m.group(1)
    orders["done_store"] = m.group(2)
    lean = {"relaxed": ".relaxed", "acquire": ".acquire", "release": ".release", "acq_rel": ".acqRel", "seq_cst": ".seqCst"}
    for k in ("publish_store", "worker_load", "done_store", "wait_load"):
        if orders[k] not in lean:
            raise Fail("memory order " + orders[k])
    out.append("def poolOrders : MemOrders := { publishStore := %s, workerLoad := %s, doneStore := %s, waitLoad := %s }" % tuple(lean[orders[k]] for k in ("publish_store", "worker_load", "done_store", "wait_load")))
    b = func_body(s, r"void thread_pool<T>::resume\(\)\s*\{", "resume")
    notify = need(re.search(r"m_cv\.notify_all\(\);", b), "resume notify")
    lock = re.search(r"std::(lock_guard|unique_lock|scoped_lock)<std::mutex>\s*\w+\s*\(\s*m_cv_m\s*\)", b)
    under = bool(lock and lock.start() < notify.start())
    out.append("/-- does `resume()` take `m_cv_m` before `notify_all` (closing the lost-wake-up window)? -/")
    out.append("def poolNotifyAfterLock : Bool := %s" % ("true" if under else "false"))
    b = func_body(s, r"void thread_pool<T>::init_pause_jobs\(\)\s*\{", "init_pause_jobs")
    need(re.search(r"std::unique_lock<std::mutex> lk\(m_cv_m\);\s*\+\+m_paused_count;\s*m_cv\.wait\(lk\);\s*--m_paused_count;", b), "pause job body")
    # shape of the protocol the model `Fs.Pool4` transcribes (each fact is a step of the model's
    # caller / worker programs; a change of the shape breaks `source_protocol_shape`)
    def has(pat, body):
        return bool(re.search(pat, body, flags=re.S))
    pause_b = func_body(s, r"void thread_pool<T>::pause\(\)\s*\{", "pause")
    stop_b = func_body(s, r"void thread_pool<T>::stop\(\)\s*\{", "stop")
    runb_b = func_body(s, r"void thread_pool<T>::run_blocks\(.*?\)\s*\{", "run_blocks")
    runt_b = func_body(s, r"void thread_pool<T>::run_tasks\(\)\s*\{", "run_tasks")
    start_b = func_body(s, r"void thread_pool<T>::start\(\)\s*\{", "start")
    resize_b = func_body(s, r"void thread_pool<T>::resize\(.*?\)\s*\{", "resize")
    shape = [
        ("pause_waits_then_publishes_then_spins_until_all_counted",
         has(r"if\s*\(!m_paused\)\s*\{\s*wait\(\);\s*set_tasks\(m_pause_jobs\);\s*run_tasks\(\);\s*m_paused = true;\s*while\s*\(m_paused_count != m_size\)", pause_b)),
        ("resume_notifies_clears_paused_then_waits",
         has(r"if\s*\(m_paused\)\s*\{.*m_cv\.notify_all\(\);.*m_paused = false;\s*wait\(\);", b if False else func_body(s, r"void thread_pool<T>::resume\(\)\s*\{", "resume"))),
        ("run_tasks_starts_resumes_then_publishes",
         has(r"if\s*\(!m_started\)\s*start\(\);\s*if\s*\(m_paused\)\s*resume\(\);\s*for\s*\(", runt_b)),
        ("run_blocks_publishes_then_waits", has(r"set_tasks\(p_jobs\);\s*run_tasks\(\);\s*wait\(\);", runb_b)),
        ("stop_sets_flag_resumes_if_paused_then_joins",
         has(r"if\s*\(!m_stopped\)\s*\{\s*m_stopped = true;\s*if\s*\(m_paused\)\s*resume\(\);\s*for\s*\(std::thread& worker : m_workers\)\s*worker\.join\(\);", stop_b)),
        ("worker_tests_stopped_then_flag_runs_job_then_clears",
         has(r"while\s*\(!m_stopped\.load\(std::memory_order_\w+\)\)\s*\{\s*if\s*\(m_has_job\[i\]\.load\(std::memory_order_\w+\)\)\s*\{\s*\(\*p_jobs\)\[i\]\(\);\s*m_has_job\[i\]\.store\(0,", start_b)),
        ("resize_stops_then_resets",
         has(r"if\s*\(size != m_size\)\s*\{\s*m_size = size;\s*stop\(\);\s*m_stopped = false;\s*m_workers\.clear\(\);.*m_has_job = .*init_pause_jobs\(\);\s*m_started = false;", resize_b)),
    ]
    out.append("/-- the steps of `thread_pool` that `Fs.Pool4` transcribes, found (true) or not (false) in the source -/")
    out.append("def poolProtocolShape : List (String × Bool) :=\n  [%s]" % ",\n   ".join('("%s", %s)' % (k, "true" if v else "false") for k, v in shape))
    info["pool"] = dict(orders=orders, notify_after_lock=under, shape=dict(shape))
    # blocks arithmetic (checked structurally; the arithmetic itself is modelled by hand and tied by correspondence)
    bg = src("flow/basin_graph.hpp")
    m = need(re.search(r"size_type m_max_low_degree = (\d+);", bg), "m_max_low_degree")
    out.append("def maxLowDegree : Nat := %s" % m.group(1))
    # storage class of the pass-through neighbour cache (C10)
    base = src("grid/base.hpp")
    b = func_body(base, r"class neighbors_no_cache\s*\{", "neighbors_no_cache")
    tl = "thread_local" in b
    out.append("/-- is the pass-through neighbour buffer per thread (true) or shared by all threads (false)? -/")
    out.append("def noCachePerThread : Bool := %s" % ("true" if tl else "false"))
    info["no_cache_per_thread"] = tl


HEADER = """/-! GENERATED by /verif/translate.py from /repo/include/fastscapelib -- do not edit.
Data part of the model: tables, flags, memory orders and copied-member lists read from the
current source.  Theorems over these constants are re-checked on every run. -/
namespace Fs.Gen

inductive Sym | one | mone | dr | mdr | dc | mdc deriving DecidableEq, Repr
inductive Dir | undefined | single | multi deriving DecidableEq, Repr
structure OpFlags where
  graphUpdated : Bool
  elevUpdated : Bool
  inDir : Dir
  outDir : Dir
deriving DecidableEq, Repr
inductive Cover | none | col0 | whole deriving DecidableEq, Repr
inductive MemOrder | relaxed | acquire | release | acqRel | seqCst deriving DecidableEq, Repr
structure MemOrders where
  publishStore : MemOrder
  workerLoad : MemOrder
  doneStore : MemOrder
  waitLoad : MemOrder
deriving DecidableEq, Repr
"""


def spl_forms(out, info):
    s = src("eroders/spl.hpp")
    b = func_body(s, r"void set_slope_exp\(double value\)\s*\{", "set_slope_exp")
    if re.search(r"m_linear\s*=\s*\(std::fabs\(value\)\s*-\s*1\)\s*<=\s*std::numeric_limits<double>::epsilon\(\);", b):
        form = 0
    elif re.search(r"m_linear\s*=\s*std::fabs\(value\s*-\s*1(\.0?)?\)\s*<=\s*std::numeric_limits<double>::epsilon\(\);", b):
        form = 1
    else:
        raise Fail("m_linear classification expression")
    need(re.search(r"if\s*\(!m_linear\s*&&\s*!m_flow_graph\.single_flow\(\)\)\s*\{\s*throw std::invalid_argument", b), "multi-direction / non-linear rejection")
    out.append("/-- `m_linear`: 0 = `(fabs(n) - 1) <= eps`, 1 = `fabs(n - 1) <= eps` -/")
    out.append("def splLinearForm : Nat := %d" % form)
    i = s.index("spl_eroder<FG, S>::erode(")
    e = s[i:]
    if re.search(r"if\s*\(std::fabs\(func\)\s*<=\s*m_tolerance\)", e):
        two = True
    elif re.search(r"if\s*\(func\s*<=\s*m_tolerance\)", e):
        two = False
    else:
        raise Fail("Newton exit test")
    out.append("/-- Newton exit test: `fabs(func) <= tol` (true) or the one-sided `func <= tol` (false) -/")
    out.append("def splNewtonTwoSided : Bool := %s" % ("true" if two else "false"))
    need(re.search(r"m_erosion\.fill\(0\);", e), "erosion reset at the start of erode")
    need(re.search(r"if\s*\(inode_elevation_updated < elevation_flooded\)\s*\{[^}]*m_n_corr\+\+;\s*inode_elevation_updated = elevation_flooded \+ std::numeric_limits<data_type>::min\(\);", e, flags=re.S), "clamp to the flooded level")
    need(re.search(r"if\s*\(inode_elevation <= elevation_flooded\)\s*\{[^}]*continue;", e, flags=re.S), "lake test")
    info["spl"] = dict(linear_form=form, newton_two_sided=two)


def mesh_limits(out, info):
    """default maximum number of node neighbours of the triangular mesh type and whether the
    constructor rejects meshes that exceed it (the fixed-width tables built on the mesh rely on it)"""
    s = src("grid/trimesh.hpp")
    m = need(re.search(r"template\s*<class S,\s*unsigned int N\s*=\s*(\d+)>\s*class trimesh_xt", s), "trimesh default N")
    nmax = int(m.group(1))
    b = func_body(s, r"void trimesh_xt<S, N>::set_neighbors\(.*?\)\s*\{", "set_neighbors")
    chk = bool(re.search(r"for\s*\(const auto& (\w+) : m_neighbors_indices\)\s*\{\s*if\s*\(\1\.size\(\) > static_cast<size_type>\(N\)\)\s*\{\s*throw std::invalid_argument\(", b))
    out.append("/-- `trimesh_xt<S, N = …>`: maximum number of node neighbours of the default mesh type -/")
    out.append("def meshNmax : Nat := %d" % nmax)
    out.append("/-- does the mesh constructor throw `invalid_argument` when a node has more than `N` neighbours? -/")
    out.append("def meshChecksDegree : Bool := %s" % ("true" if chk else "false"))
    info["mesh"] = dict(nmax=nmax, checks_degree=chk)


SECTIONS = [  # (name, function, properties whose tie depends on it)
    ("mesh_limits", mesh_limits, ["C08", "C18"]),
    ("raster_tables", raster_tables, ["C07", "C08"]),
    ("iterator_order", iterator_order, ["C08", "C17"]),
    ("op_flags", op_flags, ["C20", "C16"]),
    ("snapshot_members", snapshot_members, ["C16"]),
    ("pool_orders", pool_orders, ["C10", "C11", "C15"]),
    ("spl_forms", spl_forms, ["C12", "C13"]),
]
FALLBACK = os.path.join(HERE, "translate_fallback.json")


def main():
    """Each section is extracted on its own.  When a section's pattern is no longer found, the
    last known-good text of that section (translate_fallback.json, written with --save-fallback on
    the pinned tree) is emitted so that the rest of the model still builds, and the section is
    listed under `failed_sections`: check.py reports a broken tie for exactly the properties that
    depend on it."""
    out, info = [], {}
    texts, failed = {}, {}
    fb = json.load(open(FALLBACK)) if os.path.exists(FALLBACK) else {}
    for name, fn, props in SECTIONS:
        sec = []
        try:
            fn(sec, info)
            texts[name] = "\n\n".join(sec)
        except (Fail, FileNotFoundError, ValueError) as e:
            failed[name] = dict(why=str(e), properties=props)
            if name not in fb:
                print("TRANSLATE-FAIL %s (no fallback)" % e)
                sys.exit(2)
            texts[name] = "-- SECTION %s: PATTERN NOT FOUND IN THE CURRENT SOURCE (%s); last known-good values\n" % (name, e) + fb[name]
    if "--save-fallback" in sys.argv:
        if failed:
            print("TRANSLATE-FAIL cannot save fallback: %s" % failed)
            sys.exit(2)
        json.dump(texts, open(FALLBACK, "w"), indent=1)
    text = HEADER + "\n" + "\n\n".join(texts[name] for name, _, _ in SECTIONS) + "\n\nend Fs.Gen\n"
    old = None
    if os.path.exists(OUT):
        old = open(OUT).read()
    if old != text:
        with open(OUT, "w") as f:
            f.write(text)
    info["failed_sections"] = failed
    os.makedirs(os.path.join(HERE, "build"), exist_ok=True)
    with open(os.path.join(HERE, "build", "translate_info.json"), "w") as f:
        json.dump(info, f, indent=1, default=str)
    if failed:
        print("translate partial: sections %s not recognised (%s)" % (sorted(failed), "; ".join("%s: %s" % (k, v["why"]) for k, v in failed.items())))
    else:
        print("translate ok (%s)" % ("unchanged" if old == text else "rewritten"))


if __name__ == "__main__":
    main()
