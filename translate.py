#!/usr/bin/env python3
"""translate.py: regenerate the data part of the Lean model from /repo's current sources.

Reads headers under <repo>/include/fastscapelib as they are now and writes
lean/FsModel/Generated.lean.  Everything extracted is *data* (tables, flags, memory orders,
copied-member lists); `lake build` then re-elaborates every theorem that mentions a generated
constant.  When a pattern is no longer found the translator fails loudly (exit 2 and a line
"TRANSLATE-FAIL <what>"): the tie to the source no longer checks.
"""
import os
import re
import sys
import json

REPO = os.environ.get("FS_REPO", "/repo")
INC = os.path.join(REPO, "include", "fastscapelib")
HERE = os.path.dirname(os.path.abspath(__file__))
# FS_GENERATED_OUT: write the generated file (and, next to it, the info json) somewhere else
# (used by shapes_selftest.py to translate edited copies of the source without touching the model)
OUT = os.environ.get("FS_GENERATED_OUT") or os.path.join(HERE, "lean", "FsModel", "Generated.lean")
INFO_OUT = (OUT + ".info.json") if os.environ.get("FS_GENERATED_OUT") else os.path.join(HERE, "build", "translate_info.json")


class Fail(Exception):
    pass


def src(rel):
    with open(os.path.join(INC, rel)) as f:
        s = f.read()
    # strip comments
    s = re.sub(r"/\*.*?\*/", " ", s, flags=re.S)
    s = re.sub(r"//[^\n]*", " ", s)
    # the guarded verification hooks are not part of the library's behaviour
    s = re.sub(r"#ifdef FASTSCAPELIB_VERIF_HOOKS.*?#endif", " ", s, flags=re.S)
    s = re.sub(r"FS_VERIF_POINT\([^;]*\);", " ", s)
    return s


def need(m, what):
    if not m:
        raise Fail(what)
    return m


def balanced(s, start, open_c="{", close_c="}"):
    """return the text between the bracket at s[start] and its match"""
    assert s[start] == open_c
    depth = 0
    for i in range(start, len(s)):
        if s[i] == open_c:
            depth += 1
        elif s[i] == close_c:
            depth -= 1
            if depth == 0:
                return s[start + 1 : i], i
    raise Fail("unbalanced bracket")


def func_body(s, header_re, what):
    m = need(re.search(header_re, s, flags=re.S), what)
    i = s.index("{", m.end() - 1) if s[m.end() - 1] != "{" else m.end() - 1
    body, _ = balanced(s, i)
    return body


SYM = {"0": 0, "up": 1, "down": 2, "left": 1, "right": 2}


def raster_tables(out, info):
    s = src("grid/raster_grid.hpp")
    for conn in ("queen", "rook", "bishop"):
        body = func_body(
            s,
            r"raster_neighbors<raster_connect::%s>::node_neighbors_offsets\s*\([^)]*\)\s*const\s*->\s*neighbors_offsets_type\s*\{" % conn,
            "node_neighbors_offsets<%s>" % conn,
        )
        m = need(re.search(r"std::array<bool,\s*(\d+)>\s*mask\s*\{", body), "mask array " + conn)
        k = int(m.group(1))
        mtxt, _ = balanced(body, m.end() - 1)
        # split mask entries at top-level commas
        entries, depth, cur = [], 0, ""
        for ch in mtxt:
            if ch == "(":
                depth += 1
            if ch == ")":
                depth -= 1
            if ch == "," and depth == 0:
                entries.append(cur.strip())
                cur = ""
            else:
                cur += ch
        if cur.strip():
            entries.append(cur.strip())
        if len(entries) != k:
            raise Fail("mask length %s" % conn)
        masks = []
        for e in entries:
            e = e.strip("() ")
            parts = [p.strip() for p in e.split("&&")]
            syms = []
            for p in parts:
                mm = need(re.fullmatch(r"(up|down|left|right)\s*!=\s*0", p), "mask conjunct %r (%s)" % (p, conn))
                syms.append(mm.group(1))
            masks.append(syms)
        m = need(re.search(r"offsets\s*\{", body), "offsets array " + conn)
        otxt, _ = balanced(body, m.end() - 1)
        pairs = re.findall(r"\{\s*(up|down|0)\s*,\s*(left|right|0)\s*\}", otxt)
        if len(pairs) != k:
            raise Fail("offsets length %s" % conn)
        # the mask of entry i must test exactly the non-zero symbols of offset i
        for (a, b), ms in zip(pairs, masks):
            want = sorted(x for x in (a, b) if x != "0")
            if sorted(ms) != want:
                raise Fail("mask/offset mismatch %s: %s vs %s" % (conn, ms, (a, b)))
        m = need(re.search(r"for\s*\(std::size_t i = 0; i < (\d+); \+\+i\)\s*if\s*\(mask\[i\]\)\s*selected_offsets\.push_back\(offsets\[i\]\)", body), "selection loop " + conn)
        if int(m.group(1)) != k:
            raise Fail("selection loop bound %s" % conn)
        offs = [(SYM[a], SYM[b]) for a, b in pairs]
        out.append("def offs%s : List (Nat × Nat) := [%s]" % (conn.capitalize(), ", ".join("(%d, %d)" % p for p in offs)))
        info["offs_" + conn] = offs
        m = need(re.search(r"raster_neighbors<raster_connect::%s>\s*:\s*public raster_neighbors_base\s*\{\s*static constexpr std::uint8_t _n_neighbors_max = (\d+)u;" % conn, s), "_n_neighbors_max " + conn)
        out.append("def nmax%s : Nat := %s" % (conn.capitalize(), m.group(1)))
        # count tables
        body = func_body(
            s,
            r"raster_neighbors<raster_connect::%s>::build_neighbors_count\s*\([^)]*\)\s*const\s*->\s*std::array<size_type, 9>\s*\{" % conn,
            "build_neighbors_count<%s>" % conn,
        )
        m = need(
            re.search(
                r"if\s*\(bounds_status\.is_vertical_looped\(\)\s*&&\s*bounds_status\.is_horizontal_looped\(\)\)\s*\{\s*neighbors_count\.fill\((\d+)\);\s*\}"
                r"\s*else if\s*\(bounds_status\.is_vertical_looped\(\)\)\s*\{\s*neighbors_count = std::array<size_type, 9>\(\{([^}]*)\}\);\s*\}"
                r"\s*else if\s*\(bounds_status\.is_horizontal_looped\(\)\)\s*\{\s*neighbors_count = std::array<size_type, 9>\(\{([^}]*)\}\);\s*\}"
                r"\s*else\s*\{\s*neighbors_count = std::array<size_type, 9>\(\{([^}]*)\}\);\s*\}",
                body,
            ),
            "count tables " + conn,
        )
        both = [int(m.group(1))] * 9
        vert = [int(x) for x in m.group(2).split(",")]
        horiz = [int(x) for x in m.group(3).split(",")]
        none = [int(x) for x in m.group(4).split(",")]
        for t in (vert, horiz, none):
            if len(t) != 9:
                raise Fail("count table length " + conn)
        out.append(
            "def count%s (lv lh : Bool) : List Nat :=\n  if lv && lh then %s else if lv then %s else if lh then %s else %s"
            % (conn.capitalize(), both, vert, horiz, none)
        )
        info["count_" + conn] = dict(both=both, vert=vert, horiz=horiz, none=none)
    # coded offsets
    body = func_body(s, r"raster_grid<S, RC, C>::build_coded_neighbors_offsets\(\)\s*->\s*coded_noffsets_type\s*\{", "build_coded_neighbors_offsets")
    need(re.search(r"auto dr = static_cast<std::ptrdiff_t>\(m_shape\[0\] - 1\);\s*auto dc = static_cast<std::ptrdiff_t>\(m_shape\[1\] - 1\);", body), "dr/dc definitions")
    need(re.search(r"if\s*\(!m_bounds_status\.is_vertical_looped\(\)\)\s*\{\s*dr = 0;\s*\}\s*if\s*\(!m_bounds_status\.is_horizontal_looped\(\)\)\s*\{\s*dc = 0;\s*\}", body), "dr/dc reset")
    tuples = re.findall(r"this->node_neighbors_offsets\(\s*(-?\w+)\s*,\s*(-?\w+)\s*,\s*(-?\w+)\s*,\s*(-?\w+)\s*\)", body)
    if len(tuples) != 9:
        raise Fail("coded tuples")
    symmap = {"1": ".one", "-1": ".mone", "dr": ".dr", "-dr": ".mdr", "dc": ".dc", "-dc": ".mdc"}
    rows = []
    for t in tuples:
        for x in t:
            if x not in symmap:
                raise Fail("coded tuple symbol %r" % x)
        rows.append("(%s)" % ", ".join(symmap[x] for x in t))
    out.append("def codedTuples : List (Sym × Sym × Sym × Sym) :=\n  [%s]" % ",\n   ".join(rows))
    info["coded"] = tuples
    # node codes
    body = func_body(s, r"raster_grid<S, RC, C>::build_nodes_codes\(\)\s*\{", "build_nodes_codes")
    m = need(re.search(r"fill_value = static_cast<std::uint8_t>\((\d+) - dim \* (\d+)\)", body), "code fill value")
    a, b = int(m.group(1)), int(m.group(2))
    need(re.search(r"gcode_component\[0\] = 0;", body), "code first")
    m = need(re.search(r"gcode_component\[m_shape\[dim\] - 1\] = static_cast<std::uint8_t>\(fill_value \* (\d+)\)", body), "code last")
    c = int(m.group(1))
    need(re.search(r"static_cast<std::uint8_t>\(gcode_rc\[0\]\[r\] \+ gcode_rc\[1\]\[c\]\)", body), "code sum")
    out.append("def codeRowMid : Nat := %d\ndef codeColMid : Nat := %d\ndef codeLastMul : Nat := %d" % (a, a - b, c))
    # index arithmetic
    body = func_body(s, r"raster_grid<S, RC, C>::neighbors_indices_impl\(\s*neighbors_indices_impl_type& neighbors, const size_type& idx\) const\s*->\s*void\s*\{", "raster neighbors_indices_impl")
    need(re.search(r"neighbors\.at\(i\) = static_cast<size_type>\(\(offset\)\[0\]\) \* m_shape\[1\]\s*\+ static_cast<size_type>\(\(offset\)\[1\]\) \+ idx;", body), "raster index arithmetic")
    # status precedence
    b = src("grid/base.hpp")
    m = need(re.search(r"enum class node_status : std::uint8_t\s*\{\s*core = (\d+),\s*fixed_value = (\d+),\s*fixed_gradient = (\d+),\s*looped = (\d+)\s*\}", b), "node_status enum")
    enum = [int(x) for x in m.groups()]
    out.append("def nsCore : Nat := %d\ndef nsFixedValue : Nat := %d\ndef nsFixedGradient : Nat := %d\ndef nsLooped : Nat := %d" % tuple(enum))
    m = need(re.search(r"priority\{\s*\{ node_status::core, (\d+) \},\s*\{ node_status::looped, (\d+) \},\s*\{ node_status::fixed_gradient, (\d+) \},\s*\{ node_status::fixed_value, (\d+) \}\s*\}", b), "status priority map")
    pr = [int(x) for x in m.groups()]
    need(re.search(r"return priority\[a\] < priority\[b\];", b), "status cmp")
    out.append("def prioCore : Nat := %d\ndef prioLooped : Nat := %d\ndef prioFixedGradient : Nat := %d\ndef prioFixedValue : Nat := %d" % tuple(pr))
    info["prio"] = dict(core=pr[0], looped=pr[1], fixed_gradient=pr[2], fixed_value=pr[3])
    need(re.search(r"node_status cs = std::max\(c\.row_border, c\.col_border, detail::node_status_cmp\);", s), "corner max")
    # profile
    p = src("grid/profile_grid.hpp")
    body = func_body(p, r"profile_grid<S, C>::build_neighbors_count\(\)\s*\{", "profile build_neighbors_count")
    m = need(re.search(r"if\s*\(m_bounds_status\.is_horizontal_looped\(\)\)\s*\{\s*m_neighbors_count = std::array<size_type, 3>\(\{([^}]*)\}\);\s*\}\s*else\s*\{\s*m_neighbors_count = std::array<size_type, 3>\(\{([^}]*)\}\);", body), "profile counts")
    out.append("def profileCount (looped : Bool) : List Nat := if looped then %s else %s" % ([int(x) for x in m.group(1).split(",")], [int(x) for x in m.group(2).split(",")]))


def iterator_order(out, info):
    s = src("utils/iterators.hpp")
    loops = re.findall(r"while\s*\((.*?)\)\s*(?:\{|;)", s, flags=re.S)
    conds = [re.sub(r"\s+", " ", c) for c in loops if "m_filter_func" in c]
    if len(conds) != 3:
        raise Fail("iterator loops (found %d)" % len(conds))
    res = []
    for c in conds:
        a = c.index("m_filter_func")
        bnd = re.search(r"m_idx\s*(<|>)\s*(m_grid\.size\(\)|0)", c)
        need(bnd, "iterator bound test")
        res.append(a < bnd.start())
    out.append("/-- per loop (constructor, ++, --): is the filter evaluated before the bounds test? -/")
    out.append("def iterFilterFirst : List Bool := [%s]" % ", ".join("true" if x else "false" for x in res))
    info["iter_filter_first"] = res
    m = re.search(r"xbidirectional_iterator_base<\s*grid_node_index_iterator<G>\s*,\s*typename G::size_type\s*(,[^>]*)?>", s)
    need(m, "iterator base")
    # does operator* hand out a reference to the iterator's own member (stashing iterator)?
    stashing = m.group(1) is None
    out.append("def iterStashing : Bool := %s" % ("true" if stashing else "false"))
    info["iter_stashing"] = stashing


OPS = [
    ("single_flow_router", "flow/flow_router.hpp", r"class single_flow_router\s*:\s*public flow_operator\s*\{"),
    ("multi_flow_router", "flow/flow_router.hpp", r"class multi_flow_router\s*:\s*public flow_operator\s*\{"),
    ("pflood_sink_resolver", "flow/sink_resolver.hpp", r"struct pflood_sink_resolver\s*:\s*public flow_operator\s*\{"),
    ("mst_sink_resolver", "flow/sink_resolver.hpp", r"class mst_sink_resolver\s*:\s*public flow_operator\s*\{"),
    ("flow_snapshot", "flow/flow_snapshot.hpp", r"class flow_snapshot\s*:\s*public flow_operator\s*\{"),
]


def op_flags(out, info):
    base = src("flow/flow_operator.hpp")
    body = func_body(base, r"class flow_operator\s*\{", "flow_operator")
    defaults = {}
    for name, ty in (("elevation_updated", "bool"), ("graph_updated", "bool"), ("in_flowdir", "flow_direction"), ("out_flowdir", "flow_direction")):
        m = need(re.search(r"static constexpr %s %s = ([\w:]+);" % (ty, name), body), "flow_operator default " + name)
        defaults[name] = m.group(1)
    dirs = {"flow_direction::undefined": ".undefined", "flow_direction::single": ".single", "flow_direction::multi": ".multi"}
    flags = {}
    for cls, f, hdr in OPS:
        s = src(f)
        b = func_body(s, hdr, "class " + cls)
        d = dict(defaults)
        for name in d:
            m = re.search(r"static constexpr \w+ %s = ([\w:]+);" % name, b)
            if m:
                d[name] = m.group(1)
        flags[cls] = d
        out.append(
            "def flags_%s : OpFlags := { graphUpdated := %s, elevUpdated := %s, inDir := %s, outDir := %s }"
            % (cls, d["graph_updated"], d["elevation_updated"], dirs[d["in_flowdir"]], dirs[d["out_flowdir"]])
        )
    info["op_flags"] = flags
    # the acceptance logic itself (add_operator / update_snapshots / constructor checks)
    b = func_body(base, r"void flow_operator_sequence<FG>::add_operator\(std::shared_ptr<OP> ptr\)\s*\{", "add_operator")
    need(re.search(r"if\s*\(ptr->in_flowdir != flow_direction::undefined && ptr->in_flowdir != m_out_flowdir\)\s*\{\s*throw std::invalid_argument", b), "add_operator direction check")
    need(re.search(r"if constexpr \(std::is_same_v<OP, flow_snapshot>\)\s*\{\s*update_snapshots\(\*ptr\);\s*\}", b), "add_operator snapshot registration")
    sn = src("flow/flow_snapshot.hpp")
    b = func_body(sn, r"void flow_operator_sequence<FG>::update_snapshots\(const flow_snapshot& snapshot\)\s*\{", "update_snapshots")
    need(re.search(r"if\s*\(m_out_flowdir == flow_direction::undefined\)\s*\{\s*throw std::invalid_argument", b), "snapshot-after-router check")
    gi = src("flow/impl/flow_graph_inl.hpp")
    need(re.search(r"if\s*\(!m_operators\.graph_updated\(\)\)\s*\{\s*throw std::invalid_argument", gi), "ctor graph_updated check")
    need(re.search(r"if\s*\(m_operators\.out_flowdir\(\) == flow_direction::undefined\)\s*\{\s*throw std::invalid_argument", gi), "ctor out_flowdir check")
    # read-only guards
    guards = []
    for fn, pat in (
        ("update_routes", r"flow_graph<G, S, Tag>::update_routes\(const data_array_type& elevation\)\s*->\s*const data_array_type&\s*\{"),
        ("set_base_levels", r"void flow_graph<G, S, Tag>::set_base_levels\(C&& levels\)\s*\{"),
        ("set_mask", r"void flow_graph<G, S, Tag>::set_mask\(C&& mask\)\s*\{"),
    ):
        b = func_body(gi, pat, fn)
        guards.append(bool(re.match(r"\s*if\s*\(!m_writeable\)\s*\{\s*throw std::runtime_error", b)))
    out.append("def writeGuards : List Bool := [%s]   -- update_routes, set_base_levels, set_mask" % ", ".join("true" if g else "false" for g in guards))
    info["write_guards"] = guards
    m = need(re.search(r"flow_graph<G, S, Tag>::flow_graph\(grid_type& grid, bool single_flow\)\s*:\s*m_writeable\((\w+)\)", gi), "snapshot graph ctor")
    out.append("def snapshotWriteable : Bool := %s" % m.group(1))
    need(re.search(r"m_impl_ptr->set_base_levels\(m_grid\.nodes_indices\(node_status::fixed_value\)\);", gi), "default base levels")
    m = need(re.search(r"const shape_type donors_shape = \{ grid\.size\(\), grid_type::n_neighbors_max\(\) \+ (\d+) \};", src("flow/flow_graph_impl.hpp")), "donors width")
    out.append("def donorsExtraWidth : Nat := %s" % m.group(1))


MEMBERS = ["m_receivers", "m_receivers_count", "m_receivers_distance", "m_receivers_weight", "m_donors", "m_donors_count", "m_dfs_indices", "m_bfs_indices", "m_bfs_levels", "m_base_levels", "m_mask", "m_mask_initialized"]


def snapshot_members(out, info):
    s = src("flow/flow_snapshot.hpp")
    b = func_body(s, r"void _save\(const FG& graph_impl, FG& graph_impl_snapshot\) const\s*\{", "snapshot _save")
    # statements before the single_flow branch: whole-member copies
    m = need(re.search(r"if\s*\(graph_impl_snapshot\.single_flow\(\)\)", b), "snapshot single_flow branch")
    pre = b[: m.start()]
    i = b.index("{", m.end())
    single, j = balanced(b, i)
    rest = b[j + 1 :]
    m2 = need(re.match(r"\s*else\s*\{", rest), "snapshot else branch")
    multi, _ = balanced(rest, m2.end() - 1)

    def whole(txt):
        return set(re.findall(r"graph_impl_snapshot\.(m_\w+) = graph_impl\.\1;", txt))

    def col0(txt):
        cols = set()
        for mm in re.finditer(r"auto (\w+)\s*=\s*xt::col\(graph_impl_snapshot\.(m_\w+), 0\);\s*\1 = xt::col\(graph_impl\.(m_\w+), 0\);", txt):
            if mm.group(2) == mm.group(3):
                cols.add(mm.group(2))
        return cols

    common = whole(pre)
    res = {}
    for mem in MEMBERS:
        s_cov = "whole" if mem in common or mem in whole(single) else ("col0" if mem in col0(single) else "none")
        m_cov = "whole" if mem in common or mem in whole(multi) else ("col0" if mem in col0(multi) else "none")
        res[mem] = (s_cov, m_cov)
    cov = {"whole": ".whole", "col0": ".col0", "none": ".none"}
    out.append("def snapshotCopy : List (String × Cover × Cover) :=\n  [%s]" % ",\n   ".join('("%s", %s, %s)' % (k, cov[v[0]], cov[v[1]]) for k, v in res.items()))
    info["snapshot_copy"] = res


def pool_orders(out, info):
    s = src("utils/impl/thread_pool_inl.hpp")
    orders = {}
    b = func_body(s, r"void thread_pool<T>::run_tasks\(\)\s*\{", "run_tasks")
    m = need(re.search(r"m_has_job\[i\]\.store\(1, std::memory_order_(\w+)\)", b), "run_tasks store")
    orders["publish_store"] = m.group(1)
    b = func_body(s, r"bool thread_pool<T>::was_empty\(\) const\s*\{", "was_empty")
    m = need(re.search(r"m_has_job\[i\]\.load\(std::memory_order_(\w+)\)", b), "was_empty load")
    orders["wait_load"] = m.group(1)
    b = func_body(s, r"void thread_pool<T>::start\(\)\s*\{", "start")
    m = need(re.search(r"if\s*\(m_has_job\[i\]\.load\(std::memory_order_(\w+)\)\)\s*\{\s*\(\*p_jobs\)\[i\]\(\);\s*m_has_job\[i\]\.store\(0, std::memory_order_(\w+)\);", b), "worker loop")
    orders["worker_load"] = m.group(1)
    orders["done_store"] = m.group(2)
    lean = {"relaxed": ".relaxed", "acquire": ".acquire", "release": ".release", "acq_rel": ".acqRel", "seq_cst": ".seqCst"}
    for k in ("publish_store", "worker_load", "done_store", "wait_load"):
        if orders[k] not in lean:
            raise Fail("memory order " + orders[k])
    out.append("def poolOrders : MemOrders := { publishStore := %s, workerLoad := %s, doneStore := %s, waitLoad := %s }" % tuple(lean[orders[k]] for k in ("publish_store", "worker_load", "done_store", "wait_load")))
    b = func_body(s, r"void thread_pool<T>::resume\(\)\s*\{", "resume")
    notify = need(re.search(r"m_cv\.notify_all\(\);", b), "resume notify")
    lock = re.search(r"std::(lock_guard|unique_lock|scoped_lock)<std::mutex>\s*\w+\s*\(\s*m_cv_m\s*\)", b)
    under = bool(lock and lock.start() < notify.start())
    out.append("/-- does `resume()` take `m_cv_m` before `notify_all` (closing the lost-wake-up window)? -/")
    out.append("def poolNotifyAfterLock : Bool := %s" % ("true" if under else "false"))
    b = func_body(s, r"void thread_pool<T>::init_pause_jobs\(\)\s*\{", "init_pause_jobs")
    # the pause job: counted, then waits UNDER A PREDICATE that only resume() clears (a condition
    # variable may wake up spuriously), then uncounted
    need(re.search(r"std::unique_lock<std::mutex> lk\(m_cv_m\);\s*\+\+m_paused_count;\s*while\s*\(m_pause_requested\)\s*\{?\s*m_cv\.wait\(lk\);\s*\}?\s*--m_paused_count;", b), "pause job body")
    # shape of the protocol the model `Fs.Pool4` transcribes (each fact is a step of the model's
    # caller / worker programs; a change of the shape breaks `source_protocol_shape`)
    def has(pat, body):
        return bool(re.search(pat, body, flags=re.S))
    pause_b = func_body(s, r"void thread_pool<T>::pause\(\)\s*\{", "pause")
    stop_b = func_body(s, r"void thread_pool<T>::stop\(\)\s*\{", "stop")
    runb_b = func_body(s, r"void thread_pool<T>::run_blocks\(.*?\)\s*\{", "run_blocks")
    runt_b = func_body(s, r"void thread_pool<T>::run_tasks\(\)\s*\{", "run_tasks")
    start_b = func_body(s, r"void thread_pool<T>::start\(\)\s*\{", "start")
    resize_b = func_body(s, r"void thread_pool<T>::resize\(.*?\)\s*\{", "resize")
    shape = [
        ("pause_waits_then_requests_the_pause_under_the_mutex_then_publishes_then_spins_until_all_counted",
         has(r"if\s*\(!m_paused\)\s*\{\s*wait\(\);\s*\{\s*std::lock_guard<std::mutex> lk\(m_cv_m\);\s*m_pause_requested = true;\s*\}\s*set_tasks\(m_pause_jobs\);\s*run_tasks\(\);\s*m_paused = true;\s*while\s*\(m_paused_count != m_size\)", pause_b)),
        ("resume_clears_the_request_and_notifies_under_the_mutex_clears_paused_then_waits",
         has(r"if\s*\(m_paused\)\s*\{.*std::lock_guard<std::mutex> lk\(m_cv_m\);\s*m_pause_requested = false;\s*m_cv\.notify_all\(\);.*m_paused = false;\s*wait\(\);", b if False else func_body(s, r"void thread_pool<T>::resume\(\)\s*\{", "resume"))),
        ("run_tasks_starts_resumes_then_publishes",
         has(r"if\s*\(!m_started\)\s*start\(\);\s*if\s*\(m_paused\)\s*resume\(\);\s*for\s*\(", runt_b)),
        ("run_blocks_publishes_then_waits", has(r"set_tasks\(p_jobs\);\s*run_tasks\(\);\s*wait\(\);", runb_b)),
        ("stop_sets_flag_resumes_if_paused_then_joins",
         has(r"if\s*\(!m_stopped\)\s*\{\s*m_stopped = true;\s*if\s*\(m_paused\)\s*resume\(\);\s*for\s*\(std::thread& worker : m_workers\)\s*worker\.join\(\);", stop_b)),
        ("worker_tests_stopped_then_flag_runs_job_then_clears",
         has(r"while\s*\(!m_stopped\.load\(std::memory_order_\w+\)\)\s*\{\s*if\s*\(m_has_job\[i\]\.load\(std::memory_order_\w+\)\)\s*\{\s*\(\*p_jobs\)\[i\]\(\);\s*m_has_job\[i\]\.store\(0,", start_b)),
        ("resize_stops_then_resets",
         has(r"if\s*\(size != m_size\)\s*\{\s*m_size = size;\s*stop\(\);\s*m_stopped = false;\s*m_workers\.clear\(\);.*m_has_job = .*init_pause_jobs\(\);\s*m_started = false;", resize_b)),
    ]
    out.append("/-- the steps of `thread_pool` that `Fs.Pool4` transcribes, found (true) or not (false) in the source -/")
    out.append("def poolProtocolShape : List (String × Bool) :=\n  [%s]" % ",\n   ".join('("%s", %s)' % (k, "true" if v else "false") for k, v in shape))
    info["pool"] = dict(orders=orders, notify_after_lock=under, shape=dict(shape))
    # blocks arithmetic (checked structurally; the arithmetic itself is modelled by hand and tied by correspondence)
    bg = src("flow/basin_graph.hpp")
    m = need(re.search(r"size_type m_max_low_degree = (\d+);", bg), "m_max_low_degree")
    out.append("def maxLowDegree : Nat := %s" % m.group(1))
    # storage class of the pass-through neighbour cache (C10)
    base = src("grid/base.hpp")
    b = func_body(base, r"class neighbors_no_cache\s*\{", "neighbors_no_cache")
    tl = "thread_local" in b
    out.append("/-- is the pass-through neighbour buffer per thread (true) or shared by all threads (false)? -/")
    out.append("def noCachePerThread : Bool := %s" % ("true" if tl else "false"))
    info["no_cache_per_thread"] = tl


HEADER = """/-! GENERATED by /verif/translate.py from /repo/include/fastscapelib -- do not edit.
Data part of the model: tables, flags, memory orders and copied-member lists read from the
current source.  Theorems over these constants are re-checked on every run. -/
namespace Fs.Gen

inductive Sym | one | mone | dr | mdr | dc | mdc deriving DecidableEq, Repr
inductive Dir | undefined | single | multi deriving DecidableEq, Repr
structure OpFlags where
  graphUpdated : Bool
  elevUpdated : Bool
  inDir : Dir
  outDir : Dir
deriving DecidableEq, Repr
inductive Cover | none | col0 | whole deriving DecidableEq, Repr
inductive MemOrder | relaxed | acquire | release | acqRel | seqCst deriving DecidableEq, Repr
structure MemOrders where
  publishStore : MemOrder
  workerLoad : MemOrder
  doneStore : MemOrder
  waitLoad : MemOrder
deriving DecidableEq, Repr
"""


def spl_forms(out, info):
    s = src("eroders/spl.hpp")
    b = func_body(s, r"void set_slope_exp\(double value\)\s*\{", "set_slope_exp")
    if re.search(r"m_linear\s*=\s*\(std::fabs\(value\)\s*-\s*1\)\s*<=\s*std::numeric_limits<double>::epsilon\(\);", b):
        form = 0
    elif re.search(r"m_linear\s*=\s*std::fabs\(value\s*-\s*1(\.0?)?\)\s*<=\s*std::numeric_limits<double>::epsilon\(\);", b):
        form = 1
    else:
        raise Fail("m_linear classification expression")
    need(re.search(r"if\s*\(!m_linear\s*&&\s*!m_flow_graph\.single_flow\(\)\)\s*\{\s*throw std::invalid_argument", b), "multi-direction / non-linear rejection")
    out.append("/-- `m_linear`: 0 = `(fabs(n) - 1) <= eps`, 1 = `fabs(n - 1) <= eps` -/")
    out.append("def splLinearForm : Nat := %d" % form)
    i = s.index("spl_eroder<FG, S>::erode(")
    e = s[i:]
    if re.search(r"if\s*\(std::fabs\(func\)\s*<=\s*m_tolerance\)", e):
        two = True
    elif re.search(r"if\s*\(func\s*<=\s*m_tolerance\)", e):
        two = False
    else:
        raise Fail("Newton exit test")
    out.append("/-- Newton exit test: `fabs(func) <= tol` (true) or the one-sided `func <= tol` (false) -/")
    out.append("def splNewtonTwoSided : Bool := %s" % ("true" if two else "false"))
    need(re.search(r"m_erosion\.fill\(0\);", e), "erosion reset at the start of erode")
    need(re.search(r"if\s*\(inode_elevation_updated < elevation_flooded\)\s*\{[^}]*m_n_corr\+\+;\s*inode_elevation_updated = elevation_flooded \+ std::numeric_limits<data_type>::min\(\);", e, flags=re.S), "clamp to the flooded level")
    need(re.search(r"if\s*\(inode_elevation <= elevation_flooded\)\s*\{[^}]*continue;", e, flags=re.S), "lake test")
    info["spl"] = dict(linear_form=form, newton_two_sided=two)


def mesh_limits(out, info):
    """default maximum number of node neighbours of the triangular mesh type and whether the
    constructor rejects meshes that exceed it (the fixed-width tables built on the mesh rely on it)"""
    s = src("grid/trimesh.hpp")
    m = need(re.search(r"template\s*<class S,\s*unsigned int N\s*=\s*(\d+)>\s*class trimesh_xt", s), "trimesh default N")
    nmax = int(m.group(1))
    b = func_body(s, r"void trimesh_xt<S, N>::set_neighbors\(.*?\)\s*\{", "set_neighbors")
    chk = bool(re.search(r"for\s*\(const auto& (\w+) : m_neighbors_indices\)\s*\{\s*if\s*\(\1\.size\(\) > static_cast<size_type>\(N\)\)\s*\{\s*throw std::invalid_argument\(", b))
    out.append("/-- `trimesh_xt<S, N = …>`: maximum number of node neighbours of the default mesh type -/")
    out.append("def meshNmax : Nat := %d" % nmax)
    out.append("/-- does the mesh constructor throw `invalid_argument` when a node has more than `N` neighbours? -/")
    out.append("def meshChecksDegree : Bool := %s" % ("true" if chk else "false"))
    info["mesh"] = dict(nmax=nmax, checks_degree=chk)


_CPP_TOK = re.compile(
    r"""«(?P<raw>.*?)»                      # raw regular expression
      | (?P<any>@@)                         # any text (shortest)
      | (?P<stmt>@)                         # any text inside one statement (no ; { })
      | (?P<optbrace>\{\?|\}\?)             # brace of a single-statement block, optional
      | (?P<ident>[A-Za-z_]\w*)
      | (?P<num>\d+\.\d*|\.\d+|\d+)
      | (?P<op>::|->|\+\+|--|\+=|-=|\*=|/=|<=|>=|==|!=|&&|\|\|)
      | (?P<ch>\S)""",
    re.X | re.S,
)


def cpp_re(snippet):
    """regular expression for a C++ snippet: the snippet is cut into tokens (identifiers, numbers,
    operators, punctuation) and any amount of white space is allowed between two tokens, so line
    breaks and indentation do not matter while operators (`<` vs `<=`), operands and the order of
    the statements do.  `1`, `1.`, `1.0` are the same number.  Extras: `@` any text inside one
    statement, `@@` any text, `{?` / `}?` optional braces, `«re»` a raw regular expression."""
    parts = []
    for m in _CPP_TOK.finditer(snippet):
        k, t = m.lastgroup, m.group(m.lastgroup)
        if k == "raw":
            parts.append("(?:%s)" % t)
        elif k == "any":
            parts.append(r".*?")
        elif k == "stmt":
            parts.append(r"[^;{}]*?")
        elif k == "optbrace":
            parts.append(r"(?:\%s)?" % t[0])
        elif k == "ident":
            parts.append(r"\b%s\b" % t)
        elif k == "num":
            ip, _, fp = t.partition(".")
            fp = fp.rstrip("0")
            if fp:
                body = r"%s\.%s0*" % ("0?" if ip in ("", "0") else ip, fp)
            else:
                body = r"%s(?:\.0*)?" % (ip or "0")
            parts.append(r"(?<![\w.])%s(?![\w.])" % body)
        else:
            parts.append(re.escape(t))
    return r"\s*".join(parts)


def _inc(v):
    """`v++` or `++v` used as a statement / loop step (the value of the expression is not used)"""
    e = cpp_re(v)
    return r"«(?:\+\+\s*%s|%s\s*\+\+)»" % (e, e)


def flow_shapes(out, info):
    """For the core algorithms: is each statement that the hand-written model transcribes present
    in the current source?  One list of (fact, found?) per property; `FsProofs.Properties.Shapes`
    states by `decide` that every fact of a list is `true`.  A statement that is not found makes
    its fact `false` (the theorem of the group then fails); `Fail` is raised only when a whole
    function cannot be located."""
    groups = {}

    def fact(group, name, body, snippet, *more):
        """`snippet` is found in `body` (and, for every further pair in `more`, likewise)"""
        assert re.fullmatch(r"[a-z][a-z0-9_]*", name), name
        lst = groups.setdefault(group, [])
        assert name not in [n for n, _ in lst], name
        pairs = [(body, snippet)] + [(more[i], more[i + 1]) for i in range(0, len(more), 2)]
        lst.append((name, all(re.search(cpp_re(sn), b, flags=re.S) for b, sn in pairs)))

    def reuse(group, from_group, *names):
        d = dict(groups[from_group])
        for n in names:
            groups.setdefault(group, []).append((n, d[n]))

    def fn(s, header, what):
        return func_body(s, header, what)

    # ------------------------------------------------------------------ single flow router (C04)
    fr = src("flow/flow_router.hpp")
    single = fn(fr, r"class\s+flow_operator_impl<\s*FG,\s*single_flow_router,\s*flow_graph_fixed_array_tag\s*>", "single router impl class")
    s_apply = fn(single, r"void\s+apply\s*\(", "single router apply")
    s_seq = fn(single, r"void\s+apply_seq\s*\(", "single router apply_seq")
    s_par = fn(single, r"void\s+apply_par\s*\(", "single router apply_par")
    g = "C04"
    fact(g, "apply_sets_receivers_count_and_weights_to_one_on_every_call", s_apply,
         "graph_impl.m_receivers_count.fill(1); auto weights = xt::col(graph_impl.m_receivers_weight, 0); weights.fill(1.);")
    fact(g, "apply_resets_donors_count_runs_par_above_one_thread_else_seq_then_dfs_bottomup_and_bfs_orders", s_apply,
         "graph_impl.m_donors_count.fill(0); if (m_op_ptr->threads_count() > 1) {? apply_par(graph_impl, elevation, pool); }? "
         "else {? apply_seq(graph_impl, elevation); }? graph_impl.compute_dfs_indices_bottomup(); graph_impl.compute_bfs_indices_bottomup();")
    for v, body, loop in (
        ("seq", s_seq, "for (auto i : grid.nodes_indices())"),
        ("par", s_par, "for (auto i = start; i < end; %s)" % _inc("i")),
    ):
        fact(g, v + "_each_node_starts_as_own_receiver_distance_zero_slope_max_lowest", body,
             loop + " { receivers(i, 0) = i; dist2receivers(i, 0) = 0; slope_max = std::numeric_limits<double>::lowest();")
        fact(g, v + "_masked_or_base_level_node_skipped_before_neighbors_loop", body,
             "if (graph_impl.is_masked(i) || graph_impl.is_base_level(i)) {? continue; }? for (auto n : grid.neighbors(i, neighbors))")
        fact(g, v + "_candidate_is_unmasked_and_strictly_lower", body,
             "for (auto n : grid.neighbors(i, neighbors)) { if (!graph_impl.is_masked(n.idx) && elevation.flat(n.idx) < elevation.flat(i)) {")
        fact(g, v + "_slope_is_drop_over_distance_and_strictly_steeper_updates_max_receiver_and_distance", body,
             "slope = (elevation.flat(i) - elevation.flat(n.idx)) / n.distance; "
             "if (slope > slope_max) { slope_max = slope; receivers(i, 0) = n.idx; dist2receivers(i, 0) = n.distance; }")
    fact(g, "seq_node_appended_to_donors_of_its_receiver_after_neighbors_loop", s_seq,
         "} } } auto irec = receivers(i, 0); donors(irec, donors_count(irec)++) = i; }")
    fact(g, "par_pool_runs_blocks_over_all_nodes_then_donors_filled_sequentially_in_node_order", s_par,
         "pool.resume(); pool.resize(static_cast<std::size_t>(m_op_ptr->threads_count())); pool.run_blocks(0, grid.size(), run); pool.pause(); "
         "for (auto i : grid.nodes_indices()) { auto irec = receivers(i, 0); donors(irec, donors_count(irec)++) = i; }")

    # ------------------------------------------------------------------ multi flow router (C05)
    multi = fn(fr, r"class\s+flow_operator_impl<\s*FG,\s*multi_flow_router,\s*flow_graph_fixed_array_tag\s*>", "multi router impl class")
    m_apply = fn(multi, r"void\s+apply\s*\(", "multi router apply")
    g = "C05"
    self_row = "receivers_count(i) = 1; receivers(i, 0) = i; receivers_weight(i, 0) = 0; dist2receivers(i, 0) = 0; continue;"
    fact(g, "donors_count_reset_before_the_node_loop", m_apply,
         "donors_count.fill(0); for (auto i : grid.nodes_indices()) {")
    fact(g, "masked_or_base_level_row_is_single_self_receiver_count_one_weight_zero", m_apply,
         "if (graph_impl.is_masked(i) || graph_impl.is_base_level(i)) { " + self_row + " }")
    fact(g, "per_node_reset_of_nrec_weights_sum_and_slope_max", m_apply,
         "nrec = 0; weights_sum = 0; double slope_max = 0; for (auto n : grid.neighbors(i, neighbors))")
    fact(g, "receiver_is_unmasked_and_strictly_lower", m_apply,
         "for (auto n : grid.neighbors(i, neighbors)) { if (!graph_impl.is_masked(n.idx) && elevation.flat(i) > elevation.flat(n.idx)) {")
    fact(g, "slope_is_drop_over_distance_stored_with_receiver_and_distance_max_tracked", m_apply,
         "slope = (elevation.flat(i) - elevation.flat(n.idx)) / n.distance; receivers(i, nrec) = n.idx; dist2receivers(i, nrec) = n.distance; "
         "receivers_weight(i, nrec) = slope; slope_max = std::max(slope_max, slope);")
    fact(g, "node_appended_to_donors_of_receiver_then_nrec_incremented", m_apply,
         "donors(n.idx, donors_count(n.idx)++) = i; %s; } }" % _inc("nrec"))
    fact(g, "pit_row_is_single_self_receiver_else_count_is_nrec", m_apply,
         "if (nrec == 0) { " + self_row + " } receivers_count(i) = nrec;")
    fact(g, "weight_is_pow_of_slope_over_max_slope_with_exponent_read_from_operator", m_apply,
         "for (size_type j = 0; j < nrec; %s) { double rel_slope = slope_max > 0 ? receivers_weight(i, j) / slope_max : 1.; "
         "weight = std::pow(rel_slope, this->m_op_ptr->m_slope_exp); weights_sum += weight; receivers_weight(i, j) = weight; }" % _inc("j"))
    fact(g, "weights_divided_by_their_sum", m_apply,
         "for (size_type j = 0; j < nrec; %s) { receivers_weight(i, j) /= weights_sum; }" % _inc("j"))
    fact(g, "ends_with_topdown_dfs_then_bfs_orders", m_apply,
         "graph_impl.compute_dfs_indices_topdown(); graph_impl.compute_bfs_indices_bottomup();")

    # ------------------------------------------------------------------ priority flood (C02)
    pf = src("algo/pflood.hpp")
    p_gt = fn(pf, r"bool\s+operator\s*>\s*\(", "pflood_node operator>")
    p_init = fn(pf, r"void\s+init_pflood\s*\(", "init_pflood")
    p_fill = fn(pf, r"void\s+fill_sinks_sloped\s*\(", "fill_sinks_sloped")
    sr = src("flow/sink_resolver.hpp")
    pres = fn(sr, r"class\s+flow_operator_impl<\s*FG,\s*pflood_sink_resolver,\s*Tag\s*>", "pflood resolver impl class")
    pres_apply = fn(pres, r"void\s+apply\s*\(", "pflood resolver apply")
    mst = fn(sr, r"class\s+flow_operator_impl<\s*FG,\s*mst_sink_resolver,\s*flow_graph_fixed_array_tag\s*>", "mst resolver impl class")
    mst_apply = fn(mst, r"void\s+apply\s*\(", "mst resolver apply")
    tag = r"flow_graph_fixed_array_tag\s*>\s*::\s*"
    r_basic = fn(sr, tag + r"update_routes_sinks_basic\s*\([^)]*\)\s*\{", "update_routes_sinks_basic")
    r_carve = fn(sr, tag + r"update_routes_sinks_carve\s*\([^)]*\)\s*\{", "update_routes_sinks_carve")
    r_tilt = fn(sr, tag + r"fill_sinks_sloped\s*\([^)]*\)\s*\{", "mst resolver fill_sinks_sloped")
    g = "C02"
    fact(g, "heap_order_is_elevation_then_node_index_on_ties", p_gt,
         "return m_elevation > other.m_elevation || (m_elevation == other.m_elevation && m_idx > other.m_idx);")
    fact(g, "open_queue_is_priority_queue_with_std_greater_pit_queue_is_fifo", pf,
         "using pflood_pr_queue = std::priority_queue<pflood_node<FG, T>, std::vector<pflood_node<FG, T>>, std::greater<pflood_node<FG, T>>>; "
         "template <class FG, class T> using pflood_queue = std::queue<pflood_node<FG, T>>;")
    fact(g, "init_seeds_open_queue_with_unmasked_base_levels_and_closes_them", p_init,
         "for (size_type idx : graph_impl.base_levels()) { if (graph_impl.is_masked(idx)) {? continue; }? "
         "open.emplace(pflood_node<FG, elev_t>(idx, elevation_flat(idx))); closed(idx) = true; }")
    fact(g, "closed_starts_all_false_then_init_then_loop_while_any_queue_non_empty", p_fill,
         "xt::xtensor<bool, 1> closed = xt::zeros<bool>({ graph_impl.size() }); @@ init_pflood(graph_impl, elevation, closed, open); "
         "while (!open.empty() || !pit.empty()) {")
    fact(g, "pop_takes_open_on_equal_elevations_else_pit_queue_first_else_open", p_fill,
         "if (!pit.empty() && !open.empty() && open.top().m_elevation == pit.front().m_elevation) { inode = open.top(); open.pop(); } "
         "else if (!pit.empty()) { inode = pit.front(); pit.pop(); } else { inode = open.top(); open.pop(); }")
    fact(g, "tiny_step_is_nextafter_of_popped_elevation_upwards", p_fill,
         "elev_t elev_tiny_step = std::nextafter(inode.m_elevation, std::numeric_limits<elev_t>::«(?:infinity|max)»());")
    fact(g, "masked_or_closed_neighbor_skipped", p_fill,
         "for (auto n_idx : grid.neighbors_indices(inode.m_idx, neighbors_indices)) { if (graph_impl.is_masked(n_idx) || closed(n_idx)) {? continue; }?")
    fact(g, "neighbor_not_above_tiny_step_is_raised_to_it_and_pushed_to_pit_queue", p_fill,
         "if (elevation.flat(n_idx) <= elev_tiny_step) { elevation.flat(n_idx) = elev_tiny_step; "
         "knode = pflood_node<FG, elev_t>(n_idx, elevation.flat(n_idx)); pit.emplace(knode); }")
    fact(g, "higher_neighbor_pushed_to_open_queue_with_its_own_elevation_then_closed", p_fill,
         "else { knode = pflood_node<FG, elev_t>(n_idx, elevation.flat(n_idx)); open.emplace(knode); } closed(n_idx) = true; }")
    fact(g, "pflood_resolver_apply_is_fill_sinks_sloped", pres_apply,
         "«^\\s*»detail::fill_sinks_sloped(graph_impl, elevation);«\\s*$»")
    fact(g, "mst_tilt_sweeps_dfs_order_skipping_self_receivers", r_tilt,
         "const auto& dfs_indices = graph_impl.dfs_indices(); const auto& receivers = graph_impl.receivers(); "
         "for (const auto& idfs : dfs_indices) { const auto& irec = receivers(idfs, 0); if (idfs == irec) {? continue; }?")
    fact(g, "mst_tilt_raises_node_not_above_receiver_to_nextafter_receiver_upwards", r_tilt,
         "const auto& irec_elev = elevation.flat(irec); if (elevation.flat(idfs) <= elevation.flat(irec)) { "
         "auto tiny_step = std::nextafter(irec_elev, std::numeric_limits<data_type>::«(?:infinity|max)»()); elevation.flat(idfs) = tiny_step; }")

    # ------------------------------------------------------------------ mst sink resolver (C01)
    g = "C01"
    edge_head = ("for (size_type edge_idx : basin_graph.tree()) { auto& edge = basin_graph.edges()[edge_idx]; "
                 "if (edge.pass[outflow] == static_cast<size_type>(-1)) {? continue; }? size_type pit_inflow = pits[edge.link[inflow]];")
    fact(g, "apply_computes_basins_then_returns_early_when_no_pit", mst_apply,
         "«^\\s*»graph_impl.compute_basins(); if (graph_impl.pits().empty()) {? return; }?")
    fact(g, "apply_updates_basin_graph_routes_basic_or_carve_then_recomputes_donors_dfs_bfs_and_tilts", mst_apply,
         "return; }? get_basin_graph(graph_impl).update_routes(elevation); if (this->m_op_ptr->m_route_method == mst_route_method::basic) "
         "{? update_routes_sinks_basic(graph_impl, elevation); }? else {? update_routes_sinks_carve(graph_impl); }? "
         "graph_impl.compute_donors(); graph_impl.compute_dfs_indices_bottomup(); "
         "graph_impl.compute_bfs_indices_bottomup(); fill_sinks_sloped(graph_impl, elevation);«\\s*;?\\s*$»")
    fact(g, "edge_ends_are_outflow_0_inflow_1_and_both_methods_visit_tree_edges_skipping_outer_basin_edges",
         mst, "static constexpr std::uint8_t outflow = 0; static constexpr std::uint8_t inflow = 1;",
         r_basic, "const auto& pits = basin_graph.outlets(); " + edge_head,
         r_carve, "const auto& pits = basin_graph.outlets(); " + edge_head)
    fact(g, "basic_pit_distance_max_and_lower_inflow_pass_routes_pit_to_outflow_pass_else_via_the_inflow_pass", r_basic,
         "dist2receivers(pit_inflow, 0) = std::numeric_limits<data_type>::max(); "
         "if (elevation.flat(edge.pass[inflow]) < elevation.flat(edge.pass[outflow])) { receivers(pit_inflow, 0) = edge.pass[outflow]; } "
         "else { receivers(pit_inflow, 0) = edge.pass[inflow]; receivers(edge.pass[inflow], 0) = edge.pass[outflow]; "
         "dist2receivers(edge.pass[inflow], 0) = edge.pass_length; }")
    fact(g, "carve_starts_at_inflow_pass_and_reroutes_it_to_outflow_pass", r_carve,
         "size_type current_node = edge.pass[inflow]; size_type next_node = receivers(current_node, 0); "
         "data_type previous_dist = dist2receivers(current_node, 0); receivers(current_node, 0) = edge.pass[outflow]; "
         "dist2receivers(current_node, 0) = edge.pass_length;")
    fact(g, "carve_reverses_receivers_and_distances_until_the_pit", r_carve,
         "while (current_node != pit_inflow) { auto rec_next_node = receivers(next_node, 0); receivers(next_node, 0) = current_node; "
         "std::swap(dist2receivers(next_node, 0), previous_dist); current_node = next_node; next_node = rec_next_node; }")
    reuse(g, "C02", "mst_tilt_sweeps_dfs_order_skipping_self_receivers",
          "mst_tilt_raises_node_not_above_receiver_to_nextafter_receiver_upwards")
    reuse(g, "C04", "seq_masked_or_base_level_node_skipped_before_neighbors_loop", "seq_candidate_is_unmasked_and_strictly_lower",
          "par_masked_or_base_level_node_skipped_before_neighbors_loop", "par_candidate_is_unmasked_and_strictly_lower")

    # ------------------------------------------------------------------ flow graph tables (C03, C06, C19)
    fg = src("flow/flow_graph_impl.hpp")
    gtag = r"flow_graph_fixed_array_tag\s*>\s*::\s*"
    f_acc = fn(fg, gtag + r"accumulate\s*\(\s*data_array_type\s*&\s*acc\s*,[^)]*\)\s*const\s*\{", "accumulate(acc, src)")
    f_acc2 = fn(fg, gtag + r"accumulate\s*\(\s*T\s*&&\s*src\s*\)\s*const", "accumulate(src)")
    f_bottomup = fn(fg, r"\bnodes_indices_bottomup\s*\(\s*\)\s*const\s*\{", "nodes_indices_bottomup")
    f_donors = fn(fg, gtag + r"compute_donors\s*\(\s*\)\s*\{", "compute_donors")
    f_dfs_bu = fn(fg, gtag + r"compute_dfs_indices_bottomup\s*\(\s*\)\s*\{", "compute_dfs_indices_bottomup")
    f_dfs_td = fn(fg, gtag + r"compute_dfs_indices_topdown\s*\(\s*\)\s*\{", "compute_dfs_indices_topdown")
    f_bfs = fn(fg, gtag + r"compute_bfs_indices_bottomup\s*\(\s*\)\s*\{", "compute_bfs_indices_bottomup")
    f_basins = fn(fg, gtag + r"compute_basins\s*\(\s*\)\s*\{", "compute_basins")
    f_pits = fn(fg, gtag + r"pits\s*\(\s*\)", "pits")
    f_masked = fn(fg, r"bool\s+is_masked\s*\(", "is_masked")
    f_base = fn(fg, r"bool\s+is_base_level\s*\(", "is_base_level")
    node_loop = "for (size_type i = 0; i < size(); %s)" % _inc("i")

    g = "C03"
    fact(g, "source_broadcast_to_grid_shape_and_acc_reset_to_zero_before_sweep", f_acc,
         "auto src_arr = xt::broadcast(std::forward<T>(src), m_grid.shape()); acc.fill(0); auto nodes_indices = nodes_indices_bottomup(); for (")
    fact(g, "bottomup_indices_are_the_dfs_indices", f_bottomup, "«^\\s*»return m_dfs_indices;«\\s*$»")
    fact(g, "sweep_visits_bottomup_indices_in_reverse", f_acc,
         "auto nodes_indices = nodes_indices_bottomup(); for (auto inode_ptr = nodes_indices.rbegin(); inode_ptr != nodes_indices.rend(); %s) "
         "{ const auto inode = *inode_ptr;" % _inc("inode_ptr"))
    fact(g, "node_adds_area_times_source_before_its_receivers_loop", f_acc,
         "const auto inode = *inode_ptr; acc.flat(inode) += m_grid.nodes_areas(inode) * src_arr(inode); for (size_type r = 0;")
    fact(g, "receivers_loop_over_slots_below_receivers_count", f_acc,
         "for (size_type r = 0; r < m_receivers_count[inode]; %s) { size_type ireceiver = m_receivers(inode, r);" % _inc("r"))
    fact(g, "non_self_receiver_gets_acc_of_node_times_weight_added", f_acc,
         "size_type ireceiver = m_receivers(inode, r); if (ireceiver != inode) { acc.flat(ireceiver) += acc.flat(inode) * m_receivers_weight(inode, r); } } }")
    fact(g, "returning_overload_allocates_grid_shape_and_delegates", f_acc2,
         "data_array_type acc = data_array_type::from_shape(m_grid.shape()); accumulate(acc, std::forward<T>(src)); return acc;")

    g = "C06"
    fact(g, "donors_counts_reset_to_zero_before_node_loop", f_donors, "«^\\s*»m_donors_count.fill(0); " + node_loop + " {")
    fact(g, "donors_node_with_other_receiver_appended_to_its_donors_row", f_donors,
         "if (m_receivers(i, 0) != i) { auto irec = m_receivers(i, 0); m_donors(irec, m_donors_count(irec)++) = i; }")
    fact(g, "dfs_bottomup_roots_are_self_receivers_pushed_on_stack_and_recorded", f_dfs_bu,
         "size_type nstack = 0; std::stack<size_type> tmp; " + node_loop + " { if (m_receivers(i, 0) == i) { tmp.push(i); m_dfs_indices(nstack++) = i; } while (!tmp.empty()) {")
    fact(g, "dfs_bottomup_pop_records_and_pushes_each_non_self_donor", f_dfs_bu,
         "while (!tmp.empty()) { size_type istack = tmp.top(); tmp.pop(); for (size_type k = 0; k < m_donors_count(istack); %s) "
         "{ const auto idonor = m_donors(istack, k); if (idonor != istack) { m_dfs_indices(nstack++) = idonor; tmp.push(idonor); } } }" % _inc("k"))
    fact(g, "dfs_topdown_starts_from_nodes_without_donor_with_zeroed_visit_counters", f_dfs_td,
         "std::vector<size_type> visited_count(size(), 0); " + node_loop + " { if (m_donors_count(i) == 0) { tmp.push(i); } while (!tmp.empty()) {")
    fact(g, "dfs_topdown_pop_records_node_and_pushes_receiver_once_all_its_donors_visited", f_dfs_td,
         "size_type istack = tmp.top(); tmp.pop(); m_dfs_indices(nstack++) = istack; for (size_type k = 0; k < m_receivers_count(istack); %s) "
         "{ const auto irec = m_receivers(istack, k); %s; if (visited_count[irec] == m_donors_count(irec)) { tmp.push(irec); } }"
         % (_inc("k"), _inc("visited_count[irec]")))
    fact(g, "dfs_topdown_order_reversed_at_the_end", f_dfs_td,
         "std::reverse(m_dfs_indices.begin(), m_dfs_indices.end());«\\s*$»")
    fact(g, "bfs_first_level_is_the_self_receivers_in_node_order", f_bfs,
         node_loop + " {? if (m_receivers(i, 0) == i) {? m_bfs_indices(nstack++) = i; }? }? levels[level++] = 0; levels[level++] = nstack; while (nstack < size()) {")
    fact(g, "bfs_sweeps_previous_level_marks_node_visited_and_skips_visited_donors", f_bfs,
         "for (size_type i = levels[level - 2]; i < levels[level - 1]; %s) { auto node_idx = m_bfs_indices(i); visited[node_idx] = 1; "
         "for (size_type k = 0; k < m_donors_count(node_idx); %s) { auto donor_idx = m_donors(node_idx, k); skip = visited[donor_idx] > 0; "
         "if (skip) {? continue; }?" % (_inc("i"), _inc("k")))
    fact(g, "bfs_donor_skipped_unless_all_its_receivers_are_visited", f_bfs,
         "for (std::size_t rcv_idx = 0; rcv_idx < m_receivers_count(donor_idx); %s) { if (visited[m_receivers(donor_idx, rcv_idx)] != 1) "
         "{ skip = true; break; } }" % _inc("rcv_idx"))
    fact(g, "bfs_ready_donor_queued_and_marked_pending", f_bfs,
         "if (!skip && visited[donor_idx] == 0) { m_bfs_indices(nstack++) = donor_idx; visited[donor_idx] = 2; }")
    fact(g, "bfs_level_closed_after_sweep_and_levels_stored", f_bfs,
         "for (size_type i = levels[level - 2]; i < levels[level - 1]; %s) {? visited[m_bfs_indices(i)] = 1; }? levels[level++] = nstack; } "
         "m_bfs_levels = xt::adapt(levels, { level });" % _inc("i"))

    g = "C19"
    fact(g, "label_counter_starts_at_minus_one_no_basin_is_max_outlets_cleared", f_basins,
         "size_type current_basin = static_cast<size_type>(-1); size_type no_basin = std::numeric_limits<size_type>::max(); m_outlets.clear();")
    fact(g, "sweep_in_bottomup_dfs_order", f_basins, "m_outlets.clear(); for (const auto& inode : nodes_indices_bottomup()) {",
         f_bottomup, "«^\\s*»return m_dfs_indices;«\\s*$»")
    fact(g, "masked_node_gets_the_maximum_label_and_is_skipped", f_basins,
         "nodes_indices_bottomup()) { if (is_masked(inode)) { m_basins(inode) = no_basin; continue; }")
    fact(g, "outlet_is_self_receiver_collected_in_order_then_counter_incremented", f_basins,
         "if (inode == m_receivers(inode, 0)) { m_outlets.push_back(inode); %s; }" % _inc("current_basin"))
    fact(g, "node_labelled_with_current_counter_after_the_outlet_test", f_basins,
         "%s; } m_basins(inode) = current_basin; }" % _inc("current_basin"))
    fact(g, "pits_cleared_then_outlets_that_are_not_base_levels_in_order", f_pits,
         "m_pits.clear(); for (const auto outlet : m_outlets) { if (!is_base_level(outlet)) { m_pits.push_back(outlet); } } return m_pits;")
    fact(g, "masked_means_mask_initialized_and_set_base_level_means_member_of_set", f_masked,
         "«^\\s*»return m_mask_initialized && m_mask.flat(idx);«\\s*$»", f_base, "«^\\s*»return bool(m_base_levels.count(idx));«\\s*$»")

    # ------------------------------------------------------------------ basin graph, union-find (C15)
    bg = src("flow/basin_graph.hpp")
    b_update = fn(bg, r"basin_graph<FG>::update_routes\s*\(", "basin_graph update_routes")
    b_connect = fn(bg, r"basin_graph<FG>::connect_basins\s*\(", "connect_basins")
    b_kruskal = fn(bg, r"basin_graph<FG>::compute_tree_kruskal\s*\(", "compute_tree_kruskal")
    b_orient = fn(bg, r"basin_graph<FG>::orient_edges\s*\(", "orient_edges")
    uf = src("utils/union_find.hpp")
    ufc = fn(uf, r"class\s+union_find\s*\{", "class union_find")
    u_find = fn(ufc, r"\bT\s+find\s*\(\s*T\s+x\s*\)", "union_find::find")
    u_merge = fn(ufc, r"\bvoid\s+merge\s*\(\s*T\s+x\s*,\s*T\s+y\s*\)", "union_find::merge")
    u_clear = fn(ufc, r"\bvoid\s+clear\s*\(\s*\)", "union_find::clear")
    u_resize = fn(ufc, r"\bvoid\s+resize\s*\(\s*size_t\s+_size\s*\)", "union_find::resize")
    g = "C15"
    fact(g, "update_routes_connects_then_builds_tree_by_selected_method_then_orients", b_update,
         "«^\\s*»connect_basins(elevation); if (m_mst_method == mst_method::kruskal) {? compute_tree_kruskal(); }? "
         "else {? compute_tree_boruvka(); }? orient_edges();«\\s*$»")
    fact(g, "connect_per_call_reset_root_edges_cleared_positions_resized_then_filled_tmp_cleared", b_connect,
         "m_root = init_idx; m_edges.clear(); @@ m_edge_positions.resize(nbasins); std::fill(m_edge_positions.begin(), m_edge_positions.end(), init_idx); "
         "@@ m_edge_positions_tmp.clear(); for (const auto idfs : dfs_indices)")
    fact(g, "connect_sweeps_dfs_order_skipping_masked_outlet_sets_basin_and_inner_flag_first_outer_is_root_others_linked_to_root", b_connect,
         "const auto& dfs_indices = m_flow_graph_impl.dfs_indices(); @@ for (const auto idfs : dfs_indices) { "
         "if (m_flow_graph_impl.is_masked(idfs)) {? continue; }? const auto irec = receivers(idfs, 0); "
         "if (irec == idfs) { ibasin = basins(idfs); is_inner_basin = !m_flow_graph_impl.is_base_level(idfs); if (!is_inner_basin) { "
         "if (m_root == init_idx) { m_root = ibasin; } else { m_edges.push_back(edge::make_edge(m_root, ibasin)); } } }")
    fact(g, "connect_inner_basin_node_scans_unmasked_neighbors_skipping_lower_or_equal_inner_basins", b_connect,
         "if (is_inner_basin) { const data_type ielev = elevation.flat(idfs); for (auto n : grid.neighbors(idfs, neighbors)) { "
         "if (m_flow_graph_impl.is_masked(n.idx)) {? continue; }? const size_type nbasin = basins(n.idx); bool skip = ibasin >= nbasin; "
         "bool is_inner_nbasin = !m_flow_graph_impl.is_base_level(outlets()[nbasin]); if (skip && is_inner_nbasin) {? continue; }?")
    fact(g, "connect_pass_elevation_is_max_of_the_two_node_elevations", b_connect,
         "const data_type pass_elevation = std::max(ielev, elevation.flat(n.idx));")
    fact(g, "connect_lazy_reset_of_visited_positions_on_basin_change_before_position_is_read", b_connect,
         "if (current_basin != ibasin) { for (const auto& ivisited : m_edge_positions_tmp) { m_edge_positions[ivisited] = init_idx; } "
         "m_edge_positions_tmp.clear(); current_basin = ibasin; } const size_type edge_idx = m_edge_positions[nbasin];")
    fact(g, "connect_undefined_position_records_and_appends_new_edge_else_replaced_only_by_strictly_lower_pass", b_connect,
         "if (edge_idx == init_idx) { m_edge_positions[nbasin] = m_edges.size(); m_edge_positions_tmp.push_back(nbasin); "
         "m_edges.push_back({ { ibasin, nbasin }, { idfs, n.idx }, pass_elevation, n.distance }); } "
         "else if (pass_elevation < m_edges[edge_idx].pass_elevation) { m_edges[edge_idx] = edge{ { ibasin, nbasin }, { idfs, n.idx }, pass_elevation, n.distance }; }")
    fact(g, "kruskal_tree_cleared_and_edge_indices_sorted_by_pass_elevation_with_less", b_kruskal,
         "m_tree.clear(); m_edges_indices.resize(m_edges.size()); std::iota(m_edges_indices.begin(), m_edges_indices.end(), 0); "
         "std::sort(m_edges_indices.begin(), m_edges_indices.end(), [@](const size_type& i0, const size_type& i1) "
         "{ return m_edges[i0].pass_elevation < m_edges[i1].pass_elevation; });")
    fact(g, "kruskal_union_find_reset_then_in_sorted_order_edge_kept_when_classes_differ_then_merged", b_kruskal,
         "m_edges[i1].pass_elevation; }); m_basins_uf.resize(basins_count()); m_basins_uf.clear(); for (size_type edge_idx : m_edges_indices) { size_type* link = m_edges[edge_idx].link; "
         "if (m_basins_uf.find(link[0]) != m_basins_uf.find(link[1])) { m_tree.push_back(edge_idx); m_basins_uf.merge(link[0], link[1]); } }")
    fact(g, "union_find_find_follows_parents_to_root_then_compresses_path_to_root", u_find,
         "«^\\s*»T c = x; while (c != parent[c]) {? c = parent[c]; }? while (x != parent[x]) { T t = parent[x]; parent[x] = c; x = t; } return c;«\\s*$»")
    fact(g, "union_find_merge_by_rank_three_branches", u_merge,
         "«^\\s*»x = find(x); y = find(y); if (x != y) { if (rank[x] < rank[y]) {? parent[x] = y; }? else { parent[y] = x; "
         "if (rank[x] == rank[y]) {? rank[x] += 1; }? } }«\\s*$»")
    fact(g, "union_find_clear_empties_then_resize_restores_identity_parents_zero_ranks", u_clear,
         "«^\\s*»size_t old_size = size(); parent.clear(); rank.clear(); resize(old_size);«\\s*$»", u_resize, "«^\\s*»parent.resize(_size); rank.resize(_size, 0); "
         "std::iota(parent.begin(), parent.end(), 0);")
    fact(g, "orient_without_root_clears_tree_else_stack_seeded_with_root_as_own_parent", b_orient,
         "if (m_root == init_idx) { m_tree.clear(); return; } @@ m_reorder_stack.clear(); m_reorder_stack.push_back({ m_root, m_root, "
         "std::numeric_limits<data_type>::min(), std::numeric_limits<data_type>::min() });")
    fact(g, "orient_pops_node_and_parent_scans_adjacent_tree_edges_skips_edge_from_parent_else_swaps_when_node_not_first_and_pushes_child", b_orient,
         "while (m_reorder_stack.size()) { @@ std::tie(node, parent, pass_elevation, parent_pass_elevation) = m_reorder_stack.back(); "
         "m_reorder_stack.pop_back(); for (size_t i = m_nodes_connects_ptr[node]; i < m_nodes_connects_ptr[node] + m_nodes_connects_size[node]; %s) "
         "{ edge& edg = m_edges[m_nodes_adjacency[i]]; if (edg.link[0] == parent && node != parent) { @@ } "
         "else { if (node != edg.link[0]) { std::swap(edg.link[0], edg.link[1]); std::swap(edg.pass[0], edg.pass[1]); } "
         "m_reorder_stack.push_back({ edg.link[1], node, std::max(edg.pass_elevation, pass_elevation), pass_elevation }); "
         "m_edge_reached[m_nodes_adjacency[i]] = 1; }" % _inc("i"))
    fact(g, "orient_reached_flags_zeroed_before_and_unreached_tree_edges_dropped_after", b_orient,
         "m_edge_reached.assign(m_edges.size(), 0); @@ while (m_reorder_stack.size()) { @@ m_tree.erase(std::remove_if(m_tree.begin(), m_tree.end(), "
         "[@](size_type e) { return !m_edge_reached[e]; }), m_tree.end());«\\s*$»")

    # ------------------------------------------------------------------ stream-power eroder (C12, C13)
    sp = src("eroders/spl.hpp")
    e = fn(sp, r"spl_eroder<FG, S>::erode\s*\(", "spl erode")
    shared = []

    def both(name, snippet):
        shared.append(name)
        fact("C12", name, e, snippet)

    both("erosion_filled_with_zero_and_correction_counter_reset_on_every_call",
         "m_erosion.fill(0); m_n_corr = 0; for (const auto& inode : flow_graph_impl.nodes_indices_bottomup()) {")
    g = "C12"
    fact(g, "outlet_or_pit_single_self_receiver_skipped", e,
         "data_type inode_elevation = elevation.flat(inode); auto r_count = receivers_count[inode]; "
         "if (r_count == 1 && receivers(inode, 0) == inode) {? continue; }?")
    fact(g, "flooded_level_is_min_over_receivers_of_elevation_minus_erosion", e,
         "double elevation_flooded = std::numeric_limits<double>::max(); for (size_type r = 0; r < r_count; %s) { size_type irec = receivers(inode, r); "
         "data_type irec_elevation_next = elevation.flat(irec) - m_erosion.flat(irec); if (irec_elevation_next < elevation_flooded) "
         "{? elevation_flooded = irec_elevation_next; }? }" % _inc("r"))
    both("lake_node_not_above_flooded_level_skipped",
         "if (inode_elevation <= elevation_flooded) {? continue; }? double eq_num = inode_elevation; double eq_den = 1.0;")
    fact(g, "receiver_above_the_node_skipped", e,
         "data_type irec_elevation = elevation.flat(irec); data_type irec_elevation_next = irec_elevation - m_erosion.flat(irec); "
         "if (irec_elevation > inode_elevation) {? continue; }?")
    both("factor_is_k_times_dt_times_pow_of_area_times_weight_to_area_exp",
         "data_type irec_weight = receivers_weight(inode, r); data_type irec_distance = receivers_distance(inode, r); "
         "auto factor = «\\(?» m_k_coef(inode) * dt * std::pow(drainage_area.flat(inode) * irec_weight, m_area_exp) «\\)?» ;")
    fact(g, "linear_path_divides_factor_by_distance_and_accumulates_numerator_and_denominator", e,
         "if (m_linear) { factor /= irec_distance; eq_num += factor * irec_elevation_next; eq_den += factor; }")
    both("updated_elevation_is_num_over_den_clamped_to_flooded_plus_min_with_counter",
         "data_type inode_elevation_updated = eq_num / eq_den; if (inode_elevation_updated < elevation_flooded) { %s; "
         "inode_elevation_updated = elevation_flooded + std::numeric_limits<data_type>::min(); }" % _inc("m_n_corr"))
    both("erosion_is_old_minus_updated_elevation",
         "m_erosion.flat(inode) = inode_elevation - inode_elevation_updated; } return m_erosion;«\\s*$»")
    g = "C13"
    fact(g, "nonlinear_path_divides_factor_by_pow_of_distance_to_slope_exp", e,
         "else { factor /= std::pow(irec_distance, m_slope_exp);")
    fact(g, "newton_starts_from_the_full_drop_and_loops_unconditionally", e,
         "double delta_0 = inode_elevation - irec_elevation_next; double delta_k = delta_0; while (true) {")
    fact(g, "newton_residual_is_delta_k_plus_factor_pow_delta_k_minus_delta_0", e,
         "while (true) { auto factor_delta_exp = factor * std::pow(delta_k, m_slope_exp); auto func = delta_k + factor_delta_exp - delta_0;")
    fact(g, "newton_exits_on_two_sided_tolerance_test", e,
         "if (std::fabs(func) <= m_tolerance) {? break; }?")
    fact(g, "newton_step_then_exit_on_non_positive_iterate", e,
         "auto func_deriv = 1 + m_slope_exp * factor_delta_exp / delta_k; delta_k -= func / func_deriv; if (delta_k <= 0) {? break; }? }")
    fact(g, "newton_result_sets_numerator_to_elevation_minus_drop_change", e,
         "} eq_num = inode_elevation - (delta_0 - delta_k); }")
    reuse(g, "C12", *shared)

    # ------------------------------------------------------------------ ADI diffusion (C14)
    ad = src("eroders/diffusion_adi.hpp")
    a_fac = fn(ad, r"diffusion_adi_eroder<G, S>::set_factors\s*\(", "set_factors")
    a_tri = fn(ad, r"diffusion_adi_eroder<G, S>::solve_tridiagonal\s*\(", "solve_tridiagonal")
    a_row = fn(ad, r"diffusion_adi_eroder<G, S>::solve_adi_row\s*\(", "solve_adi_row")
    a_erode = fn(ad, r"diffusion_adi_eroder<G, S>::erode\s*\(", "adi erode")
    g = "C14"
    fact(g, "scalar_factors_are_k_times_half_over_spacing_squared_dx_is_spacing_1_dy_is_spacing_0", a_fac,
         "data_type dx = spacing[1]; data_type dy = spacing[0]; @@ if (m_k_coef_is_scalar) { fr = m_k_coef_scalar * 0.5 / (dy * dy); "
         "fc = m_k_coef_scalar * 0.5 / (dx * dx); m_factors_row = xt::ones<data_type>(factors_shape) * fr; m_factors_col = xt::ones<data_type>(factors_shape) * fc; }")
    fact(g, "array_factors_start_from_quarter_over_spacing_squared", a_fac,
         "else { fr = 0.25 / (dy * dy); fc = 0.25 / (dx * dx);")
    fact(g, "array_factors_are_face_sums_of_k_over_interior_nodes", a_fac,
         "for (size_type r = 1; r < m_nrows - 1; %s) { for (size_type c = 1; c < m_ncols - 1; %s) { "
         "m_factors_row(0, r, c) = fr * (k(r - 1, c) + k(r, c)); m_factors_row(1, r, c) = fr / 2 * (k(r - 1, c) + 2 * k(r, c) + k(r + 1, c)); "
         "m_factors_row(2, r, c) = fr * (k(r, c) + k(r + 1, c)); m_factors_col(0, r, c) = fc * (k(r, c - 1) + k(r, c)); "
         "m_factors_col(1, r, c) = fc / 2 * (k(r, c - 1) + 2 * k(r, c) + k(r, c + 1)); m_factors_col(2, r, c) = fc * (k(r, c) + k(r, c + 1)); } }"
         % (_inc("r"), _inc("c")))
    fact(g, "row_system_lower_diag_upper_from_the_column_factors_over_interior_rows", a_row,
         "for (size_type r = 1; r < nrows - 1; %s) { m_lower = -1 * xt::view(factors_col, 0, r, xt::all()) * dt; "
         "m_diag = 1 + 2 * xt::view(factors_col, 1, r, xt::all()) * dt; m_upper = -1 * xt::view(factors_col, 2, r, xt::all()) * dt;" % _inc("r"))
    fact(g, "row_system_rhs_is_explicit_half_step_with_the_row_factors", a_row,
         "for (size_type c = 1; c < ncols - 1; %s) { m_vec(c) = «\\(?» (1 - 2 * factors_row(1, r, c) * dt) * elevation(r, c) "
         "+ factors_row(0, r, c) * elevation(r - 1, c) * dt + factors_row(2, r, c) * elevation(r + 1, c) * dt «\\)?» ; }" % _inc("c"))
    fact(g, "row_system_boundary_equations_are_identity_on_the_elevation", a_row,
         "auto ilast = ncols - 1; m_lower(0) = 0; m_lower(ilast) = 0; m_diag(0) = 1; m_diag(ilast) = 1; m_upper(0) = 0; m_upper(ilast) = 0; "
         "m_vec(0) = elevation(r, 0); m_vec(ilast) = elevation(r, ilast);")
    fact(g, "row_solution_written_to_row_r_of_a_copy_of_the_elevation", a_row,
         "«^\\s*»xt::xtensor<double, 2> elevation_out = elevation; @@ auto elevation_out_r = xt::view(elevation_out, r, xt::all()); "
         "elevation_out_r = solve_tridiagonal(); } return elevation_out;«\\s*$»")
    fact(g, "thomas_forward_elimination", a_tri,
         "auto bet = m_diag(0); result(0) = m_vec(0) / bet; for (size_type i = 1; i < n; %s) { gam(i) = m_upper(i - 1) / bet; "
         "bet = m_diag(i) - m_lower(i) * gam(i); @@ result(i) = (m_vec(i) - m_lower(i) * result(i - 1)) / bet; }" % _inc("i"))
    fact(g, "thomas_back_substitution_from_last_but_one_down_to_zero", a_tri,
         "for (int i = static_cast<int>(n) - 2; i > -1; «(?:--\\s*i|i\\s*--)») { result(i) -= gam(i + 1) * result(i + 1); } return result;«\\s*$»")
    fact(g, "erode_is_row_half_step_then_half_step_on_transposed_arrays_with_factors_swapped", a_erode,
         "resize_tridiagonal(m_ncols); auto elevation_tmp = solve_adi_row(elevation, m_factors_row, m_factors_col, m_nrows, m_ncols, dt); "
         "resize_tridiagonal(m_nrows); auto tranposed_dims = std::array<std::size_t, 3>{ 0, 2, 1 }; "
         "auto elevation_next = solve_adi_row(xt::transpose(elevation_tmp), xt::transpose(m_factors_col, tranposed_dims), "
         "xt::transpose(m_factors_row, tranposed_dims), m_ncols, m_nrows, dt);")
    fact(g, "erosion_is_elevation_minus_transposed_result", a_erode,
         "auto erosion_v = xt::view(m_erosion, xt::all(), xt::all()); erosion_v = elevation - xt::transpose(elevation_next); return m_erosion;«\\s*$»")

    order = ["C01", "C02", "C03", "C04", "C05", "C06", "C12", "C13", "C14", "C15", "C19"]
    assert sorted(groups) == order
    out.append("/-! statements of the core algorithms that the hand-written model transcribes: found (true) or not\n"
               "(false) in the current source, per property (`FsProofs.Properties.Shapes` states that all are found) -/")
    for grp in order:
        out.append("def shapes%s : List (String × Bool) :=\n  [%s]"
                   % (grp, ",\n   ".join('("%s", %s)' % (k, "true" if v else "false") for k, v in groups[grp])))
    info["flow_shapes"] = {grp: dict(groups[grp]) for grp in order}


class _Facts:
    """groups of (fact, found?) for the sections of statement-level shape facts"""

    def __init__(self):
        self.groups = {}

    def fact(self, group, name, body, snippet, *more):
        """`snippet` is found in `body` (and, for every further (body, snippet) pair in `more`, likewise)"""
        assert re.fullmatch(r"[a-z][a-z0-9_]*", name), name
        lst = self.groups.setdefault(group, [])
        assert name not in [n for n, _ in lst], name
        pairs = [(body, snippet)] + [(more[i], more[i + 1]) for i in range(0, len(more), 2)]
        lst.append((name, all(re.search(cpp_re(sn), b, flags=re.S) for b, sn in pairs)))

    def emit(self, out, info, key, order, where):
        assert sorted(self.groups) == sorted(order)
        out.append("/-! %s: statements that the hand-written model transcribes, found (true) or not (false) in the\n"
                   "current source, per property (`FsProofs.Properties.Shapes<Cxx>` state that all are found) -/" % where)
        for grp in order:
            out.append("def shapes%s : List (String × Bool) :=\n  [%s]"
                       % (grp, ",\n   ".join('("%s", %s)' % (k, "true" if v else "false") for k, v in self.groups[grp])))
        info[key] = {grp: dict(self.groups[grp]) for grp in order}


def _par(x):
    """`x` or `(x)` (redundant parentheses around an operand)"""
    return r"«\(?» %s «\)?»" % x


def grid_shapes(out, info):
    """Statement-level shape facts (see `flow_shapes`) for the grids, the graph tables' sizes, the kernel
    application, the block partition, the snapshots, the node status and the operator sequence."""
    F = _Facts()
    fact = F.fact
    B, E = "«^\\s*»", "«\\s*$»"  # the snippet starts / ends the function body

    rg = src("grid/raster_grid.hpp")
    gb = src("grid/base.hpp")
    sg = src("grid/structured_grid.hpp")
    pg = src("grid/profile_grid.hpp")
    xc = src("utils/xtensor_containers.hpp")
    it = src("utils/iterators.hpp")
    fg = src("flow/flow_graph_impl.hpp")
    gi = src("flow/impl/flow_graph_inl.hpp")
    gh = src("flow/flow_graph.hpp")
    tp = src("utils/impl/thread_pool_inl.hpp")
    fs = src("flow/flow_snapshot.hpp")
    fo = src("flow/flow_operator.hpp")
    tm = src("grid/trimesh.hpp")

    R = r"raster_grid<S, RC, C>::"
    P = r"profile_grid<S, C>::"
    G = r"grid<G>::"
    T = r"trimesh_xt<S, N>::"
    FG = r"flow_graph<G, S, Tag>::"
    idx_arg = r"\s*\(\s*const size_type& idx\s*\)"
    rowcol = r"\s*\(\s*const size_type& row,\s*const size_type& col"

    # ------------------------------------------------------------------ neighbours (C07)
    r_nb_impl = func_body(rg, R + r"neighbors_indices_impl\s*\(", "raster neighbors_indices_impl")
    r_count = func_body(rg, R + r"neighbors_count_impl" + idx_arg, "raster neighbors_count_impl")
    r_dist = func_body(rg, R + r"neighbors_distances_impl" + idx_arg, "raster neighbors_distances_impl")
    r_codes = func_body(rg, R + r"nodes_codes" + idx_arg, "raster nodes_codes(idx)")
    r_offs = func_body(rg, R + r"neighbor_offsets\s*\(\s*code_type code\s*\)", "raster neighbor_offsets")
    r_ravel = func_body(rg, R + r"ravel_idx\s*\(", "ravel_idx")
    r_unravel = func_body(rg, R + r"unravel_idx\s*\(", "unravel_idx")
    r_nbi_rc = func_body(rg, R + r"neighbors_indices" + rowcol + r",\s*neighbors_indices_raster_type& neighbors_indices\s*\)", "raster neighbors_indices(row, col, out)")
    r_nb_rc = func_body(rg, R + r"neighbors" + rowcol + r",\s*neighbors_raster_type& neighbors\s*\)", "raster neighbors(row, col, out)")
    r_bdist = func_body(rg, R + r"build_coded_neighbors_distances\s*\(\s*\)", "build_coded_neighbors_distances")
    x_dist = func_body(xc, r"static double compute_distance\s*\(", "compute_distance")
    cache = func_body(gb, r"class neighbors_cache\s*\{", "class neighbors_cache")
    c_has = func_body(cache, r"bool has\s*\(", "neighbors_cache::has")
    c_get = func_body(cache, r"neighbors_indices_type& get\s*\(", "neighbors_cache::get")
    c_store = func_body(cache, r"void store\s*\(", "neighbors_cache::store")
    nocache = func_body(gb, r"class neighbors_no_cache\s*\{", "class neighbors_no_cache")
    n_has = func_body(nocache, r"bool has\s*\(", "neighbors_no_cache::has")
    n_get = func_body(nocache, r"neighbors_indices_type& get_storage\s*\(", "neighbors_no_cache::get_storage")
    n_storage = func_body(nocache, r"static neighbors_indices_type& storage\s*\(\s*\)", "neighbors_no_cache::storage")
    g_from_cache = func_body(gb, G + r"get_nb_indices_from_cache\s*\(", "get_nb_indices_from_cache")
    g_nb = func_body(gb, G + r"neighbors\s*\(\s*const size_type& idx,\s*neighbors_type& neighbors\s*\)", "grid neighbors(idx, out)")
    g_nbi = func_body(gb, G + r"neighbors_indices\s*\(\s*const size_type& idx,\s*neighbors_indices_type& neighbors_indices\s*\)", "grid neighbors_indices(idx, out)")
    g_count = func_body(gb, G + r"neighbors_count" + idx_arg, "grid neighbors_count")
    p_nb_impl = func_body(pg, P + r"neighbors_indices_impl\s*\(", "profile neighbors_indices_impl")
    p_count = func_body(pg, P + r"neighbors_count_impl" + idx_arg, "profile neighbors_count_impl")
    p_gcode = func_body(pg, P + r"build_gcode\s*\(\s*\)", "profile build_gcode")
    g = "C07"
    fact(g, "raster_neighbor_index_is_row_offset_times_ncols_plus_col_offset_plus_idx_over_the_offsets_of_the_node_code", r_nb_impl,
         B + "const auto& offsets = neighbor_offsets(nodes_codes(idx)); for (size_type i = 0; i < offsets.size(); %s) { const auto offset = offsets[i]; "
         "neighbors.at(i) = static_cast<size_type>(%s[0]) * m_shape[1] + static_cast<size_type>(%s[1]) + idx; }" % (_inc("i"), _par("offset"), _par("offset")) + E)
    fact(g, "raster_count_distances_and_offsets_are_looked_up_by_node_code", r_count, B + "return m_neighbors_count[m_nodes_codes[idx]];" + E,
         r_dist, B + "return m_neighbor_distances[nodes_codes(idx)];" + E, r_codes, B + "return m_nodes_codes[idx];" + E,
         r_offs, B + "return m_neighbor_offsets[code];" + E)
    fact(g, "raster_ravel_is_row_times_ncols_plus_col_unravel_is_quotient_and_remainder_by_ncols", r_ravel, B + "return row * m_shape[1] + col;" + E,
         r_unravel, B + "auto ncols = m_shape[1]; size_type row = idx / ncols; size_type col = idx - row * ncols; return std::make_pair(row, col);" + E)
    fact(g, "raster_row_col_indices_overload_ravels_reads_cache_resizes_to_count_and_unravels_each_index", r_nbi_rc,
         B + "const size_type flat_idx = ravel_idx(row, col); const auto& n_count = neighbors_count_impl(flat_idx); "
         "const auto& n_indices = this->get_nb_indices_from_cache(flat_idx); if (neighbors_indices.size() != n_count) { neighbors_indices.resize({ n_count }); } "
         "for (size_type i = 0; i < n_count; %s) { neighbors_indices[i] = unravel_idx(n_indices[i]); } return neighbors_indices;" % _inc("i") + E)
    fact(g, "raster_row_col_neighbors_overload_fills_flat_row_col_distance_and_status_of_the_neighbor", r_nb_rc,
         "const size_type flat_idx = ravel_idx(row, col); const auto& n_count = neighbors_count_impl(flat_idx); "
         "const auto& n_indices = this->get_nb_indices_from_cache(flat_idx); const auto& n_distances = neighbors_distances_impl(flat_idx); "
         "if (neighbors.size() != n_count) { neighbors.resize({ n_count }); } for (size_type i = 0; i < n_count; %s) { n_flat_idx = n_indices[i]; "
         "n_raster_idx = unravel_idx(n_flat_idx); neighbors[i] = raster_neighbor({ n_flat_idx, n_raster_idx.first, n_raster_idx.second, n_distances[i], "
         "this->nodes_status()(n_flat_idx) }); } return neighbors;" % _inc("i") + E)
    fact(g, "distance_is_sqrt_of_sum_of_squares_of_spacing_where_offset_is_non_zero_computed_per_node_code_from_its_offsets", x_dist,
         B + "auto drc = xt::where(xt::equal(xt::adapt(offset), 0), 0., 1.) * xt::adapt(xspacing); return std::sqrt(xt::sum(xt::square(drc))(0));" + E,
         r_bdist, "auto xspacing = m_spacing; auto to_dist = [@](auto&& offset) -> double { return container_impl<container_type>::compute_distance(offset, xspacing); }; "
         "for (std::uint8_t k = 0; k < 9; %s) { auto offsets = neighbor_offsets(k); auto distances = neighbors_distances_impl_type(); "
         "std::transform(offsets.cbegin(), offsets.cend(), distances.begin(), to_dist); nb_distances[k] = distances; } return nb_distances;" % _inc("k") + E)
    fact(g, "cache_rows_start_all_max_has_iff_first_entry_is_not_max_get_and_store_use_the_row_of_the_node", cache,
         "neighbors_cache(std::size_t size) : m_cache(cache_shape_type({ size })) { for (std::size_t i = 0; i < size; %s) "
         "{ m_cache[i].fill(std::numeric_limits<std::size_t>::max()); } }" % _inc("i"),
         c_has, B + "return m_cache[idx][0] == std::numeric_limits<std::size_t>::max() ? false : true;" + E,
         c_get, B + "return m_cache[idx];" + E, c_store, B + "m_cache[idx] = neighbors_indices;" + E)
    fact(g, "pass_through_cache_never_has_and_hands_out_one_thread_local_buffer", n_has, B + "return false;" + E, n_get, B + "return storage();" + E,
         n_storage, B + "static thread_local neighbors_indices_type node_neighbors; return node_neighbors;" + E)
    fact(g, "cached_row_returned_only_when_present_else_indices_computed_into_the_storage_row", g_from_cache,
         B + "if (m_neighbors_indices_cache.has(idx)) { neighbors_indices_impl_type& n_indices = m_neighbors_indices_cache.get(idx); return n_indices; } "
         "else { neighbors_indices_impl_type& n_indices = m_neighbors_indices_cache.get_storage(idx); "
         "this->derived_grid().neighbors_indices_impl(n_indices, idx); return n_indices; }" + E)
    fact(g, "neighbors_overload_resizes_output_to_count_and_fills_index_distance_and_status_of_the_neighbor", g_nb,
         "const auto& n_count = neighbors_count(idx); const auto& n_indices = get_nb_indices_from_cache(idx); "
         "const auto& n_distances = neighbors_distances_impl(idx); if (neighbors.size() != n_count) { neighbors.resize({ n_count }); } "
         "for (size_type i = 0; i < n_count; %s) { n_idx = n_indices[i]; neighbors[i] = neighbor({ n_idx, n_distances[i], nodes_status()(n_idx) }); } "
         "return neighbors;" % _inc("i") + E, g_count, B + "return neighbors_count_impl(idx);" + E)
    fact(g, "neighbors_indices_overload_resizes_output_to_count_and_copies_the_first_count_indices", g_nbi,
         B + "const auto& n_count = neighbors_count(idx); const auto& n_indices = get_nb_indices_from_cache(idx); "
         "if (neighbors_indices.size() != n_count) { neighbors_indices.resize({ n_count }); } "
         "for (size_type i = 0; i < n_count; %s) { neighbors_indices[i] = n_indices[i]; } return neighbors_indices;" % _inc("i") + E)
    fact(g, "profile_neighbors_are_left_then_right_wrapping_at_the_ends_when_looped_count_by_end_code", p_nb_impl,
         B + "if (idx == 0) { if (m_bounds_status.is_horizontal_looped()) { neighbors[0] = m_size - 1; neighbors[1] = 1; } else { neighbors[0] = 1; } } "
         "else if (idx == m_size - 1) { neighbors[0] = m_size - 2; if (m_bounds_status.is_horizontal_looped()) { neighbors[1] = 0; } } "
         "else { for (std::size_t k = 1; k < 3; %s) { std::size_t nb_idx = detail::add_offset(idx, offsets[k]); neighbors[k - 1] = nb_idx; } }" % _inc("k") + E,
         pg, "static constexpr std::array<std::ptrdiff_t, 3> offsets{ { 0, -1, 1 } };", p_count, B + "return m_neighbors_count[gcode(idx)];" + E,
         p_gcode, "m_gcode_idx.fill(1); m_gcode_idx[0] = 0; m_gcode_idx[m_size - 1] = 2;" + E)

    # ------------------------------------------------------------------ table sizes, index iterator (C08)
    impl_ctor = func_body(fg, r"\bflow_graph_impl\s*\(\s*grid_type& grid,\s*bool single_flow\s*=\s*false\s*\)", "flow_graph_impl constructor")
    itc = func_body(it, r"struct grid_node_index_iterator\b", "grid_node_index_iterator")
    it_ctor = func_body(itc, r"grid_node_index_iterator\s*\(\s*const G& grid,", "index iterator constructor")
    it_inc = func_body(itc, r"self_type& operator\+\+\s*\(\s*\)", "index iterator operator++")
    it_dec = func_body(itc, r"self_type& operator--\s*\(\s*\)", "index iterator operator--")
    it_deref = func_body(itc, r"reference operator\*\s*\(\s*\)\s*const", "index iterator operator*")
    gni = func_body(it, r"class grid_nodes_indices\s*\{", "class grid_nodes_indices")
    gni_ctor = func_body(gni, r"grid_nodes_indices\s*\(\s*const G& grid,", "grid_nodes_indices constructor")
    gni_begin = func_body(gni, r"iterator begin\s*\(\s*\)\s*const", "grid_nodes_indices::begin")
    gni_end = func_body(gni, r"iterator end\s*\(\s*\)\s*const", "grid_nodes_indices::end")
    in_bounds = _par("m_idx < m_grid.size()") + " && " + _par("!m_filter_func(m_grid, m_idx)")
    g = "C08"
    fact(g, "receivers_width_is_n_neighbors_max_or_one_when_single_flow", impl_ctor,
         B + "size_type n_receivers_max = grid_type::n_neighbors_max(); if (single_flow) {? n_receivers_max = 1; }?")
    fact(g, "receivers_tables_have_grid_size_rows_and_that_width_indices_and_distances_minus_one_counts_and_weights_zero", impl_ctor,
         "const shape_type receivers_shape = { grid.size(), n_receivers_max };", impl_ctor,
         "m_receivers = xt::ones<size_type>(receivers_shape) * -1; m_receivers_count = xt::zeros<size_type>({ grid.size() }); "
         "m_receivers_distance = xt::ones<data_type>(receivers_shape) * -1; m_receivers_weight = xt::zeros<data_type>(receivers_shape);")
    fact(g, "donors_table_has_grid_size_rows_and_n_neighbors_max_plus_one_columns_counts_zero", impl_ctor,
         "const shape_type donors_shape = { grid.size(), grid_type::n_neighbors_max() + 1 };", impl_ctor,
         "m_donors = xt::ones<size_type>(donors_shape) * -1; m_donors_count = xt::zeros<size_type>({ grid.size() });")
    fact(g, "dfs_and_bfs_index_arrays_have_grid_size_entries_bfs_levels_one_more", impl_ctor,
         "m_dfs_indices = xt::ones<size_type>({ grid.size() }) * -1; m_bfs_indices = xt::ones<size_type>({ grid.size() }) * -1; "
         "m_bfs_levels = xt::ones<size_type>({ grid.size() + 1 }) * -1;")
    fact(g, "storage_indices_are_zero_to_grid_size_any_order_levels_are_zero_and_size_basins_have_grid_size", impl_ctor,
         "m_storage_indices = xt::arange<size_type>(0, grid.size(), 1); m_any_order_levels = nodes_indices_type({ 0, size() });", impl_ctor,
         "m_basins = xt::empty<size_type>({ grid.size() });")
    fact(g, "index_iterator_constructor_advances_while_in_bounds_and_filter_fails_bounds_tested_first", it_ctor,
         B + "while (" + in_bounds + ") { ++m_idx; }" + E)
    fact(g, "index_iterator_increment_steps_once_then_while_in_bounds_and_filter_fails_bounds_tested_first", it_inc,
         B + "do { ++m_idx; } while (" + in_bounds + "); return *this;" + E)
    fact(g, "index_iterator_decrement_steps_once_then_while_positive_and_filter_fails_bounds_tested_first", it_dec,
         B + "do { --m_idx; } while (" + _par("m_idx > 0") + " && " + _par("!m_filter_func(m_grid, m_idx)") + "); return *this;" + E)
    fact(g, "index_iterator_dereference_returns_the_index_by_value", it_deref, B + "return m_idx;" + E,
         it, "xtl::xbidirectional_iterator_base<grid_node_index_iterator<G>, typename G::size_type, std::ptrdiff_t, const typename G::size_type*, typename G::size_type>")
    fact(g, "nodes_indices_begin_at_zero_end_at_grid_size_default_filter_accepts_all", gni_begin, B + "return iterator(m_grid, m_filter_func, 0);" + E,
         gni_end, B + "return iterator(m_grid, m_filter_func, m_grid.size());" + E,
         gni_ctor, B + "if (!func) { m_filter_func = [](const G&, typename G::size_type) { return true; }; } else { m_filter_func = func; }" + E)

    # ------------------------------------------------------------------ kernel application (C10)
    k_seq = func_body(gi, FG + r"apply_kernel_seq\s*\(", "apply_kernel_seq")
    k_par = func_body(gi, FG + r"apply_kernel_par\s*\(", "apply_kernel_par")
    k_any = func_body(gi, FG + r"apply_kernel\s*\(", "apply_kernel")
    bad_index = "{ throw std::runtime_error(@); } «;?»"
    g = "C10"
    fact(g, "seq_indices_are_storage_for_any_bfs_for_breadth_upstream_dfs_for_depth_upstream_else_throws", k_seq,
         "switch (kernel.apply_dir) { case flow_graph_traversal_dir::any: indices = &impl().storage_indices(); break; "
         "case flow_graph_traversal_dir::breadth_upstream: indices = &impl().bfs_indices(); break; "
         "case flow_graph_traversal_dir::depth_upstream: indices = &impl().dfs_indices(); break; default: throw std::runtime_error(@); «(?:break;)?» }")
    fact(g, "seq_one_node_data_created_initialised_when_init_given_and_freed_after_the_loop", k_seq,
         "} auto new_node_data = kernel.node_data_create(); if (kernel.node_data_init) {? kernel.node_data_init(new_node_data, data.data); }? "
         "for (std::size_t i : *indices) {", k_seq, "} kernel.node_data_free(new_node_data); return 0;" + E)
    fact(g, "seq_each_index_in_order_getter_throwing_on_failure_then_func_then_setter", k_seq,
         "for (std::size_t i : *indices) { if (kernel.node_data_getter(i, data.data, new_node_data)) " + bad_index +
         " kernel.func(new_node_data); kernel.node_data_setter(i, new_node_data, data.data); }")
    fact(g, "par_indices_and_levels_are_storage_and_any_order_for_any_bfs_for_breadth_upstream_else_throws", k_par,
         "switch (kernel.apply_dir) { case flow_graph_traversal_dir::any: indices = &impl().storage_indices(); levels = &impl().any_order_levels(); break; "
         "case flow_graph_traversal_dir::breadth_upstream: indices = &impl().bfs_indices(); levels = &impl().bfs_levels(); break; "
         "default: throw std::runtime_error(@); «(?:break;)?» }")
    fact(g, "par_pool_resumed_then_resized_to_the_kernel_thread_count", k_par,
         "} auto n_threads = kernel.n_threads; m_thread_pool.resume(); m_thread_pool.resize(n_threads);")
    fact(g, "par_one_node_data_per_thread_created_and_initialised_when_init_given", k_par,
         "std::vector<decltype(kernel.node_data_create())> node_data(n_threads); for (auto i = 0; i < n_threads; %s) { node_data[i] = kernel.node_data_create(); "
         "if (kernel.node_data_init) {? kernel.node_data_init(node_data[i], data.data); }? }" % _inc("i"))
    fact(g, "par_run_visits_block_positions_in_order_getter_func_setter_on_indices_at_i_with_the_runner_node_data", k_par,
         "auto run = [@](std::size_t runner, std::size_t start, std::size_t end) { for (auto i = start; i < end; %s) { auto node_idx = (*indices)[i]; "
         "auto n_data = node_data[runner]; if (kernel.node_data_getter(node_idx, data.data, n_data)) " % _inc("i") + bad_index +
         " kernel.func(n_data); kernel.node_data_setter(node_idx, n_data, data.data); } };")
    fact(g, "par_levels_loop_from_one_first_and_after_last_read_from_the_levels_array", k_par,
         "for (std::size_t i = 1; i < levels->size(); %s) { const size_type first_idx = (*levels)[i - 1]; const size_type after_last_idx = (*levels)[i]; "
         "const size_type level_size = after_last_idx - first_idx;" % _inc("i"))
    fact(g, "par_level_below_min_level_size_run_by_the_caller_as_runner_zero_else_run_blocks_with_min_block_size", k_par,
         "const size_type level_size = after_last_idx - first_idx; if (level_size < kernel.min_level_size) {? run(0, first_idx, after_last_idx); }? "
         "else {? m_thread_pool.run_blocks(first_idx, after_last_idx, run, kernel.min_block_size); }? }")
    fact(g, "par_node_data_freed_per_thread_then_pool_paused", k_par,
         "} for (std::size_t i = 0; i < n_threads; %s) {? kernel.node_data_free(node_data[i]); }? m_thread_pool.pause(); return 0;" % _inc("i") + E)
    fact(g, "apply_kernel_runs_par_above_one_thread_else_seq", k_any,
         "if (kernel.n_threads > 1) {? ret = apply_kernel_par(kernel, data); }? else {? ret = apply_kernel_seq(kernel, data); }? return ret;" + E)

    # ------------------------------------------------------------------ block partition (C11)
    b_ctor = func_body(tp, r"thread_pool<T>::blocks::blocks\s*\(", "blocks constructor")
    b_start = func_body(tp, r"thread_pool<T>::blocks::start\s*\(", "blocks::start")
    b_end = func_body(tp, r"thread_pool<T>::blocks::end\s*\(", "blocks::end")
    b_num = func_body(tp, r"thread_pool<T>::blocks::num_blocks\s*\(", "blocks::num_blocks")
    b_run = func_body(tp, r"void thread_pool<T>::run_blocks\s*\(", "run_blocks")
    g = "C11"
    fact(g, "blocks_members_initialised_with_first_index_index_after_last_and_requested_number_of_blocks", tp,
         "thread_pool<T>::blocks::blocks(@) : m_first_index(first_index_), m_index_after_last(index_after_last_), m_num_blocks(num_blocks_) {")
    fact(g, "non_empty_range_total_size_is_index_after_last_minus_first_index", b_ctor,
         B + "if (m_index_after_last > m_first_index) { const std::size_t total_size = static_cast<size_t>(m_index_after_last - m_first_index);")
    fact(g, "number_of_blocks_capped_by_the_total_size", b_ctor,
         "(m_index_after_last - m_first_index); if (m_num_blocks > total_size) {? m_num_blocks = total_size; }?")
    fact(g, "then_blocks_smaller_than_min_size_make_the_number_max_of_one_and_total_over_min_size", b_ctor,
         "m_num_blocks = total_size; }? if (total_size / m_num_blocks < min_size_) {? m_num_blocks = std::max(std::size_t{ 1 }, total_size / min_size_); }?")
    fact(g, "then_block_size_is_total_over_number_and_remainder_is_total_modulo_number", b_ctor,
         "total_size / min_size_); }? m_block_size = total_size / m_num_blocks; m_remainder = total_size % m_num_blocks;")
    fact(g, "then_zero_block_size_becomes_one_with_as_many_blocks_as_elements", b_ctor,
         "m_remainder = total_size % m_num_blocks; if (m_block_size == 0) { m_block_size = 1; m_num_blocks = (total_size > 1) ? total_size : 1; } }")
    fact(g, "empty_range_has_zero_blocks", b_ctor, "} else { m_num_blocks = 0; }" + E, b_num, B + "return m_num_blocks;" + E)
    fact(g, "start_is_first_index_plus_block_times_block_size_plus_min_of_block_and_remainder", b_start,
         B + "return m_first_index + static_cast<T>(block * m_block_size) + static_cast<T>(block < m_remainder ? block : m_remainder);" + E)
    fact(g, "end_is_index_after_last_for_the_last_block_else_the_start_of_the_next_block", b_end,
         B + "return " + _par("block == m_num_blocks - 1") + " ? m_index_after_last : start(block + 1);" + E)
    fact(g, "run_blocks_on_non_empty_range_partitions_over_pool_size_with_min_size_one_job_per_block_others_null", b_run,
         "if (index_after_last > first_index) { const blocks blks(first_index, index_after_last, m_size, min_size); for (T i = 0; i < m_size; %s) { "
         "if (i < blks.num_blocks()) {? p_jobs[i] = [i, func = std::forward<F>(func), start = blks.start(i), end = blks.end(i)]() { func(i, start, end); }; }? "
         "else {? p_jobs[i] = nullptr; }? } set_tasks(p_jobs); run_tasks(); wait(); }" % _inc("i"))

    # ------------------------------------------------------------------ snapshots, read-only graphs (C16)
    snap = func_body(fs, r"class\s+flow_operator_impl<\s*FG,\s*flow_snapshot,\s*flow_graph_fixed_array_tag\s*>", "snapshot impl class")
    s_save = func_body(snap, r"void save\s*\(", "snapshot save")
    s_get_g = func_body(snap, r"FG& get_snapshot\s*\(", "get_snapshot(graph)")
    s_get_e = func_body(snap, r"data_array_type& get_snapshot\s*\(", "get_snapshot(elevation)")
    s_save_g = func_body(snap, r"void _save\s*\(\s*const FG& graph_impl,", "_save(graph)")
    s_save_e = func_body(snap, r"void _save\s*\(\s*const data_array_type& elevation,", "_save(elevation)")
    g_ctor = func_body(gi, FG + r"flow_graph\s*\(\s*G& grid,\s*operators_type operators\s*\)", "flow_graph constructor")
    g_routes = func_body(gi, FG + r"update_routes\s*\(", "flow_graph update_routes")
    g_setbl = func_body(gi, FG + r"set_base_levels\s*\(", "flow_graph set_base_levels")
    g_setmask = func_body(gi, FG + r"set_mask\s*\(", "flow_graph set_mask")
    i_setbl = func_body(fg, r"void set_base_levels\s*\(\s*const C& levels\s*\)", "impl set_base_levels")
    g = "C16"
    fact(g, "save_copies_graph_then_elevation_each_only_when_requested_into_the_snapshot_of_that_name", s_save,
         B + "if (this->m_op_ptr->save_graph()) { _save(graph_impl, get_snapshot(graph_impl_snapshots)); } "
         "if (this->m_op_ptr->save_elevation()) { _save(elevation, get_snapshot(elevation_snapshots)); }" + E,
         s_get_g, B + "return *(graph_impl_snapshots.at(this->m_op_ptr->snapshot_name()));" + E,
         s_get_e, B + "return *(elevation_snapshots.at(this->m_op_ptr->snapshot_name()));" + E)
    fact(g, "elevation_snapshot_is_assigned_a_copy_of_the_elevation", s_save_e, B + "elevation_snapshot = elevation;" + E)
    fact(g, "graph_snapshot_copies_counts_orders_levels_donors_base_levels_and_mask_members", s_save_g,
         B + " ".join("graph_impl_snapshot.%s = graph_impl.%s;" % (m, m) for m in (
             "m_receivers_count", "m_donors_count", "m_dfs_indices", "m_bfs_indices", "m_bfs_levels", "m_donors", "m_base_levels", "m_mask", "m_mask_initialized"))
         + " if (graph_impl_snapshot.single_flow()) {")
    fact(g, "graph_snapshot_copies_column_zero_of_receivers_tables_when_single_flow_else_the_whole_tables", s_save_g,
         "if (graph_impl_snapshot.single_flow()) { auto receivers_col = xt::col(graph_impl_snapshot.m_receivers, 0); receivers_col = xt::col(graph_impl.m_receivers, 0); "
         "auto receivers_distance_col = xt::col(graph_impl_snapshot.m_receivers_distance, 0); receivers_distance_col = xt::col(graph_impl.m_receivers_distance, 0); "
         "auto receivers_weight_col = xt::col(graph_impl_snapshot.m_receivers_weight, 0); receivers_weight_col = xt::col(graph_impl.m_receivers_weight, 0); } "
         "else { graph_impl_snapshot.m_receivers = graph_impl.m_receivers; graph_impl_snapshot.m_receivers_distance = graph_impl.m_receivers_distance; "
         "graph_impl_snapshot.m_receivers_weight = graph_impl.m_receivers_weight; }" + E)
    fact(g, "update_routes_applies_then_saves_each_operator_in_sequence_order_with_the_current_graph_and_elevation", g_routes,
         "for (auto op = m_operators.impl_begin(); op != m_operators.impl_end(); %s) { op->apply(*m_impl_ptr, *elevation_ptr, m_thread_pool); "
         "op->save(*m_impl_ptr, m_graph_impl_snapshots, *elevation_ptr, m_elevation_snapshots); } return *elevation_ptr;" % _inc("op") + E)
    fact(g, "graph_snapshots_preallocated_per_key_as_graphs_of_the_recorded_flow_kind_sharing_their_impl", g_ctor,
         "for (const auto& key : m_operators.graph_snapshot_keys()) { bool single_flow = m_operators.snapshot_single_flow(key); "
         "auto graph = new self_type(grid, single_flow); m_graph_snapshots.insert({ key, std::unique_ptr<self_type>(std::move(graph)) }); "
         "m_graph_impl_snapshots.insert({ key, (*m_graph_snapshots.at(key)).m_impl_ptr }); }")
    fact(g, "elevation_snapshots_preallocated_per_key_with_the_grid_shape", g_ctor,
         "for (const auto& key : m_operators.elevation_snapshot_keys()) { auto snapshot = data_array_type::from_shape(grid.shape()); "
         "m_elevation_snapshots.insert({ key, std::make_unique<data_array_type>(std::move(snapshot)) }); }")
    fact(g, "snapshot_graphs_are_constructed_not_writeable_other_graphs_writeable", gi,
         "flow_graph<G, S, Tag>::flow_graph(grid_type& grid, bool single_flow) : m_writeable(false),", gh, "bool m_writeable = true;")
    guard = B + "if (!m_writeable) { throw std::runtime_error(@); }"
    fact(g, "update_routes_throws_first_when_the_graph_is_not_writeable", g_routes, guard + " data_array_type* elevation_ptr;")
    fact(g, "set_base_levels_throws_when_not_writeable_else_replaces_the_set_of_the_impl", g_setbl, guard + " m_impl_ptr->set_base_levels(levels);" + E,
         i_setbl, B + "m_base_levels.clear(); m_base_levels.insert(levels.begin(), levels.end());" + E)
    fact(g, "set_mask_throws_when_not_writeable_then_on_shape_mismatch_else_forwards_to_the_impl", g_setmask,
         guard + " if (!xt::same_shape(mask.shape(), m_grid.shape())) { throw std::runtime_error(@); } m_impl_ptr->set_mask(std::forward<C>(mask));" + E)

    # ------------------------------------------------------------------ node status (C17)
    r_status = func_body(rg, R + r"set_nodes_status\s*\(", "raster set_nodes_status")
    r_sym = func_body(rg, r"raster_boundary_status::check_looped_symmetrical\s*\(\s*\)", "raster check_looped_symmetrical")
    r_hl = func_body(rg, r"raster_boundary_status::is_horizontal_looped\s*\(\s*\)", "raster is_horizontal_looped")
    r_vl = func_body(rg, r"raster_boundary_status::is_vertical_looped\s*\(\s*\)", "raster is_vertical_looped")
    s_looped = func_body(sg, r"boundary_status::is_looped\s*\(", "boundary_status::is_looped")
    p_status = func_body(pg, P + r"set_nodes_status\s*\(", "profile set_nodes_status")
    p_sym = func_body(pg, r"profile_boundary_status::check_looped_symmetrical\s*\(\s*\)", "profile check_looped_symmetrical")
    p_hl = func_body(pg, r"profile_boundary_status::is_horizontal_looped\s*\(\s*\)", "profile is_horizontal_looped")
    g_ni = func_body(gb, G + r"nodes_indices\s*\(\s*node_status status\s*\)", "nodes_indices(status)")
    cmp_ = func_body(gb, r"bool node_status_cmp\s*\(", "node_status_cmp")
    x_chk = func_body(xc, r"static void check_size\s*\(", "check_size")
    views = {k: func_body(xc, r"static auto get_%s_view\s*\(" % k, "get_%s_view" % k) for k in ("top", "bottom", "left", "right")}
    looped_checks = ("if (status == node_status::looped) { throw std::invalid_argument(@); } else if (%s == node_status::looped) "
                     "{ throw std::invalid_argument(@); } %s = status; } m_nodes_status = temp_nodes_status;")
    g = "C17"
    fact(g, "raster_status_starts_all_core_then_borders_assigned_left_right_top_bottom_in_that_order", r_status,
         B + "nodes_status_type temp_nodes_status = container_impl<nodes_status_type>::init(m_shape, node_status::core);", r_status,
         "container_impl<container_type>::get_left_view(temp_nodes_status) = m_bounds_status.left; "
         "container_impl<container_type>::get_right_view(temp_nodes_status) = m_bounds_status.right; "
         "container_impl<container_type>::get_top_view(temp_nodes_status) = m_bounds_status.top; "
         "container_impl<container_type>::get_bottom_view(temp_nodes_status) = m_bounds_status.bottom; std::vector<corner_node> corners")
    fact(g, "border_views_are_first_and_last_column_first_and_last_row", views["top"], B + "return xt::view(data, 0, xt::all());" + E,
         views["bottom"], B + "return xt::view(data, xt::keep(-1), xt::all());" + E, views["left"], B + "return xt::view(data, xt::all(), 0);" + E,
         views["right"], B + "return xt::view(data, xt::all(), xt::keep(-1));" + E)
    fact(g, "raster_four_corners_listed_with_their_row_border_and_column_border_status", r_status,
         "const auto nrows = static_cast<size_type>(m_shape[0]); const auto ncols = static_cast<size_type>(m_shape[1]);", r_status,
         "std::vector<corner_node> corners = { { 0, 0, m_bounds_status.top, m_bounds_status.left }, { 0, ncols - 1, m_bounds_status.top, m_bounds_status.right }, "
         "{ nrows - 1, 0, m_bounds_status.bottom, m_bounds_status.left }, { nrows - 1, ncols - 1, m_bounds_status.bottom, m_bounds_status.right } };",
         rg, "struct corner_node { size_type row; size_type col; node_status row_border; node_status col_border; };")
    fact(g, "raster_corner_status_is_the_max_of_its_two_borders_by_status_priority_assigned_after_the_borders", r_status,
         "m_bounds_status.right } }; for (const auto& c : corners) { node_status cs = std::max(c.row_border, c.col_border, detail::node_status_cmp); "
         "temp_nodes_status(c.row, c.col) = cs; } for (const auto& [idx, status] : nodes_status)", cmp_, "return priority[a] < priority[b];" + E)
    fact(g, "raster_overrides_check_range_then_reject_looped_then_reject_overwriting_looped_then_assign_then_status_published", r_status,
         "for (const auto& [idx, status] : nodes_status) { container_impl<container_type>::check_size(temp_nodes_status, idx.first, idx.second); "
         + looped_checks % ("temp_nodes_status(idx.first, idx.second)", "temp_nodes_status(idx.first, idx.second)") + E,
         x_chk, B + "if (row_index >= data.shape(0) || col_index >= data.shape(1)) {? throw std::out_of_range(@); }?" + E)
    fact(g, "raster_boundary_status_constructors_take_left_right_top_bottom_then_check_symmetry", rg,
         "raster_boundary_status::raster_boundary_status(node_status status) : left(status), right(status), top(status), bottom(status) { check_looped_symmetrical(); }",
         rg, "raster_boundary_status::raster_boundary_status(const std::array<node_status, 4>& status) : left(status[0]), right(status[1]), top(status[2]), "
         "bottom(status[3]) { check_looped_symmetrical(); }")
    fact(g, "raster_looped_borders_must_come_in_opposite_pairs_looped_means_status_looped", r_sym,
         B + "if (is_looped(left) ^ is_looped(right) || is_looped(top) ^ is_looped(bottom)) { throw std::invalid_argument(@); }" + E,
         r_hl, B + "return is_looped(left) && is_looped(right);" + E, r_vl, B + "return is_looped(top) && is_looped(bottom);" + E,
         s_looped, B + "return status == node_status::looped;" + E)
    fact(g, "profile_status_starts_core_then_first_and_last_node_from_bounds_then_overrides_with_the_looped_checks", p_status,
         B + "nodes_status_type temp_nodes_status(m_shape, node_status::core); temp_nodes_status(0) = m_bounds_status.left; "
         "temp_nodes_status(m_size - 1) = m_bounds_status.right; for (const auto& [idx, status] : nodes_status) { "
         + looped_checks % ("temp_nodes_status.at(idx)", "temp_nodes_status.at(idx)") + E)
    fact(g, "profile_boundary_status_constructors_check_symmetry_of_looped_ends", p_sym,
         B + "if (is_looped(left) ^ is_looped(right)) { throw std::invalid_argument(@); }" + E, p_hl, B + "return is_looped(left) && is_looped(right);" + E,
         pg, "profile_boundary_status::profile_boundary_status(node_status left_status, node_status right_status) : left(left_status), right(right_status) "
         "{ check_looped_symmetrical(); }", pg, "profile_boundary_status::profile_boundary_status(node_status status) : left(status), right(status) { check_looped_symmetrical(); }",
         pg, "profile_boundary_status::profile_boundary_status(const std::array<node_status, 2>& status) : left(status[0]), right(status[1]) { check_looped_symmetrical(); }")
    fact(g, "nodes_indices_of_a_status_keeps_the_nodes_whose_flat_status_equals_it", g_ni,
         "return grid_nodes_indices<G>(derived, [@](const grid& grid, size_type idx) { return grid.nodes_status().flat(idx) == status; });" + E)
    fact(g, "default_base_levels_are_the_fixed_value_nodes_set_after_the_constructor_checks", g_ctor,
         "} m_impl_ptr->set_base_levels(m_grid.nodes_indices(node_status::fixed_value)); for (const auto& key : m_operators.graph_snapshot_keys())")

    # ------------------------------------------------------------------ triangular mesh (C18)
    t_hash = func_body(tm, r"struct tri_edge_hash\s*\{", "tri_edge_hash")
    t_equal = func_body(tm, r"struct tri_edge_equal\s*\{", "tri_edge_equal")
    t_size = func_body(tm, T + r"set_size_shape\s*\(", "trimesh set_size_shape")
    t_nb = func_body(tm, T + r"set_neighbors\s*\(", "trimesh set_neighbors")
    t_area = func_body(tm, T + r"set_nodes_areas\s*\(", "trimesh set_nodes_areas")
    t_st_map = func_body(tm, T + r"set_nodes_status\s*\(\s*const nodes_status_map_type& nodes_status\s*\)", "trimesh set_nodes_status(map)")
    t_st_arr = func_body(tm, T + r"set_nodes_status\s*\(\s*const nodes_status_array_type& nodes_status\s*\)", "trimesh set_nodes_status(array)")
    t_count = func_body(tm, T + r"neighbors_count_impl\s*\(", "trimesh neighbors_count_impl")
    t_nbi = func_body(tm, T + r"neighbors_indices_impl\s*\(", "trimesh neighbors_indices_impl")
    t_dist = func_body(tm, T + r"neighbors_distances_impl\s*\(", "trimesh neighbors_distances_impl")
    t_area1 = func_body(tm, T + r"nodes_areas_impl" + idx_arg, "trimesh nodes_areas_impl(idx)")
    steps = "{ set_size_shape(points, triangles); set_neighbors(points, triangles); set_nodes_status(nodes_status); set_nodes_areas(points, triangles); }"
    g = "C18"
    fact(g, "edge_keys_hash_and_compare_equal_regardless_of_orientation", t_hash, "return h1 ^ h2;",
         t_equal, "if (p1.first == p2.second && p1.second == p2.first) { return true; } else { return p1.first == p2.first && p1.second == p2.second; }")
    fact(g, "constructors_set_size_then_neighbors_then_status_then_areas_size_is_the_number_of_points", tm,
         "const nodes_status_map_type& nodes_status) : base_type(0), m_nodes_points(points) " + steps,
         tm, "const nodes_status_array_type& nodes_status) : base_type(0), m_nodes_points(points) " + steps,
         t_size, "m_size = points.shape()[0]; m_shape = { static_cast<typename shape_type::value_type>(m_size) };" + E)
    fact(g, "each_of_the_three_edges_of_each_triangle_inserted_with_count_one_or_incremented_when_present", t_nb,
         "edge_map edges_count; const std::array<std::array<size_type, 2>, 3> tri_local_indices{ { { 1, 2 }, { 2, 0 }, { 0, 1 } } }; "
         "size_type n_triangles = triangles.shape()[0]; for (size_type i = 0; i < n_triangles; %s) { for (const auto& edge_idx : tri_local_indices) { "
         "const edge_type key(triangles(i, edge_idx[0]), triangles(i, edge_idx[1])); auto result = edges_count.insert({ key, 1 }); "
         "if (!result.second) { result.first->second += 1; } } }" % _inc("i"))
    fact(g, "adjacency_reset_to_mesh_size_then_both_ends_of_an_edge_counted_once_are_boundary_nodes", t_nb,
         "m_boundary_nodes.clear(); m_neighbors_indices.resize(m_size); m_neighbors_distances.resize(m_size); for (const auto& edge : edges_count) { "
         "const edge_type& edge_points = edge.first; size_type count = edge.second; if (count == 1) { m_boundary_nodes.insert(edge_points.first); "
         "m_boundary_nodes.insert(edge_points.second); }")
    fact(g, "each_edge_appends_each_end_to_the_neighbors_of_the_other_with_the_euclidean_distance", t_nb,
         "m_boundary_nodes.insert(edge_points.second); } m_neighbors_indices[edge_points.first].push_back(edge_points.second); "
         "m_neighbors_indices[edge_points.second].push_back(edge_points.first); const auto x1 = points(edge_points.first, 0); "
         "const auto y1 = points(edge_points.first, 1); const auto x2 = points(edge_points.second, 0); const auto y2 = points(edge_points.second, 1); "
         "auto distance = std::sqrt(%s); m_neighbors_distances[edge_points.first].push_back(distance); "
         "m_neighbors_distances[edge_points.second].push_back(distance); }" % _par("(x1 - x2) * (x1 - x2) + (y1 - y2) * (y1 - y2)"))
    fact(g, "node_with_more_neighbors_than_n_rejected_after_the_adjacency_is_built", t_nb,
         "push_back(distance); } for (const auto& node_neighbors : m_neighbors_indices) { if (node_neighbors.size() > static_cast<size_type>(N)) "
         "{ throw std::invalid_argument(@); } }" + E)
    fact(g, "status_from_map_starts_core_given_statuses_assigned_rejecting_looped_empty_map_sets_fixed_value_at_boundary_nodes", t_st_map,
         B + "nodes_status_type temp_nodes_status(m_shape, node_status::core); if (nodes_status.size() > 0) { for (const auto& [idx, status] : nodes_status) { "
         "if (status == node_status::looped) { throw std::invalid_argument(@); } temp_nodes_status.at(idx) = status; } } else { "
         "for (const size_type& idx : m_boundary_nodes) { temp_nodes_status[idx] = node_status::fixed_value; } } m_nodes_status = temp_nodes_status;" + E)
    fact(g, "status_from_array_checks_the_shape_then_copies_the_array", t_st_arr,
         B + "if (!xt::same_shape(nodes_status.shape(), m_shape)) { throw std::invalid_argument(@); } m_nodes_status = nodes_status;" + E)
    fact(g, "areas_half_edge_vectors_per_triangle_their_squared_lengths_and_pairwise_dot_products", t_area,
         "std::array<std::array<size_type, 2>, 3> local_idx{ { { 1, 2 }, { 2, 0 }, { 0, 1 } } };", t_area,
         "for (size_type t = 0; t < n_triangles; %s) { for (size_type i = 0; i < 3; %s) { auto v1 = local_idx[i][0]; auto v2 = local_idx[i][1]; "
         "for (size_type j = 0; j < 2; %s) { auto p1 = triangles(t, v1); auto p2 = triangles(t, v2); half_edge_coords(i, t, j) = points(p2, j) - points(p1, j); } } } "
         "xt::xtensor<double, 2> ei_dot_ei = xt::sum(half_edge_coords * half_edge_coords, 2); "
         "xt::xtensor<double, 2> ei_dot_ej = ei_dot_ei - xt::sum(ei_dot_ei, 0) / 2.0;" % (_inc("t"), _inc("i"), _inc("j")))
    fact(g, "areas_triangle_area_is_sqrt_of_quarter_of_the_sum_of_products_floored_at_the_smallest_positive_double", t_area,
         "double just_above_zero = std::numeric_limits<double>::min();", t_area,
         "for (size_type t = 0; t < n_triangles; %s) { double area_square = 0.25 * (ei_dot_ej(2, t) * ei_dot_ej(0, t) + ei_dot_ej(0, t) * ei_dot_ej(1, t) "
         "+ ei_dot_ej(1, t) * ei_dot_ej(2, t)); triangles_areas(t) = std::sqrt(std::max(area_square, just_above_zero)); }" % _inc("t"))
    fact(g, "areas_circumcentric_shares_per_half_edge_summed_per_vertex_into_weights", t_area,
         "auto ce_ratios = -ei_dot_ej * 0.25 / triangles_areas; xt::xtensor<double, 2> tri_partitions = ei_dot_ei / 2 * ce_ratios / (3 - 1);", t_area,
         "weights.resize({ n_triangles * 3 }); for (size_type t = 0; t < n_triangles; %s) { weights(t) = tri_partitions(1, t) + tri_partitions(2, t); "
         "weights(n_triangles + t) = tri_partitions(2, t) + tri_partitions(0, t); weights(n_triangles * 2 + t) = tri_partitions(0, t) + tri_partitions(1, t); }" % _inc("t"))
    fact(g, "areas_accumulated_per_node_by_bincount_over_the_transposed_triangles_isolated_nodes_get_the_smallest_positive_double", t_area,
         "auto triangles_t_flat = xt::flatten(xt::transpose(triangles)); m_nodes_areas = xt::bincount(triangles_t_flat, weights, n_points); "
         "for (size_type i = 0; i < n_points; %s) { if (m_nodes_areas(i) == 0 && neighbors_count_impl(i) == 0) { m_nodes_areas(i) = just_above_zero; } }" % _inc("i") + E,
         t_area1, B + "return m_nodes_areas(idx);" + E)
    fact(g, "mesh_neighbors_count_indices_and_distances_are_read_from_the_adjacency_lists_of_the_node", t_count, B + "return m_neighbors_indices[idx].size();" + E,
         t_nbi, B + "const auto& size = m_neighbors_indices[idx].size(); neighbors.resize(size); for (size_type i = 0; i < size; %s) "
         "{ neighbors[i] = m_neighbors_indices[idx][i]; }" % _inc("i") + E, t_dist, B + "return m_neighbors_distances[idx];" + E)

    # ------------------------------------------------------------------ operator sequence (C20)
    op_cls = func_body(fo, r"class flow_operator\s*\{", "class flow_operator")
    seq_cls = func_body(fo, r"class flow_operator_sequence\s*\{", "class flow_operator_sequence")
    o_add = func_body(fo, r"void flow_operator_sequence<FG>::add_operator\s*\(\s*std::shared_ptr<OP> ptr\s*\)", "add_operator")
    o_snap = func_body(fs, r"void flow_operator_sequence<FG>::update_snapshots\s*\(", "update_snapshots")
    g = "C20"
    fact(g, "operator_defaults_update_nothing_and_leave_both_directions_undefined", op_cls,
         "static constexpr bool elevation_updated = false;", op_cls, "static constexpr bool graph_updated = false;",
         op_cls, "static constexpr flow_direction in_flowdir = flow_direction::undefined;",
         op_cls, "static constexpr flow_direction out_flowdir = flow_direction::undefined;")
    fact(g, "sequence_starts_with_nothing_updated_direction_undefined_and_all_single_flow", seq_cls,
         "bool m_elevation_updated = false; bool m_graph_updated = false; flow_direction m_out_flowdir = flow_direction::undefined; bool m_all_single_flow = true;")
    fact(g, "snapshot_operator_registered_before_the_direction_check", o_add,
         "if constexpr (std::is_same_v<OP, flow_snapshot>) { update_snapshots(*ptr); } if (ptr->in_flowdir")
    fact(g, "defined_input_direction_must_equal_the_current_output_direction_else_throws", o_add,
         "if (ptr->in_flowdir != flow_direction::undefined && ptr->in_flowdir != m_out_flowdir) { throw std::invalid_argument(@); }")
    fact(g, "elevation_updated_accumulates_over_the_operators", o_add, "} if (ptr->elevation_updated) { m_elevation_updated = true; } if (ptr->graph_updated)")
    fact(g, "graph_updated_accumulates_and_only_then_a_defined_output_direction_replaces_the_current_one_non_single_clears_all_single_flow", o_add,
         "if (ptr->graph_updated) { m_graph_updated = true; if (ptr->out_flowdir != flow_direction::undefined) { m_out_flowdir = ptr->out_flowdir; "
         "if (ptr->out_flowdir != flow_direction::single) { m_all_single_flow = false; } } }")
    fact(g, "operator_and_its_implementation_appended_last", o_add,
         "} } } m_op_vec.push_back(ptr.get()); m_op_impl_vec.push_back(operator_impl_type(std::move(ptr)));" + E)
    fact(g, "graph_snapshot_requires_a_defined_direction_and_records_whether_it_is_single_elevation_snapshot_key_recorded", o_snap,
         B + "const auto& snapshot_name = snapshot.snapshot_name(); if (snapshot.save_graph()) { m_graph_snapshot_keys.push_back(snapshot_name); "
         "if (m_out_flowdir == flow_direction::undefined) { throw std::invalid_argument(@); } "
         "bool single_flow = m_out_flowdir == flow_direction::single «(?:\\?\\s*true\\s*:\\s*false)?»; "
         "m_graph_snapshot_single_flow.insert({ snapshot_name, single_flow }); } if (snapshot.save_elevation()) { m_elevation_snapshot_keys.push_back(snapshot_name); }" + E)
    fact(g, "graph_constructor_builds_the_impl_with_all_single_flow_then_throws_when_no_operator_updates_the_graph_then_when_direction_undefined", g_ctor,
         B + "m_impl_ptr = std::make_shared<impl_type>(grid, m_operators.all_single_flow()); if (!m_operators.graph_updated()) { throw std::invalid_argument(@); } "
         "if (m_operators.out_flowdir() == flow_direction::undefined) { throw std::invalid_argument(@); }")
    fact(g, "graph_constructor_allocates_the_elevation_copy_only_when_some_operator_updates_the_elevation", g_ctor,
         "if (m_operators.elevation_updated()) { m_elevation_copy = xt::empty<data_type>(grid.shape()); }" + E)
    fact(g, "update_routes_works_on_a_fresh_copy_of_the_elevation_iff_elevation_updated_else_on_the_argument_and_returns_it", g_routes,
         "data_array_type* elevation_ptr; if (m_operators.elevation_updated()) { m_elevation_copy = elevation; elevation_ptr = &m_elevation_copy; } "
         "else { elevation_ptr = const_cast<data_array_type*>(&elevation); } for (auto op = m_operators.impl_begin();", g_routes, "return *elevation_ptr;" + E)

    F.emit(out, info, "grid_shapes", ["C07", "C08", "C10", "C11", "C16", "C17", "C18", "C20"], "grids, graph tables, kernels, blocks, snapshots, status, operator sequence")


SECTIONS = [  # (name, function, properties whose tie depends on it)
    ("mesh_limits", mesh_limits, ["C08", "C18"]),
    ("raster_tables", raster_tables, ["C07", "C08"]),
    ("iterator_order", iterator_order, ["C08", "C17"]),
    ("op_flags", op_flags, ["C20", "C16"]),
    ("snapshot_members", snapshot_members, ["C16"]),
    ("pool_orders", pool_orders, ["C10", "C11", "C15"]),
    ("spl_forms", spl_forms, ["C12", "C13"]),
    ("flow_shapes", flow_shapes, ["C01","C02","C03","C04","C05","C06","C09","C12","C13","C14","C15","C19"]),
    ("grid_shapes", grid_shapes, ["C07","C08","C10","C11","C16","C17","C18","C20"]),
]
FALLBACK = os.path.join(HERE, "translate_fallback.json")


def main():
    """Each section is extracted on its own.  When a section's pattern is no longer found, the
    last known-good text of that section (translate_fallback.json, written with --save-fallback on
    the pinned tree) is emitted so that the rest of the model still builds, and the section is
    listed under `failed_sections`: check.py reports a broken tie for exactly the properties that
    depend on it."""
    out, info = [], {}
    texts, failed = {}, {}
    fb = json.load(open(FALLBACK)) if os.path.exists(FALLBACK) else {}
    for name, fn, props in SECTIONS:
        sec = []
        try:
            fn(sec, info)
            texts[name] = "\n\n".join(sec)
        except (Fail, FileNotFoundError, ValueError) as e:
            failed[name] = dict(why=str(e), properties=props)
            if name not in fb:
                print("TRANSLATE-FAIL %s (no fallback)" % e)
                sys.exit(2)
            texts[name] = "-- SECTION %s: PATTERN NOT FOUND IN THE CURRENT SOURCE (%s); last known-good values\n" % (name, e) + fb[name]
    if "--save-fallback" in sys.argv:
        if failed:
            print("TRANSLATE-FAIL cannot save fallback: %s" % failed)
            sys.exit(2)
        json.dump(texts, open(FALLBACK, "w"), indent=1)
    text = HEADER + "\n" + "\n\n".join(texts[name] for name, _, _ in SECTIONS) + "\n\nend Fs.Gen\n"
    old = None
    if os.path.exists(OUT):
        old = open(OUT).read()
    if old != text:
        with open(OUT, "w") as f:
            f.write(text)
    info["failed_sections"] = failed
    os.makedirs(os.path.dirname(INFO_OUT), exist_ok=True)
    with open(INFO_OUT, "w") as f:
        json.dump(info, f, indent=1, default=str)
    if failed:
        print("translate partial: sections %s not recognised (%s)" % (sorted(failed), "; ".join("%s: %s" % (k, v["why"]) for k, v in failed.items())))
    else:
        print("translate ok (%s)" % ("unchanged" if old == text else "rewritten"))


if __name__ == "__main__":
    main()
