import Proto.Dfs
import Batteries.Data.List.Perm
/-! Permutation half of the bottom-up DFS order (prototype). -/
namespace Proto.Dfs
open List

theorem nodup_reverse' {l : List Nat} : (reverse l).Nodup ↔ l.Nodup := by
  simp only [Nodup, pairwise_reverse]
  constructor <;> (intro h; exact h.imp (fun hab => Ne.symm hab))

theorem length_le_of_nodup_lt {l : List Nat} {n : Nat} (hn : l.Nodup) (hl : ∀ x, x ∈ l → x < n) :
    l.length ≤ n := by
  have : l ⊆ List.range n := fun x hx => List.mem_range.mpr (hl x hx)
  simpa using (List.subperm_of_subset hn this).length_le

structure G' (don : Nat → List Nat) (recv : Nat → Nat) (n : Nat) : Prop extends G don recv where
  don_nodup : ∀ s, (don s).Nodup
  don_lt : ∀ s d, d ∈ don s → d < n

/-- invariant of the drain loop -/
structure J (don : Nat → List Nat) (recv : Nat → Nat) (n : Nat) (st out : List Nat) : Prop where
  out_nodup : out.Nodup
  out_lt : ∀ x, x ∈ out → x < n
  st_nodup : st.Nodup
  st_sub : ∀ s, s ∈ st → s ∈ out
  recv_closed : ∀ x, x ∈ out → recv x ≠ x → recv x ∈ out
  done : ∀ x, x ∈ out → x ∉ st → ∀ d, d ∈ don x → d ∈ out
  pending : ∀ s, s ∈ st → ∀ d, d ∈ don s → d ∉ out

theorem J.pop {don recv n} (g : G' don recv n) {s : Nat} {st out : List Nat}
    (h : J don recv n (s :: st) out) : J don recv n ((don s).reverse ++ st) (out ++ don s) := by
  have hs_out : s ∈ out := h.st_sub s mem_cons_self
  have hs_notin : s ∉ st := (nodup_cons.mp h.st_nodup).1
  have hst_nodup : st.Nodup := (nodup_cons.mp h.st_nodup).2
  have hdisj : ∀ d, d ∈ don s → d ∉ out := h.pending s mem_cons_self
  refine ⟨?_, ?_, ?_, ?_, ?_, ?_, ?_⟩
  · -- out ++ don s nodup
    rw [nodup_append]
    refine ⟨h.out_nodup, g.don_nodup s, ?_⟩
    intro a ha b hb e; subst e; exact hdisj a hb ha
  · intro x hx
    rcases mem_append.mp hx with hx | hx
    · exact h.out_lt x hx
    · exact g.don_lt s x hx
  · rw [nodup_append]
    refine ⟨nodup_reverse'.mpr (g.don_nodup s), hst_nodup, ?_⟩
    intro a ha b hb e; subst e
    exact hdisj a (mem_reverse.mp ha) (h.st_sub a (mem_cons_of_mem _ hb))
  · intro x hx
    rcases mem_append.mp hx with hx | hx
    · exact mem_append_right _ (mem_reverse.mp hx)
    · exact mem_append_left _ (h.st_sub x (mem_cons_of_mem _ hx))
  · intro x hx hr
    rcases mem_append.mp hx with hx | hx
    · exact mem_append_left _ (h.recv_closed x hx hr)
    · rw [((g.inv x s).mp hx).1]; exact mem_append_left _ hs_out
  · intro x hx hxst d hd
    have hx1 : x ∉ (don s).reverse := fun hh => hxst (mem_append_left _ hh)
    have hx2 : x ∉ st := fun hh => hxst (mem_append_right _ hh)
    rcases mem_append.mp hx with hx | hx
    · by_cases hxs : x = s
      · subst hxs; exact mem_append_right _ hd
      · have : x ∉ s :: st := by
          intro hh; rcases mem_cons.mp hh with hh | hh
          · exact hxs hh
          · exact hx2 hh
        exact mem_append_left _ (h.done x hx this d hd)
    · exact absurd (mem_reverse.mpr hx) hx1
  · intro s' hs' e he
    have hrecv : recv e = s' ∧ e ≠ s' := (g.inv e s').mp he
    rcases mem_append.mp hs' with hs' | hs'
    · have hs'd : s' ∈ don s := mem_reverse.mp hs'
      intro hmem
      rcases mem_append.mp hmem with hmem | hmem
      · -- e already in out ⇒ its receiver s' is in out, but s' ∈ don s is not
        have : recv e ≠ e := by rw [hrecv.1]; exact fun hh => hrecv.2 hh.symm
        have := h.recv_closed e hmem this
        rw [hrecv.1] at this
        exact hdisj s' hs'd this
      · -- e ∈ don s ⇒ recv e = s, so s' = s, but s' ∈ don s means s' ≠ s
        have : recv e = s := ((g.inv e s).mp hmem).1
        have : s' = s := by rw [← hrecv.1, this]
        exact ((g.inv s' s).mp hs'd).2 this
    · intro hmem
      rcases mem_append.mp hmem with hmem | hmem
      · exact h.pending s' (mem_cons_of_mem _ hs') e he hmem
      · have : recv e = s := ((g.inv e s).mp hmem).1
        have : s' = s := by rw [← hrecv.1, this]
        exact hs_notin (this ▸ hs')

theorem drain_J {don recv n} (g : G' don recv n) (fuel : Nat) (st out : List Nat)
    (h : J don recv n st out) (hf : (n - out.length) + st.length < fuel) :
    J don recv n [] (drain don fuel st out) := by
  induction fuel generalizing st out with
  | zero => omega
  | succ f ih =>
    cases st with
    | nil => simpa [drain] using h
    | cons s st =>
      simp only [drain]
      have h' := h.pop g
      apply ih _ _ h'
      have hlen := length_le_of_nodup_lt h'.out_nodup h'.out_lt
      simp only [length_append, length_reverse, length_cons] at hf hlen ⊢
      omega

end Proto.Dfs
