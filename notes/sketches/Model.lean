import Model.Scalar
