/-! Worker-pool protocol, repaired configuration (notify under the mutex), N arbitrary:
invariant + progress ("no stuck state"). Function-style state. -/
namespace Proto.Pool2

inductive WPc | idle | runBlock | pLock | pInc | pWaitEnter | pWaiting | pReacquire | pDec | clear
deriving DecidableEq, Repr

inductive CPc
  | ready
  | rbSet | rbPub (k : Nat) | rbWait
  | paWait | paSet | paPub (k : Nat) | paSetPaused | paSpin
  | reLock | reNotify | reUnlock | reClear | reWait
deriving DecidableEq, Repr

inductive Op | runBlocks | pause | resume deriving DecidableEq, Repr

structure S where
  N : Nat
  flags : Nat → Bool
  w : Nat → WPc
  notified : Nat → Bool
  count : Nat
  mutex : Option Nat          -- some i, i < N: worker i; some N: the caller
  pauseJobs : Bool            -- which job vector `p_jobs` points to
  paused : Bool
  cpc : CPc
  ops : List Op

def upd {β} (f : Nat → β) (i : Nat) (v : β) : Nat → β := fun j => if j = i then v else f j
@[simp] theorem upd_same {β} (f : Nat → β) (i : Nat) (v : β) : upd f i v i = v := by simp [upd]
theorem upd_ne {β} (f : Nat → β) (i j : Nat) (v : β) (h : j ≠ i) : upd f i v j = f j := by simp [upd, h]

def stepW (s : S) (i : Nat) : Option S :=
  match s.w i with
  | .idle => if s.flags i then
      some { s with w := upd s.w i (if s.pauseJobs then .pLock else .runBlock) } else none
  | .runBlock => some { s with w := upd s.w i .clear }
  | .pLock => if s.mutex.isNone then some { s with mutex := some i, w := upd s.w i .pInc } else none
  | .pInc => some { s with count := s.count + 1, w := upd s.w i .pWaitEnter }
  | .pWaitEnter => some { s with mutex := none, notified := upd s.notified i false, w := upd s.w i .pWaiting }
  | .pWaiting => if s.notified i then some { s with w := upd s.w i .pReacquire } else none
  | .pReacquire => if s.mutex.isNone then some { s with mutex := some i, w := upd s.w i .pDec } else none
  | .pDec => some { s with count := s.count - 1, mutex := none, w := upd s.w i .clear }
  | .clear => some { s with flags := upd s.flags i false, w := upd s.w i .idle }

def allFlagsClear (s : S) : Bool := (List.range s.N).all (fun i => !s.flags i)

def stepC (s : S) : Option S :=
  match s.cpc with
  | .ready => match s.ops with
    | [] => none
    | .runBlocks :: r => some { s with ops := r, cpc := .rbSet }
    | .pause :: r => some { s with ops := r, cpc := if s.paused then .ready else .paWait }
    | .resume :: r => some { s with ops := r, cpc := if s.paused then .reLock else .ready }
  | .rbSet => some { s with pauseJobs := false, cpc := .rbPub 0 }
  | .rbPub k => if k < s.N then some { s with flags := upd s.flags k true, cpc := .rbPub (k + 1) }
                else some { s with cpc := .rbWait }
  | .rbWait => if allFlagsClear s then some { s with cpc := .ready } else none
  | .paWait => if allFlagsClear s then some { s with cpc := .paSet } else none
  | .paSet => some { s with pauseJobs := true, cpc := .paPub 0 }
  | .paPub k => if k < s.N then some { s with flags := upd s.flags k true, cpc := .paPub (k + 1) }
                else some { s with cpc := .paSetPaused }
  | .paSetPaused => some { s with paused := true, cpc := .paSpin }
  | .paSpin => if s.count = s.N then some { s with cpc := .ready } else none
  | .reLock => if s.mutex.isNone then some { s with mutex := some s.N, cpc := .reNotify } else none
  | .reNotify => some { s with notified := fun i => s.notified i || (s.w i == .pWaiting), cpc := .reUnlock }
  | .reUnlock => some { s with mutex := none, cpc := .reClear }
  | .reClear => some { s with paused := false, cpc := .reWait }
  | .reWait => if allFlagsClear s then some { s with cpc := .ready } else none

def step (s : S) (t : Nat) : Option S := if t = s.N then stepC s else if t < s.N then stepW s t else none

def finished (s : S) : Prop := s.cpc = .ready ∧ s.ops = []

/-- programs the library issues: `runBlocks` only while not paused -/
def okProg : Bool → List Op → Bool
  | _, [] => true
  | p, .runBlocks :: r => !p && okProg false r
  | _, .pause :: r => okProg true r
  | _, .resume :: r => okProg false r

/-- value of `m_paused` once the current API call has returned -/
def pausedAfter (s : S) : Bool :=
  match s.cpc with
  | .ready => s.paused
  | .rbSet | .rbPub _ | .rbWait => false
  | .paWait | .paSet | .paPub _ | .paSetPaused | .paSpin => true
  | .reLock | .reNotify | .reUnlock | .reClear | .reWait => false

/-- which worker states hold the mutex -/
def holds : WPc → Bool
  | .pInc | .pWaitEnter | .pDec => true
  | _ => false
/-- which worker states are counted in `m_paused_count` -/
def counted : WPc → Bool
  | .pWaitEnter | .pWaiting | .pReacquire | .pDec => true
  | _ => false
def inBlock : WPc → Bool
  | .idle | .runBlock | .clear => true
  | _ => false
def pausing : WPc → Bool      -- states possible while pause jobs are being taken, before any notify
  | .idle | .pLock | .pInc | .pWaitEnter | .pWaiting => true
  | _ => false
def resuming : WPc → Bool
  | .pWaiting | .pReacquire | .pDec | .clear | .idle => true
  | _ => false

structure Inv (s : S) : Prop where
  mutexW : ∀ i, i < s.N → (s.mutex = some i ↔ holds (s.w i) = true)
  mutexC : s.mutex = some s.N ↔ (s.cpc = .reNotify ∨ s.cpc = .reUnlock)
  mutexR : ∀ j, s.mutex = some j → j ≤ s.N
  cnt : s.count = (List.range s.N).countP (fun i => counted (s.w i))
  busy : ∀ i, i < s.N → s.w i ≠ .idle → s.flags i = true
  prog : okProg (pausedAfter s) s.ops = true
  phase : match s.cpc with
    | .ready => if s.paused then (∀ i, i < s.N → (s.w i = .pWaitEnter ∨ s.w i = .pWaiting) ∧ (s.w i = .pWaiting → s.notified i = false) ∧ s.flags i = true) ∧ s.pauseJobs = true
                else (∀ i, i < s.N → s.w i = .idle ∧ s.flags i = false)
    | .rbSet => s.paused = false ∧ ∀ i, i < s.N → s.w i = .idle ∧ s.flags i = false
    | .rbPub k => s.paused = false ∧ s.pauseJobs = false ∧ k ≤ s.N ∧ (∀ i, i < s.N → inBlock (s.w i) = true) ∧ (∀ i, i < s.N → k ≤ i → s.flags i = false)
    | .rbWait => s.paused = false ∧ s.pauseJobs = false ∧ (∀ i, i < s.N → inBlock (s.w i) = true)
    | .paWait => s.paused = false ∧ s.pauseJobs = false ∧ (∀ i, i < s.N → inBlock (s.w i) = true)
    | .paSet => s.paused = false ∧ ∀ i, i < s.N → s.w i = .idle ∧ s.flags i = false
    | .paPub k => s.paused = false ∧ s.pauseJobs = true ∧ k ≤ s.N ∧ (∀ i, i < s.N → pausing (s.w i) = true ∧ (s.w i = .pWaiting → s.notified i = false)) ∧ (∀ i, i < s.N → k ≤ i → s.flags i = false) ∧ (∀ i, i < k → s.flags i = true)
    | .paSetPaused => s.paused = false ∧ s.pauseJobs = true ∧ (∀ i, i < s.N → pausing (s.w i) = true ∧ (s.w i = .pWaiting → s.notified i = false) ∧ s.flags i = true)
    | .paSpin => s.paused = true ∧ s.pauseJobs = true ∧ (∀ i, i < s.N → pausing (s.w i) = true ∧ (s.w i = .pWaiting → s.notified i = false) ∧ s.flags i = true)
    | .reLock => s.paused = true ∧ s.pauseJobs = true ∧ (∀ i, i < s.N → (s.w i = .pWaitEnter ∨ s.w i = .pWaiting) ∧ (s.w i = .pWaiting → s.notified i = false) ∧ s.flags i = true)
    | .reNotify => s.paused = true ∧ s.pauseJobs = true ∧ (∀ i, i < s.N → s.w i = .pWaiting ∧ s.flags i = true)
    | .reUnlock => s.pauseJobs = true ∧ (∀ i, i < s.N → ((s.w i = .pWaiting ∧ s.notified i = true) ∨ s.w i = .pReacquire) ∧ s.flags i = true)
    | .reClear => s.pauseJobs = true ∧ (∀ i, i < s.N → resuming (s.w i) = true ∧ (s.w i = .pWaiting → s.notified i = true))
    | .reWait => s.paused = false ∧ s.pauseJobs = true ∧ (∀ i, i < s.N → resuming (s.w i) = true ∧ (s.w i = .pWaiting → s.notified i = true))


/-! ### progress: an invariant state that is not finished has an enabled thread -/

/-- enabledness of a worker step, by program counter -/
def enabledW (s : S) (i : Nat) : Bool :=
  match s.w i with
  | .idle => s.flags i
  | .pLock | .pReacquire => s.mutex.isNone
  | .pWaiting => s.notified i
  | _ => true

theorem stepW_isSome (s : S) (i : Nat) : (stepW s i).isSome = enabledW s i := by
  unfold stepW enabledW
  cases hw : s.w i <;> simp <;> split <;> simp_all [Option.isSome_iff_ne_none]

theorem worker_step (s : S) (i : Nat) (hi : i < s.N) : step s i = stepW s i := by
  have : i ≠ s.N := by omega
  simp [step, this, hi]

theorem worker_enabled (s : S) (i : Nat) (hi : i < s.N) (h : enabledW s i = true) :
    ∃ t, (step s t).isSome = true := ⟨i, by rw [worker_step s i hi, stepW_isSome]; exact h⟩

theorem exists_not_of_countP_lt {n : Nat} {p : Nat → Bool}
    (h : (List.range n).countP p < n) : ∃ i, i < n ∧ p i = false := by
  apply Classical.byContradiction
  intro hne
  have hall : ∀ i ∈ List.range n, p i = true := by
    intro i hi
    have hi' := List.mem_range.mp hi
    cases hp : p i
    · exact absurd ⟨i, hi', hp⟩ hne
    · rfl
  have := List.countP_eq_length.mpr hall
  simp at this
  omega

theorem exists_flag_of_not_clear (s : S) (h : allFlagsClear s = false) : ∃ i, i < s.N ∧ s.flags i = true := by
  unfold allFlagsClear at h
  rw [List.all_eq_false] at h
  obtain ⟨i, hi, hf⟩ := h
  exact ⟨i, List.mem_range.mp hi, by simpa using hf⟩

/-- a worker holding the mutex can always move -/
theorem holder_enabled (s : S) (j : Nat) (h : holds (s.w j) = true) : enabledW s j = true := by
  unfold enabledW
  cases hw : s.w j <;> simp [hw, holds] at h ⊢

/-- if the mutex is taken while the caller is not in its critical section, its owner is an enabled worker -/
theorem mutex_owner_enabled (s : S) (inv : Inv s) (hc : ¬ (s.cpc = .reNotify ∨ s.cpc = .reUnlock))
    (hm : s.mutex ≠ none) : ∃ t, (step s t).isSome = true := by
  cases hmu : s.mutex with
  | none => exact absurd hmu hm
  | some j =>
    have hle := inv.mutexR j hmu
    by_cases hj : j = s.N
    · subst hj; exact absurd (inv.mutexC.mp hmu) hc
    · have hlt : j < s.N := by omega
      exact worker_enabled s j hlt (holder_enabled s j ((inv.mutexW j hlt).mp hmu))

/-- a worker that is in one of the "block" states and whose flag is set is enabled -/
theorem inBlock_enabled (s : S) (i : Nat) (hb : inBlock (s.w i) = true) (hf : s.flags i = true) :
    enabledW s i = true := by
  unfold enabledW
  cases hw : s.w i <;> simp [hw, inBlock] at hb ⊢
  exact hf

theorem progress (s : S) (inv : Inv s) (hnf : ¬ finished s) : ∃ t, (step s t).isSome = true := by
  have callerStep : (stepC s).isSome = true → ∃ t, (step s t).isSome = true := by
    intro hr; exact ⟨s.N, by simpa [step] using hr⟩
  have ph := inv.phase
  cases hc : s.cpc with
  | ready =>
    cases ho : s.ops with
    | nil => exact absurd ⟨hc, ho⟩ hnf
    | cons op r => cases op <;> exact callerStep (by simp [stepC, hc, ho]; try split <;> simp)
  | rbSet => exact callerStep (by simp [stepC, hc])
  | rbPub k => by_cases hk : k < s.N <;> exact callerStep (by simp [stepC, hc, hk])
  | paSet => exact callerStep (by simp [stepC, hc])
  | paPub k => by_cases hk : k < s.N <;> exact callerStep (by simp [stepC, hc, hk])
  | paSetPaused => exact callerStep (by simp [stepC, hc])
  | reNotify => exact callerStep (by simp [stepC, hc])
  | reUnlock => exact callerStep (by simp [stepC, hc])
  | reClear => exact callerStep (by simp [stepC, hc])
  | rbWait =>
    by_cases hcl : allFlagsClear s = true
    · exact callerStep (by simp [stepC, hc, hcl])
    · obtain ⟨i, hi, hf⟩ := exists_flag_of_not_clear s (by simpa using hcl)
      rw [hc] at ph
      exact worker_enabled s i hi (inBlock_enabled s i (ph.2.2 i hi) hf)
  | paWait =>
    by_cases hcl : allFlagsClear s = true
    · exact callerStep (by simp [stepC, hc, hcl])
    · obtain ⟨i, hi, hf⟩ := exists_flag_of_not_clear s (by simpa using hcl)
      rw [hc] at ph
      exact worker_enabled s i hi (inBlock_enabled s i (ph.2.2 i hi) hf)
  | reWait =>
    by_cases hcl : allFlagsClear s = true
    · exact callerStep (by simp [stepC, hc, hcl])
    · obtain ⟨i, hi, hf⟩ := exists_flag_of_not_clear s (by simpa using hcl)
      rw [hc] at ph
      obtain ⟨hr, hn⟩ := ph.2.2 i hi
      by_cases hm : s.mutex = none
      · apply worker_enabled s i hi
        unfold enabledW
        cases hw : s.w i <;> simp [hw, resuming] at hr hn ⊢ <;> first | exact hf | exact hm | exact hn
      · by_cases hre : s.w i = .pReacquire
        · exact mutex_owner_enabled s inv (by simp [hc]) hm
        · apply worker_enabled s i hi
          unfold enabledW
          cases hw : s.w i <;> simp [hw, resuming] at hr hn hre ⊢ <;> first | exact hf | exact hn
  | paSpin =>
    by_cases hcn : s.count = s.N
    · exact callerStep (by simp [stepC, hc, hcn])
    · rw [hc] at ph
      have hle : s.count ≤ s.N := by
        rw [inv.cnt]
        have := List.countP_le_length (p := fun i => counted (s.w i)) (l := List.range s.N)
        simpa using this
      have hlt : (List.range s.N).countP (fun i => counted (s.w i)) < s.N := by rw [← inv.cnt]; omega
      obtain ⟨i, hi, hnc⟩ := exists_not_of_countP_lt hlt
      obtain ⟨hp, _, hfl⟩ := ph.2.2 i hi
      by_cases hm : s.mutex = none
      · apply worker_enabled s i hi
        unfold enabledW
        cases hw : s.w i <;> simp [hw, pausing, counted] at hp hnc ⊢ <;> first | exact hfl | exact hm
      · by_cases hpl : s.w i = .pLock
        · exact mutex_owner_enabled s inv (by simp [hc]) hm
        · apply worker_enabled s i hi
          unfold enabledW
          cases hw : s.w i <;> simp [hw, pausing, counted] at hp hnc hpl ⊢
          exact hfl
  | reLock =>
    by_cases hm : s.mutex = none
    · exact callerStep (by simp [stepC, hc, hm])
    · exact mutex_owner_enabled s inv (by simp [hc]) hm

/-! ### empirical validation of the candidate invariant (a test, not a proof) -/

def allN (s : S) (p : Nat → Bool) : Bool := (List.range s.N).all p

def phaseB (s : S) : Bool :=
  match s.cpc with
  | .ready => if s.paused then allN s (fun i => (s.w i == .pWaitEnter || s.w i == .pWaiting) && (s.w i == .pWaiting → !s.notified i) && s.flags i) && s.pauseJobs
              else allN s (fun i => s.w i == .idle && !s.flags i)
  | .rbSet => !s.paused && allN s (fun i => s.w i == .idle && !s.flags i)
  | .rbPub k => !s.paused && !s.pauseJobs && decide (k ≤ s.N) && allN s (fun i => inBlock (s.w i)) && allN s (fun i => decide (k ≤ i) → !s.flags i)
  | .rbWait => !s.paused && !s.pauseJobs && allN s (fun i => inBlock (s.w i))
  | .paWait => !s.paused && !s.pauseJobs && allN s (fun i => inBlock (s.w i))
  | .paSet => !s.paused && allN s (fun i => s.w i == .idle && !s.flags i)
  | .paPub k => !s.paused && s.pauseJobs && decide (k ≤ s.N) && allN s (fun i => pausing (s.w i) && (s.w i == .pWaiting → !s.notified i)) && allN s (fun i => decide (k ≤ i) → !s.flags i) && allN s (fun i => decide (i < k) → s.flags i)
  | .paSetPaused => !s.paused && s.pauseJobs && allN s (fun i => pausing (s.w i) && (s.w i == .pWaiting → !s.notified i) && s.flags i)
  | .paSpin => s.paused && s.pauseJobs && allN s (fun i => pausing (s.w i) && (s.w i == .pWaiting → !s.notified i) && s.flags i)
  | .reLock => s.paused && s.pauseJobs && allN s (fun i => (s.w i == .pWaitEnter || s.w i == .pWaiting) && (s.w i == .pWaiting → !s.notified i) && s.flags i)
  | .reNotify => s.paused && s.pauseJobs && allN s (fun i => s.w i == .pWaiting && s.flags i)
  | .reUnlock => s.pauseJobs && allN s (fun i => ((s.w i == .pWaiting && s.notified i) || s.w i == .pReacquire) && s.flags i)
  | .reClear => s.pauseJobs && allN s (fun i => resuming (s.w i) && (s.w i == .pWaiting → s.notified i))
  | .reWait => !s.paused && s.pauseJobs && allN s (fun i => resuming (s.w i) && (s.w i == .pWaiting → s.notified i))

def invB (s : S) : Bool :=
  allN s (fun i => (s.mutex == some i) == holds (s.w i)) &&
  ((s.mutex == some s.N) == (s.cpc == .reNotify || s.cpc == .reUnlock)) &&
  (match s.mutex with | none => true | some j => decide (j ≤ s.N)) &&
  (s.count == (List.range s.N).countP (fun i => counted (s.w i))) &&
  allN s (fun i => s.w i == .idle || s.flags i) &&
  okProg (pausedAfter s) s.ops && phaseB s

/-- finite key of a state for de-duplication -/
def key (s : S) : List Nat × List Nat × List Nat × Nat × Option Nat × Bool × Bool × String × Nat :=
  ((List.range s.N).map (fun i => if s.flags i then 1 else 0),
   (List.range s.N).map (fun i => match s.w i with
      | .idle => 0 | .runBlock => 1 | .pLock => 2 | .pInc => 3 | .pWaitEnter => 4 | .pWaiting => 5
      | .pReacquire => 6 | .pDec => 7 | .clear => 8),
   (List.range s.N).map (fun i => if s.notified i then 1 else 0),
   s.count, s.mutex, s.pauseJobs, s.paused, reprStr s.cpc, s.ops.length)

def init (n : Nat) (ops : List Op) : S :=
  { N := n, flags := fun _ => false, w := fun _ => .idle, notified := fun _ => false, count := 0,
    mutex := none, pauseJobs := false, paused := false, cpc := .ready, ops }

partial def explore (frontier : List S) (seen : List (List Nat × List Nat × List Nat × Nat × Option Nat × Bool × Bool × String × Nat))
    (badInv stuck : Nat) : Nat × Nat × Nat :=
  match frontier with
  | [] => (seen.length, badInv, stuck)
  | s :: rest =>
    let succs := (List.range (s.N + 1)).filterMap (step s)
    let isStuck := succs.isEmpty && !(s.cpc == .ready && s.ops.isEmpty)
    let new := succs.filter (fun x => !(seen.contains (key x)))
    let newKeys := (new.map key).eraseDups
    let new' := newKeys.filterMap (fun k => new.find? (fun x => key x == k))
    explore (rest ++ new') (seen ++ newKeys) (badInv + (if invB s then 0 else 1)) (stuck + (if isStuck then 1 else 0))

partial def exploreBad (frontier : List S) (seen : List (List Nat × List Nat × List Nat × Nat × Option Nat × Bool × Bool × String × Nat))
    (bad : List String) : List String :=
  match frontier with
  | [] => bad
  | s :: rest =>
    let succs := (List.range (s.N + 1)).filterMap (step s)
    let new := succs.filter (fun x => !(seen.contains (key x)))
    let newKeys := (new.map key).eraseDups
    let new' := newKeys.filterMap (fun k => new.find? (fun x => key x == k))
    exploreBad (rest ++ new') (seen ++ newKeys) (if invB s then bad else bad ++ [reprStr (key s) ++ " phase=" ++ reprStr (phaseB s)])

#eval exploreBad [init 1 [.runBlocks, .pause, .resume, .runBlocks, .pause, .pause, .resume, .resume]] [] []
#eval explore [init 1 [.runBlocks, .pause, .resume, .runBlocks, .pause, .pause, .resume, .resume]] [] 0 0
#eval explore [init 2 [.runBlocks, .pause, .resume, .runBlocks, .pause, .resume]] [] 0 0
#eval explore [init 3 [.pause, .resume, .runBlocks, .pause, .resume]] [] 0 0

end Proto.Pool2
