/-! Donor table built by the single-direction router / compute_donors: exact inverse of the
receiver function, donors listed in increasing index order. -/
namespace Proto.Donors

def upd {β} (f : Nat → β) (i : Nat) (v : β) : Nat → β := fun j => if j = i then v else f j

/-- `skip d` = the node registers nowhere (masked / base level in the sequential router;
`recv d = d` in `compute_donors`) -/
def addDonor (recv : Nat → Nat) (skip : Nat → Bool) (D : Nat → List Nat) (d : Nat) : Nat → List Nat :=
  if skip d then D else upd D (recv d) (D (recv d) ++ [d])

def donors (recv : Nat → Nat) (skip : Nat → Bool) (n : Nat) : Nat → List Nat :=
  (List.range n).foldl (addDonor recv skip) (fun _ => [])

theorem addDonor_apply (recv : Nat → Nat) (skip : Nat → Bool) (D : Nat → List Nat) (d i : Nat) :
    addDonor recv skip D d i = D i ++ (if !skip d && recv d == i then [d] else []) := by
  unfold addDonor
  by_cases hs : skip d = true
  · simp [hs]
  · have hs' : skip d = false := by cases h : skip d <;> simp_all
    simp only [hs', Bool.false_eq_true, if_false, Bool.not_false, Bool.true_and]
    by_cases hr : recv d = i
    · subst hr; simp [upd]
    · have : ¬ (i = recv d) := fun e => hr e.symm
      simp [upd, this, hr]

theorem donors_eq (recv : Nat → Nat) (skip : Nat → Bool) (n i : Nat) :
    donors recv skip n i = (List.range n).filter (fun d => !skip d && recv d == i) := by
  unfold donors
  induction n with
  | zero => simp
  | succ m ih =>
    rw [List.range_succ, List.foldl_append, List.filter_append]
    simp only [List.foldl_cons, List.foldl_nil]
    rw [addDonor_apply, ih]
    simp only [List.filter_cons, List.filter_nil]

/-- **donors_inverse** -/
theorem mem_donors (recv : Nat → Nat) (skip : Nat → Bool) (n i d : Nat) :
    d ∈ donors recv skip n i ↔ d < n ∧ skip d = false ∧ recv d = i := by
  rw [donors_eq]; simp [List.mem_filter, List.mem_range]

theorem donors_nodup (recv : Nat → Nat) (skip : Nat → Bool) (n i : Nat) : (donors recv skip n i).Nodup := by
  rw [donors_eq]; exact (List.nodup_range).filter _

end Proto.Donors
