import Proofs.Acc
import Proofs.AdiPivots
import Proofs.Area
import Proofs.DfsPerm
import Proofs.SplLinear
import Proofs.Thomas
import Proofs.Weights
