#!/bin/bash
# usage: runall.sh <seed> <outfile>
cd /verif
for i in 01 02 03 04 05 06 07 08 09 10 11 12 13 14 15 16 17 18 19 20; do
  s=$(date +%s)
  VERIF_SEED=$1 python3 check.py C$i --tier quick > /tmp/run_C$i.$1.out 2>&1
  rc=$?
  e=$(date +%s)
  echo "C$i rc=$rc t=$((e-s)) $(grep -c VIOLATION /tmp/run_C$i.$1.out) $(grep -h 'KNOWN-FINDING' /tmp/run_C$i.$1.out | head -2 | tr '\n' ';')" >> $2
done
echo done >> $2
