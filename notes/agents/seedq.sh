#!/bin/bash
# sequential queue: lines "<outdir> <seedid> <props...>" appended to /tmp/seedq.txt
touch /tmp/seedq.txt /tmp/seedq.done
while true; do
  while pgrep -f "seedcheck.py" >/dev/null; do sleep 5; done
  line=$(comm -23 <(sort /tmp/seedq.txt) <(sort /tmp/seedq.done) | head -1)
  if [ -z "$line" ]; then sleep 10; continue; fi
  echo "$line" >> /tmp/seedq.done
  set -- $line
  cd /verif && python3 seedcheck.py "$@" > /tmp/seed_$2.log 2>&1
done
