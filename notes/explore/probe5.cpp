#include <iostream>
#include "xtensor/xio.hpp"
#include "fastscapelib/grid/raster_grid.hpp"
#include "fastscapelib/flow/flow_graph.hpp"
#include "fastscapelib/flow/flow_router.hpp"
#include "fastscapelib/flow/sink_resolver.hpp"
namespace fs = fastscapelib;
int main(int argc,char**argv){
  using grid_t = fs::raster_grid<fs::xt_selector, fs::raster_connect::rook>;
  if (argc>1) {
    // (b) no base level + mst
    grid_t grid({4,4},{1.0,1.0}, fs::node_status::core);
    fs::flow_graph<grid_t> g(grid, {fs::single_flow_router(), fs::mst_sink_resolver()});
    xt::xarray<double> z = {{3,3,3,3},{3,1,2,3},{3,2,0,3},{3,3,3,3}};
    g.update_routes(z);
    std::cout<<"no-base mst done\n";
    return 0;
  }
  // (a) masked base level: 1x? use 3x5 rook grid; base levels: node 5 (row1,col0) masked, node 9 (row1,col4) unmasked
  grid_t grid({3,5},{1.0,1.0}, fs::node_status::core);
  fs::flow_graph<grid_t> g(grid, {fs::pflood_sink_resolver(), fs::single_flow_router()});
  std::vector<size_t> bl={5,9};
  g.set_base_levels(bl);
  xt::xarray<bool> mask = xt::zeros<bool>({3,5}); mask(1,0)=true;
  // mask also rows 0 and 2 to make a corridor
  for(int c=0;c<5;c++){mask(0,c)=true;mask(2,c)=true;}
  g.set_mask(mask);
  xt::xarray<double> z = {{9,9,9,9,9},{0,1,5,6,7},{9,9,9,9,9}};
  auto& f = g.update_routes(z);
  std::cout<<"filled row1: "<<xt::row(f,1)<<"\nreceivers row1: ";
  for(size_t i=5;i<10;i++) std::cout<<g.impl().receivers()(i,0)<<" "; std::cout<<"\n";
}
