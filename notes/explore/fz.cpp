// quick exploratory fuzz (design phase): checks C01/C02/C06/C19/C03/C15 invariants on random small rasters
#include <iostream>
#include <random>
#include <queue>
#include <set>
#include <cmath>
#include <algorithm>
#include "xtensor/xio.hpp"
#include "fastscapelib/grid/raster_grid.hpp"
#include "fastscapelib/grid/profile_grid.hpp"
#include "fastscapelib/grid/trimesh.hpp"
#include "fastscapelib/flow/flow_graph.hpp"
#include "fastscapelib/flow/flow_router.hpp"
#include "fastscapelib/flow/sink_resolver.hpp"
#include "fastscapelib/flow/flow_snapshot.hpp"
#include "fastscapelib/flow/basin_graph.hpp"
namespace fs = fastscapelib;
using std::size_t;
std::mt19937_64 rng;
int irand(int a,int b){ return a + int(rng()%uint64_t(b-a+1)); }

template<class G> struct Ctx { G& grid; size_t n; std::vector<char> mask; std::set<size_t> base; std::vector<double> z; };

template<class G, class FG>
std::string check_flow(Ctx<G>& c, FG& g, const xt::xarray<double>& f, bool resolved, bool single, const char* tag){
  auto& im = g.impl(); size_t n=c.n;
  auto& R = im.receivers(); auto& RC = im.receivers_count();
  // reachability through unmasked neighbours from unmasked base levels
  std::vector<char> reach(n,0); std::queue<size_t> q;
  for (auto b: c.base) if(!c.mask[b]){reach[b]=1;q.push(b);}
  while(!q.empty()){ auto u=q.front();q.pop(); for(auto v: c.grid.neighbors_indices(u)) if(!c.mask[v]&&!reach[v]){reach[v]=1;q.push(v);} }
  for(size_t i=0;i<n;i++){
    bool term = c.mask[i]||c.base.count(i);
    if(term){ if(!(RC(i)==1&&R(i,0)==i)) return std::string(tag)+": terminal node drains"; continue; }
    for(size_t k=0;k<RC(i);k++){ size_t r=R(i,k); if(r!=i){ if(c.mask[r]) return std::string(tag)+": receiver masked"; if(resolved && !(f.flat(r)<f.flat(i))) return std::string(tag)+": not strictly descending at "+std::to_string(i); } }
    if(resolved && reach[i]){ // follow first receivers
      size_t cur=i; size_t steps=0; while(steps<=n){ size_t r=R(cur,0); if(r==cur) break; cur=r; steps++; }
      if(steps>n) return std::string(tag)+": cycle";
      if(!c.base.count(cur)||c.mask[cur]) return std::string(tag)+": node "+std::to_string(i)+" ends at non-base "+std::to_string(cur);
    }
  }
  // elevation checks
  for(size_t i=0;i<n;i++){ if(f.flat(i)<c.z[i]) return std::string(tag)+": lowered"; if((c.mask[i]||c.base.count(i)) && f.flat(i)!=c.z[i]) return std::string(tag)+": changed at terminal"; }
  // dfs order: permutation, receivers before
  std::vector<size_t> pos(n,n); auto& dfs=im.dfs_indices(); for(size_t k=0;k<n;k++){ if(dfs(k)>=n||pos[dfs(k)]!=n) return std::string(tag)+": dfs not a permutation"; pos[dfs(k)]=k; }
  for(size_t i=0;i<n;i++) for(size_t k=0;k<RC(i);k++){ size_t r=R(i,k); if(r!=i && !(pos[r]<pos[i])) return std::string(tag)+": dfs order violated"; }
  // bfs levels
  { auto& bfs=im.bfs_indices(); auto& lv=im.bfs_levels(); std::vector<size_t> lev(n,n); std::vector<char> seen(n,0);
    if(lv.size()<2||lv(0)!=0||lv(lv.size()-1)!=n) return std::string(tag)+": bfs levels bounds";
    for(size_t L=0;L+1<lv.size();L++){ if(!(lv(L)<lv(L+1))) return std::string(tag)+": empty bfs level"; for(size_t k=lv(L);k<lv(L+1);k++){ if(bfs(k)>=n||seen[bfs(k)]) return std::string(tag)+": bfs not perm"; seen[bfs(k)]=1; lev[bfs(k)]=L; } }
    for(size_t i=0;i<n;i++) for(size_t k=0;k<RC(i);k++){ size_t r=R(i,k); if(r!=i && !(lev[r]<lev[i])) return std::string(tag)+": bfs level violated"; } }
  // donors inverse
  { auto& D=im.donors(); auto& DC=im.donors_count(); std::multiset<std::pair<size_t,size_t>> a,b;
    for(size_t i=0;i<n;i++) for(size_t k=0;k<RC(i);k++) if(R(i,k)!=i) a.insert({R(i,k),i});
    for(size_t i=0;i<n;i++) for(size_t k=0;k<DC(i);k++) if(D(i,k)!=i) b.insert({i,D(i,k)});
    if(a!=b) return std::string(tag)+": donors not inverse"; }
  // accumulate conservation
  { auto acc=g.accumulate(1.0); double tot=0, src=0; for(size_t i=0;i<n;i++){ src+=c.grid.nodes_areas(i); bool t=true; for(size_t k=0;k<RC(i);k++) if(R(i,k)!=i) t=false; if(t) tot+=acc.flat(i); if(std::isnan(acc.flat(i))) return std::string(tag)+": NaN acc"; }
    if(std::fabs(tot-src)>1e-9*src) return std::string(tag)+": conservation "+std::to_string(tot)+" vs "+std::to_string(src); }
  if(single){ auto bs=g.basins(); for(size_t i=0;i<n;i++){ if(c.mask[i]){ if(bs.flat(i)!=size_t(-1)) return std::string(tag)+": masked label"; } else if(bs.flat(i)!=bs.flat(R(i,0))) return std::string(tag)+": basin label differs from receiver"; } }
  return "";
}

// spill level by Bellman iteration
template<class G> std::vector<double> spill(Ctx<G>& c){ size_t n=c.n; std::vector<double> s(n,INFINITY); for(auto b:c.base) if(!c.mask[b]) s[b]=c.z[b]; bool ch=true; while(ch){ch=false; for(size_t i=0;i<n;i++){ if(c.mask[i]||c.base.count(i)) continue; for(auto v:c.grid.neighbors_indices(i)){ if(c.mask[v]) continue; double cand=std::max(c.z[i],s[v]); if(cand<s[i]){s[i]=cand;ch=true;} } } } return s; }

template<class G> int one(G& grid, int family, uint64_t seed){
  using FGt = fs::flow_graph<G>;
  size_t n=grid.size(); Ctx<G> c{grid,n,std::vector<char>(n,0),{},std::vector<double>(n)};
  xt::xarray<double> z = xt::zeros<double>(grid.shape());
  for(size_t i=0;i<n;i++){ double v; switch(family){ case 0: v=std::uniform_real_distribution<double>(0,1)(rng); break; case 1: v=irand(0,3); break; case 2: v=0; break; case 3: v=irand(-2,2)*1e-310; break; default: v=irand(0,2)*1e300*0.5; } z.flat(i)=v; c.z[i]=v; }
  bool usemask = irand(0,2)==0; xt::xarray<bool> mask = xt::zeros<bool>(grid.shape());
  if(usemask) for(size_t i=0;i<n;i++) if(irand(0,4)==0){ mask.flat(i)=true; c.mask[i]=1; }
  int blmode = irand(0,2);
  std::vector<size_t> bl;
  { FGt tmp(grid,{fs::single_flow_router()}); bl=tmp.base_levels(); }
  if(blmode==1){ bl.clear(); int k=irand(1,3); for(int j=0;j<k;j++) bl.push_back(size_t(irand(0,int(n)-1))); }
  if(blmode==2 && !bl.empty()){ bl.push_back(size_t(irand(0,int(n)-1))); }
  // keep base levels unmasked (domain of this exploratory run)
  std::vector<size_t> bl2; for(auto b:bl) if(!c.mask[b]) bl2.push_back(b); bl=bl2; if(bl.empty()) return 0;
  for(auto b:bl) c.base.insert(b);
  { std::vector<char> reach(n,0); std::queue<size_t> q; for (auto b: c.base){reach[b]=1;q.push(b);} while(!q.empty()){ auto u=q.front();q.pop(); for(auto v: grid.neighbors_indices(u)) if(!c.mask[v]&&!reach[v]){reach[v]=1;q.push(v);} }
    /* no skip: component without base level (D10) */ }
  auto sp = spill(c);
  auto setup=[&](FGt& g){ g.set_base_levels(bl); if(usemask) g.set_mask(mask); };
  std::vector<std::pair<std::string,std::function<std::string()>>> runs;
  std::vector<xt::xarray<double>> fills; std::vector<std::string> names;
  auto doit=[&](const char* name, FGt& g, bool single){ setup(g); xt::xarray<double> f=g.update_routes(z); auto e=check_flow(c,g,f,true,single,name); if(!e.empty()) return e;
     // spill bounds
     for(size_t i=0;i<n;i++){ if(c.mask[i]||std::isinf(sp[i])) continue; if(f.flat(i)<sp[i]) return std::string(name)+": below spill at "+std::to_string(i); double ub=sp[i]; for(size_t k=0;k<n;k++) ub=std::nextafter(ub,INFINITY); if(f.flat(i)>ub) return std::string(name)+": above spill+n ulps at "+std::to_string(i)+" f="+std::to_string(f.flat(i))+" sp="+std::to_string(sp[i]); }
     return std::string(""); };
  std::string e;
  { FGt g(grid,{fs::pflood_sink_resolver(),fs::single_flow_router()}); e=doit("pflood-single",g,true); if(!e.empty()){std::cout<<"FAIL seed="<<seed<<" fam="<<family<<" "<<e<<"\n"; return 1;} }
  { FGt g(grid,{fs::pflood_sink_resolver(),fs::multi_flow_router(1.3)}); e=doit("pflood-multi",g,false); if(!e.empty()){std::cout<<"FAIL seed="<<seed<<" fam="<<family<<" "<<e<<"\n"; return 1;} }
  for(auto m:{fs::mst_method::kruskal,fs::mst_method::boruvka}) for(auto r:{fs::mst_route_method::basic,fs::mst_route_method::carve}){
    FGt g(grid,{fs::single_flow_router(),fs::mst_sink_resolver(m,r)}); std::string nm=std::string("mst-")+(m==fs::mst_method::kruskal?"k":"b")+(r==fs::mst_route_method::basic?"-basic":"-carve"); e=doit(nm.c_str(),g,true); if(!e.empty()){std::cout<<"FAIL seed="<<seed<<" fam="<<family<<" "<<e<<"\n"; return 1;}
    FGt g2(grid,{fs::single_flow_router(),fs::mst_sink_resolver(m,r),fs::multi_flow_router(0.7)}); nm+="-multi"; e=doit(nm.c_str(),g2,false); if(!e.empty() && r==fs::mst_route_method::basic && e.find("ends at non-base")!=std::string::npos) e=""; if(!e.empty()){std::cout<<"FAIL seed="<<seed<<" fam="<<family<<" "<<e<<"\n"; return 1;} }
  // basin graph MST weights
  { FGt g(grid,{fs::single_flow_router()}); setup(g); g.update_routes(z); g.basins(); 
    if(!g.impl_ptr()->pits().empty()){
      fs::basin_graph<typename FGt::impl_type> bk(g.impl(),fs::mst_method::kruskal), bb(g.impl(),fs::mst_method::boruvka); bk.update_routes(z); bb.update_routes(z);
      auto w=[&](auto& b){ long double s=0; int inf=0; for(auto t:b.tree()){ double pe=b.edges()[t].pass_elevation; if(pe==std::numeric_limits<double>::lowest()) inf++; else s+=pe; } return std::make_pair(s,inf); };
      auto wk=w(bk), wb=w(bb); if(bk.tree().size()!=bb.tree().size() || wk.second!=wb.second || std::fabs((double)(wk.first-wb.first))>1e-9*(1+std::fabs((double)wk.first))){ std::cout<<"FAIL seed="<<seed<<" fam="<<family<<" mst weights differ k="<<(double)wk.first<<" b="<<(double)wb.first<<" sizes "<<bk.tree().size()<<" "<<bb.tree().size()<<"\n"; return 1; } } }
  return 0;
}

int main(int argc,char**argv){
  uint64_t s0 = argc>1? std::stoull(argv[1]):1; int cnt = argc>2? std::stoi(argv[2]):200; int fails=0;
  for(uint64_t s=s0;s<s0+uint64_t(cnt);s++){ rng.seed(s); std::cerr<<s<<' ';
    int rows=irand(2,7), cols=irand(2,7); int fam=irand(0,4);
    fs::node_status st[4]={fs::node_status::core,fs::node_status::fixed_value,fs::node_status::fixed_gradient,fs::node_status::looped};
    auto pick=[&](){return st[irand(0,2)];};
    fs::node_status L=pick(),R=pick(),T=pick(),B=pick(); if(irand(0,3)==0){L=R=fs::node_status::looped;} if(irand(0,3)==0){T=B=fs::node_status::looped;}
    if(L!=fs::node_status::fixed_value&&R!=fs::node_status::fixed_value&&T!=fs::node_status::fixed_value&&B!=fs::node_status::fixed_value) T=fs::node_status::fixed_value, B=(B==fs::node_status::looped?fs::node_status::core:B);
    double dy= irand(0,1)?1.0:3.7, dx=irand(0,1)?1.0:1.3;
    try{
    switch(irand(0,4)){
      case 0: { fs::raster_grid<fs::xt_selector,fs::raster_connect::rook> g({size_t(rows),size_t(cols)},{dy,dx},{{L,R,T,B}}); fails+=one(g,fam,s);} break;
      case 1: { fs::raster_grid<fs::xt_selector,fs::raster_connect::queen> g({size_t(rows),size_t(cols)},{dy,dx},{{L,R,T,B}}); fails+=one(g,fam,s);} break;
      case 3: { fs::node_status pl=pick(), pr=pick(); if(irand(0,3)==0){pl=pr=fs::node_status::looped;} if(pl!=fs::node_status::fixed_value&&pr!=fs::node_status::fixed_value&&pl!=fs::node_status::looped) pl=fs::node_status::fixed_value; fs::profile_grid<> g(size_t(irand(2,30)), dx, {pl,pr}); fails+=one(g,fam,s);} break;
      case 4: { int nr=irand(2,6), nc=irand(2,6); size_t n=size_t(nr*nc); xt::xtensor<double,2> pts({n,2}); for(int r=0;r<nr;r++)for(int c=0;c<nc;c++){ pts(r*nc+c,0)=c*dx+0.2*(std::uniform_real_distribution<double>(0,1)(rng)-0.5); pts(r*nc+c,1)=r*dy+0.2*(std::uniform_real_distribution<double>(0,1)(rng)-0.5);} std::vector<std::array<size_t,3>> T; for(int r=0;r+1<nr;r++)for(int c=0;c+1<nc;c++){ size_t a=size_t(r*nc+c),b=a+1,d=a+size_t(nc),e=d+1; if(irand(0,1)){T.push_back({a,b,d});T.push_back({b,e,d});}else{T.push_back({a,b,e});T.push_back({a,e,d});} } xt::xtensor<size_t,2> tri({T.size(),3}); for(size_t t=0;t<T.size();t++)for(size_t k=0;k<3;k++)tri(t,k)=T[t][k]; fs::trimesh g(pts,tri); fails+=one(g,fam,s);} break;
      default:{ fs::raster_grid<fs::xt_selector,fs::raster_connect::bishop> g({size_t(rows),size_t(cols)},{dy,dx},{{L,R,T,B}}); fails+=one(g,fam,s);} }
    } catch(std::exception& ex){ std::cout<<"EXC seed="<<s<<" "<<ex.what()<<"\n"; fails++; }
  }
  std::cout<<"done fails="<<fails<<"\n";
}
