// exploratory: C18 trimesh, C12/C13 spl, C14 adi, C16 snapshots, C09 histories (patched headers)
#include <iostream>
#include <random>
#include <set>
#include <map>
#include <cmath>
#include <cstring>
#include "xtensor/xio.hpp"
#include "fastscapelib/grid/raster_grid.hpp"
#include "fastscapelib/grid/profile_grid.hpp"
#include "fastscapelib/grid/trimesh.hpp"
#include "fastscapelib/flow/flow_graph.hpp"
#include "fastscapelib/flow/flow_router.hpp"
#include "fastscapelib/flow/sink_resolver.hpp"
#include "fastscapelib/flow/flow_snapshot.hpp"
#include "fastscapelib/eroders/spl.hpp"
#include "fastscapelib/eroders/diffusion_adi.hpp"
namespace fs = fastscapelib;
std::mt19937_64 rng; int irand(int a,int b){ return a + int(rng()%uint64_t(b-a+1)); } double urand(){return std::uniform_real_distribution<double>(0,1)(rng);}

int mesh_case(uint64_t s){
  int nr=irand(2,5), nc=irand(2,5); size_t n=size_t(nr*nc)+ (irand(0,3)==0?1:0); // maybe isolated node
  xt::xtensor<double,2> pts({n,2}); for(int r=0;r<nr;r++)for(int c=0;c<nc;c++){ pts(r*nc+c,0)=c*1.3+0.3*(urand()-0.5); pts(r*nc+c,1)=r*0.9+0.3*(urand()-0.5);} if(n>size_t(nr*nc)){pts(n-1,0)=50;pts(n-1,1)=50;}
  std::vector<std::array<size_t,3>> T; for(int r=0;r+1<nr;r++)for(int c=0;c+1<nc;c++){ size_t a=r*nc+c,b=a+1,d=a+nc,e=d+1; if(irand(0,6)==0) continue; /* hole */ if(irand(0,1)){ T.push_back({a,b,d}); T.push_back({b,e,d}); } else { T.push_back({a,b,e}); T.push_back({a,e,d}); } }
  if(T.empty()) return 0;
  xt::xtensor<size_t,2> tri({T.size(),3}); for(size_t t=0;t<T.size();t++){ int rot=irand(0,2); bool flip=irand(0,1); std::array<size_t,3> v=T[t]; std::rotate(v.begin(),v.begin()+rot,v.end()); if(flip) std::swap(v[1],v[2]); for(int k=0;k<3;k++) tri(t,k)=v[k]; }
  fs::trimesh m(pts,tri);
  std::map<std::pair<size_t,size_t>,int> ec; double area=0;
  for(auto&t:T){ for(int k=0;k<3;k++){ size_t a=t[k],b=t[(k+1)%3]; ec[{std::min(a,b),std::max(a,b)}]++; } double x1=pts(t[0],0),y1=pts(t[0],1),x2=pts(t[1],0),y2=pts(t[1],1),x3=pts(t[2],0),y3=pts(t[2],1); area+=std::fabs((x2-x1)*(y3-y1)-(x3-x1)*(y2-y1))/2; }
  std::vector<std::set<size_t>> adj(n); std::set<size_t> bnd; for(auto&[e,c]:ec){ adj[e.first].insert(e.second); adj[e.second].insert(e.first); if(c==1){bnd.insert(e.first);bnd.insert(e.second);} }
  for(size_t i=0;i<n;i++){ auto ni=m.neighbors_indices(i); std::multiset<size_t> got(ni.begin(),ni.end()); std::multiset<size_t> ex(adj[i].begin(),adj[i].end()); if(got!=ex){ std::cout<<"FAIL mesh nbrs seed "<<s<<"\n"; return 1;} auto nb=m.neighbors(i); for(auto&q:nb){ double d=std::hypot(pts(i,0)-pts(q.idx,0),pts(i,1)-pts(q.idx,1)); if(std::fabs(d-q.distance)>1e-12*d){std::cout<<"FAIL mesh dist\n";return 1;} }
    bool fv = m.nodes_status().flat(i)==fs::node_status::fixed_value; if(fv!=(bnd.count(i)>0)){ std::cout<<"FAIL mesh boundary seed "<<s<<" node "<<i<<"\n"; return 1;} }
  double sa=0; for(size_t i=0;i<n;i++) sa+=m.nodes_areas(i); if(std::fabs(sa-area)>1e-9*area){ std::cout<<"FAIL mesh area sum "<<sa<<" vs "<<area<<" seed "<<s<<"\n"; return 1; }
  return 0;
}

int adi_case(uint64_t s){
  using G=fs::raster_grid<>; size_t nr=size_t(irand(3,7)), nc=size_t(irand(3,7)); double dy=irand(0,1)?1.0:2.5, dx=irand(0,1)?1.0:0.7;
  G g({nr,nc},{dy,dx},fs::node_status::fixed_value); xt::xarray<double> z=xt::zeros<double>({nr,nc}); xt::xarray<double> K=xt::zeros<double>({nr,nc}); bool scal=irand(0,1); double k0=std::pow(10.0,irand(-3,3));
  for(size_t i=0;i<nr*nc;i++){ z.flat(i)=urand()*100; K.flat(i)= scal? k0 : k0*(0.5+urand()); }
  double dt=std::pow(10.0,irand(-2,4));
  xt::xarray<double> er;
  if(scal){ auto e=fs::make_diffusion_adi_eroder(g,k0); er=e.erode(z,dt); auto e2=fs::make_diffusion_adi_eroder(g,K); xt::xarray<double> er2=e2.erode(z,dt); for(size_t i=0;i<nr*nc;i++) if(std::fabs(er.flat(i)-er2.flat(i))>1e-9*(1+std::fabs(er.flat(i)))){ std::cout<<"FAIL adi scalar vs uniform array seed "<<s<<"\n"; return 1;} }
  else { auto e=fs::make_diffusion_adi_eroder(g,K); er=e.erode(z,dt); }
  // independent: solve two half steps with dense Gaussian elimination per line
  auto Kf=[&](size_t r,size_t c){return K(r,c);};
  auto half=[&](const std::vector<std::vector<double>>& u, bool rowsImplicitAlongCols)->std::vector<std::vector<double>>{ return u; };
  (void)half;
  std::vector<std::vector<double>> u(nr,std::vector<double>(nc)); for(size_t r=0;r<nr;r++)for(size_t c=0;c<nc;c++)u[r][c]=z(r,c);
  auto fr=[&](int w,size_t r,size_t c){ double f=0.25/(dy*dy); if(w==0) return f*(Kf(r-1,c)+Kf(r,c)); if(w==1) return f/2*(Kf(r-1,c)+2*Kf(r,c)+Kf(r+1,c)); return f*(Kf(r,c)+Kf(r+1,c)); };
  auto fc=[&](int w,size_t r,size_t c){ double f=0.25/(dx*dx); if(w==0) return f*(Kf(r,c-1)+Kf(r,c)); if(w==1) return f/2*(Kf(r,c-1)+2*Kf(r,c)+Kf(r,c+1)); return f*(Kf(r,c)+Kf(r,c+1)); };
  auto dense=[&](std::vector<std::vector<long double>> A, std::vector<long double> b){ size_t m=b.size(); for(size_t i=0;i<m;i++){ size_t p=i; for(size_t j=i+1;j<m;j++) if(fabsl(A[j][i])>fabsl(A[p][i])) p=j; std::swap(A[i],A[p]); std::swap(b[i],b[p]); for(size_t j=i+1;j<m;j++){ long double f=A[j][i]/A[i][i]; for(size_t k=i;k<m;k++)A[j][k]-=f*A[i][k]; b[j]-=f*b[i]; } } std::vector<long double> x(m); for(size_t ii=m;ii-->0;){ long double t=b[ii]; for(size_t k=ii+1;k<m;k++)t-=A[ii][k]*x[k]; x[ii]=t/A[ii][ii]; } return x; };
  // step 1: for interior rows, implicit along columns (c direction), explicit in r
  std::vector<std::vector<double>> u1=u; for(size_t r=1;r+1<nr;r++){ std::vector<std::vector<long double>> A(nc,std::vector<long double>(nc,0)); std::vector<long double> b(nc); A[0][0]=1;b[0]=u[r][0];A[nc-1][nc-1]=1;b[nc-1]=u[r][nc-1]; for(size_t c=1;c+1<nc;c++){ A[c][c-1]=-fc(0,r,c)*dt; A[c][c]=1+2*fc(1,r,c)*dt; A[c][c+1]=-fc(2,r,c)*dt; b[c]=(1-2*fr(1,r,c)*dt)*u[r][c]+fr(0,r,c)*u[r-1][c]*dt+fr(2,r,c)*u[r+1][c]*dt; } auto x=dense(A,b); for(size_t c=0;c<nc;c++)u1[r][c]=(double)x[c]; }
  // step 2: for interior cols, implicit along rows
  std::vector<std::vector<double>> u2=u1; for(size_t c=1;c+1<nc;c++){ std::vector<std::vector<long double>> A(nr,std::vector<long double>(nr,0)); std::vector<long double> b(nr); A[0][0]=1;b[0]=u1[0][c];A[nr-1][nr-1]=1;b[nr-1]=u1[nr-1][c]; for(size_t r=1;r+1<nr;r++){ A[r][r-1]=-fr(0,r,c)*dt; A[r][r]=1+2*fr(1,r,c)*dt; A[r][r+1]=-fr(2,r,c)*dt; b[r]=(1-2*fc(1,r,c)*dt)*u1[r][c]+fc(0,r,c)*u1[r][c-1]*dt+fc(2,r,c)*u1[r][c+1]*dt; } auto x=dense(A,b); for(size_t r=0;r<nr;r++)u2[r][c]=(double)x[r]; }
  for(size_t r=0;r<nr;r++)for(size_t c=0;c<nc;c++){ double ex=z(r,c)-u2[r][c]; bool border=r==0||c==0||r==nr-1||c==nc-1; if(border&&er(r,c)!=0){ std::cout<<"FAIL adi border nonzero seed "<<s<<" at "<<r<<","<<c<<" = "<<er(r,c)<<"\n"; return 1;} if(std::fabs(er(r,c)-ex)>1e-7*(1+std::fabs(ex)+100)){ std::cout<<"FAIL adi mismatch seed "<<s<<" "<<er(r,c)<<" vs "<<ex<<"\n"; return 1;} }
  return 0;
}

int spl_case(uint64_t s){
  using G=fs::raster_grid<>; size_t nr=size_t(irand(2,6)), nc=size_t(irand(2,6)); G g({nr,nc},{1.0,1.5},fs::node_status::fixed_value); size_t n=nr*nc;
  bool multi=irand(0,2)==0; bool resolve=irand(0,1);
  double nexp = multi?1.0: (std::array<double,6>{0.5,0.8,1.0,1.5,2.0,4.0})[size_t(irand(0,5))]; double mexp=(std::array<double,3>{0.3,0.5,1.0})[size_t(irand(0,2))];
  xt::xarray<double> z=xt::zeros<double>({nr,nc}); for(size_t i=0;i<n;i++) z.flat(i)= irand(0,1)? urand()*100 : irand(0,3);
  auto run=[&](auto& fg)->int{ const auto& f=fg.update_routes(z); xt::xarray<double> zz=f; auto area=fg.accumulate(1.0); double K=std::pow(10.0,irand(-6,2)), dt=std::pow(10.0,irand(0,6)), tol=1e-6;
    auto er=fs::make_spl_eroder(fg,K,mexp,nexp,tol); xt::xarray<double> e=er.erode(zz,area,dt); auto& im=fg.impl();
    for(size_t i=0;i<n;i++){ size_t rc=im.receivers_count()(i); bool term= rc==1&&im.receivers()(i,0)==i; double hn=zz.flat(i)-e.flat(i);
      if(term&&e.flat(i)!=0){std::cout<<"FAIL spl terminal erodes seed "<<s<<"\n";return 1;}
      if(e.flat(i)< -1e-9*(1+std::fabs(zz.flat(i)))){std::cout<<"FAIL spl negative erosion "<<e.flat(i)<<" seed "<<s<<" n="<<nexp<<"\n";return 1;}
      if(!term){ double lo=INFINITY; for(size_t k=0;k<rc;k++){ size_t r=im.receivers()(i,k); lo=std::min(lo,zz.flat(r)-e.flat(r)); } if(hn<lo){ std::cout<<"FAIL spl slope reversed seed "<<s<<" hn="<<hn<<" lo="<<lo<<" diff="<<(hn-lo)<<" ulp(lo)="<<(std::nextafter(lo,INFINITY)-lo)<<" ncorr="<<er.n_corr()<<"\n"; return 1;} if(zz.flat(i)<=lo&&e.flat(i)!=0){std::cout<<"FAIL spl lake eroded\n";return 1;}
        // residual where not limited (hn > lo + tiny)
        if(hn>lo+1e-300 && e.flat(i)!=0){ double res=hn-zz.flat(i); for(size_t k=0;k<rc;k++){ size_t r=im.receivers()(i,k); if(zz.flat(r)>zz.flat(i)) continue; double d=hn-(zz.flat(r)-e.flat(r)); res+=dt*K*std::pow(area.flat(i)*im.receivers_weight()(i,k),mexp)*std::pow(d/im.receivers_distance()(i,k),nexp); }
          double scale=1+std::fabs(zz.flat(i)); double lim = (nexp==1.0? 1e-9*scale*(1+dt*K*1e3) : tol*1.0001+1e-9*scale); if(std::fabs(res)>lim){ std::cout<<"node "<<i<<" z="<<zz.flat(i)<<" e="<<e.flat(i)<<" hn="<<hn<<" lo="<<lo<<" rc="<<rc; for(size_t k=0;k<rc;k++){ size_t r=im.receivers()(i,k); std::cout<<" [r="<<r<<" zr="<<zz.flat(r)<<" er="<<e.flat(r)<<" dist="<<im.receivers_distance()(i,k)<<" w="<<im.receivers_weight()(i,k)<<"]"; } std::cout<<" area="<<area.flat(i)<<"\n"; std::cout<<"FAIL spl residual "<<res<<" n="<<nexp<<" m="<<mexp<<" seed "<<s<<" K="<<K<<" dt="<<dt<<" ncorr="<<er.n_corr()<<"\n"; return 1;} } } }
    return 0; };
  if(multi){ if(resolve){ fs::flow_graph<G> fg(g,{fs::pflood_sink_resolver(),fs::multi_flow_router(1.0)}); return run(fg);} else { fs::flow_graph<G> fg(g,{fs::multi_flow_router(1.0)}); return run(fg);} }
  else { if(resolve){ fs::flow_graph<G> fg(g,{fs::single_flow_router(),fs::mst_sink_resolver()}); return run(fg);} else { fs::flow_graph<G> fg(g,{fs::single_flow_router()}); return run(fg);} }
}
int main(int argc,char**argv){ uint64_t s0=argc>1?std::stoull(argv[1]):1; int cnt=argc>2?std::stoi(argv[2]):300; int f1=0,f2=0,f3=0; for(uint64_t s=s0;s<s0+uint64_t(cnt);s++){ rng.seed(s); f1+=mesh_case(s); rng.seed(s); f2+=adi_case(s); rng.seed(s); f3+=spl_case(s);} std::cout<<"done mesh="<<f1<<" adi="<<f2<<" spl="<<f3<<"\n"; }
