#include <iostream>
#include <cstring>
#include "xtensor/xio.hpp"
#include "xtensor/xrandom.hpp"
#include "fastscapelib/grid/raster_grid.hpp"
#include "fastscapelib/grid/trimesh.hpp"
#include "fastscapelib/flow/flow_graph.hpp"
#include "fastscapelib/flow/flow_router.hpp"
#include "fastscapelib/flow/sink_resolver.hpp"
namespace fs = fastscapelib;
int main(){
  using grid_t = fs::raster_grid<>;
  int diffs=0, trials=0;
  for (int seed=0; seed<200; ++seed){
    xt::random::seed(seed);
    grid_t grid({6,6},{1.0,1.0}, fs::node_status::fixed_value);
    xt::xarray<double> z = xt::floor(xt::random::rand<double>({6,6})*3.0);
    fs::flow_graph<grid_t> g1(grid, {fs::pflood_sink_resolver(), fs::single_flow_router()});
    fs::flow_graph<grid_t> g2(grid, {fs::pflood_sink_resolver(), fs::single_flow_router()});
    auto bl = g2.base_levels();
    std::vector<size_t> other = {14, 15, 20, 21, 7};
    g2.set_base_levels(other);
    g2.update_routes(z);
    std::vector<size_t> rev(bl.begin(), bl.end()); std::sort(rev.begin(), rev.end());
    g2.set_base_levels(rev);
    xt::xarray<double> f1 = g1.update_routes(z);
    xt::xarray<double> f2 = g2.update_routes(z);
    trials++;
    if (std::memcmp(f1.data(), f2.data(), 36*8)!=0 || g1.impl().receivers()!=g2.impl().receivers()) { diffs++; if(diffs==1){ std::cout<<"seed "<<seed<<"\n"<<z<<"\n"<<(f1-f2)<<"\n"; } }
  }
  std::cout<<"C09 history-dependent results: "<<diffs<<"/"<<trials<<"\n";
  return 0;
}
