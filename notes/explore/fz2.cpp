// exploratory: C07 (raster neighbours vs geometry, all accessors, cache on/off) and C17 (status composition, iteration)
#include <iostream>
#include <cmath>
#include <algorithm>
#include "fastscapelib/grid/raster_grid.hpp"
#include "fastscapelib/grid/profile_grid.hpp"
namespace fs = fastscapelib;
using ns = fs::node_status;
int prio(ns s){ switch(s){case ns::core:return 0;case ns::looped:return 1;case ns::fixed_gradient:return 2;default:return 3;} }
template<fs::raster_connect RC, class C> int check(size_t rows,size_t cols,double dy,double dx,std::array<ns,4> b){
  using G=fs::raster_grid<fs::xt_selector,RC,C>;
  G g({rows,cols},{dy,dx},fs::raster_boundary_status(b));
  bool lh = b[0]==ns::looped, lv = b[2]==ns::looped; int bad=0;
  // status
  for(size_t r=0;r<rows;r++)for(size_t c=0;c<cols;c++){ ns e=ns::core; bool L=c==0,R=c==cols-1,T=r==0,B=r==rows-1; std::vector<ns> cand; if(L)cand.push_back(b[0]); if(R)cand.push_back(b[1]); if(T)cand.push_back(b[2]); if(B)cand.push_back(b[3]);
     // code semantics: left/right views first, then top/bottom overwrite, corners = max(row_border,col_border)
     if((T||B)&&(L||R)){ ns rb=T?b[2]:b[3]; ns cb=L?b[0]:b[1]; if(rows==1||cols==1){} e = prio(rb)>=prio(cb)?rb:cb; if(T&&B){} }
     else if(T) e=b[2]; else if(B) e=b[3]; else if(L) e=b[0]; else if(R) e=b[1];
     if(rows>=2&&cols>=2 && g.nodes_status()(r,c)!=e){ bad++; std::cout<<"status mismatch "<<r<<","<<c<<"\n"; } }
  // neighbours
  std::vector<std::pair<int,int>> dirs;
  for(int dr=-1;dr<=1;dr++)for(int dc=-1;dc<=1;dc++){ if(!dr&&!dc)continue; bool diag=dr&&dc; if(RC==fs::raster_connect::rook&&diag)continue; if(RC==fs::raster_connect::bishop&&!diag)continue; dirs.push_back({dr,dc}); }
  for(size_t r=0;r<rows;r++)for(size_t c=0;c<cols;c++){
    std::vector<size_t> exp; std::vector<double> expd;
    for(auto [dr,dc]:dirs){ long rr=long(r)+dr, cc=long(c)+dc; if(rr<0||rr>=long(rows)){ if(!lv)continue; rr=(rr+long(rows))%long(rows);} if(cc<0||cc>=long(cols)){ if(!lh)continue; cc=(cc+long(cols))%long(cols);} exp.push_back(size_t(rr)*cols+size_t(cc)); expd.push_back(std::sqrt((dr?dy*dy:0)+(dc?dx*dx:0))); }
    size_t idx=r*cols+c;
    auto ni=g.neighbors_indices(idx); auto nd=g.neighbors_distances(idx); auto nb=g.neighbors(idx); auto nrc=g.neighbors_indices(r,c); auto nbr=g.neighbors(r,c);
    if(g.neighbors_count(idx)!=exp.size()||ni.size()!=exp.size()||nd.size()!=exp.size()||nb.size()!=exp.size()||nrc.size()!=exp.size()||nbr.size()!=exp.size()){bad++; std::cout<<"count mismatch at "<<idx<<" got "<<g.neighbors_count(idx)<<" exp "<<exp.size()<<"\n"; continue;}
    for(size_t k=0;k<exp.size();k++){ if(ni(k)!=exp[k]||nb[k].idx!=exp[k]||nrc[k].first*cols+nrc[k].second!=exp[k]||nbr[k].flatten_idx!=exp[k]){bad++; std::cout<<"idx mismatch at "<<idx<<" k="<<k<<" got "<<ni(k)<<" exp "<<exp[k]<<"\n";}
      if(nd(k)!=expd[k]||nb[k].distance!=expd[k]||nbr[k].distance!=expd[k]){bad++; std::cout<<"dist mismatch\n";}
      if(nb[k].status!=g.nodes_status().flat(exp[k])){bad++; std::cout<<"status of neighbour mismatch\n";} }
  }
  return bad;
}
int main(){
  ns all[4]={ns::core,ns::fixed_value,ns::fixed_gradient,ns::looped}; long cnt=0,bad=0,thr=0;
  for(size_t rows=2;rows<=4;rows++)for(size_t cols=2;cols<=4;cols++)
   for(auto L:all)for(auto R:all)for(auto T:all)for(auto B:all){
     std::array<ns,4> b{L,R,T,B}; bool sym=((L==ns::looped)==(R==ns::looped))&&((T==ns::looped)==(B==ns::looped));
     try{ fs::raster_boundary_status bs(b); if(!sym){bad++; std::cout<<"asymmetric looped accepted\n";} } catch(std::invalid_argument&){ if(sym){bad++; std::cout<<"symmetric rejected\n";} thr++; continue; }
     for(double dx: {1.0,1.3}){ double dy=3.7;
      bad+=check<fs::raster_connect::rook,fs::neighbors_cache<4>>(rows,cols,dy,dx,b);
      bad+=check<fs::raster_connect::queen,fs::neighbors_cache<8>>(rows,cols,dy,dx,b);
      bad+=check<fs::raster_connect::bishop,fs::neighbors_cache<4>>(rows,cols,dy,dx,b);
      bad+=check<fs::raster_connect::queen,fs::neighbors_no_cache<8>>(rows,cols,dy,dx,b);
      bad+=check<fs::raster_connect::rook,fs::neighbors_no_cache<4>>(rows,cols,dy,dx,b); cnt+=5; }
   }
  std::cout<<"grids "<<cnt<<" rejected "<<thr<<" bad "<<bad<<"\n";
}
