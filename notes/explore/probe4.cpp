#include <iostream>
#include "xtensor/xio.hpp"
#include "xtensor/xrandom.hpp"
#include "fastscapelib/grid/trimesh.hpp"
#include "fastscapelib/grid/raster_grid.hpp"
#include "fastscapelib/flow/flow_graph.hpp"
#include "fastscapelib/flow/flow_router.hpp"
namespace fs = fastscapelib;
int main(){
  // regular triangulated 30x30 lattice
  const size_t n=300;
  xt::xtensor<double,2> pts({n*n,2});
  for(size_t r=0;r<n;r++)for(size_t c=0;c<n;c++){pts(r*n+c,0)=c; pts(r*n+c,1)=r;}
  xt::xtensor<size_t,2> tri({2*(n-1)*(n-1),3});
  size_t t=0; for(size_t r=0;r+1<n;r++)for(size_t c=0;c+1<n;c++){ size_t a=r*n+c,b=a+1,d=a+n,e=d+1; tri(t,0)=a;tri(t,1)=b;tri(t,2)=d;t++; tri(t,0)=b;tri(t,1)=e;tri(t,2)=d;t++; }
  fs::trimesh mesh(pts,tri);
  xt::random::seed(1);
  xt::xarray<double> z = xt::random::rand<double>({n*n});
  fs::flow_graph<fs::trimesh> gs(mesh,{fs::single_flow_router()});
  gs.update_routes(z);
  int bad=0;
  for(int rep=0;rep<20;rep++){
    fs::flow_graph<fs::trimesh> gp(mesh,{fs::single_flow_router(8)});
    gp.update_routes(z);
    if (gp.impl().receivers()!=gs.impl().receivers()) bad++;
  }
  std::cout<<"C10 trimesh parallel mismatches: "<<bad<<"/20\n";
}
