#include <iostream>
#include <iomanip>
#include <cmath>
#include "xtensor/xio.hpp"
#include "xtensor/xrandom.hpp"
#include "fastscapelib/grid/raster_grid.hpp"
#include "fastscapelib/grid/profile_grid.hpp"
#include "fastscapelib/flow/flow_graph.hpp"
#include "fastscapelib/flow/flow_router.hpp"
#include "fastscapelib/flow/sink_resolver.hpp"
#include "fastscapelib/flow/flow_snapshot.hpp"
#include "fastscapelib/eroders/spl.hpp"
namespace fs = fastscapelib;
int main(){
  using grid_t = fs::raster_grid<>;
  grid_t grid({5,5},{1.0,1.0}, fs::node_status::fixed_value);
  {
    // C01: zero plateau
    fs::flow_graph<grid_t> g(grid, {fs::pflood_sink_resolver(), fs::single_flow_router()});
    xt::xarray<double> z = xt::zeros<double>({5,5});
    auto& f = g.update_routes(z);
    int pits=0; for(size_t i=0;i<25;i++){ auto r=g.impl().receivers()(i,0); bool bl=false; for(auto b: g.base_levels()) if(b==i) bl=true; if(r==i && !bl) pits++; }
    std::cout<<"C01 zero plateau pits="<<pits<<" filled(2,2)="<<std::setprecision(17)<<f(2,2)<<"\n";
    fs::flow_graph<grid_t> g2(grid, {fs::pflood_sink_resolver(), fs::multi_flow_router(1.1)});
    auto& f2 = g2.update_routes(z);
    int nan=0; for(size_t i=0;i<25;i++) for(size_t k=0;k<g2.impl().receivers_count()(i);k++) if(std::isnan(g2.impl().receivers_weight()(i,k))) nan++;
    std::cout<<"C05 NaN weights="<<nan<<"\n";
  }
  {
    // C04 subnormal drop
    fs::flow_graph<grid_t> g(grid, {fs::single_flow_router()});
    xt::xarray<double> z = xt::ones<double>({5,5})*1e-310;
    z(2,2)=2e-310; 
    g.update_routes(z);
    std::cout<<"C04 receiver of 12 = "<<g.impl().receivers()(12,0)<<" (12 means pit though neighbours lower)\n";
  }
  {
    // C13: n<1
    using pg = fs::profile_grid<>;
    pg p(6, 1.0, {fs::node_status::fixed_value, fs::node_status::core});
    fs::flow_graph<pg> g(p, {fs::single_flow_router()});
    xt::xarray<double> z = {0.,1.,2.,3.,4.,5.};
    g.update_routes(z);
    auto a = g.accumulate(1.0);
    auto e1 = fs::make_spl_eroder(g, 0.1, 0.5, 1.0, 1e-6);
    auto r1 = e1.erode(z,a,1.0);
    auto e2 = fs::make_spl_eroder(g, 0.1, 0.5, 0.5, 1e-6);
    auto r2 = e2.erode(z,a,1.0);
    std::cout<<"C13 n=1: "<<r1<<"\n    n=0.5: "<<r2<<"\n";
  }
  {
    // C16 snapshot
    fs::flow_graph<grid_t> g(grid, {fs::single_flow_router(), fs::flow_snapshot("s"), fs::mst_sink_resolver()});
    xt::xarray<double> z = xt::random::rand<double>({5,5});
    g.update_routes(z);
    auto& s = g.graph_snapshot("s");
    std::cout<<"C16 snapshot bfs_indices(0)="<<s.impl().bfs_indices()(0)<<" donors row0: "<<xt::row(s.impl().donors(),0)<<" count "<<s.impl().donors_count()(0)<<"\n";
  }
  return 0;
}
