// exploratory: C20 sequences, C16 snapshots vs prefix graphs, C09 histories, C10 parallel router (patched headers)
#include <iostream>
#include <random>
#include <variant>
#include <cstring>
#include "xtensor/xio.hpp"
#include "fastscapelib/grid/raster_grid.hpp"
#include "fastscapelib/grid/profile_grid.hpp"
#include "fastscapelib/flow/flow_graph.hpp"
#include "fastscapelib/flow/flow_router.hpp"
#include "fastscapelib/flow/sink_resolver.hpp"
#include "fastscapelib/flow/flow_snapshot.hpp"
namespace fs = fastscapelib;
using OpV = std::variant<std::shared_ptr<fs::single_flow_router>, std::shared_ptr<fs::multi_flow_router>, std::shared_ptr<fs::pflood_sink_resolver>, std::shared_ptr<fs::mst_sink_resolver>, std::shared_ptr<fs::flow_snapshot>>;
namespace fastscapelib {
  template <class FG, class OPs> flow_operator_sequence<FG> make_flow_operator_sequence(OPs&& ops){ flow_operator_sequence<FG> seq; for (auto& op : ops) std::visit([&](auto& p){ seq.add_operator(p); }, op); return seq; }
}
std::mt19937_64 rng; int irand(int a,int b){ return a + int(rng()%uint64_t(b-a+1)); }
using G = fs::raster_grid<>; using FG = fs::flow_graph<G>; using impl_t = FG::impl_type;
// kinds: 0 single,1 single par,2 multi,3 pflood,4 mst,5 gsnap,6 esnap
OpV mk(int k,int pos){ switch(k){ case 0: return std::make_shared<fs::single_flow_router>(); case 1: return std::make_shared<fs::single_flow_router>(3); case 2: return std::make_shared<fs::multi_flow_router>(1.5); case 3: return std::make_shared<fs::pflood_sink_resolver>(); case 4: return std::make_shared<fs::mst_sink_resolver>(irand(0,1)?fs::mst_method::kruskal:fs::mst_method::boruvka, irand(0,1)?fs::mst_route_method::basic:fs::mst_route_method::carve); case 5: return std::make_shared<fs::flow_snapshot>("s"+std::to_string(pos),true,false); default: return std::make_shared<fs::flow_snapshot>("s"+std::to_string(pos),false,true);} }
enum Dir{U,S,M};
bool spec_accepts(const std::vector<int>& ks, Dir& out, bool& allsingle, bool& elevupd){ Dir d=U; bool gu=false; allsingle=true; elevupd=false; for(int k:ks){ if(k==5 && d==U) return false; if(k==4 && d!=S) return false; if(k==0||k==1){gu=true;d=S;} if(k==2){gu=true;d=M;allsingle=false;} if(k==4){gu=true;d=S;elevupd=true;} if(k==3) elevupd=true; } out=d; return gu && d!=U; }
template<class A,class B> bool same(const A&a,const B&b){ if(a.size()!=b.size()) return false; return std::memcmp(a.data(),b.data(),a.size()*sizeof(typename A::value_type))==0; }
std::string cmp_impl(const impl_t& a,const impl_t& b,bool cols0only){ size_t n=a.size();
  if(!same(a.receivers_count(),b.receivers_count())) return "rcount"; if(!same(a.dfs_indices(),b.dfs_indices())) return "dfs"; if(!same(a.bfs_indices(),b.bfs_indices())) return "bfs";
  if(a.bfs_levels().size()!=b.bfs_levels().size()||!same(a.bfs_levels(),b.bfs_levels())) return "levels"; if(!same(a.donors_count(),b.donors_count())) return "dcount";
  for(size_t i=0;i<n;i++){ for(size_t k=0;k<a.receivers_count()(i);k++){ if(a.receivers()(i,k)!=b.receivers()(i,k)) return "recv"; if(a.receivers_distance()(i,k)!=b.receivers_distance()(i,k)) return "rdist"; double wa=a.receivers_weight()(i,k), wb=b.receivers_weight()(i,k); if(std::memcmp(&wa,&wb,8)) return "rweight"; } for(size_t k=0;k<a.donors_count()(i);k++) if(a.donors()(i,k)!=b.donors()(i,k)) return "donors"; }
  (void)cols0only; return ""; }
int main(int argc,char**argv){ uint64_t s0=argc>1?std::stoull(argv[1]):1; int fails=0; long nseq=0,nacc=0;
  G grid({5,6},{1.0,2.0},fs::node_status::fixed_value); size_t n=grid.size();
  rng.seed(s0); xt::xarray<double> z=xt::zeros<double>({5,6}); for(size_t i=0;i<n;i++) z.flat(i)=irand(0,4); xt::xarray<double> z2=z; for(size_t i=0;i<n;i++) z2.flat(i)=irand(0,9)*0.5;
  // ---- C20 + C16: all sequences up to length 4
  for(int len=1;len<=4;len++){ int tot=1; for(int i=0;i<len;i++) tot*=7; for(int code=0;code<tot;code++){ std::vector<int> ks; int c=code; for(int i=0;i<len;i++){ks.push_back(c%7); c/=7;} nseq++;
    Dir d; bool alls,eu; bool acc=spec_accepts(ks,d,alls,eu); std::vector<OpV> ops; for(int i=0;i<len;i++) ops.push_back(mk(ks[size_t(i)],i));
    bool ok=true; std::unique_ptr<FG> g; try{ g=std::make_unique<FG>(grid, fs::make_flow_operator_sequence<impl_t>(ops)); }catch(std::invalid_argument&){ ok=false; }
    if(ok!=acc){ std::cout<<"FAIL C20 accept mismatch code "<<code<<" len "<<len<<" got "<<ok<<" spec "<<acc<<"\n"; fails++; continue; }
    if(!ok) continue; nacc++;
    if(g->single_flow()!=(d==S)) { std::cout<<"FAIL C20 single_flow\n"; fails++; }
    if((g->impl().receivers().shape()[1]==1)!=alls){ std::cout<<"FAIL C20 receivers width\n"; fails++; }
    const auto& f=g->update_routes(z); if((&f==&z)==eu){ std::cout<<"FAIL C20 same-array\n"; fails++; }
    // C16: each snapshot equals prefix graph
    for(int p=0;p<len;p++){ if(ks[size_t(p)]!=5&&ks[size_t(p)]!=6) continue; std::vector<OpV> pre; for(int i=0;i<p;i++){ int k=ks[size_t(i)]; if(k==5||k==6) continue; pre.push_back(ops[size_t(i)]); } std::string name="s"+std::to_string(p);
      if(ks[size_t(p)]==5){ FG pg(grid, fs::make_flow_operator_sequence<impl_t>(pre)); pg.update_routes(z); auto& sg=g->graph_snapshot(name); auto e=cmp_impl(sg.impl(),pg.impl(),false); if(!e.empty()){ std::cout<<"FAIL C16 snapshot field "<<e<<" code "<<code<<" len "<<len<<" pos "<<p<<"\n"; fails++; }
          else { auto a1=sg.accumulate(1.0), a2=pg.accumulate(1.0); if(!same(a1,a2)){std::cout<<"FAIL C16 acc\n";fails++;} if(sg.single_flow()){ auto b1=sg.basins(), b2=pg.basins(); if(!same(b1,b2)){std::cout<<"FAIL C16 basins\n";fails++;} if(sg.impl_ptr()->pits()!=pg.impl_ptr()->pits()){std::cout<<"FAIL C16 pits\n";fails++;} } }
          bool thrown=false; try{ sg.update_routes(z);}catch(std::runtime_error&){thrown=true;} if(!thrown){std::cout<<"FAIL C16 snapshot writeable\n";fails++;} }
      else { bool anyg=false; for(auto&o:pre) if(!std::holds_alternative<std::shared_ptr<fs::pflood_sink_resolver>>(o)) anyg=true; xt::xarray<double> exp=z; if(!pre.empty()){ bool hasdir=false; for(int i=0;i<p;i++){int k=ks[size_t(i)]; if(k==0||k==1||k==2) hasdir=true;} if(hasdir){ FG pg(grid, fs::make_flow_operator_sequence<impl_t>(pre)); exp=pg.update_routes(z);} else { // prefix only pflood(s): emulate with pflood+single
             std::vector<OpV> pre2=pre; pre2.push_back(mk(0,99)); FG pg(grid, fs::make_flow_operator_sequence<impl_t>(pre2)); exp=pg.update_routes(z);} }
          if(!same(g->elevation_snapshot(name),exp)){ std::cout<<"FAIL C16 elevation snapshot code "<<code<<" len "<<len<<" pos "<<p<<"\n"; fails++; } (void)anyg; }
    }
    // C09: history independence: second update with z2 then z again equals first
    { FG fresh(grid, fs::make_flow_operator_sequence<impl_t>(ops)); fresh.update_routes(z); g->update_routes(z2); std::vector<size_t> bl={7,8}; auto old=g->base_levels(); g->set_base_levels(bl); g->update_routes(z2); std::sort(old.begin(),old.end()); g->set_base_levels(old); const auto& f3=g->update_routes(z); const auto& f0=fresh.update_routes(z); if(!same(f3,f0)){ std::cout<<"FAIL C09 elevation differs code "<<code<<" len "<<len<<"\n"; fails++; } else { auto e=cmp_impl(g->impl(),fresh.impl(),false); if(!e.empty()){ std::cout<<"FAIL C09 field "<<e<<" code "<<code<<" len "<<len<<"\n"; fails++; } } }
  } }
  std::cout<<"sequences "<<nseq<<" accepted "<<nacc<<" fails "<<fails<<"\n";
}
